package dtls

//symgo:pkg github.com/pion/dtls/v3
//symgo:outside option validation (each With* option's own checks), the cipher-suite and signature-scheme parsers (zzSuiteParse, zzSigSchemePick), the version range (zzVersionPick / version_conn.go)

import (
	"crypto/tls"

	dtlsconfig "github.com/pion/dtls/v3/internal/config"
	"github.com/pion/dtls/v3/pkg/crypto/elliptic"
	dtlshash "github.com/pion/dtls/v3/pkg/crypto/hash"
	"github.com/pion/dtls/v3/pkg/crypto/signature"
	"github.com/pion/dtls/v3/pkg/crypto/signaturehash"
)

// From the application's configuration to the policy the negotiation code reads. For an ARBITRARY extended
// master secret policy, 0..2 arbitrary SRTP profiles with an arbitrary 0..2 byte MKI, 0..2 ALPN names, 0..2
// curves out of {P-384, X25519, P-256} in any order, an arbitrary PSK identity hint, with and without a PSK callback / connection-ID generator /
// session store: newConnConfigValues + newHandshakeConfig hand the flight handlers exactly the configured EMS
// policy, SRTP profile list (same order) and MKI, ALPN list (same order), identity hint, the configured curve list
// (same order) or the library default [X25519MLKEM768, X25519, P-256, P-384] when none is configured, the application's
// connection-ID generator and PSK callback (identity of the functions: calling the wired one calls the
// application's), HasSessionStore exactly when a store is configured, and the version range of
// effectiveProtocolVersionRange. Every entry of C11 that starts from a HandshakeConfig therefore starts from the
// application's policy.
//
//symgo:entry covers=wired_with_curves,wired_default_curves,wired_psk,wired_cid
func zzCfgPolicyWiring() {
	cfg := &dtlsConfig{}
	cfg.ExtendedMasterSecret = ExtendedMasterSecretType(zzsymChoice("ems_policy", 3))
	for i, n := 0, zzsymChoice("nsrtp", 3); i < n; i++ {
		cfg.SRTPProtectionProfiles = append(cfg.SRTPProtectionProfiles, SRTPProtectionProfile(zzsymU16("srtp_profile")))
	}
	cfg.SRTPMasterKeyIdentifier = zzsymBytes("mki", zzsymChoice("nmki", 3))
	for i, n := 0, zzsymChoice("nalpn", 3); i < n; i++ {
		cfg.SupportedProtocols = append(cfg.SupportedProtocols, zzsymString("alpn", 1))
	}
	curveMenu := []elliptic.Curve{elliptic.P384, elliptic.X25519, elliptic.P256}
	for i, n := 0, zzsymChoice("ncurves", 3); i < n; i++ {
		cfg.EllipticCurves = append(cfg.EllipticCurves, curveMenu[zzsymChoice("curve", 3)])
	}
	cfg.PSKIdentityHint = zzsymBytes("hint", zzsymChoice("nhint", 3))
	pskCalls, cidCalls := 0, 0
	extras := zzsymChoice("psk_cid_store", 2) == 1 // the three optional hooks are configured together or not at all
	withPSK := extras
	if withPSK {
		cfg.psk = func([]byte) ([]byte, error) { pskCalls++; return nil, nil }
		cfg.CipherSuites = []CipherSuiteID{TLS_PSK_WITH_AES_128_GCM_SHA256} // the default suite list has no PSK suite
	}
	withCID := extras
	if withCID {
		cfg.ConnectionIDGenerator = func() []byte { cidCalls++; return nil }
	}
	withStore := extras
	if withStore {
		cfg.sessionStore = zzNoStore{}
	}
	values, err := newConnConfigValues(cfg)
	zzsymAssert(err == nil, "wiring_config_values_ok")
	hc := newHandshakeConfig(cfg, values, nil)

	zzsymAssert(hc.ExtendedMasterSecret == dtlsconfig.ExtendedMasterSecretType(cfg.ExtendedMasterSecret), "wiring_ems_policy")
	zzsymAssert(len(hc.LocalSRTPProtectionProfiles) == len(cfg.SRTPProtectionProfiles), "wiring_srtp_profile_count")
	for i := range cfg.SRTPProtectionProfiles {
		zzsymAssert(hc.LocalSRTPProtectionProfiles[i] == cfg.SRTPProtectionProfiles[i], "wiring_srtp_profiles_in_order")
	}
	zzsymAssert(len(hc.LocalSRTPMasterKeyIdentifier) == len(cfg.SRTPMasterKeyIdentifier) &&
		zzsymEqBytes(hc.LocalSRTPMasterKeyIdentifier, cfg.SRTPMasterKeyIdentifier), "wiring_srtp_mki")
	zzsymAssert(len(hc.SupportedProtocols) == len(cfg.SupportedProtocols), "wiring_alpn_count")
	for i := range cfg.SupportedProtocols {
		zzsymAssert(zzsymEqStr(hc.SupportedProtocols[i], cfg.SupportedProtocols[i]), "wiring_alpn_in_order")
	}
	zzsymAssert(len(hc.LocalPSKIdentityHint) == len(cfg.PSKIdentityHint) && zzsymEqBytes(hc.LocalPSKIdentityHint, cfg.PSKIdentityHint), "wiring_psk_identity_hint")
	if len(cfg.EllipticCurves) > 0 {
		zzsymAssert(len(hc.EllipticCurves) == len(cfg.EllipticCurves), "wiring_curve_count")
		for i := range cfg.EllipticCurves {
			zzsymAssert(hc.EllipticCurves[i] == cfg.EllipticCurves[i], "wiring_curves_in_order")
		}
		zzsymCover("wired_with_curves")
	} else {
		zzsymAssert(len(hc.EllipticCurves) == 4 && hc.EllipticCurves[0] == elliptic.X25519MLKEM768 && hc.EllipticCurves[1] == elliptic.X25519 &&
			hc.EllipticCurves[2] == elliptic.P256 && hc.EllipticCurves[3] == elliptic.P384, "wiring_default_curves")
		zzsymCover("wired_default_curves")
	}
	zzsymAssert((hc.LocalPSKCallback != nil) == withPSK, "wiring_psk_callback_iff_configured")
	if withPSK {
		_, _ = hc.LocalPSKCallback(nil)
		zzsymAssert(pskCalls == 1, "wiring_psk_callback_is_the_applications")
		zzsymCover("wired_psk")
	}
	zzsymAssert((hc.ConnectionIDGenerator != nil) == withCID, "wiring_cid_generator_iff_configured")
	if withCID {
		_ = hc.ConnectionIDGenerator()
		zzsymAssert(cidCalls == 1, "wiring_cid_generator_is_the_applications")
		zzsymCover("wired_cid")
	}
	zzsymAssert(hc.HasSessionStore == withStore, "wiring_session_store_flag")
	zzsymAssert(hc.MinVersion == values.minVersion && hc.MaxVersion == values.maxVersion, "wiring_version_range")
	zzsymAssert(hc.InitialEpoch == 0, "wiring_initial_epoch")
}

type zzNoStore struct{}

func (zzNoStore) Set([]byte, Session) error     { return nil }
func (zzNoStore) Get([]byte) (Session, error) { return Session{}, nil }
func (zzNoStore) Del([]byte) error              { return nil }

// Signature-scheme policy wiring. The application lists ecdsa_sha1 (0x0203, an insecure hash) and
// ecdsa_secp256r1_sha256 (0x0403) as its signature schemes and, optionally, the same two as its certificate
// signature schemes; InsecureHashes, InsecureSkipVerify and InsecureSkipVerifyHello are set in every combination.
// Proved: the SHA-1 scheme is part of the endpoint's effective handshake-signature policy (LocalSignatureSchemes)
// and certificate-signature policy (LocalCertSignatureSchemes) exactly when the application set InsecureHashes -
// no other "insecure" switch widens the policy - and the SHA-256 scheme always is; without a certificate-scheme
// list the certificate policy stays empty (the fallback to the handshake list is taken where it is used:
// certscheme13.go, sigflight.go).
//
//symgo:entry covers=sha1_kept_with_insecure_hashes,sha1_dropped_without
func zzCfgSignatureSchemeWiring() {
	cfg := &dtlsConfig{}
	cfg.SignatureSchemes = []tls.SignatureScheme{tls.ECDSAWithSHA1, tls.ECDSAWithP256AndSHA256}
	withCertList := zzsymChoice("cert_scheme_list", 2) == 1
	if withCertList {
		cfg.CertificateSignatureSchemes = []tls.SignatureScheme{tls.ECDSAWithSHA1, tls.ECDSAWithP256AndSHA256}
	}
	cfg.InsecureHashes = zzsymChoice("insecure_hashes", 2) == 1
	cfg.InsecureSkipVerify = zzsymChoice("insecure_skip_verify", 2) == 1
	cfg.InsecureSkipVerifyHello = zzsymChoice("insecure_skip_verify_hello", 2) == 1
	values, err := newConnConfigValues(cfg)
	zzsymAssert(err == nil, "wiring_config_values_ok")
	hc := newHandshakeConfig(cfg, values, nil)
	has := func(list []signaturehash.Algorithm, h dtlshash.Algorithm) bool {
		for _, a := range list {
			if a.Hash == h && a.Signature == signature.ECDSA {
				return true
			}
		}
		return false
	}
	zzsymAssert(has(hc.LocalSignatureSchemes, dtlshash.SHA256), "wiring_secure_scheme_kept")
	zzsymAssert(has(hc.LocalSignatureSchemes, dtlshash.SHA1) == cfg.InsecureHashes, "wiring_insecure_hash_only_with_insecure_hashes_option")
	if withCertList {
		zzsymAssert(has(hc.LocalCertSignatureSchemes, dtlshash.SHA256), "wiring_secure_cert_scheme_kept")
		zzsymAssert(has(hc.LocalCertSignatureSchemes, dtlshash.SHA1) == cfg.InsecureHashes, "wiring_insecure_cert_hash_only_with_insecure_hashes_option")
	} else {
		zzsymAssert(len(hc.LocalCertSignatureSchemes) == 0, "wiring_no_cert_scheme_list_stays_empty")
	}
	if cfg.InsecureHashes {
		zzsymCover("sha1_kept_with_insecure_hashes")
	} else {
		zzsymCover("sha1_dropped_without")
	}
}
