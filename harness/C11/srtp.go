package negotiation

//symgo:pkg github.com/pion/dtls/v3/internal/negotiation
//symgo:param NPROF quick=3 thorough=4
//symgo:param NMKI quick=2 thorough=3
//symgo:outside SRTP profile lists longer than NPROF entries, master key identifiers longer than NMKI bytes
//symgo:assume zzSRTPClientValidates: the client's configured SRTP profile codes are non-zero (0x0000 is unassigned in the IANA registry and is pion/dtls' "no profile" value)
//symgo:assume the ClientHello snapshot is built directly from its extension list (type + payload bytes written by the harness from RFC 5764 4.1.1); the ClientHello body bytes are irrelevant to the SRTP functions

import (
	"errors"

	"github.com/pion/dtls/v3/pkg/protocol/alert"
	"github.com/pion/dtls/v3/pkg/protocol/extension"
)

// zzUseSRTPData writes the use_srtp extension_data exactly as RFC 5764 section 4.1.1 lays it out:
// SRTPProtectionProfiles<2..2^16-1> (uint16 byte length + 2 bytes per profile), opaque srtp_mki<0..255>.
func zzUseSRTPData(profiles []extension.SRTPProtectionProfile, mki []byte) []byte {
	out := []byte{byte((2 * len(profiles)) >> 8), byte(2 * len(profiles))}
	for _, p := range profiles {
		out = append(out, byte(uint16(p)>>8), byte(uint16(p)))
	}
	out = append(out, byte(len(mki)))

	return append(out, mki...)
}

func zzSymProfiles(name string, n int) []extension.SRTPProtectionProfile {
	out := make([]extension.SRTPProtectionProfile, 0, n)
	for i := 0; i < n; i++ {
		out = append(out, extension.SRTPProtectionProfile(zzsymU16(name)))
	}

	return out
}

func zzProfileIn(list []extension.SRTPProtectionProfile, p extension.SRTPProtectionProfile) bool {
	in := false
	for _, x := range list {
		in = zzsymOr(in, x == p)
	}

	return in
}

// zzOfferSnapshot is the ClientHello an honest client with this SRTP configuration sends: use_srtp is present
// iff the client has at least one profile (flight1/flight3Generate).
func zzOfferSnapshot(profiles []extension.SRTPProtectionProfile, mki []byte) ClientHelloSnapshot {
	snap := ClientHelloSnapshot{body: []byte{0}}
	if len(profiles) > 0 {
		snap.extensions = []extension.Raw{{Type: extension.TypeUseSRTP, Data: zzUseSRTPData(profiles, mki)}}
	}

	return snap
}

func zzHasAlert(err error) bool {
	var a *alert.Alert

	return errors.As(err, &a) && a != nil && a.Level == alert.Fatal
}

// SRTP profile negotiation between two honest endpoints: the client offers its configured list (0..NPROF
// arbitrary 16-bit profile codes, MKI of 0..NMKI arbitrary bytes), the server runs NegotiateSRTP with its own
// list (0..NPROF arbitrary codes) and accepted MKI, the client runs ValidateSRTPSelection on the server's
// use_srtp answer. Proved: a negotiated profile is in the client's list AND in the server's list; the handshake
// continues WITHOUT SRTP only if the server configured no profile; every failure carries a fatal alert; the
// client accepts the honest server's selection and ends up with the same profile.
//
//symgo:entry covers=mki_selected,negotiated,no_srtp,server_fails_no_common,server_fails_not_offered,client_agrees
func zzSRTPPick() {
	n := zzsymParam("NPROF")
	client := zzSymProfiles("client_profile", zzsymChoice("nclient", n+1))
	server := zzSymProfiles("server_profile", zzsymChoice("nserver", n+1))
	clientMKI := zzsymBytes("client_mki", zzsymChoice("nclientmki", zzsymParam("NMKI")+1))
	serverMKI := zzsymBytes("server_mki", zzsymChoice("nservermki", zzsymParam("NMKI")+1))
	snap := zzOfferSnapshot(client, clientMKI)

	decision, err := NegotiateSRTP(snap, server, serverMKI)
	if err != nil {
		zzsymAssert(zzHasAlert(err), "server_failure_carries_alert")
		zzsymAssert(decision.ProtectionProfile == 0, "server_failure_selects_nothing")
		if len(client) == 0 {
			zzsymCover("server_fails_not_offered")
		} else {
			zzsymCover("server_fails_no_common")
		}

		return
	}
	if decision.ProtectionProfile == 0 {
		zzsymAssert(len(server) == 0, "no_srtp_only_if_server_has_no_profiles")
		zzsymCover("no_srtp")

		return
	}
	zzsymAssert(zzProfileIn(client, decision.ProtectionProfile), "profile_from_client_list")
	zzsymAssert(zzProfileIn(server, decision.ProtectionProfile), "profile_from_server_list")
	zzsymCover("negotiated")
	// the master key identifier (RFC 5764 4.1.3) is a negotiated parameter too: the server selects one only if it
	// is the value the client offered AND the value the server itself is configured with
	if len(decision.MasterKeyIdentifier) > 0 {
		zzsymAssert(zzsymEqBytes(decision.MasterKeyIdentifier, clientMKI), "selected_mki_is_the_clients_offer")
		zzsymAssert(zzsymEqBytes(decision.MasterKeyIdentifier, serverMKI), "selected_mki_is_configured_on_the_server")
		zzsymCover("mki_selected")
	}

	// the server's answer as flight4Generate builds it (appendSRTPSelection)
	answer := []extension.Value{&extension.SRTPSelection{
		ProtectionProfile:   decision.ProtectionProfile,
		MasterKeyIdentifier: decision.MasterKeyIdentifier,
	}}
	got, cerr := ValidateSRTPSelection(snap, answer, client)
	zzsymAssert(cerr == nil, "client_accepts_honest_selection")
	zzsymAssert(got.ProtectionProfile == decision.ProtectionProfile, "both_sides_same_profile")
	zzsymCover("client_agrees")
}

// Client-side enforcement for an ARBITRARY server answer: any offered list and any local list (0..NPROF
// arbitrary codes each), use_srtp answered or not, arbitrary selected profile code and MKI. Proved: if
// ValidateSRTPSelection accepts and reports a profile, that profile was in the client's offer and is in the
// client's local list; it reports "no SRTP" only when the client configured no profile; every rejection
// carries a fatal alert.
//
//symgo:entry covers=accepted,accepted_no_srtp,rejected_foreign_profile,rejected_missing_answer
func zzSRTPClientValidates() {
	n := zzsymParam("NPROF")
	offered := zzSymProfiles("offered_profile", zzsymChoice("noffered", n+1))
	local := zzSymProfiles("local_profile", zzsymChoice("nlocal", n+1))
	for _, p := range local {
		// 0x0000 is not an assigned SRTP protection profile; pion/dtls uses 0 for "no profile"
		zzsymAssume(p != 0)
	}
	offerMKI := zzsymBytes("offer_mki", zzsymChoice("noffermki", zzsymParam("NMKI")+1))
	snap := zzOfferSnapshot(offered, offerMKI)

	var answer []extension.Value
	answered := zzsymChoice("answered", 2) == 1
	if answered {
		answer = append(answer, &extension.SRTPSelection{
			ProtectionProfile:   extension.SRTPProtectionProfile(zzsymU16("selected")),
			MasterKeyIdentifier: zzsymBytes("answer_mki", zzsymChoice("nanswermki", zzsymParam("NMKI")+1)),
		})
	}
	got, err := ValidateSRTPSelection(snap, answer, local)
	if err != nil {
		zzsymAssert(zzHasAlert(err), "client_failure_carries_alert")
		if answered {
			zzsymCover("rejected_foreign_profile")
		} else {
			zzsymCover("rejected_missing_answer")
		}

		return
	}
	if got.ProtectionProfile == 0 {
		zzsymAssert(len(local) == 0, "no_srtp_only_if_client_has_no_profiles")
		zzsymCover("accepted_no_srtp")

		return
	}
	zzsymAssert(zzProfileIn(offered, got.ProtectionProfile), "accepted_profile_was_offered")
	zzsymAssert(zzProfileIn(local, got.ProtectionProfile), "accepted_profile_in_local_list")
	zzsymCover("accepted")
}
