package dtls

//symgo:pkg github.com/pion/dtls/v3
//symgo:replace github.com/pion/dtls/v3/internal/handshakecrypto.GenerateKeySignature zzFakeKeySignature
//symgo:stub handshakecrypto.GenerateKeySignature returns a constant (the signature value is irrelevant to which certificate and suite are chosen); private keys are harness fakes (only the dynamic public key type is inspected); certificates carry a pre-parsed Leaf with the DNS name
//symgo:stub the server side of Conn.HandshakeContext (certificate filter) and the flight12 handlers flight0Parse / flight4Generate are driven directly, in the order the connection runs them

import (
	"context"
	"crypto"
	"crypto/tls"
	"crypto/x509"

	"github.com/pion/dtls/v3/internal/ciphersuite"
	dtlsconfig "github.com/pion/dtls/v3/internal/config"
	dtlsflight "github.com/pion/dtls/v3/internal/flight"
	dtlsflight12 "github.com/pion/dtls/v3/internal/flight/flight12"
	dtlsstate "github.com/pion/dtls/v3/internal/state"
	"github.com/pion/dtls/v3/pkg/crypto/elliptic"
	"github.com/pion/dtls/v3/pkg/crypto/hash"
	"github.com/pion/dtls/v3/pkg/crypto/signature"
	"github.com/pion/dtls/v3/pkg/crypto/signaturehash"
	"github.com/pion/dtls/v3/pkg/protocol"
	"github.com/pion/dtls/v3/pkg/protocol/alert"
	"github.com/pion/dtls/v3/pkg/protocol/extension"
	extension12 "github.com/pion/dtls/v3/pkg/protocol/extension/dtls12"
	"github.com/pion/dtls/v3/pkg/protocol/handshake"
)

func zzFakeKeySignature(_, _, _ []byte, _ elliptic.Curve, _ crypto.Signer, _ hash.Algorithm, _ signature.Algorithm,
) ([]byte, error) {
	return []byte{0x51, 0x60}, nil
}

type zzQuietConn struct{}

func (zzQuietConn) HandleQueuedPackets(context.Context) error { return nil }
func (zzQuietConn) SessionKey() []byte                        { return nil }

// zzNamedCertificate: a certificate of the given key kind whose leaf is valid for dnsName; tag is the (fake) DER
// so that the served certificate can be recognised in the Certificate message.
func zzNamedCertificate(kind int, dnsName string, tag byte) tls.Certificate {
	cert := *zzCertificate(kind)
	cert.Certificate = [][]byte{{tag}}
	cert.Leaf = &x509.Certificate{DNSNames: []string{dnsName}}

	return cert
}

// The suite must fit the key of the certificate the server actually SERVES. A DTLS 1.2 server is configured
// with one or two certificates (key kinds ECDSA / RSA in every combination; the second one is valid for the
// DNS name "b.test"), the default suite list and the default signature schemes. The harness runs what the
// connection runs: Conn.HandshakeContext's filterCipherSuitesForCertificate(GetCertificate(empty hello)), then
// the real flight0Parse on a ClientHello that offers an ECDSA and an RSA suite (either order) with or without
// server_name "b.test", then the real flight4Generate. Asserted on the produced flight: the ServerHello suite
// was offered and enabled, and its key class (ECDHE_ECDSA / ECDHE_RSA) fits the key of the certificate in the
// Certificate message (the key the server authenticates with). On the tree this was written against the last
// claim FAILS (label suite_fits_key_of_served_certificate): the suite list is filtered with the DEFAULT
// certificate only, while flight4Generate serves the certificate selected by server_name; with an ECDSA default
// certificate and an RSA certificate for the requested name the server answers TLS_ECDHE_ECDSA_* and signs with
// the RSA key (confirmed with a real handshake over a pipe).
//
//symgo:entry covers=single_cert,default_cert_served,sni_cert_served,mismatch_refused
func zzSuiteFitsServedCertificate() {
	firstKind := zzCertECDSA
	if zzsymChoice("first_cert_rsa", 2) == 1 {
		firstKind = zzCertRSA
	}
	certs := []tls.Certificate{zzNamedCertificate(firstKind, "a.test", 0xa1)}
	two := zzsymChoice("two_certs", 2) == 1
	secondKind := zzCertECDSA
	if two {
		if zzsymChoice("second_cert_rsa", 2) == 1 {
			secondKind = zzCertRSA
		}
		certs = append(certs, zzNamedCertificate(secondKind, "b.test", 0xb2))
	}
	sni := zzsymChoice("client_sends_sni", 2) == 1
	offer := []uint16{0xc02b, 0xc02f} // TLS_ECDHE_ECDSA_WITH_AES_128_GCM_SHA256, TLS_ECDHE_RSA_WITH_AES_128_GCM_SHA256
	if zzsymChoice("client_prefers_rsa", 2) == 1 {
		offer = []uint16{0xc02f, 0xc02b}
	}

	// server configuration as newConnConfigValues / newHandshakeConfig build it
	suites, err := parseCipherSuitesForVersions(nil, nil, true, false, protocol.Version1_2, protocol.Version1_2)
	zzsymAssert(err == nil, "harness_default_suites")
	cfg := &dtlsconfig.HandshakeConfig{
		LocalCipherSuites:       suites,
		LocalSignatureSchemes:   signaturehash.Algorithms(),
		LocalCertificates:       certs,
		EllipticCurves:          []elliptic.Curve{elliptic.X25519},
		InsecureSkipHelloVerify: true,
		MinVersion:              protocol.Version1_2,
		MaxVersion:              protocol.Version1_2,
	}
	// Conn.HandshakeContext, server branch
	cert, cerr := cfg.GetCertificate(&dtlsconfig.ClientHelloInfo{})
	zzsymAssert(cerr == nil, "harness_default_certificate")
	cfg.LocalCipherSuites = filterCipherSuitesForCertificate(cert, cfg.LocalCipherSuites)
	cfg.LocalCipherSuites = filterCipherSuitesForVersion(cfg.LocalCipherSuites, protocol.Version1_2)
	enabled := configCipherSuiteIDs(cfg.LocalCipherSuites)

	// the client's hello
	exts := []extension.Value{
		&extension.SignatureAlgorithms{Schemes: dtlsflight.SignatureSchemeIDs(signaturehash.Algorithms())},
		&extension12.RenegotiationInfo{},
		&extension.SupportedGroups{Groups: []elliptic.Curve{elliptic.X25519}},
		&extension12.SupportedPointFormats{PointFormats: []elliptic.CurvePointFormat{elliptic.CurvePointFormatUncompressed}},
	}
	if sni {
		exts = append(exts, &extension.ServerNameOffer{ServerName: "b.test"})
	}
	hello := &handshake.Handshake{Message: &handshake.MessageClientHello{
		Version:            protocol.Version1_2,
		CipherSuiteIDs:     offer,
		CompressionMethods: dtlsflight.DefaultCompressionMethods(),
		Extensions:         exts,
	}}
	raw, merr := hello.Marshal()
	zzsymAssert(merr == nil, "harness_client_hello_marshals")
	cache := dtlsflight.NewCache()
	cache.Push(raw, 0, 0, handshake.TypeClientHello, true)
	state := &dtlsstate.State12{
		Common:       &dtlsstate.Common{LocalVersion: protocol.Version1_2},
		NamedCurve:   elliptic.X25519,
		LocalKeypair: &elliptic.Keypair{Curve: elliptic.X25519, PublicKey: []byte{9}},
	}

	next, a, perr, ok := dtlsflight12.Parse(context.Background(), dtlsflight12.Flight0, zzQuietConn{}, state, cache, cfg)
	zzsymAssert(ok, "harness_flight0")
	if perr != nil || a != nil {
		zzsymAssert(a != nil && a.Level == alert.Fatal, "no_suite_failure_carries_fatal_alert")
		zzsymCover("no_suite_for_key")

		return
	}
	zzsymAssert(next == dtlsflight12.Flight4, "server_goes_to_flight4")
	gen, _, ok := dtlsflight12.GetGenerator(dtlsflight12.Flight4)
	zzsymAssert(ok, "harness_flight4")
	pkts, a, gerr := gen(zzQuietConn{}, state, cache, cfg)
	if gerr != nil || a != nil {
		// refusing to serve (fatal alert) is within the property: the handshake fails instead of completing out of policy
		zzsymAssert(a != nil && a.Level == alert.Fatal, "served_certificate_mismatch_fails_with_fatal_alert")
		zzsymCover("mismatch_refused")

		return
	}

	var (
		serverHello *handshake.MessageServerHello
		certificate *handshake.MessageCertificate
		keyExchange *handshake.MessageServerKeyExchange
	)
	for _, pkt := range pkts {
		h, isHandshake := pkt.Record.Content.(*handshake.Handshake)
		if !isHandshake {
			continue
		}
		switch m := h.Message.(type) {
		case *handshake.MessageServerHello:
			serverHello = m
		case *handshake.MessageCertificate:
			certificate = m
		case *handshake.MessageServerKeyExchange:
			keyExchange = m
		}
	}
	zzsymAssert(serverHello != nil && certificate != nil && keyExchange != nil, "server_flight_complete")

	selected := *serverHello.CipherSuiteID
	info := zzSuiteLookup(selected)
	zzsymAssert(selected == offer[0] || selected == offer[1], "selected_suite_offered_by_client")
	isEnabled := false
	for _, id := range enabled {
		if id == selected {
			isEnabled = true
		}
	}
	zzsymAssert(isEnabled, "selected_suite_enabled_on_server")
	zzsymAssert(ciphersuite.ID(selected) == state.CipherSuite.ID(), "server_hello_names_state_suite")

	// which certificate went out?
	servedKind := firstKind
	switch certificate.Certificate[0][0] {
	case 0xa1:
		if two {
			zzsymCover("default_cert_served")
		} else {
			zzsymCover("single_cert")
		}
	case 0xb2:
		servedKind = secondKind
		zzsymCover("sni_cert_served")
	default:
		zzsymFail("harness_unknown_certificate")
	}
	// the property: the negotiated suite fits the server's key (the one it authenticates with)
	zzsymAssert(zzKeyFits(info, servedKind), "suite_fits_key_of_served_certificate")
}
