package config

//symgo:pkg github.com/pion/dtls/v3/internal/config
//symgo:outside hostile remote version lists (entries other than those SupportedVersionsRange emits) are not asserted on: SelectVersion compares only Minor, but such a value matches no cipher suite and the handshake fails downstream (DESIGN F11)
//symgo:outside fixed-version endpoints (MaxVersion 1.2 or MinVersion 1.3) skip SelectVersion and enter the flight12/flight13 handlers directly; their version checks (ClientHello.Version, supported_versions contains 1.3) are not part of this entry

import "github.com/pion/dtls/v3/pkg/protocol"

// zzLevel is the harness' own abstract ordering of DTLS versions: 3 for DTLS 1.3 ({0xfe,0xfc}),
// 2 for everything else (NormalizeProtocolVersionRange documents that any non-1.3 bound means 1.2).
// It is a non-forking symbolic integer.
func zzLevel(v protocol.Version) int {
	is13 := zzsymAnd(v.Major == 0xfe, v.Minor == 0xfc)

	return zzsymIteInt(is13, 3, 2)
}

func zzSymVersion(name string) protocol.Version {
	return protocol.Version{Major: zzsymU8(name + "_maj"), Minor: zzsymU8(name + "_min")}
}

// zzInRange: level l lies inside the policy range [lo,hi] (both inclusive).
func zzInRange(l, lo, hi int) bool {
	return zzsymAnd(lo <= l, l <= hi)
}

// Version negotiation between two honest endpoints, for ALL four configured bounds (client Min/Max,
// server Min/Max; every Major/Minor byte value, including inverted and unknown bounds): the client
// normalises its range and offers SupportedVersionsRange, the server normalises its range and runs
// SelectVersion on that offer, the client runs SelectVersion on the server's single answer. Proved
// against an abstract model (levels 2=DTLS1.2, 3=DTLS1.3): the offer is exactly the client's range,
// newest first; the server succeeds iff the two ranges intersect; the chosen version is inside BOTH
// ranges and is the HIGHEST common one; the client accepts exactly that version; with no common
// version the server selection fails (caller turns that into a protocol_version alert).
//
//symgo:entry covers=picked_13,picked_12,no_common,empty_offer,client_accepts
func zzVersionPick() {
	cMinRaw, cMaxRaw := zzSymVersion("cmin"), zzSymVersion("cmax")
	sMinRaw, sMaxRaw := zzSymVersion("smin"), zzSymVersion("smax")

	// abstract policy of each side, computed from the raw configuration by the harness
	cLo, cHi := zzLevel(cMinRaw), zzLevel(cMaxRaw)
	sLo, sHi := zzLevel(sMinRaw), zzLevel(sMaxRaw)

	cMin, cMax := NormalizeProtocolVersionRange(cMinRaw, cMaxRaw)
	sMin, sMax := NormalizeProtocolVersionRange(sMinRaw, sMaxRaw)
	// normalisation keeps the abstract policy and yields only the two real versions
	zzsymAssert(zzsymAnd(zzLevel(cMin) == cLo, zzLevel(cMax) == cHi), "normalize_keeps_policy")
	zzsymAssert(zzsymOr(cMin == protocol.Version1_2, cMin == protocol.Version1_3), "normalize_known_min")
	zzsymAssert(zzsymOr(cMax == protocol.Version1_2, cMax == protocol.Version1_3), "normalize_known_max")

	offer := SupportedVersionsRange(cMin, cMax)
	// the offer is exactly the client's range, newest first
	want13, want12 := zzInRange(3, cLo, cHi), zzInRange(2, cLo, cHi)
	nWant := zzsymIteInt(want13, 1, 0) + zzsymIteInt(want12, 1, 0)
	zzsymAssert(len(offer) == nWant, "offer_len_is_range_size")
	for i, v := range offer {
		zzsymAssert(zzInRange(zzLevel(v), cLo, cHi), "offer_inside_client_range")
		zzsymAssert(zzsymOr(v == protocol.Version1_2, v == protocol.Version1_3), "offer_known_version")
		if i > 0 {
			zzsymAssert(zzLevel(offer[i-1]) > zzLevel(v), "offer_newest_first")
		}
	}
	if len(offer) == 0 {
		zzsymCover("empty_offer")
	}

	chosen, ok := SelectVersion(offer, sMin, sMax)

	common13 := zzsymAnd(zzInRange(3, cLo, cHi), zzInRange(3, sLo, sHi))
	common12 := zzsymAnd(zzInRange(2, cLo, cHi), zzInRange(2, sLo, sHi))
	if !ok {
		zzsymAssert(zzsymNot(zzsymOr(common13, common12)), "fails_only_without_common_version")
		zzsymCover("no_common")

		return
	}
	zzsymAssert(zzsymOr(common13, common12), "success_needs_common_version")
	l := zzLevel(chosen)
	zzsymAssert(zzsymOr(chosen == protocol.Version1_2, chosen == protocol.Version1_3), "chosen_known_version")
	zzsymAssert(zzInRange(l, cLo, cHi), "chosen_inside_client_range")
	zzsymAssert(zzInRange(l, sLo, sHi), "chosen_inside_server_range")
	zzsymAssert(zzsymImplies(common13, l == 3), "chosen_is_highest_common")
	if l == 3 {
		zzsymCover("picked_13")
	} else {
		zzsymCover("picked_12")
	}

	// client side: the server's answer (supported_versions / ServerHello.Version) is a single version
	got, cok := SelectVersion([]protocol.Version{chosen}, cMin, cMax)
	zzsymAssert(cok, "client_accepts_server_choice")
	zzsymAssert(got == chosen, "client_agrees_on_version")
	zzsymCover("client_accepts")
}

// Client side of version negotiation against an honest server answer that is OUTSIDE the client's
// range cannot happen (previous entry); this entry checks the remaining client obligation: for every
// client range and every single known version (1.2 / 1.3) answered by the peer, SelectVersion accepts
// it iff it lies inside the client's range, so a version outside the local policy is never adopted.
//
//symgo:entry covers=accepted,rejected
func zzVersionClientAcceptsOnlyInRange() {
	cMinRaw, cMaxRaw := zzSymVersion("cmin"), zzSymVersion("cmax")
	cLo, cHi := zzLevel(cMinRaw), zzLevel(cMaxRaw)
	cMin, cMax := NormalizeProtocolVersionRange(cMinRaw, cMaxRaw)
	answer := protocol.Version1_2
	if zzsymChoice("answer", 2) == 1 {
		answer = protocol.Version1_3
	}
	got, ok := SelectVersion([]protocol.Version{answer}, cMin, cMax)
	if ok {
		zzsymAssert(zzInRange(zzLevel(answer), cLo, cHi), "accepted_only_inside_range")
		zzsymAssert(got == answer, "accepted_is_the_answer")
		zzsymCover("accepted")

		return
	}
	zzsymAssert(zzsymNot(zzInRange(zzLevel(answer), cLo, cHi)), "rejected_only_outside_range")
	zzsymCover("rejected")
}
