package flight12

//symgo:pkg github.com/pion/dtls/v3/internal/flight/flight12
//symgo:replace (*github.com/pion/dtls/v3/internal/state.State12).InitCipherSuite zzRecInitCipherSuite
//symgo:replace github.com/pion/dtls/v3/pkg/crypto/prf.VerifyDataServer zzFakeVerifyDataServer
//symgo:param NRPROTO quick=2 thorough=3
//symgo:stub prf.VerifyDataServer returns twelve zero bytes (the server Finished of the abbreviated flight is C04 / C14)
//symgo:stub State12.InitCipherSuite is a recorder (record keys are not derived): the claim is whether the abbreviated path is entered at all

import (
	dtlsconfig "github.com/pion/dtls/v3/internal/config"
	dtlsflight "github.com/pion/dtls/v3/internal/flight"
	"github.com/pion/dtls/v3/pkg/crypto/prf"
	dtlsstate "github.com/pion/dtls/v3/internal/state"
	"github.com/pion/dtls/v3/pkg/protocol"
	"github.com/pion/dtls/v3/pkg/protocol/alert"
	"github.com/pion/dtls/v3/pkg/protocol/extension"
	extension12 "github.com/pion/dtls/v3/pkg/protocol/extension/dtls12"
	"github.com/pion/dtls/v3/pkg/protocol/handshake"
)

var zzResumeInits int

func zzRecInitCipherSuite(_ *dtlsstate.State12) error {
	zzResumeInits++
	return nil
}

// Extended-master-secret policy on the ABBREVIATED handshake: a client whose policy is Request / Require / Disable
// has offered a stored session (state.SessionID and MasterSecret set as flight1Generate does) and receives a
// ServerHello that echoes that session id (so the resumption branch of flight3Parse is taken) with or without the
// extended_master_secret extension. Proved: under Require without the extension the client fails with a fatal
// insufficient_security alert and never initialises record keys from the stored secret; an unsolicited extension
// (policy Disable) is refused; otherwise the abbreviated path is entered.
//
//symgo:entry covers=resume_require_refuses,resume_entered,resume_unsolicited_refused
func zzEMSClientResume() {
	zzResumeInits = 0
	policy := zzsymChoice("client_policy", 3)
	echoed := zzsymChoice("server_echoes_ems", 2) == 1
	cfg := zzPSKConfig()
	cfg.ExtendedMasterSecret = zzPolicy(policy)
	cfg.HasSessionStore = true
	cfg.DelSession = func([]byte) error { return nil }
	cfg.GetSession = func([]byte) ([]byte, []byte, error) { return nil, nil, nil }
	cfg.SetSession = func(_, _, _ []byte) error { return nil }
	client := zzNewPeer(true, cfg)
	sink := zzNewPeer(false, zzPSKConfig())
	sent, a, err := zzGenerate(client, sink, Flight1)
	zzsymAssert(err == nil && a == nil && len(sent) == 1, "harness_client_hello_generated")
	// the offered session, as flight1Generate leaves it when the store knows the server
	sid := zzsymBytes("sid", 2)
	client.state.SessionID = sid
	client.state.MasterSecret = zzsymBytes("stored_secret", 2)

	suite := uint16(0x00a8)
	exts := []extension.Value{&extension12.RenegotiationInfo{}}
	if echoed {
		exts = append(exts, &extension12.ExtendedMasterSecret{})
	}
	serverHello := &handshake.Handshake{Message: &handshake.MessageServerHello{
		Version:           protocol.Version1_2,
		SessionID:         append([]byte{}, sid...),
		CipherSuiteID:     &suite,
		CompressionMethod: dtlsflight.DefaultCompressionMethods()[0],
		Extensions:        exts,
	}}
	raw, merr := serverHello.Marshal()
	zzsymAssert(merr == nil, "harness_server_hello_marshals")
	client.cache.Push(raw, 0, 0, handshake.TypeServerHello, false)

	next, a, perr := zzParse(client, Flight1)
	a = zzFatal(a, perr)
	if policy == 1 && !echoed {
		zzsymAssert(perr != nil && next == 0, "resume_require_without_ems_fails")
		zzsymAssert(a != nil && a.Level == alert.Fatal && a.Description == alert.InsufficientSecurity,
			"resume_require_without_ems_alerts_insufficient_security")
		zzsymAssert(zzResumeInits == 0, "resume_require_without_ems_initialises_no_keys")
		zzsymCover("resume_require_refuses")

		return
	}
	if policy == 2 && echoed {
		zzsymAssert(perr != nil && next == 0 && zzResumeInits == 0, "resume_refuses_unsolicited_ems")
		zzsymCover("resume_unsolicited_refused")

		return
	}
	zzsymAssert(perr == nil && a == nil, "resume_continues")
	zzsymAssert(zzResumeInits == 1, "resume_enters_abbreviated_path")
	zzsymCover("resume_entered")
}

func zzFakeVerifyDataServer(_, _ []byte, _ prf.HashFunc) ([]byte, error) { return make([]byte, 12), nil }

// ALPN on the ABBREVIATED handshake, server side: a client that offers a stored session (its store returns the
// session id) and 0..NRPROTO one-byte protocol names reaches a server whose store knows that session and which is
// configured with 0..NRPROTO arbitrary names (the lists may have changed since the session was created). The real
// flight1Generate, flight0Parse (-> Flight4b) and flight4bGenerate run. Proved: if both sides configured ALPN and
// no name is common, the server stops with a fatal no_application_protocol alert instead of completing the
// resumption without a protocol; otherwise the protocol it answers with and records is in the client's offer and
// in its own list, and "none" only when one side has no list.
//
//symgo:entry covers=resumed_alpn_selected,resumed_no_alpn,resumed_no_overlap_refused
func zzALPNServerResume() {
	zzResumeInits = 0
	sid := zzsymBytes("sid", 2)
	secret := zzsymBytes("stored_secret", 2)
	ccfg, scfg := zzPSKConfig(), zzPSKConfig()
	n := zzsymParam("NRPROTO")
	for i, k := 0, zzsymChoice("nclient", n+1); i < k; i++ {
		ccfg.SupportedProtocols = append(ccfg.SupportedProtocols, zzsymString("client_proto", 1))
	}
	for i, k := 0, zzsymChoice("nserver", n+1); i < k; i++ {
		scfg.SupportedProtocols = append(scfg.SupportedProtocols, zzsymString("server_proto", 1))
	}
	for _, cfg := range []*dtlsconfig.HandshakeConfig{ccfg, scfg} {
		cfg.HasSessionStore = true
		cfg.DelSession = func([]byte) error { return nil }
		cfg.SetSession = func(_, _, _ []byte) error { return nil }
		cfg.GetSession = func([]byte) ([]byte, []byte, error) {
			return append([]byte{}, sid...), append([]byte{}, secret...), nil
		}
	}
	client, server := zzNewPeer(true, ccfg), zzNewPeer(false, scfg)
	_, a0, err0 := zzGenerate(server, client, Flight0)
	zzsymAssert(a0 == nil && err0 == nil, "harness_server_starts")
	sent, a, err := zzGenerate(client, server, Flight1)
	zzsymAssert(err == nil && a == nil && len(sent) == 1, "harness_client_hello_generated")
	next, a, err := zzParse(server, Flight0)
	zzsymAssert(zzFatal(a, err) == nil && err == nil, "harness_server_accepts_hello")
	zzsymAssert(next == Flight4b, "server_resumes_known_session")

	common := false
	for _, p := range ccfg.SupportedProtocols {
		common = zzsymOr(common, zzNameListHas(scfg.SupportedProtocols, p))
	}
	answer, a, err := zzGenerate(server, client, Flight4b)
	if a = zzFatal(a, err); a != nil || err != nil {
		zzsymAssert(a != nil && a.Level == alert.Fatal && a.Description == alert.NoApplicationProtocol,
			"resumed_alpn_failure_alerts_no_application_protocol")
		zzsymAssert(zzsymNot(common), "resumed_alpn_failure_only_without_common_protocol")
		zzsymAssert(len(ccfg.SupportedProtocols) > 0 && len(scfg.SupportedProtocols) > 0, "resumed_alpn_failure_only_if_both_configured")
		zzsymCover("resumed_no_overlap_refused")

		return
	}
	sh, _ := answer[0].Message.(*handshake.MessageServerHello)
	zzsymAssert(sh != nil, "resumed_server_hello_first")
	sp := server.state.NegotiatedProtocol
	if sp == "" {
		zzsymAssert(len(ccfg.SupportedProtocols) == 0 || len(scfg.SupportedProtocols) == 0,
			"resumed_no_protocol_only_if_one_side_has_no_alpn")
		zzsymCover("resumed_no_alpn")

		return
	}
	zzsymAssert(zzNameListHas(ccfg.SupportedProtocols, sp), "resumed_protocol_from_client_list")
	zzsymAssert(zzNameListHas(scfg.SupportedProtocols, sp), "resumed_protocol_from_server_list")
	zzsymCover("resumed_alpn_selected")
}
