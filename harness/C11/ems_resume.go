package flight12

//symgo:pkg github.com/pion/dtls/v3/internal/flight/flight12
//symgo:replace (*github.com/pion/dtls/v3/internal/state.State12).InitCipherSuite zzRecInitCipherSuite
//symgo:stub State12.InitCipherSuite is a recorder (record keys are not derived): the claim is whether the abbreviated path is entered at all

import (
	dtlsflight "github.com/pion/dtls/v3/internal/flight"
	dtlsstate "github.com/pion/dtls/v3/internal/state"
	"github.com/pion/dtls/v3/pkg/protocol"
	"github.com/pion/dtls/v3/pkg/protocol/alert"
	"github.com/pion/dtls/v3/pkg/protocol/extension"
	extension12 "github.com/pion/dtls/v3/pkg/protocol/extension/dtls12"
	"github.com/pion/dtls/v3/pkg/protocol/handshake"
)

var zzResumeInits int

func zzRecInitCipherSuite(_ *dtlsstate.State12) error {
	zzResumeInits++
	return nil
}

// Extended-master-secret policy on the ABBREVIATED handshake: a client whose policy is Request / Require / Disable
// has offered a stored session (state.SessionID and MasterSecret set as flight1Generate does) and receives a
// ServerHello that echoes that session id (so the resumption branch of flight3Parse is taken) with or without the
// extended_master_secret extension. Proved: under Require without the extension the client fails with a fatal
// insufficient_security alert and never initialises record keys from the stored secret; an unsolicited extension
// (policy Disable) is refused; otherwise the abbreviated path is entered.
//
//symgo:entry covers=resume_require_refuses,resume_entered,resume_unsolicited_refused
func zzEMSClientResume() {
	zzResumeInits = 0
	policy := zzsymChoice("client_policy", 3)
	echoed := zzsymChoice("server_echoes_ems", 2) == 1
	cfg := zzPSKConfig()
	cfg.ExtendedMasterSecret = zzPolicy(policy)
	cfg.HasSessionStore = true
	cfg.DelSession = func([]byte) error { return nil }
	cfg.GetSession = func([]byte) ([]byte, []byte, error) { return nil, nil, nil }
	cfg.SetSession = func(_, _, _ []byte) error { return nil }
	client := zzNewPeer(true, cfg)
	sink := zzNewPeer(false, zzPSKConfig())
	sent, a, err := zzGenerate(client, sink, Flight1)
	zzsymAssert(err == nil && a == nil && len(sent) == 1, "harness_client_hello_generated")
	// the offered session, as flight1Generate leaves it when the store knows the server
	sid := zzsymBytes("sid", 2)
	client.state.SessionID = sid
	client.state.MasterSecret = zzsymBytes("stored_secret", 2)

	suite := uint16(0x00a8)
	exts := []extension.Value{&extension12.RenegotiationInfo{}}
	if echoed {
		exts = append(exts, &extension12.ExtendedMasterSecret{})
	}
	serverHello := &handshake.Handshake{Message: &handshake.MessageServerHello{
		Version:           protocol.Version1_2,
		SessionID:         append([]byte{}, sid...),
		CipherSuiteID:     &suite,
		CompressionMethod: dtlsflight.DefaultCompressionMethods()[0],
		Extensions:        exts,
	}}
	raw, merr := serverHello.Marshal()
	zzsymAssert(merr == nil, "harness_server_hello_marshals")
	client.cache.Push(raw, 0, 0, handshake.TypeServerHello, false)

	next, a, perr := zzParse(client, Flight1)
	a = zzFatal(a, perr)
	if policy == 1 && !echoed {
		zzsymAssert(perr != nil && next == 0, "resume_require_without_ems_fails")
		zzsymAssert(a != nil && a.Level == alert.Fatal && a.Description == alert.InsufficientSecurity,
			"resume_require_without_ems_alerts_insufficient_security")
		zzsymAssert(zzResumeInits == 0, "resume_require_without_ems_initialises_no_keys")
		zzsymCover("resume_require_refuses")

		return
	}
	if policy == 2 && echoed {
		zzsymAssert(perr != nil && next == 0 && zzResumeInits == 0, "resume_refuses_unsolicited_ems")
		zzsymCover("resume_unsolicited_refused")

		return
	}
	zzsymAssert(perr == nil && a == nil, "resume_continues")
	zzsymAssert(zzResumeInits == 1, "resume_enters_abbreviated_path")
	zzsymCover("resume_entered")
}
