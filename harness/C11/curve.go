package flight12

//symgo:pkg github.com/pion/dtls/v3/internal/flight/flight12
//symgo:param NCURVE quick=3 thorough=4
//symgo:outside curve lists longer than NCURVE entries; a ClientHello without supported_groups (RFC 4492 lets the server pick freely then)

import "github.com/pion/dtls/v3/pkg/crypto/elliptic"

func zzSymCurves(name string, n int) []elliptic.Curve {
	out := make([]elliptic.Curve, 0, n)
	for i := 0; i < n; i++ {
		out = append(out, elliptic.Curve(zzsymU16(name)))
	}

	return out
}

// zzCurveIn is a non-forking membership test.
func zzCurveIn(list []elliptic.Curve, c elliptic.Curve) bool {
	in := false
	for _, x := range list {
		in = zzsymOr(in, x == c)
	}

	return in
}

// Key-exchange group selection of the DTLS 1.2 server against an honest client. The client offers
// supportedEllipticCurves(its configured list) in supported_groups (flight1/flight3Generate), the server runs
// selectEllipticCurve(its configured list, offer) (flight0Parse). For ALL 16-bit group codes and all lists of
// 0..NCURVE entries on both sides: a selected group is in the client's configured list AND in the server's
// configured list; if the lists share no group the selection fails (flight0Parse answers insufficient_security).
//
//symgo:entry covers=selected,no_common_group,hybrid_skipped
func zzCurvePick() {
	n := zzsymParam("NCURVE")
	client := zzSymCurves("client_curve", zzsymChoice("nclient", n+1))
	server := zzSymCurves("server_curve", zzsymChoice("nserver", n+1))

	offer := supportedEllipticCurves(client)
	for _, c := range offer {
		zzsymAssert(zzCurveIn(client, c), "offer_only_configured_groups")
	}

	sel, ok := selectEllipticCurve(server, offer)

	// common: some group is in both configured lists
	common := false
	for _, c := range client {
		common = zzsymOr(common, zzCurveIn(server, c))
	}
	if !ok {
		zzsymCover("no_common_group")
		if common {
			// the only legitimate reason to fail with a shared group: the shared group is the DTLS 1.3-only
			// hybrid X25519MLKEM768, which a 1.2 handshake cannot use (failing is within the property)
			zzsymCover("hybrid_skipped")
		}

		return
	}
	zzsymAssert(common, "selection_needs_common_group")
	zzsymAssert(zzCurveIn(client, sel), "selected_group_allowed_by_client")
	zzsymAssert(zzCurveIn(server, sel), "selected_group_allowed_by_server")
	zzsymCover("selected")
}
