package extension

//symgo:pkg github.com/pion/dtls/v3/pkg/protocol/extension
//symgo:param NPROTO quick=3 thorough=4
//symgo:param NPROTOLEN quick=2 thorough=2
//symgo:outside ALPN lists longer than NPROTO entries, protocol names longer than NPROTOLEN bytes
//symgo:assume protocol names are non-empty (RFC 7301 3.1: ProtocolName<1..2^8-1>; the ALPN encoder refuses empty names, so neither side can put one on the wire)

import (
	"errors"

	dtlserrors "github.com/pion/dtls/v3/internal/errors"
)

// zzSymProtocols: 0..n protocol names, each 1..maxLen arbitrary bytes.
func zzSymProtocols(name string, n, maxLen int) []string {
	k := zzsymChoice(name+"_n", n+1)
	out := make([]string, 0, k)
	for i := 0; i < k; i++ {
		out = append(out, zzsymString(name, 1+zzsymChoice(name+"_len", maxLen)))
	}

	return out
}

func zzProtoIn(list []string, p string) bool {
	in := false
	for _, x := range list {
		in = zzsymOr(in, zzsymEqStr(x, p))
	}

	return in
}

// ALPN selection on the server (flight4Generate / flight4bGenerate call ALPNProtocolSelection(server list,
// client's offered list)) for ALL lists of 0..NPROTO names of 1..NPROTOLEN arbitrary bytes on both sides:
// a selected protocol is in the server's list AND in the client's list; "no protocol, no error" happens only
// when one side has no ALPN configuration at all; when both sides have lists without a common entry the
// function fails with ErrALPNNoAppProto (flight4Generate turns it into a fatal no_application_protocol alert).
//
//symgo:entry covers=selected,no_alpn,no_common_protocol
func zzALPNPick() {
	server := zzSymProtocols("server_proto", zzsymParam("NPROTO"), zzsymParam("NPROTOLEN"))
	client := zzSymProtocols("client_proto", zzsymParam("NPROTO"), zzsymParam("NPROTOLEN"))

	common := false
	for _, p := range client {
		common = zzsymOr(common, zzProtoIn(server, p))
	}
	sel, err := ALPNProtocolSelection(server, client)
	if err != nil {
		zzsymAssert(errors.Is(err, dtlserrors.ErrALPNNoAppProto), "failure_is_no_application_protocol")
		zzsymAssert(sel == "", "failure_selects_nothing")
		zzsymAssert(zzsymNot(common), "fails_only_without_common_protocol")
		zzsymCover("no_common_protocol")

		return
	}
	if sel == "" {
		zzsymAssert(len(server) == 0 || len(client) == 0, "no_protocol_only_if_one_side_has_no_alpn")
		zzsymCover("no_alpn")

		return
	}
	zzsymAssert(zzProtoIn(server, sel), "protocol_from_server_list")
	zzsymAssert(zzProtoIn(client, sel), "protocol_from_client_list")
	zzsymCover("selected")
}
