package extension

//symgo:pkg github.com/pion/dtls/v3/pkg/protocol/extension
//symgo:param NPROTO quick=3 thorough=4
//symgo:param NPROTOLEN quick=2 thorough=2
//symgo:outside ALPN lists longer than NPROTO entries, protocol names longer than NPROTOLEN bytes
//symgo:assume protocol names are non-empty (RFC 7301 3.1: ProtocolName<1..2^8-1>; the ALPN encoder refuses empty names, so neither side can put one on the wire)

import (
	"errors"

	dtlserrors "github.com/pion/dtls/v3/internal/errors"
)

// zzSymProtocols: 0..n protocol names, each 1..maxLen arbitrary bytes.
func zzSymProtocols(name string, n, maxLen int) []string {
	k := zzsymChoice(name+"_n", n+1)
	out := make([]string, 0, k)
	for i := 0; i < k; i++ {
		out = append(out, zzsymString(name, 1+zzsymChoice(name+"_len", maxLen)))
	}

	return out
}

func zzProtoIn(list []string, p string) bool {
	in := false
	for _, x := range list {
		in = zzsymOr(in, zzsymEqStr(x, p))
	}

	return in
}

// ALPN selection on the server (flight4Generate / flight4bGenerate call ALPNProtocolSelection(server list,
// client's offered list)) for ALL lists of 0..NPROTO names of 1..NPROTOLEN arbitrary bytes on both sides:
// a selected protocol is in the server's list AND in the client's list; "no protocol, no error" happens only
// when one side has no ALPN configuration at all; when both sides have lists without a common entry the
// function fails with ErrALPNNoAppProto (flight4Generate turns it into a fatal no_application_protocol alert).
//
//symgo:entry covers=selected,no_alpn,no_common_protocol
func zzALPNPick() {
	server := zzSymProtocols("server_proto", zzsymParam("NPROTO"), zzsymParam("NPROTOLEN"))
	client := zzSymProtocols("client_proto", zzsymParam("NPROTO"), zzsymParam("NPROTOLEN"))

	common := false
	for _, p := range client {
		common = zzsymOr(common, zzProtoIn(server, p))
	}
	sel, err := ALPNProtocolSelection(server, client)
	if err != nil {
		zzsymAssert(errors.Is(err, dtlserrors.ErrALPNNoAppProto), "failure_is_no_application_protocol")
		zzsymAssert(sel == "", "failure_selects_nothing")
		zzsymAssert(zzsymNot(common), "fails_only_without_common_protocol")
		zzsymCover("no_common_protocol")

		return
	}
	if sel == "" {
		zzsymAssert(len(server) == 0 || len(client) == 0, "no_protocol_only_if_one_side_has_no_alpn")
		zzsymCover("no_alpn")

		return
	}
	zzsymAssert(zzProtoIn(server, sel), "protocol_from_server_list")
	zzsymAssert(zzProtoIn(client, sel), "protocol_from_client_list")
	zzsymCover("selected")
}

// The same with a LONG offer: the client offers 20 fixed names "p00".."p19" plus one arbitrary 3-byte name (21
// names: beyond any small-list fast path), the server is configured with two arbitrary 3-byte names. The selected
// protocol is in both lists; failure only without a common protocol.
//
//symgo:entry covers=long_selected,long_no_common_protocol
func zzALPNPickLongOffer() {
	var client []string
	for i := 0; i < 20; i++ {
		client = append(client, string([]byte{'p', byte('0' + i/10), byte('0' + i%10)}))
	}
	extra := zzsymString("client_proto", 3)
	client = append(client[:7], append([]string{extra}, client[7:]...)...)
	server := []string{zzsymString("server_proto", 3), zzsymString("server_proto", 3)}
	common := false
	for _, p := range client {
		common = zzsymOr(common, zzProtoIn(server, p))
	}
	sel, err := ALPNProtocolSelection(server, client)
	if err != nil {
		zzsymAssert(errors.Is(err, dtlserrors.ErrALPNNoAppProto), "failure_is_no_application_protocol")
		zzsymAssert(zzsymNot(common), "long_offer_fails_only_without_common_protocol")
		zzsymCover("long_no_common_protocol")

		return
	}
	zzsymAssert(zzProtoIn(server, sel), "long_offer_protocol_from_server_list")
	zzsymAssert(zzProtoIn(client, sel), "long_offer_protocol_from_client_list")
	zzsymCover("long_selected")
}

// A configured protocol name that does not fit RFC 7301's one-byte length (256 bytes and more; also 255 as the last
// that fits) is refused by the encoder or encoded as exactly that one name - never re-framed as other names the
// peer could select (the DTLS 1.2 client does not re-check the selection against its own list).
//
//symgo:entry covers=long_name_refused,long_name_encoded
func zzALPNLongNameNotReframed() {
	n := []int{255, 256, 258, 300}[zzsymChoice("name_len", 4)]
	b := make([]byte, n)
	for i := range b {
		b[i] = 'x'
	}
	b[0], b[1], b[2] = zzsymU8("name_byte"), zzsymU8("name_byte"), zzsymU8("name_byte")
	out, err := ALPNOffer{Protocols: []string{string(b)}}.MarshalData()
	if err != nil {
		zzsymCover("long_name_refused")

		return
	}
	back := &ALPNOffer{}
	zzsymAssert(back.UnmarshalData(out) == nil, "long_name_encoding_decodes")
	zzsymAssert(len(back.Protocols) == 1 && len(back.Protocols[0]) == n, "long_name_is_still_one_name")
	zzsymCover("long_name_encoded")
}
