package flight12

//symgo:pkg github.com/pion/dtls/v3/internal/flight/flight12
//symgo:param NXPROF quick=3 thorough=4
//symgo:param NXPROTO quick=3 thorough=4
//symgo:stub crypto/rand.Reader is a harness reader returning constant bytes (hello randoms and session ids are not part of the claim); time.Now is the engine constant
//symgo:stub the flight12 handlers are driven directly by the harness the way handshakeFSM12 drives them (Generate -> stamp message_sequence -> marshal -> push into both caches -> Parse); records, retransmission and the transport are not involved
//symgo:outside the key-exchange / Finished part of the handshake: the hello exchange is run with PSK cipher suites so that no asymmetric crypto is needed; the claim covers the negotiation state both sides hold when the hello flights are done
//symgo:outside end-to-end delivery of the alert to the peer ("fails on both sides"): the harness checks that the detecting side fails with a fatal alert; the peer's reaction to a received alert is not modelled

import (
	"context"
	"crypto/rand"
	"errors"

	"github.com/pion/dtls/v3/internal/ciphersuite"
	dtlsconfig "github.com/pion/dtls/v3/internal/config"
	dtlsflight "github.com/pion/dtls/v3/internal/flight"
	dtlsstate "github.com/pion/dtls/v3/internal/state"
	"github.com/pion/dtls/v3/pkg/crypto/elliptic"
	"github.com/pion/dtls/v3/pkg/protocol"
	"github.com/pion/dtls/v3/pkg/protocol/alert"
	"github.com/pion/dtls/v3/pkg/protocol/extension"
	extension12 "github.com/pion/dtls/v3/pkg/protocol/extension/dtls12"
	"github.com/pion/dtls/v3/pkg/protocol/handshake"
)

type zzFakeReader struct{}

func (zzFakeReader) Read(p []byte) (int, error) {
	for i := range p {
		p[i] = 0x5a
	}

	return len(p), nil
}

// zzNoLog is a silent logging.LeveledLogger.
type zzNoLog struct{}

func (zzNoLog) Trace(string)          {}
func (zzNoLog) Tracef(string, ...any) {}
func (zzNoLog) Debug(string)          {}
func (zzNoLog) Debugf(string, ...any) {}
func (zzNoLog) Info(string)           {}
func (zzNoLog) Infof(string, ...any)  {}
func (zzNoLog) Warn(string)           {}
func (zzNoLog) Warnf(string, ...any)  {}
func (zzNoLog) Error(string)          {}
func (zzNoLog) Errorf(string, ...any) {}

type zzFakeConn struct{}

func (zzFakeConn) HandleQueuedPackets(context.Context) error { return nil }
func (zzFakeConn) SessionKey() []byte                        { return nil }

// zzPeer is one endpoint: its configuration, DTLS 1.2 state and handshake cache.
type zzPeer struct {
	isClient bool
	cfg      *dtlsconfig.HandshakeConfig
	state    *dtlsstate.State12
	cache    *dtlsflight.Cache
}

func zzPSK([]byte) ([]byte, error) { return []byte{1, 2, 3}, nil }

func zzNewPeer(isClient bool, cfg *dtlsconfig.HandshakeConfig) *zzPeer {
	rand.Reader = zzFakeReader{}

	return &zzPeer{
		isClient: isClient,
		cfg:      cfg,
		state: &dtlsstate.State12{Common: &dtlsstate.Common{
			IsClient: isClient, LocalVersion: protocol.Version1_2,
		}},
		cache: dtlsflight.NewCache(),
	}
}

// zzPSKConfig: a PSK-only endpoint (no certificates) with the plain PSK suite, so that the ServerHello flight
// needs no signature and no key pair.
func zzPSKConfig() *dtlsconfig.HandshakeConfig {
	return &dtlsconfig.HandshakeConfig{
		LocalPSKCallback:        zzPSK,
		LocalCipherSuites:       []dtlsconfig.CipherSuite{&ciphersuite.TLSPskWithAes128GcmSha256{}},
		EllipticCurves:          []elliptic.Curve{elliptic.X25519},
		InsecureSkipHelloVerify: true,
		Log:                     zzNoLog{},
		MinVersion:              protocol.Version1_2,
		MaxVersion:              protocol.Version1_2,
	}
}

// zzFatal extracts the alert the way handshakeFSM12 / flight12.Parse do: the explicit alert result, else an
// *alert.Alert wrapped in the error.
func zzFatal(a *alert.Alert, err error) *alert.Alert {
	if a == nil && err != nil {
		errors.As(err, &a)
	}

	return a
}

// zzGenerate runs the flight generator of p and delivers the produced handshake messages to both caches
// (what handshakeFSM12.prepare + the record layer do for unencrypted epoch-0 flights).
func zzGenerate(p, peer *zzPeer, f Flight) ([]*handshake.Handshake, *alert.Alert, error) {
	gen, _, ok := GetGenerator(f)
	if !ok {
		zzsymFail("harness_bad_flight")
	}
	pkts, a, err := gen(zzFakeConn{}, p.state, p.cache, p.cfg)
	if a = zzFatal(a, err); a != nil || err != nil {
		return nil, a, err
	}
	msgs := []*handshake.Handshake{}
	for _, pkt := range pkts {
		h, isHandshake := pkt.Record.Content.(*handshake.Handshake)
		if !isHandshake {
			continue
		}
		h.Header.MessageSequence = uint16(p.state.HandshakeSendSequence)
		p.state.HandshakeSendSequence++
		raw, merr := h.Marshal()
		if merr != nil {
			zzsymFail("harness_marshal_failed")
		}
		p.cache.Push(raw, 0, h.Header.MessageSequence, h.Header.Type, p.isClient)
		peer.cache.Push(raw, 0, h.Header.MessageSequence, h.Header.Type, p.isClient)
		msgs = append(msgs, h)
	}

	return msgs, nil, nil
}

func zzParse(p *zzPeer, f Flight) (Flight, *alert.Alert, error) {
	next, a, err, ok := Parse(context.Background(), f, zzFakeConn{}, p.state, p.cache, p.cfg)
	if !ok {
		zzsymFail("harness_bad_flight")
	}

	return next, a, err
}

func zzHasExtension(values []extension.Value, t extension.Type) bool {
	for _, v := range values {
		if v.ExtensionType() == t {
			return true
		}
	}

	return false
}

func zzPolicy(i int) dtlsconfig.ExtendedMasterSecretType {
	switch i {
	case 0:
		return dtlsconfig.RequestExtendedMasterSecret
	case 1:
		return dtlsconfig.RequireExtendedMasterSecret
	}

	return dtlsconfig.DisableExtendedMasterSecret
}

// Server half of the extended-master-secret policy: the real flight0Parse on a ClientHello that does or does
// not carry extended_master_secret (type 23), under each of the three server policies. Proved: policy Require
// and no extension => the flight fails with a fatal insufficient_security alert and no next flight; whenever
// flight0Parse lets the handshake continue under Require, state.ExtendedMasterSecret (which selects the
// master-secret derivation in flight4Parse) is set; it is set only if the client offered it and the server's
// policy is not Disable.
//
//symgo:entry covers=require_refuses,require_with_ems,request_without_ems,request_with_ems,disable_ignores
func zzEMSServerParse() {
	policy := zzsymChoice("server_policy", 3)
	offered := zzsymChoice("client_offers_ems", 2) == 1
	cfg := zzPSKConfig()
	cfg.ExtendedMasterSecret = zzPolicy(policy)
	server := zzNewPeer(false, cfg)
	server.state.LocalKeypair = &elliptic.Keypair{} // not used by the PSK suite; avoids key generation

	exts := []extension.Value{&extension12.RenegotiationInfo{}}
	if offered {
		exts = append(exts, &extension12.ExtendedMasterSecret{})
	}
	hello := &handshake.Handshake{Message: &handshake.MessageClientHello{
		Version:            protocol.Version1_2,
		CipherSuiteIDs:     []uint16{0x00a8},
		CompressionMethods: dtlsflight.DefaultCompressionMethods(),
		Extensions:         exts,
	}}
	raw, err := hello.Marshal()
	zzsymAssert(err == nil, "harness_client_hello_marshals")
	server.cache.Push(raw, 0, 0, handshake.TypeClientHello, true)

	next, a, perr := zzParse(server, Flight0)
	a = zzFatal(a, perr)
	if policy == 1 && !offered {
		zzsymAssert(perr != nil && next == 0, "server_require_without_ems_fails")
		zzsymAssert(a != nil && a.Level == alert.Fatal && a.Description == alert.InsufficientSecurity,
			"server_require_without_ems_alerts_insufficient_security")
		zzsymCover("require_refuses")

		return
	}
	zzsymAssert(perr == nil && a == nil && next == Flight4, "server_continues")
	ems := server.state.ExtendedMasterSecret
	zzsymAssert(policy != 1 || ems, "server_require_never_continues_without_ems")
	zzsymAssert(!ems || (offered && policy != 2), "server_ems_only_if_offered_and_not_disabled")
	switch {
	case policy == 1:
		zzsymCover("require_with_ems")
	case policy == 0 && ems:
		zzsymCover("request_with_ems")
	case policy == 0:
		zzsymCover("request_without_ems")
	default:
		zzsymCover("disable_ignores")
	}
}

// Client half of the extended-master-secret policy: an honest client (flight1Generate; it offers the extension
// iff its policy is Request or Require) receives a ServerHello + ServerHelloDone that does or does not carry
// extended_master_secret, and the real flight1Parse/flight3Parse run. Proved: policy Require and no extension
// => fatal insufficient_security alert, no next flight; an extension the client did not offer (policy Disable)
// is refused with a fatal alert; whenever the client continues to Flight5 under Require,
// state.ExtendedMasterSecret (which selects the derivation in flight5's initializeCipherSuite) is set, and it is
// set only if the server echoed it and the policy is not Disable.
//
//symgo:entry covers=require_refuses,unsolicited_refused,require_with_ems,request_without_ems,request_with_ems,disable_without_ems
func zzEMSClientParse() {
	policy := zzsymChoice("client_policy", 3)
	echoed := zzsymChoice("server_echoes_ems", 2) == 1
	cfg := zzPSKConfig()
	cfg.ExtendedMasterSecret = zzPolicy(policy)
	client := zzNewPeer(true, cfg)
	sink := zzNewPeer(false, zzPSKConfig())

	sent, a, err := zzGenerate(client, sink, Flight1)
	zzsymAssert(err == nil && a == nil && len(sent) == 1, "harness_client_hello_generated")
	ch, _ := sent[0].Message.(*handshake.MessageClientHello)
	zzsymAssert(zzHasExtension(ch.Extensions, extension.TypeExtendedMasterSecret) == (policy != 2),
		"client_offers_ems_iff_not_disabled")

	suite := uint16(0x00a8)
	exts := []extension.Value{&extension12.RenegotiationInfo{}}
	if echoed {
		exts = append(exts, &extension12.ExtendedMasterSecret{})
	}
	serverHello := &handshake.Handshake{Message: &handshake.MessageServerHello{
		Version:           protocol.Version1_2,
		CipherSuiteID:     &suite,
		CompressionMethod: dtlsflight.DefaultCompressionMethods()[0],
		Extensions:        exts,
	}}
	raw, merr := serverHello.Marshal()
	zzsymAssert(merr == nil, "harness_server_hello_marshals")
	client.cache.Push(raw, 0, 0, handshake.TypeServerHello, false)
	done := &handshake.Handshake{Message: &handshake.MessageServerHelloDone{}}
	done.Header.MessageSequence = 1
	raw, merr = done.Marshal()
	zzsymAssert(merr == nil, "harness_server_hello_done_marshals")
	client.cache.Push(raw, 0, 1, handshake.TypeServerHelloDone, false)

	next, a, perr := zzParse(client, Flight1)
	a = zzFatal(a, perr)
	if policy == 1 && !echoed {
		zzsymAssert(perr != nil && next == 0, "client_require_without_ems_fails")
		zzsymAssert(a != nil && a.Level == alert.Fatal && a.Description == alert.InsufficientSecurity,
			"client_require_without_ems_alerts_insufficient_security")
		zzsymCover("require_refuses")

		return
	}
	if policy == 2 && echoed {
		zzsymAssert(perr != nil && next == 0, "client_refuses_unsolicited_ems")
		zzsymAssert(a != nil && a.Level == alert.Fatal, "client_refusal_carries_alert")
		zzsymCover("unsolicited_refused")

		return
	}
	zzsymAssert(perr == nil && a == nil && next == Flight5, "client_continues")
	ems := client.state.ExtendedMasterSecret
	zzsymAssert(policy != 1 || ems, "client_require_never_continues_without_ems")
	zzsymAssert(!ems || (echoed && policy != 2), "client_ems_only_if_echoed_and_not_disabled")
	switch {
	case policy == 1:
		zzsymCover("require_with_ems")
	case policy == 0 && ems:
		zzsymCover("request_with_ems")
	case policy == 0:
		zzsymCover("request_without_ems")
	default:
		zzsymCover("disable_without_ems")
	}
}

// zzExchange runs the hello exchange of two real endpoints: client flight1Generate -> server flight0Parse ->
// server flight4Generate -> client flight1Parse(=flight3Parse). It returns true when both sides finished the
// hello flights (server produced its flight, client moved on to Flight5); otherwise it has asserted that the
// side which stopped did so with a fatal alert and returns false.
func zzExchange(client, server *zzPeer) (bool, *handshake.MessageClientHello, *handshake.MessageServerHello) {
	// the server FSM starts with flight0Generate (initial curve, cookie, random)
	if _, a0, err0 := zzGenerate(server, client, Flight0); err0 != nil || a0 != nil {
		zzsymCover("server_cannot_start")

		return false, nil, nil
	}
	server.state.LocalKeypair = &elliptic.Keypair{PublicKey: []byte{9}} // spares the real key generation in flight0Parse
	sent, a, err := zzGenerate(client, server, Flight1)
	if err != nil || a != nil {
		// a client whose own configuration cannot be encoded never starts; nothing is negotiated
		zzsymCover("client_cannot_start")

		return false, nil, nil
	}
	ch, _ := sent[0].Message.(*handshake.MessageClientHello)

	next, a, err := zzParse(server, Flight0)
	if a = zzFatal(a, err); err != nil || a != nil || next == 0 {
		zzsymAssert(a != nil && a.Level == alert.Fatal, "server_parse_failure_carries_fatal_alert")
		zzsymCover("server_rejects_client_hello")

		return false, ch, nil
	}
	zzsymAssert(next == Flight4, "server_goes_to_flight4")

	answer, a, err := zzGenerate(server, client, Flight4)
	if err != nil || a != nil {
		zzsymAssert(a != nil && a.Level == alert.Fatal, "server_generate_failure_carries_fatal_alert")
		zzsymCover("server_cannot_answer")

		return false, ch, nil
	}
	sh, _ := answer[0].Message.(*handshake.MessageServerHello)

	next, a, err = zzParse(client, Flight1)
	if a = zzFatal(a, err); err != nil || a != nil || next == 0 {
		zzsymAssert(a != nil && a.Level == alert.Fatal, "client_parse_failure_carries_fatal_alert")
		zzsymCover("client_rejects_server_hello")

		return false, ch, sh
	}
	zzsymAssert(next == Flight5, "client_goes_to_flight5")

	return true, ch, sh
}

// zzAnswersOnlyOffered: every extension type in the ServerHello appeared in the ClientHello (the ClientHello of
// a pion client always carries renegotiation_info itself, so the SCSV exception is not needed here).
func zzAnswersOnlyOffered(ch *handshake.MessageClientHello, sh *handshake.MessageServerHello) {
	for _, v := range sh.Extensions {
		zzsymAssert(zzHasExtension(ch.Extensions, v.ExtensionType()), "server_hello_extension_was_offered")
	}
}

func zzCID() []byte { return []byte{0xc1, 0xd2} }

// Hello exchange of two real DTLS 1.2 endpoints over all 3x3 extended-master-secret policies and all 2x2
// connection-ID generator settings (PSK suite, hello-verify skipped). Proved: Require on one side and Disable
// on the other never reaches the end of the hello flights - the side that notices stops with a fatal
// insufficient_security alert; when both sides finish, both hold the same ExtendedMasterSecret flag, a
// Require side has it set, a Disable side has it clear; the ServerHello carries only extension types the
// ClientHello offered; connection IDs are in use only when BOTH sides configured a generator, and then each side
// sends with the CID the other generated.
//
//symgo:entry covers=both_ems,neither_ems,server_require_refuses,client_require_refuses,cid_negotiated,cid_not_negotiated
func zzHelloExchangeEMS() {
	cp, sp := zzsymChoice("client_policy", 3), zzsymChoice("server_policy", 3)
	ccfg, scfg := zzPSKConfig(), zzPSKConfig()
	ccfg.ExtendedMasterSecret, scfg.ExtendedMasterSecret = zzPolicy(cp), zzPolicy(sp)
	clientCID, serverCID := zzsymChoice("client_cid", 2) == 1, zzsymChoice("server_cid", 2) == 1
	if clientCID {
		ccfg.ConnectionIDGenerator = zzCID
	}
	if serverCID {
		scfg.ConnectionIDGenerator = func() []byte { return []byte{0xee} }
	}
	client, server := zzNewPeer(true, ccfg), zzNewPeer(false, scfg)

	ok, ch, sh := zzExchange(client, server)
	// Require vs. Disable can never finish
	if (cp == 1 && sp == 2) || (sp == 1 && cp == 2) {
		zzsymAssert(!ok, "require_vs_disable_never_completes")
		if sp == 1 {
			zzsymCover("server_require_refuses")
		} else {
			zzsymCover("client_require_refuses")
		}
	}
	if !ok {
		return
	}
	cems, sems := client.state.ExtendedMasterSecret, server.state.ExtendedMasterSecret
	zzsymAssert(cems == sems, "both_sides_agree_on_ems")
	zzsymAssert(cp != 1 || cems, "client_require_has_ems")
	zzsymAssert(sp != 1 || sems, "server_require_has_ems")
	zzsymAssert(cp != 2 || !cems, "client_disable_has_no_ems")
	zzsymAssert(sp != 2 || !sems, "server_disable_has_no_ems")
	zzsymAssert(zzHasExtension(sh.Extensions, extension.TypeExtendedMasterSecret) == sems, "server_hello_ems_matches_state")
	zzAnswersOnlyOffered(ch, sh)
	if cems {
		zzsymCover("both_ems")
	} else {
		zzsymCover("neither_ems")
	}

	// connection IDs: used only if both generators are configured
	both := clientCID && serverCID
	zzsymAssert(zzHasExtension(ch.Extensions, extension.TypeConnectionID) == clientCID, "client_offers_cid_iff_generator")
	zzsymAssert(zzHasExtension(sh.Extensions, extension.TypeConnectionID) == both, "server_answers_cid_iff_both_generators")
	if both {
		zzsymAssert(zzsymEqBytes(client.state.RemoteConnectionID, []byte{0xee}), "client_sends_with_server_cid")
		zzsymAssert(zzsymEqBytes(server.state.RemoteConnectionID, zzCID()), "server_sends_with_client_cid")
		zzsymCover("cid_negotiated")
	} else {
		zzsymAssert(len(client.state.RemoteConnectionID) == 0 && len(server.state.RemoteConnectionID) == 0,
			"no_cid_without_both_generators")
		zzsymCover("cid_not_negotiated")
	}
}

// zzSuiteMenu: PSK suite lists used for the exchange entries (registry IDs: 0x00a8 PSK-AES128-GCM,
// 0xc0a8 PSK-AES128-CCM8, 0xccab PSK-CHACHA20, 0x1301 TLS 1.3 AES128-GCM which no DTLS 1.2 handshake may pick).
func zzSuiteMenu(i int) []dtlsconfig.CipherSuite {
	switch i {
	case 0:
		return []dtlsconfig.CipherSuite{&ciphersuite.TLSPskWithAes128GcmSha256{}}
	case 1:
		return []dtlsconfig.CipherSuite{ciphersuite.NewTLSPskWithAes128Ccm8(), &ciphersuite.TLSPskWithAes128GcmSha256{}}
	case 2:
		return []dtlsconfig.CipherSuite{ciphersuite.NewTLSPskWithAes128Ccm8()}
	case 3:
		return []dtlsconfig.CipherSuite{ciphersuite.NewTLSAes128GcmSha256(), &ciphersuite.TLSPskWithChacha20Poly1305Sha256{}}
	}

	return []dtlsconfig.CipherSuite{&ciphersuite.TLSPskWithChacha20Poly1305Sha256{}, ciphersuite.NewTLSPskWithAes128Ccm8()}
}

func zzSuiteListHas(list []dtlsconfig.CipherSuite, id ciphersuite.ID) bool {
	for _, s := range list {
		if s.ID() == id {
			return true
		}
	}

	return false
}

// Cipher-suite agreement of two real DTLS 1.2 endpoints (hello exchange, PSK suites) over a menu of enabled
// lists on each side, including lists with no common suite and a client list that also names a TLS 1.3 suite.
// Proved: when both sides finish the hello flights they hold the SAME suite, it is the one written in the
// ServerHello, it was offered in the ClientHello, it is in the client's and in the server's enabled list, and it
// is a DTLS 1.2 suite; without a common DTLS 1.2 suite the server stops with a fatal alert.
//
//symgo:entry covers=agreed,server_rejects_client_hello
func zzHelloExchangeSuite() {
	ccfg, scfg := zzPSKConfig(), zzPSKConfig()
	ccfg.LocalCipherSuites = zzSuiteMenu(zzsymChoice("client_suites", 5))
	scfg.LocalCipherSuites = zzSuiteMenu(zzsymChoice("server_suites", 3)) // Conn removed non-1.2 suites on the server
	client, server := zzNewPeer(true, ccfg), zzNewPeer(false, scfg)

	common := false
	for _, s := range ccfg.LocalCipherSuites {
		if s.ID() != 0x1301 && zzSuiteListHas(scfg.LocalCipherSuites, s.ID()) {
			common = true
		}
	}
	ok, ch, sh := zzExchange(client, server)
	if !ok {
		zzsymAssert(!common, "hello_fails_only_without_common_suite")

		return
	}
	zzsymAssert(common, "completes_only_with_common_suite")
	id := server.state.CipherSuite.ID()
	zzsymAssert(client.state.CipherSuite.ID() == id, "both_sides_same_suite")
	zzsymAssert(*sh.CipherSuiteID == uint16(id), "server_hello_names_the_suite")
	offered := false
	for _, x := range ch.CipherSuiteIDs {
		if x == uint16(id) {
			offered = true
		}
	}
	zzsymAssert(offered, "suite_offered_in_client_hello")
	zzsymAssert(zzSuiteListHas(ccfg.LocalCipherSuites, id), "suite_enabled_on_client")
	zzsymAssert(zzSuiteListHas(scfg.LocalCipherSuites, id), "suite_enabled_on_server")
	zzsymAssert(id>>8 != 0x13, "suite_is_a_dtls12_suite")
	zzAnswersOnlyOffered(ch, sh)
	zzsymCover("agreed")
}

func zzProfileListHas(list []dtlsconfig.SRTPProtectionProfile, p dtlsconfig.SRTPProtectionProfile) bool {
	in := false
	for _, x := range list {
		in = zzsymOr(in, x == p)
	}

	return in
}

// SRTP agreement of two real DTLS 1.2 endpoints (hello exchange) with 0..NXPROF profiles of ARBITRARY non-zero
// 16-bit codes on each side. Proved: when both sides finish the hello flights both hold the same profile; a
// non-zero profile is in the client's AND the server's configured list and use_srtp appears in the ServerHello
// only if it was in the ClientHello; "no SRTP" (0) is held only when neither side configured a profile; in all
// other cases one side stops with a fatal alert.
//
//symgo:entry covers=srtp_agreed,no_srtp,server_cannot_answer
func zzHelloExchangeSRTP() {
	ccfg, scfg := zzPSKConfig(), zzPSKConfig()
	n := zzsymParam("NXPROF")
	for i, k := 0, zzsymChoice("nclient", n+1); i < k; i++ {
		ccfg.LocalSRTPProtectionProfiles = append(ccfg.LocalSRTPProtectionProfiles,
			dtlsconfig.SRTPProtectionProfile(zzsymU16("client_profile")))
	}
	for i, k := 0, zzsymChoice("nserver", n+1); i < k; i++ {
		scfg.LocalSRTPProtectionProfiles = append(scfg.LocalSRTPProtectionProfiles,
			dtlsconfig.SRTPProtectionProfile(zzsymU16("server_profile")))
	}
	for _, p := range append(append([]dtlsconfig.SRTPProtectionProfile{}, ccfg.LocalSRTPProtectionProfiles...),
		scfg.LocalSRTPProtectionProfiles...) {
		zzsymAssume(p != 0) // 0 is unassigned and is pion's "no profile"
	}
	client, server := zzNewPeer(true, ccfg), zzNewPeer(false, scfg)

	ok, ch, sh := zzExchange(client, server)
	if !ok {
		return
	}
	cp, sp := client.state.SRTPProtectionProfile(), server.state.SRTPProtectionProfile()
	zzsymAssert(cp == sp, "both_sides_same_srtp_profile")
	zzAnswersOnlyOffered(ch, sh)
	if sp == 0 {
		zzsymAssert(len(ccfg.LocalSRTPProtectionProfiles) == 0 && len(scfg.LocalSRTPProtectionProfiles) == 0,
			"no_srtp_only_if_neither_side_configured_it")
		zzsymAssert(!zzHasExtension(sh.Extensions, extension.TypeUseSRTP), "no_use_srtp_answer_without_profile")
		zzsymCover("no_srtp")

		return
	}
	zzsymAssert(zzProfileListHas(ccfg.LocalSRTPProtectionProfiles, sp), "srtp_profile_from_client_list")
	zzsymAssert(zzProfileListHas(scfg.LocalSRTPProtectionProfiles, sp), "srtp_profile_from_server_list")
	zzsymCover("srtp_agreed")
}

func zzNameListHas(list []string, p string) bool {
	in := false
	for _, x := range list {
		in = zzsymOr(in, zzsymEqStr(x, p))
	}

	return in
}

// ALPN agreement of two real DTLS 1.2 endpoints (hello exchange) with 0..NXPROTO protocol names of one
// ARBITRARY byte on each side. Proved: when both sides finish the hello flights both hold the same negotiated
// protocol; a non-empty one is in the client's AND the server's list; "none" is held only if one side has no
// ALPN list; lists without a common name make the server stop with a fatal no_application_protocol alert.
//
//symgo:entry covers=alpn_agreed,no_alpn,server_cannot_answer
func zzHelloExchangeALPN() {
	ccfg, scfg := zzPSKConfig(), zzPSKConfig()
	n := zzsymParam("NXPROTO")
	for i, k := 0, zzsymChoice("nclient", n+1); i < k; i++ {
		ccfg.SupportedProtocols = append(ccfg.SupportedProtocols, zzsymString("client_proto", 1))
	}
	for i, k := 0, zzsymChoice("nserver", n+1); i < k; i++ {
		scfg.SupportedProtocols = append(scfg.SupportedProtocols, zzsymString("server_proto", 1))
	}
	client, server := zzNewPeer(true, ccfg), zzNewPeer(false, scfg)

	common := false
	for _, p := range ccfg.SupportedProtocols {
		common = zzsymOr(common, zzNameListHas(scfg.SupportedProtocols, p))
	}
	ok, ch, sh := zzExchange(client, server)
	if !ok {
		zzsymAssert(zzsymNot(common), "alpn_failure_only_without_common_protocol")

		return
	}
	cp, sp := client.state.NegotiatedProtocol, server.state.NegotiatedProtocol
	zzsymAssert(zzsymEqStr(cp, sp), "both_sides_same_protocol")
	zzAnswersOnlyOffered(ch, sh)
	if sp == "" {
		zzsymAssert(len(ccfg.SupportedProtocols) == 0 || len(scfg.SupportedProtocols) == 0,
			"no_protocol_only_if_one_side_has_no_alpn")
		zzsymCover("no_alpn")

		return
	}
	zzsymAssert(zzNameListHas(ccfg.SupportedProtocols, sp), "protocol_from_client_list")
	zzsymAssert(zzNameListHas(scfg.SupportedProtocols, sp), "protocol_from_server_list")
	zzsymCover("alpn_agreed")
}
