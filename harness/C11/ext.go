package negotiation

//symgo:pkg github.com/pion/dtls/v3/internal/negotiation

//symgo:param NOFFER quick=3 thorough=4
//symgo:param NRESP quick=2 thorough=3
//symgo:param NFINAL quick=2 thorough=3
//symgo:outside more than NOFFER offered / NRESP answered extensions; ServerHelloMessageHook rewriting the message (the same validation runs after the hook)

import (
	"errors"

	dtlserrors "github.com/pion/dtls/v3/internal/errors"
	"github.com/pion/dtls/v3/pkg/crypto/elliptic"
	"github.com/pion/dtls/v3/pkg/protocol"
	"github.com/pion/dtls/v3/pkg/protocol/alert"
	"github.com/pion/dtls/v3/pkg/protocol/extension"
	extension12 "github.com/pion/dtls/v3/pkg/protocol/extension/dtls12"
	"github.com/pion/dtls/v3/pkg/protocol/handshake"
)

// zzClientHelloBody writes a minimal DTLS ClientHello body by hand (RFC 6347 4.2.1): version, 32 random
// bytes, empty session id, empty cookie, the cipher-suite list, one null compression method, and an empty
// extension block (the real extension list is given to the snapshot separately; the body is only consulted for
// the cipher-suite list).
func zzClientHelloBody(suites []uint16) []byte {
	out := []byte{0xfe, 0xfd}
	out = append(out, make([]byte, 32)...)
	out = append(out, 0, 0) // session id length, cookie length
	out = append(out, byte((2*len(suites))>>8), byte(2*len(suites)))
	for _, s := range suites {
		out = append(out, byte(s>>8), byte(s))
	}

	return append(out, 1, 0, 0, 0)
}

// zzSymOffer: a ClientHello that offered 0..n extensions with arbitrary 16-bit type codes; scsv says whether
// TLS_EMPTY_RENEGOTIATION_INFO_SCSV (0x00ff) is among its cipher suites.
func zzSymOffer(n int, scsv bool) (ClientHelloSnapshot, []extension.Type) {
	suites := []uint16{0xc02b}
	if scsv {
		suites = append(suites, 0x00ff)
	}
	snap := ClientHelloSnapshot{body: zzClientHelloBody(suites)}
	types := []extension.Type{}
	k := zzsymChoice("noffered", n+1)
	for i := 0; i < k; i++ {
		t := extension.Type(zzsymU16("offered_type"))
		types = append(types, t)
		snap.extensions = append(snap.extensions, extension.Raw{Type: t})
	}

	return snap, types
}

func zzTypeIn(list []extension.Type, t extension.Type) bool {
	in := false
	for _, x := range list {
		in = zzsymOr(in, x == t)
	}

	return in
}

func zzUnsolicitedAlert(err error) bool {
	var a *alert.Alert

	return errors.As(err, &a) && a != nil && a.Level == alert.Fatal && a.Description == alert.UnsupportedExtension
}

// The basic rule (RFC 5246 7.4.1.4 / RFC 8446 4.2): ValidateResponseExtensions with no exception predicate,
// for 0..NOFFER offered and 0..NRESP answered extensions with ARBITRARY 16-bit type codes: the response is
// accepted iff every answered type was offered; a refusal wraps ErrUnsolicitedExtension and a fatal
// unsupported_extension alert.
//
//symgo:entry covers=accepted_all_offered,accepted_empty,rejected_unsolicited
func zzExtOnlyOffered() {
	snap, offered := zzSymOffer(zzsymParam("NOFFER"), false)
	k := zzsymChoice("nresp", zzsymParam("NRESP")+1)
	resp := []extension.Value{}
	allOffered := true
	for i := 0; i < k; i++ {
		t := extension.Type(zzsymU16("resp_type"))
		resp = append(resp, extension.Raw{Type: t})
		allOffered = zzsymAnd(allOffered, zzTypeIn(offered, t))
	}
	err := ValidateResponseExtensions(snap, resp, nil)
	if err != nil {
		zzsymAssert(zzsymNot(allOffered), "rejects_only_unsolicited")
		zzsymAssert(errors.Is(err, dtlserrors.ErrUnsolicitedExtension), "rejection_is_unsolicited_extension")
		zzsymAssert(zzUnsolicitedAlert(err), "rejection_carries_unsupported_extension_alert")
		zzsymCover("rejected_unsolicited")

		return
	}
	zzsymAssert(allOffered, "accepted_types_were_all_offered")
	if k == 0 {
		zzsymCover("accepted_empty")
	} else {
		zzsymCover("accepted_all_offered")
	}
}

// The ServerHello rule with its two RFC exceptions, as the client applies it (flight3Parse and
// pickVersionFromServerHello call ValidateServerHelloResponse): for 0..NOFFER offered and 0..NRESP answered
// ARBITRARY type codes, SCSV present or not, ordinary ServerHello or HelloRetryRequest random: accepted iff
// every answered type was offered, or is renegotiation_info (0xff01) in an ordinary ServerHello answering a
// ClientHello that listed the SCSV (RFC 5746 3.6), or is cookie (44) in a HelloRetryRequest (RFC 8446 4.2.2).
//
//symgo:entry covers=accepted,accepted_reneg_exception,accepted_cookie_exception,rejected,rejected_reneg_without_scsv
func zzExtServerHelloResponse() {
	scsv := zzsymChoice("scsv", 2) == 1
	hrr := zzsymChoice("hrr", 2) == 1
	snap, offered := zzSymOffer(zzsymParam("NOFFER"), scsv)
	sh := &handshake.MessageServerHello{Version: protocol.Version1_2}
	if hrr {
		var fixed [handshake.RandomLength]byte
		copy(fixed[:], handshake.HelloRetryRequestRandom())
		sh.Random.UnmarshalFixed(fixed)
	}
	k := zzsymChoice("nresp", zzsymParam("NRESP")+1)
	allAllowed := true
	usedReneg, usedCookie, renegUnoffered := false, false, false
	for i := 0; i < k; i++ {
		t := extension.Type(zzsymU16("resp_type"))
		sh.Extensions = append(sh.Extensions, extension.Raw{Type: t})
		wasOffered := zzTypeIn(offered, t)
		reneg := zzsymAnd(t == 0xff01, zzsymAnd(scsv, !hrr))
		cookie := zzsymAnd(t == 44, hrr)
		allAllowed = zzsymAnd(allAllowed, zzsymOr(wasOffered, zzsymOr(reneg, cookie)))
		usedReneg = zzsymOr(usedReneg, zzsymAnd(reneg, zzsymNot(wasOffered)))
		usedCookie = zzsymOr(usedCookie, zzsymAnd(cookie, zzsymNot(wasOffered)))
		renegUnoffered = zzsymOr(renegUnoffered, zzsymAnd(t == 0xff01, zzsymNot(wasOffered)))
	}
	err := ValidateServerHelloResponse(snap, sh)
	if err != nil {
		zzsymAssert(zzsymNot(allAllowed), "rejects_only_unsolicited")
		zzsymAssert(zzUnsolicitedAlert(err), "rejection_carries_unsupported_extension_alert")
		zzsymAssert(errors.Is(err, dtlserrors.ErrInvalidServerHello), "rejection_is_invalid_server_hello")
		zzsymCover("rejected")
		if renegUnoffered {
			zzsymCover("rejected_reneg_without_scsv")
		}

		return
	}
	zzsymAssert(allAllowed, "accepted_only_offered_or_rfc_exception")
	zzsymCover("accepted")
	if usedReneg {
		zzsymCover("accepted_reneg_exception")
	}
	if usedCookie {
		zzsymCover("accepted_cookie_exception")
	}
}

const zzFinalMenu = 7

// zzFinalValue: the extension values flight4Generate / flight4bGenerate can put into a DTLS 1.2 ServerHello.
func zzFinalValue(i int) extension.Value {
	switch i {
	case 0:
		return &extension12.ExtendedMasterSecret{}
	case 1:
		return &extension.SRTPSelection{ProtectionProfile: extension.SRTP_AES128_CM_HMAC_SHA1_80}
	case 2:
		return &extension12.RenegotiationInfo{RenegotiatedConnection: 0}
	case 3:
		return &extension12.SupportedPointFormats{
			PointFormats: []elliptic.CurvePointFormat{elliptic.CurvePointFormatUncompressed},
		}
	case 4:
		return &extension.ALPNSelection{Protocol: "a"}
	case 5:
		return &extension.ConnectionID{CID: []byte{7}}
	}

	return &extension.ReturnRoutabilityCheck{}
}

// zzFinalType: the IANA code of each menu entry, written out by the harness.
func zzFinalType(i int) extension.Type {
	return []extension.Type{23, 14, 0xff01, 11, 16, 54, 61}[i]
}

// Server side: FinalizeServerHello is the last gate before flight4Generate/flight4bGenerate emit a ServerHello.
// For every ServerHello carrying 0..NFINAL of the seven extension kinds the DTLS 1.2 server can produce, and
// every ClientHello that offered 0..NOFFER ARBITRARY type codes (with or without the SCSV): if the function
// returns a message, every extension in the RETURNED message has a type the client offered (or is
// renegotiation_info answering the SCSV); otherwise it fails, so a server never answers with an extension the
// client did not offer.
//
//symgo:entry covers=emitted,emitted_plain,refused,emitted_reneg_for_scsv
func zzExtFinalizeServerHello() {
	scsv := zzsymChoice("scsv", 2) == 1
	snap, offered := zzSymOffer(zzsymParam("NOFFER"), scsv)
	suite := uint16(0xc02b)
	method := protocol.CompressionMethods()[0]
	base := &handshake.MessageServerHello{
		Version: protocol.Version1_2, CipherSuiteID: &suite, CompressionMethod: method,
	}
	k := zzsymChoice("nfinal", zzsymParam("NFINAL")+1)
	prev := -1
	for i := 0; i < k; i++ {
		// strictly increasing menu index: no duplicate extension (the codec refuses duplicates anyway)
		idx := zzsymChoice("final_ext", zzFinalMenu)
		if idx <= prev {
			return
		}
		prev = idx
		base.Extensions = append(base.Extensions, zzFinalValue(idx))
	}
	out, err := FinalizeServerHello(base, nil, snap)
	if err != nil {
		zzsymAssert(out == nil, "failure_returns_no_message")
		zzsymCover("refused")

		return
	}
	zzsymAssert(len(out.Extensions) == k, "finalize_adds_no_extension")
	for _, v := range out.Extensions {
		t := v.ExtensionType()
		exception := zzsymAnd(t == 0xff01, scsv)
		zzsymAssert(zzsymOr(zzTypeIn(offered, t), exception), "server_answers_only_offered_extensions")
		if zzsymAnd(exception, zzsymNot(zzTypeIn(offered, t))) {
			zzsymCover("emitted_reneg_for_scsv")
		}
	}
	if k > 0 {
		zzsymCover("emitted")
	} else {
		zzsymCover("emitted_plain")
	}
}
