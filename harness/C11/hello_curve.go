package flight12

//symgo:pkg github.com/pion/dtls/v3/internal/flight/flight12
//symgo:param NXCURVE quick=2 thorough=3
//symgo:replace github.com/pion/dtls/v3/pkg/crypto/elliptic.GenerateKeypair zzFakeGenerateKeypair
//symgo:replace github.com/pion/dtls/v3/pkg/crypto/prf.EcdhePSKPreMasterSecret zzFakeEcdhePSK
//symgo:stub elliptic.GenerateKeypair returns a key pair that only records the requested curve; prf.EcdhePSKPreMasterSecret returns a constant (the key-exchange VALUES are outside C11, only the GROUP both sides use is observed)

import (
	dtlsconfig "github.com/pion/dtls/v3/internal/config"
	"github.com/pion/dtls/v3/internal/ciphersuite"
	"github.com/pion/dtls/v3/pkg/crypto/elliptic"
)

func zzFakeGenerateKeypair(c elliptic.Curve) (*elliptic.Keypair, error) {
	return &elliptic.Keypair{Curve: c, PublicKey: []byte{7}, PrivateKey: []byte{8}}, nil
}

func zzFakeEcdhePSK(_, _, _ []byte, _ elliptic.Curve) ([]byte, error) { return []byte{0x44}, nil }

func zzGroupIn(list []elliptic.Curve, c elliptic.Curve) bool {
	in := false
	for _, x := range list {
		in = zzsymOr(in, x == c)
	}

	return in
}

// Key-exchange group agreement of two real DTLS 1.2 endpoints (hello exchange with the ECDHE_PSK suite, so
// that supported_groups and a ServerKeyExchange with a named curve are exchanged) with 1..NXCURVE groups of
// ARBITRARY 16-bit codes configured on each side. Proved: when both sides finish the hello flights, the group
// in the server's state, the group in the ServerKeyExchange the client consumed and the group of the client's
// ephemeral key are the same, and that group is in the client's AND in the server's configured list; with no
// common group the server stops with a fatal insufficient_security alert.
//
//symgo:entry covers=group_agreed,server_rejects_client_hello
func zzHelloExchangeCurve() {
	ccfg, scfg := zzPSKConfig(), zzPSKConfig()
	suite := func() []dtlsconfig.CipherSuite {
		return []dtlsconfig.CipherSuite{ciphersuite.NewTLSEcdhePskWithAes128CbcSha256()}
	}
	ccfg.LocalCipherSuites, scfg.LocalCipherSuites = suite(), suite()
	n := zzsymParam("NXCURVE")
	ccfg.EllipticCurves, scfg.EllipticCurves = nil, nil
	for i, k := 0, 1+zzsymChoice("nclient", n); i < k; i++ {
		ccfg.EllipticCurves = append(ccfg.EllipticCurves, elliptic.Curve(zzsymU16("client_group")))
	}
	for i, k := 0, 1+zzsymChoice("nserver", n); i < k; i++ {
		scfg.EllipticCurves = append(scfg.EllipticCurves, elliptic.Curve(zzsymU16("server_group")))
	}
	client, server := zzNewPeer(true, ccfg), zzNewPeer(false, scfg)

	common := false
	for _, c := range ccfg.EllipticCurves {
		common = zzsymOr(common, zzGroupIn(scfg.EllipticCurves, c))
	}
	ok, _, _ := zzExchange(client, server)
	if !ok {
		return
	}
	zzsymAssert(common, "completes_only_with_common_group")
	group := server.state.NamedCurve
	ske := client.state.RemoteServerKeyExchange()
	zzsymAssert(ske != nil && ske.NamedCurve == group, "server_key_exchange_names_the_group")
	zzsymAssert(client.state.LocalKeypair != nil && client.state.LocalKeypair.Curve == group, "client_key_on_same_group")
	zzsymAssert(zzGroupIn(ccfg.EllipticCurves, group), "group_allowed_by_client")
	zzsymAssert(zzGroupIn(scfg.EllipticCurves, group), "group_allowed_by_server")
	zzsymCover("group_agreed")
}
