package signaturehash

//symgo:pkg github.com/pion/dtls/v3/pkg/crypto/signaturehash
//symgo:param NSCHEME quick=2 thorough=3
//symgo:stub private keys are harness fakes implementing crypto.Signer whose Public() returns a zero ed25519/ecdsa/rsa public key (only the dynamic type is inspected)
//symgo:outside signature-scheme lists longer than NSCHEME entries

import (
	"crypto"
	"crypto/ecdsa"
	"crypto/ed25519"
	"crypto/rsa"
	"io"

	"github.com/pion/dtls/v3/pkg/crypto/hash"
	"github.com/pion/dtls/v3/pkg/crypto/signature"
)

type zzSigner struct{ pub crypto.PublicKey }

func (k zzSigner) Public() crypto.PublicKey { return k.pub }
func (k zzSigner) Sign(io.Reader, []byte, crypto.SignerOpts) ([]byte, error) {
	return []byte{1}, nil
}

const (
	zzKeyECDSA = iota
	zzKeyEd25519
	zzKeyRSA
	zzKeyUnknown   // a crypto.Signer with an unsupported public key type
	zzKeyNotSigner // a private key that is not a crypto.Signer
	zzKeyKinds
)

func zzPrivateKey(kind int) crypto.PrivateKey {
	switch kind {
	case zzKeyECDSA:
		return zzSigner{pub: &ecdsa.PublicKey{}}
	case zzKeyEd25519:
		return zzSigner{pub: ed25519.PublicKey{}}
	case zzKeyRSA:
		return zzSigner{pub: &rsa.PublicKey{}}
	case zzKeyUnknown:
		return zzSigner{pub: 5}
	}

	return 7
}

func zzSymSchemes(name string, n int) []Algorithm {
	out := make([]Algorithm, 0, n)
	for i := 0; i < n; i++ {
		out = append(out, Algorithm{
			Hash:      hash.Algorithm(zzsymU16(name + "_hash")),
			Signature: signature.Algorithm(zzsymU16(name + "_sig")),
		})
	}

	return out
}

func zzSchemeIn(list []Algorithm, a Algorithm) bool {
	in := false
	for _, x := range list {
		in = zzsymOr(in, zzsymAnd(x.Hash == a.Hash, x.Signature == a.Signature))
	}

	return in
}

// zzIsPSS: the six RSASSA-PSS SignatureScheme code points of RFC 8446 4.2.3 (0x0804..0x0806, 0x0809..0x080b).
func zzIsPSS(s signature.Algorithm) bool {
	return zzsymOr(zzsymAnd(s >= 0x0804, s <= 0x0806), zzsymAnd(s >= 0x0809, s <= 0x080b))
}

// zzFitsKey: TLS 1.2 SignatureAlgorithm registry: rsa(1) needs an RSA key, ecdsa(3) an ECDSA key, ed25519(7)
// an Ed25519 key; for DTLS 1.3 RSA keys sign with rsa_pss_rsae_* (0x0804..0x0806) only.
func zzFitsKey(s signature.Algorithm, kind int, is13 bool) bool {
	switch kind {
	case zzKeyECDSA:
		return s == 3
	case zzKeyEd25519:
		return s == 7
	case zzKeyRSA:
		if is13 {
			return zzsymAnd(s >= 0x0804, s <= 0x0806)
		}

		return s == 1
	}

	return false
}

// Signature-scheme selection by the signing side (server ServerKeyExchange in flight4Generate with its own
// list, client CertificateVerify in flight5Generate with the list from the server's CertificateRequest, and the
// DTLS 1.3 variants with the intersection list). SelectSignatureScheme / SelectSignatureScheme13 over ALL lists
// of 0..NSCHEME arbitrary (hash, signature) 16-bit pairs and every key kind: a selected scheme is an element of
// the list it was given (the policy it must honour) and fits the private key (DTLS 1.2 never selects an
// RSASSA-PSS scheme); when no element fits the function fails (callers answer insufficient_security /
// handshake_failure) and returns the zero scheme.
//
//symgo:entry covers=selected12,selected13,none_available,bad_key
func zzSigSchemePick() {
	list := zzSymSchemes("scheme", zzsymChoice("nschemes", zzsymParam("NSCHEME")+1))
	kind := zzsymChoice("key", zzKeyKinds)
	is13 := zzsymChoice("dtls13", 2) == 1
	var (
		sel Algorithm
		err error
	)
	if is13 {
		sel, err = SelectSignatureScheme13(list, zzPrivateKey(kind))
	} else {
		sel, err = SelectSignatureScheme(list, zzPrivateKey(kind))
	}
	if err != nil {
		zzsymAssert(zzsymAnd(sel.Hash == 0, sel.Signature == 0), "failure_selects_nothing")
		if kind == zzKeyNotSigner {
			zzsymCover("bad_key")
		} else {
			zzsymCover("none_available")
		}

		return
	}
	zzsymAssert(kind != zzKeyNotSigner && kind != zzKeyUnknown, "unusable_key_never_selects")
	zzsymAssert(zzSchemeIn(list, sel), "selected_scheme_from_policy_list")
	zzsymAssert(zzFitsKey(sel.Signature, kind, is13), "selected_scheme_fits_key")
	if is13 {
		zzsymCover("selected13")
	} else {
		zzsymAssert(zzsymNot(zzIsPSS(sel.Signature)), "dtls12_never_selects_pss")
		zzsymCover("selected12")
	}
}
