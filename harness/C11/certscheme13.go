package dtlshandshake

//symgo:pkg github.com/pion/dtls/v3/internal/handshake
//symgo:param NCS13 quick=2 thorough=3
//symgo:replace github.com/pion/dtls/v3/internal/handshakecrypto.VerifyServerCert zzCS13VerifyServerCert
//symgo:replace github.com/pion/dtls/v3/internal/handshakecrypto.VerifyClientCert zzCS13VerifyClientCert
//symgo:stub handshakecrypto.VerifyServerCert / VerifyClientCert (X.509 path building; their own use of the scheme list is checked in C03 crypto_wrappers.go) are recorders of the signature-scheme list they are handed and accept
//symgo:outside which certificates chain; DTLS 1.2 (sigflight.go)

import (
	"crypto/x509"

	dtlsconfig "github.com/pion/dtls/v3/internal/config"
	dtlshash "github.com/pion/dtls/v3/pkg/crypto/hash"
	"github.com/pion/dtls/v3/pkg/crypto/signature"
	"github.com/pion/dtls/v3/pkg/crypto/signaturehash"
)

var (
	zzCS13Calls int
	zzCS13Algs  []signaturehash.Algorithm
)

func zzCS13VerifyServerCert(_ [][]byte, _ *x509.CertPool, _ string, algs []signaturehash.Algorithm) ([][]*x509.Certificate, error) {
	zzCS13Calls++
	zzCS13Algs = algs

	return nil, nil
}

func zzCS13VerifyClientCert(_ [][]byte, _ *x509.CertPool, algs []signaturehash.Algorithm) ([][]*x509.Certificate, error) {
	zzCS13Calls++
	zzCS13Algs = algs

	return nil, nil
}

func zzCS13List(name string, n int) []signaturehash.Algorithm {
	out := make([]signaturehash.Algorithm, 0, n)
	for i := 0; i < n; i++ {
		out = append(out, signaturehash.Algorithm{
			Hash: dtlshash.Algorithm(zzsymU16(name + "_hash")), Signature: signature.Algorithm(zzsymU16(name + "_sig")),
		})
	}

	return out
}

// DTLS 1.3, the policy on certificate-chain signatures: when the client verifies the server's chain
// (verifyServerIdentity) and when the server verifies a client chain (verifyPeerIdentity under
// VerifyClientCertIfGiven / RequireAndVerifyClientCert), the scheme list handed to chain verification is EXACTLY
// the endpoint's signature_algorithms_cert list (WithCertificateSignatureSchemes) when one is configured, and its
// signature_algorithms list only when none is (RFC 8446 section 4.2.3) - for arbitrary lists of 1..NCS13 handshake
// schemes and 0..NCS13 certificate schemes. A narrower certificate policy is therefore never widened by the
// handshake-signature list (and vice versa).
//
//symgo:entry covers=server_chain_cert_list,server_chain_fallback,client_chain_cert_list,client_chain_fallback
func zzCertSchemePolicy13() {
	zzCS13Calls, zzCS13Algs = 0, nil
	sig := zzCS13List("sig", 1+zzsymChoice("nsig", zzsymParam("NCS13")))
	cert := zzCS13List("cert", zzsymChoice("ncert", zzsymParam("NCS13")+1))
	cfg := &dtlsconfig.HandshakeConfig{LocalSignatureSchemes: sig, LocalCertSignatureSchemes: cert}
	peerIsClient := zzsymChoice("verifier_is_server", 2) == 1
	if peerIsClient {
		cfg.ClientAuth = dtlsconfig.RequireAndVerifyClientCert
		if zzsymChoice("if_given", 2) == 1 {
			cfg.ClientAuth = dtlsconfig.VerifyClientCertIfGiven
		}
	}
	f := protectedHandshakeFlight{cfg: cfg, peerCertificates: [][]byte{{1}}}
	err := f.verifyPeerIdentity(peerIsClient)
	zzsymAssert(err == nil, "identity_accepted_by_recorder")
	zzsymAssert(zzCS13Calls == 1, "chain_verified_once")
	want := cert
	if len(cert) == 0 {
		want = sig
	}
	zzsymAssert(len(zzCS13Algs) == len(want), "chain_scheme_list_is_cert_list_or_fallback")
	for i := range want {
		if i < len(zzCS13Algs) {
			zzsymAssert(zzsymAnd(zzCS13Algs[i].Hash == want[i].Hash, zzCS13Algs[i].Signature == want[i].Signature),
				"chain_scheme_list_is_cert_list_or_fallback")
		}
	}
	switch {
	case !peerIsClient && len(cert) > 0:
		zzsymCover("server_chain_cert_list")
	case !peerIsClient:
		zzsymCover("server_chain_fallback")
	case len(cert) > 0:
		zzsymCover("client_chain_cert_list")
	default:
		zzsymCover("client_chain_fallback")
	}
}
