package dtls

//symgo:pkg github.com/pion/dtls/v3
//symgo:outside the fixed-version start paths (MaxVersion 1.2 / MinVersion 1.3) never call these functions; their version checks live in flight12.flight0Parse (ClientHello.Version) and flight13 (supported_versions must contain 1.3)
//symgo:assume version ranges are ordered ranges of the two known versions (effectiveProtocolVersionRange refuses anything else at configuration time)

import (
	"errors"

	dtlsconfig "github.com/pion/dtls/v3/internal/config"
	dtlserrors "github.com/pion/dtls/v3/internal/errors"
	dtlsflight "github.com/pion/dtls/v3/internal/flight"
	dtlsstate "github.com/pion/dtls/v3/internal/state"
	"github.com/pion/dtls/v3/pkg/crypto/elliptic"
	"github.com/pion/dtls/v3/pkg/protocol"
	"github.com/pion/dtls/v3/pkg/protocol/alert"
	"github.com/pion/dtls/v3/pkg/protocol/extension"
	extension13 "github.com/pion/dtls/v3/pkg/protocol/extension/dtls13"
	"github.com/pion/dtls/v3/pkg/protocol/handshake"
)

// zzRange: the three ordered ranges, as levels (2 = DTLS 1.2, 3 = DTLS 1.3).
func zzRange(name string) (int, int) {
	switch zzsymChoice(name, 3) {
	case 0:
		return 2, 2
	case 1:
		return 2, 3
	}

	return 3, 3
}

func zzVersionConn(isClient bool, lo, hi int) *Conn {
	return &Conn{
		state:          dtlsstate.NewActive(isClient),
		handshakeCache: dtlsflight.NewCache(),
		handshakeConfig: &dtlsconfig.HandshakeConfig{
			MinVersion: zzVersionOfLevel(lo), MaxVersion: zzVersionOfLevel(hi),
		},
	}
}

func zzProtocolVersionAlert(err error) bool {
	var a *alert.Alert

	return errors.As(err, &a) && a != nil && a.Level == alert.Fatal && a.Description == alert.ProtocolVersion
}

func zzLevelOf(v protocol.Version) int {
	if v == protocol.Version1_3 {
		return 3
	}
	if v == protocol.Version1_2 {
		return 2
	}

	return 0
}

// Connection-level version choice of the server: Conn.pickVersionFromClientHello on the ClientHello of an
// honest client (a 1.2-only client sends no supported_versions, any other client lists its range newest first)
// for all 3x3 ordered client/server ranges. Proved: the server adopts a version iff the ranges intersect; the
// adopted LocalVersion is inside both ranges and is the highest common one, and the matching protocol state
// (State12 / State13) is activated; without a common version the function fails with
// ErrNoCommonProtocolVersion wrapping a fatal protocol_version alert and adopts nothing.
//
//symgo:entry covers=adopted_12,adopted_13,no_common_version
func zzVersionServerAdopts() {
	cLo, cHi := zzRange("client_range")
	sLo, sHi := zzRange("server_range")
	ch := &handshake.MessageClientHello{
		Version:            protocol.Version1_2, // legacy_version
		CipherSuiteIDs:     []uint16{0xc02b},
		CompressionMethods: dtlsflight.DefaultCompressionMethods(),
	}
	if cHi == 3 {
		// a DTLS 1.3 capable ClientHello must also carry signature_algorithms, supported_groups and key_share
		ch.Extensions = []extension.Value{
			&extension13.OfferedVersions{
				Versions: dtlsconfig.SupportedVersionsRange(zzVersionOfLevel(cLo), zzVersionOfLevel(cHi)),
			},
			&extension.SignatureAlgorithms{Schemes: []uint16{0x0403}},
			&extension.SupportedGroups{Groups: []elliptic.Curve{elliptic.X25519}},
			&extension13.ClientKeyShare{Shares: []extension13.KeyShareEntry{
				{Group: elliptic.X25519, KeyExchange: make([]byte, 32)},
			}},
		}
	}
	server := zzVersionConn(false, sLo, sHi)
	raw, err := (&handshake.Handshake{Message: ch}).Marshal()
	zzsymAssert(err == nil, "harness_client_hello_marshals")
	server.handshakeCache.Push(raw, 0, 0, handshake.TypeClientHello, true)

	// highest level inside both ranges (0 = none)
	want := 0
	for l := 2; l <= 3; l++ {
		if cLo <= l && l <= cHi && sLo <= l && l <= sHi {
			want = l
		}
	}
	decided, perr := server.pickVersionFromClientHello()
	if perr != nil {
		zzsymAssert(want == 0, "server_fails_only_without_common_version")
		zzsymAssert(!decided, "failure_decides_nothing")
		zzsymAssert(errors.Is(perr, dtlserrors.ErrNoCommonProtocolVersion), "failure_is_no_common_version")
		zzsymAssert(zzProtocolVersionAlert(perr), "failure_carries_protocol_version_alert")
		zzsymCover("no_common_version")

		return
	}
	zzsymAssert(decided, "complete_client_hello_decides")
	got := zzLevelOf(dtlsstate.CommonState(server.state).LocalVersion)
	zzsymAssert(got != 0 && got == want, "server_adopts_highest_common_version")
	_, is13 := server.state.(*dtlsstate.State13)
	zzsymAssert(is13 == (got == 3), "protocol_state_matches_version")
	if got == 3 {
		zzsymCover("adopted_13")
	} else {
		zzsymCover("adopted_12")
	}
}

// Connection-level version choice of the client: Conn.selectRemoteVersion on the single version a server
// answered with (ServerHello.Version / supported_versions / HelloVerifyRequest.Version; 1.0, 1.2 or 1.3) for all
// three ordered client ranges. Proved: the client adopts the answer iff it is DTLS 1.2 or 1.3 and lies inside
// its own range; otherwise it fails with a fatal protocol_version alert.
//
//symgo:entry covers=adopted,refused
func zzVersionClientAdopts() {
	cLo, cHi := zzRange("client_range")
	answer := []protocol.Version{protocol.Version1_0, protocol.Version1_2, protocol.Version1_3}[zzsymChoice("answer", 3)]
	client := zzVersionConn(true, cLo, cHi)
	err := client.selectRemoteVersion([]protocol.Version{answer})
	l := zzLevelOf(answer)
	if err != nil {
		zzsymAssert(l == 0 || l < cLo || l > cHi, "client_refuses_only_out_of_range")
		zzsymAssert(zzProtocolVersionAlert(err), "refusal_carries_protocol_version_alert")
		zzsymCover("refused")

		return
	}
	zzsymAssert(dtlsstate.CommonState(client.state).LocalVersion == answer, "client_adopts_the_answer")
	zzsymAssert(l != 0 && cLo <= l && l <= cHi, "client_adopts_only_inside_its_range")
	zzsymCover("adopted")
}
