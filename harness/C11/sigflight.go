package flight12

//symgo:pkg github.com/pion/dtls/v3/internal/flight/flight12
//symgo:param NFSCHEME quick=2 thorough=3
//symgo:replace github.com/pion/dtls/v3/pkg/crypto/prf.MasterSecret zzFakeMasterSecret
//symgo:replace github.com/pion/dtls/v3/internal/handshakecrypto.VerifyKeySignature zzFakeVerifyKeySignature
//symgo:replace github.com/pion/dtls/v3/internal/handshakecrypto.VerifyCertificateVerify zzFakeVerifyCertificateVerify
//symgo:replace github.com/pion/dtls/v3/pkg/crypto/prf.VerifyDataClient zzFakeVerifyDataClient
//symgo:replace github.com/pion/dtls/v3/internal/handshakecrypto.VerifyServerCert zzRecVerifyServerCert
//symgo:replace github.com/pion/dtls/v3/internal/handshakecrypto.VerifyClientCert zzRecVerifyClientCert
//symgo:stub handshakecrypto.VerifyServerCert / VerifyClientCert (X.509 path building) are recorders of the signature-scheme list they are handed and accept
//symgo:stub prf.VerifyDataClient returns twelve zero bytes, the verify_data the harness puts into the client's Finished (the Finished check itself is C04)
//symgo:stub prf.MasterSecret returns a constant; VerifyKeySignature / VerifyCertificateVerify always report a VALID signature (the most permissive peer: acceptance then depends only on the policy check under test); the cipher suite is a harness fake (certificate authenticated, Init does nothing)
//symgo:assume zzSigSchemeServerAccepts: the server's scheme list entries are well-formed as ParseSignatureSchemes produces them (a PSS code point with its own hash, or two one-byte values that do not spell a PSS code point), so that each entry stands for exactly one wire code point
//symgo:outside certificate chain verification (C03); signature_algorithms_cert is present only as an arbitrary list that must not influence the handshake-signature decision

import (
	"crypto/x509"
	"hash"

	"github.com/pion/dtls/v3/internal/ciphersuite"
	dtlsconfig "github.com/pion/dtls/v3/internal/config"
	dtlsflight "github.com/pion/dtls/v3/internal/flight"
	dtlsstate "github.com/pion/dtls/v3/internal/state"
	"github.com/pion/dtls/v3/pkg/crypto/clientcertificate"
	"github.com/pion/dtls/v3/pkg/crypto/elliptic"
	dtlshash "github.com/pion/dtls/v3/pkg/crypto/hash"
	"github.com/pion/dtls/v3/pkg/crypto/prf"
	"github.com/pion/dtls/v3/pkg/crypto/signature"
	"github.com/pion/dtls/v3/pkg/crypto/signaturehash"
	"github.com/pion/dtls/v3/pkg/protocol"
	"github.com/pion/dtls/v3/pkg/protocol/alert"
	"github.com/pion/dtls/v3/pkg/protocol/handshake"
	"github.com/pion/dtls/v3/pkg/protocol/recordlayer"
)

func zzFakeVerifyDataClient(_, _ []byte, _ prf.HashFunc) ([]byte, error) { return make([]byte, 12), nil }

func zzFakeMasterSecret(_, _, _ []byte, _ prf.HashFunc) ([]byte, error) { return []byte{0x33}, nil }

func zzFakeVerifyKeySignature(_, _ []byte, _ dtlshash.Algorithm, _ signature.Algorithm, _ [][]byte) error {
	return nil
}

func zzFakeVerifyCertificateVerify(_ []byte, _ dtlshash.Algorithm, _ signature.Algorithm, _ []byte, _ [][]byte) error {
	return nil
}

var (
	zzChainCalls int
	zzChainAlgs  []signaturehash.Algorithm
)

func zzRecVerifyServerCert(_ [][]byte, _ *x509.CertPool, _ string, algs []signaturehash.Algorithm) ([][]*x509.Certificate, error) {
	zzChainCalls++
	zzChainAlgs = algs

	return nil, nil
}

func zzRecVerifyClientCert(_ [][]byte, _ *x509.CertPool, algs []signaturehash.Algorithm) ([][]*x509.Certificate, error) {
	zzChainCalls++
	zzChainAlgs = algs

	return nil, nil
}

// zzChainListIs: the list handed to chain verification is the signature_algorithms_cert list when configured,
// else the signature_algorithms list (RFC 8446 section 4.2.3, also applied by the DTLS 1.2 code).
func zzChainListIs(cfg *dtlsconfig.HandshakeConfig) {
	want := cfg.LocalCertSignatureSchemes
	if len(want) == 0 {
		want = cfg.LocalSignatureSchemes
	}
	zzsymAssert(zzChainCalls == 1, "chain_verified_once")
	zzsymAssert(len(zzChainAlgs) == len(want), "chain_scheme_list_is_cert_list_or_fallback")
	for i := range want {
		if i < len(zzChainAlgs) {
			zzsymAssert(zzsymAnd(zzChainAlgs[i].Hash == want[i].Hash, zzChainAlgs[i].Signature == want[i].Signature),
				"chain_scheme_list_is_cert_list_or_fallback")
		}
	}
}

// zzCertSuite: a certificate-authenticated ECDHE suite without real cryptography.
type zzCertSuite struct{ initialized bool }

func (s *zzCertSuite) String() string                          { return "zzCertSuite" }
func (s *zzCertSuite) ID() ciphersuite.ID                      { return ciphersuite.TLS_ECDHE_ECDSA_WITH_AES_128_GCM_SHA256 }
func (s *zzCertSuite) CertificateType() clientcertificate.Type { return clientcertificate.ECDSASign }
func (s *zzCertSuite) HashFunc() func() hash.Hash              { return nil }
func (s *zzCertSuite) AuthenticationType() ciphersuite.AuthenticationType {
	return ciphersuite.AuthenticationTypeCertificate
}
func (s *zzCertSuite) KeyExchangeAlgorithm() ciphersuite.KeyExchangeAlgorithm {
	return ciphersuite.KeyExchangeAlgorithmEcdhe
}
func (s *zzCertSuite) ECC() bool                                   { return true }
func (s *zzCertSuite) Init(_, _, _ []byte, _ bool) error           { s.initialized = true; return nil }
func (s *zzCertSuite) IsInitialized() bool                         { return s.initialized }
func (s *zzCertSuite) Decrypt(_ recordlayer.Header, in []byte) ([]byte, error) { return in, nil }
func (s *zzCertSuite) Encrypt(_ *recordlayer.RecordLayer, raw []byte) ([]byte, error) {
	return raw, nil
}

func zzSymPolicySchemes(name string, n int) []signaturehash.Algorithm {
	out := make([]signaturehash.Algorithm, 0, n)
	for i := 0; i < n; i++ {
		out = append(out, signaturehash.Algorithm{
			Hash:      dtlshash.Algorithm(zzsymU16(name + "_hash")),
			Signature: signature.Algorithm(zzsymU16(name + "_sig")),
		})
	}

	return out
}

// zzPSSCode: the six RSASSA-PSS code points of RFC 8446 4.2.3.
func zzPSSCode(v uint16) bool {
	return zzsymOr(zzsymAnd(v >= 0x0804, v <= 0x0806), zzsymAnd(v >= 0x0809, v <= 0x080b))
}

// zzWellFormedScheme: the shape every entry produced by signaturehash.ParseSignatureSchemes has. Either a PSS
// code point in Signature with its hash (sha256/384/512 = 4/5/6), or a TLS 1.2 style pair of one-byte values
// that does not spell a PSS code point.
func zzWellFormedScheme(e signaturehash.Algorithm) bool {
	sig, h := uint16(e.Signature), uint16(e.Hash)
	pssHash := zzsymIteU16(zzsymOr(sig == 0x0804, sig == 0x0809), 4, zzsymIteU16(zzsymOr(sig == 0x0805, sig == 0x080a), 5, 6))
	pss := zzsymAnd(zzPSSCode(sig), h == pssHash)
	plain := zzsymAnd(zzsymAnd(h <= 0xff, sig <= 0xff), zzsymNot(zzPSSCode(h<<8|sig)))

	return zzsymOr(pss, plain)
}

// zzSchemeCode: RFC 8446 4.2.3 / RFC 5246 7.4.1.4.1: a PSS entry is its code point, any other entry is
// hash byte followed by signature byte.
func zzSchemeCode(e signaturehash.Algorithm) uint16 {
	sig, h := uint16(e.Signature), uint16(e.Hash)

	return zzsymIteU16(zzPSSCode(sig), sig, h<<8|sig)
}

func zzSchemeAllowed(list []signaturehash.Algorithm, h dtlshash.Algorithm, s signature.Algorithm) bool {
	in := false
	for _, x := range list {
		in = zzsymOr(in, zzsymAnd(x.Hash == h, x.Signature == s))
	}

	return in
}

// Client policy on the server's signature scheme. flight5's initializeCipherSuite on a ServerKeyExchange whose
// (hash, signature) pair is ARBITRARY (two 16-bit values) and whose signature verifies, for every client
// signature-scheme list of 0..NFSCHEME arbitrary pairs: the client goes on (initialises its cipher) only if
// the pair is in its own signature_algorithms list (whatever its signature_algorithms_cert list says); otherwise it stops with a fatal insufficient_security alert. Together with
// zzSigSchemePick (the server picks from ITS list) the negotiated scheme is one both sides allow.
//
//symgo:entry covers=accepted,refused,chain_list_checked
func zzSigSchemeClientAccepts() {
	cfg := &dtlsconfig.HandshakeConfig{
		LocalSignatureSchemes: zzSymPolicySchemes("client_scheme", zzsymChoice("nclient", zzsymParam("NFSCHEME")+1)),
		InsecureSkipVerify:    true,
	}
	// signature_algorithms_cert (certificate CHAIN signatures) is a separate, arbitrary list: it must not widen or
	// narrow the policy on the handshake signature
	if nc := zzsymChoice("ncertschemes", 2); nc > 0 {
		cfg.LocalCertSignatureSchemes = zzSymPolicySchemes("client_cert_scheme", nc)
	}
	zzChainCalls, zzChainAlgs = 0, nil
	verifyChain := zzsymChoice("verify_chain", 2) == 1
	cfg.InsecureSkipVerify = !verifyChain
	suite := &zzCertSuite{}
	state := &dtlsstate.State12{
		Common:          &dtlsstate.Common{IsClient: true, LocalVersion: protocol.Version1_2, CipherSuite: suite},
		PreMasterSecret: []byte{1},
	}
	state.PeerCertificates = [][]byte{{1}}
	ske := &handshake.MessageServerKeyExchange{
		EllipticCurveType:  elliptic.CurveTypeNamedCurve,
		NamedCurve:         elliptic.X25519,
		PublicKey:          []byte{9},
		HashAlgorithm:      dtlshash.Algorithm(zzsymU16("ske_hash")),
		SignatureAlgorithm: signature.Algorithm(zzsymU16("ske_sig")),
		Signature:          []byte{0x51},
	}
	allowed := zzSchemeAllowed(cfg.LocalSignatureSchemes, ske.HashAlgorithm, ske.SignatureAlgorithm)

	a, err := initializeCipherSuite(state, dtlsflight.NewCache(), cfg, ske, nil)
	if err != nil || a != nil {
		zzsymAssert(zzsymNot(allowed), "client_refuses_only_schemes_outside_its_list")
		zzsymAssert(a != nil && a.Level == alert.Fatal && a.Description == alert.InsufficientSecurity,
			"client_refusal_alerts_insufficient_security")
		zzsymAssert(!suite.initialized, "refused_scheme_never_keys_the_connection")
		zzsymCover("refused")

		return
	}
	zzsymAssert(allowed, "client_accepts_only_schemes_in_its_list")
	zzsymAssert(suite.initialized, "accepted_initialises_cipher")
	if verifyChain {
		zzChainListIs(cfg)
		zzsymCover("chain_list_checked")
	}
	zzsymCover("accepted")
}

// Server policy on the client's CertificateVerify scheme. The real flight4Parse on a client flight
// Certificate + ClientKeyExchange + CertificateVerify + Finished whose CertificateVerify carries an ARBITRARY
// (hash, signature) byte pair (the wire bytes are written by the harness per RFC 5246 7.4.8) and verifies, for
// every server signature-scheme list of 0..NFSCHEME arbitrary well-formed entries and client
// authentication required: the server reaches Flight6 only if the code point on the wire is one it configured; otherwise it stops with a fatal
// insufficient_security alert (or a decode failure for byte pairs that are no signature scheme at all).
//
//symgo:entry covers=accepted,refused_by_policy,undecodable,chain_list_checked
func zzSigSchemeServerAccepts() {
	// the server's policy: arbitrary well-formed (hash, signature) entries and, computed by the harness, the IANA
	// SignatureScheme code point each entry stands for
	policy := zzSymPolicySchemes("server_scheme", zzsymChoice("nserver", zzsymParam("NFSCHEME")+1))
	codes := make([]uint16, 0, len(policy))
	for _, e := range policy {
		zzsymAssume(zzWellFormedScheme(e))
		codes = append(codes, zzSchemeCode(e))
	}
	cfg := &dtlsconfig.HandshakeConfig{
		LocalSignatureSchemes: policy,
		ClientAuth:            dtlsconfig.RequireAnyClientCert,
		Log:                   zzNoLog{},
	}
	zzChainCalls, zzChainAlgs = 0, nil
	verifyChain := zzsymChoice("verify_chain", 2) == 1
	if verifyChain {
		cfg.ClientAuth = dtlsconfig.RequireAndVerifyClientCert
		if zzsymChoice("server_cert_scheme_list", 2) == 1 {
			cfg.LocalCertSignatureSchemes = zzSymPolicySchemes("server_cert_scheme", 1)
		}
	}
	suite := &zzCertSuite{initialized: true} // keys already derived: only the policy decisions remain
	server := zzNewPeer(false, cfg)
	server.state.CipherSuite = suite

	push := func(seq uint16, epoch uint16, m handshake.Message) {
		h := &handshake.Handshake{Message: m}
		h.Header.MessageSequence = seq
		raw, err := h.Marshal()
		zzsymAssert(err == nil, "harness_marshal")
		server.cache.Push(raw, epoch, seq, m.Type(), true)
	}
	push(0, 0, &handshake.MessageCertificate{Certificate: [][]byte{{1}}})
	push(1, 0, &handshake.MessageClientKeyExchange{PublicKey: []byte{4, 5}})
	// CertificateVerify by hand: HashAlgorithm(1) SignatureAlgorithm(1) opaque signature<0..2^16-1>
	hashByte, sigByte := zzsymU8("cv_hash"), zzsymU8("cv_sig")
	body := []byte{hashByte, sigByte, 0, 1, 0x51}
	hdr := handshake.Header{
		Type: handshake.TypeCertificateVerify, Length: uint32(len(body)), MessageSequence: 2,
		FragmentLength: uint32(len(body)),
	}
	rawHdr, herr := hdr.Marshal()
	zzsymAssert(herr == nil, "harness_header")
	server.cache.Push(append(rawHdr, body...), 0, 2, handshake.TypeCertificateVerify, true)
	push(3, 1, &handshake.MessageFinished{VerifyData: make([]byte, 12)})

	// oracle on the wire: the two bytes are the SignatureScheme code point the client signed with
	wire := uint16(hashByte)<<8 | uint16(sigByte)
	allowed := false
	for _, code := range codes {
		allowed = zzsymOr(allowed, code == wire)
	}

	next, a, err := zzParse(server, Flight4)
	a = zzFatal(a, err)
	if next == Flight6 {
		zzsymAssert(err == nil && a == nil, "flight6_without_error")
		zzsymAssert(allowed, "server_accepts_only_schemes_in_its_list")
		if verifyChain {
			zzChainListIs(cfg)
			zzsymCover("chain_list_checked")
		}
		zzsymCover("accepted")

		return
	}
	zzsymAssert(err != nil && a != nil && a.Level == alert.Fatal, "server_refusal_carries_fatal_alert")
	if a.Description == alert.InsufficientSecurity {
		zzsymAssert(zzsymNot(allowed), "server_refuses_only_schemes_outside_its_list")
		zzsymCover("refused_by_policy")
	} else {
		zzsymCover("undecodable")
	}
}
