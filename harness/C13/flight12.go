package flight12

//symgo:pkg github.com/pion/dtls/v3/internal/flight/flight12
//symgo:param NSID quick=2 thorough=3
//symgo:param NEXT quick=2 thorough=4
//symgo:param NC1 quick=1 thorough=2
//symgo:replace github.com/pion/dtls/v3/pkg/crypto/elliptic.GenerateKeypair zzGenerateKeypair
//symgo:replace (*github.com/pion/dtls/v3/internal/state.State12).InitCipherSuite zzInitCipherSuite
//symgo:stub elliptic.GenerateKeypair returns a fixed dummy key pair and counts its invocations (real ECDH key generation is assembly); State12.InitCipherSuite (key expansion, reached only on the resumption path) is a counting no-op; crypto/rand.Reader is a harness reader that hands out fresh symbolic bytes and records them
//symgo:assume ClientHello messages reach the flight handlers through the handshake cache as complete, unfragmented messages whose 12-byte handshake header is consistent with the cache metadata (type 1, sequence number, length) - this is what Conn.bufferHandshakeRecord stores after reassembly
//symgo:outside ClientHello bodies larger than the bounds (session id <= NSID-1 bytes, one cipher suite, one compression method, at most one extension of the kinds listed in zzExtBlock)

import (
	"context"
	"crypto/rand"

	"github.com/pion/dtls/v3/internal/ciphersuite"
	dtlsconfig "github.com/pion/dtls/v3/internal/config"
	dtlsflight "github.com/pion/dtls/v3/internal/flight"
	dtlsstate "github.com/pion/dtls/v3/internal/state"
	"github.com/pion/dtls/v3/pkg/crypto/elliptic"
	"github.com/pion/dtls/v3/pkg/protocol/handshake"
	"github.com/pion/dtls/v3/pkg/protocol/recordlayer"
)

// ---------------------------------------------------------------------------------------------
// stubs

var zzKeypairCalls int

func zzGenerateKeypair(c elliptic.Curve) (*elliptic.Keypair, error) {
	zzKeypairCalls++
	return &elliptic.Keypair{Curve: c, PublicKey: []byte{4, 1, 2}, PrivateKey: []byte{9}}, nil
}

// zzRandReader is the entropy source: every Read returns fresh unconstrained bytes and logs them.
type zzRandReader struct{ log *[][]byte }

func (r zzRandReader) Read(p []byte) (int, error) {
	b := zzsymBytes("rand", len(p))
	copy(p, b)
	*r.log = append(*r.log, b)
	return len(p), nil
}

type zzLogger struct{}

func (zzLogger) Trace(string)          {}
func (zzLogger) Tracef(string, ...any) {}
func (zzLogger) Debug(string)          {}
func (zzLogger) Debugf(string, ...any) {}
func (zzLogger) Info(string)           {}
func (zzLogger) Infof(string, ...any)  {}
func (zzLogger) Warn(string)           {}
func (zzLogger) Warnf(string, ...any)  {}
func (zzLogger) Error(string)          {}
func (zzLogger) Errorf(string, ...any) {}

// ---------------------------------------------------------------------------------------------
// ClientHello builder: RFC 6347 section 4.2.2 / 4.3.2 layout written out by hand.
//
//	handshake header: msg_type(1)=1 length(3) message_seq(2) fragment_offset(3)=0 fragment_length(3)=length
//	body: client_version(2) random(32) session_id<0..32> cookie<0..255> cipher_suites<2..2^16-2>
//	      compression_methods<1..255> extensions<0..2^16-1>

type zzHello struct {
	raw     []byte // header + body as stored in the handshake cache
	version []byte
	random  []byte
	sid     []byte
	cookie  []byte
	suites  []byte // without the length prefix
	comp    []byte // without the length prefix
	ext     []byte // extension block without its 2-byte length
}

const (
	zzExtNone    = 0
	zzExtUnknown = 1 // private-use type 0xfafa, one payload byte
	zzExtCID     = 2 // connection_id(54): 1-byte length + 1 byte
	zzExtEMS     = 3 // extended_master_secret(23), empty
	zzExtSRTP    = 4 // use_srtp(14): profiles<2..> = one profile, mki<0>
	zzExtGroups  = 5 // supported_groups(10): two arbitrary named groups (the client's preference order)
	zzExtBig     = 6 // private-use type 0xfafa with 1100 payload bytes (one arbitrary): a ClientHello beyond 1 KiB
)

// zzExtBlock returns the extension block (without the outer length) of the given kind with symbolic payload.
func zzExtBlock(tag string, kind int) []byte {
	switch kind {
	case zzExtUnknown:
		return append([]byte{0xfa, 0xfa, 0, 1}, zzsymBytes(tag+"_extdata", 1)...)
	case zzExtCID:
		return append([]byte{0, 54, 0, 2, 1}, zzsymBytes(tag+"_cid", 1)...)
	case zzExtEMS:
		return []byte{0, 23, 0, 0}
	case zzExtSRTP:
		return append(append([]byte{0, 14, 0, 5, 0, 2}, zzsymBytes(tag+"_srtp", 2)...), 0)
	case zzExtGroups:
		return append([]byte{0, 10, 0, 6, 0, 4}, zzsymBytes(tag+"_groups", 4)...)
	case zzExtBig:
		pay := make([]byte, 1100)
		pay[1099] = zzsymU8(tag + "_bigext_last")
		return append([]byte{0xfa, 0xfa, 1100 >> 8, 1100 & 0xff}, pay...)
	}
	return nil
}

func zzBuildHello(seq uint16, version, random, sid, cookie, suites, comp, ext []byte) *zzHello {
	body := []byte{}
	body = append(body, version...)
	body = append(body, random...)
	body = append(body, byte(len(sid)))
	body = append(body, sid...)
	body = append(body, byte(len(cookie)))
	body = append(body, cookie...)
	body = append(body, byte(len(suites)>>8), byte(len(suites)))
	body = append(body, suites...)
	body = append(body, byte(len(comp)))
	body = append(body, comp...)
	body = append(body, byte(len(ext)>>8), byte(len(ext)))
	body = append(body, ext...)
	n := len(body)
	hdr := []byte{1, byte(n >> 16), byte(n >> 8), byte(n), byte(seq >> 8), byte(seq), 0, 0, 0, byte(n >> 16), byte(n >> 8), byte(n)}
	return &zzHello{raw: append(hdr, body...), version: version, random: random, sid: sid, cookie: cookie, suites: suites, comp: comp, ext: ext}
}

// zzFirstHello: a well-formed first ClientHello (version 1.2, cipher suite the server supports, null
// compression) with arbitrary random, session id of sidLen bytes, arbitrary cookie field of cookieLen bytes.
func zzFirstHello(sidLen, cookieLen, extKind int) *zzHello {
	return zzBuildHello(0, []byte{0xfe, 0xfd}, zzsymBytes("ch1_random", 32), zzsymBytes("ch1_sid", sidLen),
		zzsymBytes("ch1_cookie", cookieLen), []byte{0xc0, 0x2b}, []byte{0}, zzExtBlock("ch1", extKind))
}

// zzSecondHello: message_seq 1, every field arbitrary (including version, cipher suite, compression).
func zzSecondHello(sidLen, cookieLen, extKind int) *zzHello {
	return zzBuildHello(1, zzsymBytes("ch2_version", 2), zzsymBytes("ch2_random", 32), zzsymBytes("ch2_sid", sidLen),
		zzsymBytes("ch2_cookie", cookieLen), zzsymBytes("ch2_suite", 2), zzsymBytes("ch2_comp", 1), zzExtBlock("ch2", extKind))
}

func zzServerConfig() *dtlsconfig.HandshakeConfig {
	return &dtlsconfig.HandshakeConfig{
		LocalCipherSuites: []dtlsconfig.CipherSuite{&ciphersuite.TLSEcdheEcdsaWithAes128GcmSha256{}},
		EllipticCurves:    []elliptic.Curve{elliptic.X25519, elliptic.P256},
		Log:               zzLogger{},
	}
}

// zzServerState: a DTLS 1.2 server state as flight0Generate leaves it (default curve = first configured one);
// the cookie is set by the caller to arbitrary bytes.
func zzServerState() *dtlsstate.State12 {
	st := dtlsstate.NewState12(false)
	st.NamedCurve = elliptic.X25519
	return &st
}

// zzCookieLen maps a choice to the cookie lengths of interest: absent, truncated, exact, too long.
func zzCookieLen(i int) int {
	switch i {
	case 0:
		return cookieLength
	case 1:
		return 0
	case 2:
		return cookieLength - 1
	}
	return cookieLength + 1
}

// zzEchoOK is the property's acceptance condition written from RFC 6347 section 4.2.1: the second ClientHello
// carries exactly the issued cookie and client_version, random, session_id, cipher_suites and
// compression_methods are those of the first one. (Extensions are compared separately.)
func zzEchoOK(ch1, ch2 *zzHello, issued []byte) bool {
	ok := zzsymEqBytes(ch2.cookie, issued)
	ok = zzsymAnd(ok, zzsymEqBytes(ch2.version, ch1.version))
	ok = zzsymAnd(ok, zzsymEqBytes(ch2.random, ch1.random))
	ok = zzsymAnd(ok, zzsymEqBytes(ch2.sid, ch1.sid))
	ok = zzsymAnd(ok, zzsymEqBytes(ch2.suites, ch1.suites))
	ok = zzsymAnd(ok, zzsymEqBytes(ch2.comp, ch1.comp))
	return ok
}

// ---------------------------------------------------------------------------------------------

// DTLS 1.2 server, hello verification enabled, no session store. First ClientHello: arbitrary random,
// session id 0..NSID-1 bytes, cookie field empty or 1 arbitrary byte, extension none/unknown/connection_id/
// extended_master_secret/use_srtp. flight0Parse must answer Flight2 (cookie request). Then a second
// ClientHello (message_seq 1) with EVERY field arbitrary - version, random, session id (same or different
// length), cookie absent / 19 / 20 / 21 bytes, cipher suite, compression, extension kind and payload - is
// parsed by flight2Parse against an arbitrary issued 20-byte cookie. Proved: Flight4 (ServerHello,
// Certificate, key exchange) is returned only if the cookie field equals the issued cookie byte for byte and
// version, random, session id, cipher suites, compression methods equal the first ClientHello and the
// connection_id / use_srtp extensions are unchanged; in every other case no flight is returned and the
// handshake is aborted with a fatal alert or error. Cover accepted_ext_changed witnesses that Flight4 is
// reachable with a second ClientHello whose other extensions differ from the first one; the corresponding
// assertion ("otherwise identical" in the property text) is hvr_other_extensions_equal in zzHvrEqual
// (negotiation.go), which is natively replayable.
//
//symgo:entry covers=accepted,rejected_cookie,rejected_body,rejected_absent,rejected_truncated,rejected_ext,accepted_ext_changed
func zzGate12() {
	cfg := zzServerConfig()
	state := zzServerState()
	issued := zzsymBytes("issued", cookieLength)
	state.Cookie = issued
	cache := dtlsflight.NewCache()

	sid1 := zzsymChoice("sid1", zzsymParam("NSID"))
	ext1 := zzsymChoice("ext1", zzsymParam("NEXT")+1)
	ch1 := zzFirstHello(sid1, zzsymChoice("cookie1", zzsymParam("NC1")), ext1)
	cache.Push(ch1.raw, 0, 0, handshake.TypeClientHello, true)
	f, a, err := flight0Parse(context.Background(), nil, state, cache, cfg)
	zzsymAssert(err == nil, "first_hello_parses")
	zzsymAssert(a == nil, "first_hello_no_alert")
	zzsymAssert(f == Flight2, "first_hello_gets_cookie_request")

	sid2 := zzsymChoice("sid2", zzsymParam("NSID"))
	ext2 := zzsymChoice("ext2", zzsymParam("NEXT")+1)
	clen2 := zzCookieLen(zzsymChoice("cookie2", 4))
	ch2 := zzSecondHello(sid2, clen2, ext2)
	cache.Push(ch2.raw, 0, 1, handshake.TypeClientHello, true)
	f2, a2, err2 := flight2Parse(context.Background(), nil, state, cache, cfg)

	echo := zzEchoOK(ch1, ch2, issued)
	extSame := zzsymEqBytes(ch1.ext, ch2.ext)
	if f2 == Flight4 {
		zzsymAssert(zzsymEqBytes(ch2.cookie, issued), "gate12_cookie_echoed_exactly")
		zzsymAssert(echo, "gate12_fields_identical")
		// connection_id and use_srtp must be unchanged (presence and payload)
		if ext1 == zzExtCID || ext2 == zzExtCID || ext1 == zzExtSRTP || ext2 == zzExtSRTP {
			zzsymAssert(extSame, "gate12_cid_srtp_unchanged")
		}
		if extSame {
			zzsymCover("accepted")
		} else {
			zzsymCover("accepted_ext_changed")
		}
		return
	}
	// not accepted: nothing is sent next, handshake aborted
	zzsymAssert(f2 == 0, "gate12_reject_no_flight")
	zzsymAssert(zzsymOr(a2 != nil, err2 != nil), "gate12_reject_aborts")
	if clen2 == 0 {
		zzsymCover("rejected_absent")
	} else if clen2 == cookieLength-1 {
		zzsymCover("rejected_truncated")
	} else if clen2 == cookieLength {
		if !zzsymEqBytes(ch2.cookie, issued) {
			zzsymCover("rejected_cookie")
		} else if !echo {
			zzsymCover("rejected_body")
		} else {
			zzsymCover("rejected_ext")
		}
	}
}

// The same gate for a ClientHello beyond 1 KiB (a 1100-byte private-use extension in both hellos; a client with long
// suite, ALPN or group lists sends such hellos): the first ClientHello is remembered whatever its size, so the second
// one - exact cookie, every other field arbitrary - reaches flight 4 only if version, random, session id, cipher
// suites and compression methods are those of the first. (A server that does not keep the first hello compares the
// second one with itself.)
//
//symgo:entry covers=big_accepted,big_rejected
func zzGate12BigHello() {
	cfg := zzServerConfig()
	state := zzServerState()
	issued := zzsymBytes("issued", cookieLength)
	state.Cookie = issued
	cache := dtlsflight.NewCache()
	ch1 := zzFirstHello(0, 0, zzExtBig)
	cache.Push(ch1.raw, 0, 0, handshake.TypeClientHello, true)
	f, a, err := flight0Parse(context.Background(), nil, state, cache, cfg)
	zzsymAssert(err == nil && a == nil && f == Flight2, "big_first_hello_gets_cookie_request")
	ch2 := zzSecondHello(0, cookieLength, zzExtBig)
	cache.Push(ch2.raw, 0, 1, handshake.TypeClientHello, true)
	f2, a2, err2 := flight2Parse(context.Background(), nil, state, cache, cfg)
	if f2 == Flight4 {
		zzsymAssert(zzEchoOK(ch1, ch2, issued), "gate12_big_hello_fields_identical")
		zzsymCover("big_accepted")
		return
	}
	zzsymAssert(f2 == 0 && zzsymOr(a2 != nil, err2 != nil), "gate12_big_reject_aborts")
	zzsymCover("big_rejected")
}

// flight2Generate (DTLS 1.2) for an arbitrary 20-byte issued cookie: the flight consists of exactly one
// packet, not encrypted, epoch 0, whose handshake message encodes (RFC 6347 section 4.2.1) as
// msg_type 3, body = server_version fe fd, cookie length 20, the issued cookie. No alert, no error, and
// nothing but this message: no ServerHello, Certificate or ServerKeyExchange.
//
//symgo:entry covers=hvr
func zzOnlyHelloVerifyRequest12() {
	cfg := zzServerConfig()
	state := zzServerState()
	issued := zzsymBytes("issued", cookieLength)
	state.Cookie = issued
	state.HandshakeSendSequence = int(zzsymU8("sendseq"))
	pkts, a, err := flight2Generate(nil, state, dtlsflight.NewCache(), cfg)
	zzsymAssert(err == nil, "hvr_no_error")
	zzsymAssert(a == nil, "hvr_no_alert")
	zzsymAssert(len(pkts) == 1, "hvr_exactly_one_packet")
	p := pkts[0]
	zzsymAssert(!p.ShouldEncrypt, "hvr_plaintext")
	zzsymAssert(p.Record.Header.Epoch == 0, "hvr_epoch0")
	hs, ok := p.Record.Content.(*handshake.Handshake)
	zzsymAssert(ok, "hvr_is_handshake")
	raw, merr := hs.Marshal()
	zzsymAssert(merr == nil, "hvr_marshals")
	want := append([]byte{0xfe, 0xfd, cookieLength}, issued...)
	zzsymAssert(len(raw) == handshake.HeaderLength+len(want), "hvr_wire_length")
	zzsymAssert(raw[0] == 3, "hvr_wire_type_is_hello_verify_request")
	zzsymAssert(zzsymEqBytes(raw[handshake.HeaderLength:], want), "hvr_wire_carries_issued_cookie")
	zzsymAssert(state.HandshakeSendSequence == 0, "hvr_send_sequence_reset")
	rec, rerr := p.Record.Marshal()
	zzsymAssert(rerr == nil, "hvr_record_marshals")
	zzsymAssert(len(rec) == recordlayer.FixedHeaderSize+len(raw), "hvr_record_length")
	zzsymAssert(rec[0] == 22, "hvr_record_is_handshake")
	zzsymCover("hvr")
}

var zzInitCalls int

func zzInitCipherSuite(s *dtlsstate.State12) error {
	zzInitCalls++
	return nil
}

// flight0Parse (DTLS 1.2 server) on a well-formed first ClientHello (arbitrary random, session id of
// 0..NSID-1 arbitrary bytes, cookie field empty or one arbitrary byte, extension kinds as in zzGate12) under
// every configuration of {hello verify enabled/disabled} x {no session store, store misses, store hits,
// store fails}. Proved: with hello verify enabled the answer is Flight2 (cookie request) unless the
// ClientHello names a session the store knows (then Flight4b, abbreviated handshake, no certificate) or
// the store lookup fails (abort); Flight4 is reached from a first ClientHello only when hello verify is
// disabled. The lookup key passed to the store is the session id of the ClientHello.
//
//symgo:entry covers=cookie_request,resumed,store_error,verify_disabled,store_miss
func zzFirstHelloAnswer12() {
	cfg := zzServerConfig()
	cfg.InsecureSkipHelloVerify = zzsymChoice("skipverify", 2) == 1
	store := zzsymChoice("store", 4) // 0 none, 1 miss, 2 hit, 3 error
	var asked []byte
	lookups := 0
	if store != 0 {
		cfg.HasSessionStore = true
		cfg.GetSession = func(key []byte) ([]byte, []byte, error) {
			lookups++
			asked = key
			switch store {
			case 2:
				return []byte{1}, []byte{2}, nil
			case 3:
				return nil, nil, context.Canceled
			}
			return nil, nil, nil
		}
	}
	state := zzServerState()
	state.Cookie = zzsymBytes("issued", cookieLength)
	cache := dtlsflight.NewCache()
	sid1 := zzsymChoice("sid1", zzsymParam("NSID"))
	ch1 := zzFirstHello(sid1, zzsymChoice("cookie1", zzsymParam("NC1")), zzsymChoice("ext1", zzsymParam("NEXT")+1))
	cache.Push(ch1.raw, 0, 0, handshake.TypeClientHello, true)
	f, a, err := flight0Parse(context.Background(), nil, state, cache, cfg)

	knownSession := store == 2 && sid1 > 0
	lookupFails := store == 3 && sid1 > 0
	switch {
	case lookupFails:
		zzsymAssert(f == 0, "store_error_no_flight")
		zzsymAssert(zzsymOr(a != nil, err != nil), "store_error_aborts")
		zzsymCover("store_error")
	case knownSession:
		zzsymAssert(f == Flight4b, "known_session_resumes")
		zzsymAssert(zzsymEqBytes(asked, ch1.sid), "store_asked_for_hello_session_id")
		zzsymCover("resumed")
	case cfg.InsecureSkipHelloVerify:
		zzsymAssert(f == Flight4, "verify_disabled_goes_to_flight4")
		zzsymCover("verify_disabled")
	default:
		zzsymAssert(err == nil, "first_hello_parses")
		zzsymAssert(f == Flight2, "first_hello_gets_only_cookie_request")
		zzsymAssert(zzInitCalls == 0, "no_cipher_init_before_cookie")
		if store == 1 && sid1 > 0 {
			zzsymAssert(lookups == 1, "store_consulted")
			zzsymCover("store_miss")
		}
		zzsymCover("cookie_request")
	}
	if sid1 == 0 {
		zzsymAssert(lookups == 0, "no_lookup_without_session_id")
	}
}

// Key-exchange work before the cookie round trip (last sentence of the property): a DTLS 1.2 server with
// hello verification enabled that answers a first ClientHello with a cookie request must not have generated
// an ephemeral (EC)DH key pair for it - the source address is still unverified.
//
//symgo:entry covers=cookie_request,non_default_curve,refused,ecdhe_psk,plain_psk
func zzNoKeyWorkBeforeCookie12() {
	cfg := zzServerConfig()
	state := zzServerState()
	state.Cookie = zzsymBytes("issued", cookieLength)
	cache := dtlsflight.NewCache()
	// every extension kind of the menu, including supported_groups with two ARBITRARY named groups in the client's
	// preference order (a client preferring P-256 or offering only P-384 makes the server select a curve other
	// than its default one)
	ch1 := zzFirstHello(0, 0, zzsymChoice("ch1_ext", 6))
	// the suite family must not matter (seed C13k-2): certificate ECDHE, ECDHE_PSK (the one PSK family with an
	// ephemeral key) and plain PSK, each offered by the client and configured on the server
	switch zzsymChoice("family", 3) {
	case 1:
		cfg.LocalCipherSuites = []dtlsconfig.CipherSuite{ciphersuite.NewTLSEcdhePskWithAes128CbcSha256()}
		cfg.LocalPSKCallback = func([]byte) ([]byte, error) { return []byte{1, 2, 3}, nil }
		ch1 = zzBuildHello(0, []byte{0xfe, 0xfd}, ch1.random, ch1.sid, ch1.cookie, []byte{0xc0, 0x37}, []byte{0}, ch1.ext)
		zzsymCover("ecdhe_psk")
	case 2:
		cfg.LocalCipherSuites = []dtlsconfig.CipherSuite{&ciphersuite.TLSPskWithAes128GcmSha256{}}
		cfg.LocalPSKCallback = func([]byte) ([]byte, error) { return []byte{1, 2, 3}, nil }
		ch1 = zzBuildHello(0, []byte{0xfe, 0xfd}, ch1.random, ch1.sid, ch1.cookie, []byte{0x00, 0xa8}, []byte{0}, ch1.ext)
		zzsymCover("plain_psk")
	}
	cache.Push(ch1.raw, 0, 0, handshake.TypeClientHello, true)
	f, a, err := flight0Parse(context.Background(), nil, state, cache, cfg)
	if err != nil || a != nil {
		// a hello the server cannot serve (no common group) is refused: no key work either
		zzsymAssert(zzKeypairCalls == 0 && state.LocalKeypair == nil, "no_keypair_for_refused_hello_12")
		zzsymCover("refused")

		return
	}
	zzsymAssert(f == Flight2, "first_hello_gets_only_cookie_request")
	zzsymCover("cookie_request")
	if state.NamedCurve != elliptic.X25519 {
		zzsymCover("non_default_curve")
	}
	zzsymAssert(zzKeypairCalls == 0, "no_keypair_generated_before_cookie_12")
	zzsymAssert(state.LocalKeypair == nil, "no_keypair_stored_before_cookie_12")
}

// flight0Generate (DTLS 1.2 server start): with hello verification enabled the cookie is exactly 20 bytes
// and every byte is the output of one crypto/rand read made for this connection (the reader is a harness
// source of unconstrained bytes that logs what it handed out); a second connection gets the bytes of a
// separate read (nothing cached or derived from the first); nothing is sent in flight 0. With hello
// verification disabled no cookie is set.
//
//symgo:entry covers=cookie,no_cookie
func zzCookieFresh12() {
	var log [][]byte
	rand.Reader = zzRandReader{&log}
	cfg := zzServerConfig()
	cfg.InsecureSkipHelloVerify = zzsymChoice("skipverify", 2) == 1
	st := dtlsstate.NewState12(false)
	state := &st
	pkts, a, err := flight0Generate(nil, state, dtlsflight.NewCache(), cfg)
	zzsymAssert(zzsymAnd(err == nil, a == nil), "flight0_ok")
	zzsymAssert(len(pkts) == 0, "flight0_sends_nothing")
	if cfg.InsecureSkipHelloVerify {
		zzsymAssert(len(state.Cookie) == 0, "no_cookie_when_disabled")
		zzsymCover("no_cookie")
		return
	}
	zzsymAssert(len(state.Cookie) == 20, "cookie_is_20_bytes")
	zzsymAssert(len(log) >= 1, "entropy_was_read")
	zzsymAssert(len(log[0]) == 20, "cookie_read_is_20_bytes")
	zzsymAssert(zzsymEqBytes(state.Cookie, log[0]), "cookie_is_rand_output")
	n1 := len(log)
	st2 := dtlsstate.NewState12(false)
	state2 := &st2
	_, _, err = flight0Generate(nil, state2, dtlsflight.NewCache(), cfg)
	zzsymAssert(err == nil, "flight0_ok")
	zzsymAssert(len(log) > n1, "second_connection_reads_entropy_again")
	zzsymAssert(zzsymEqBytes(state2.Cookie, log[n1]), "second_cookie_is_new_rand_output")
	zzsymCover("cookie")
}
