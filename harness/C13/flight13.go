package flight13

//symgo:pkg github.com/pion/dtls/v3/internal/flight/flight13
//symgo:param NSID quick=2 thorough=3
//symgo:param NEXTRA quick=2 thorough=3
//symgo:param NPOS quick=2 thorough=3
//symgo:replace github.com/pion/dtls/v3/pkg/crypto/elliptic.GenerateKeypairForPeer zzGenerateKeypairForPeer
//symgo:replace github.com/pion/dtls/v3/pkg/crypto/prf.PreMasterSecret zzPreMasterSecret
//symgo:stub elliptic.GenerateKeypairForPeer and prf.PreMasterSecret (ECDH, assembly) return fixed dummy values and count their invocations; crypto/rand.Reader is a harness reader handing out fresh symbolic bytes
//symgo:assume ClientHello messages reach the flight handlers through the handshake cache as complete, unfragmented messages whose 12-byte handshake header is consistent with the cache metadata (what Conn.bufferHandshakeRecord stores)
//symgo:outside ClientHello shapes beyond the bounds: the first ClientHello offers exactly DTLS 1.3, TLS_AES_128_GCM_SHA256, x25519 with a 1-byte share, one signature scheme, plus at most one further extension (unknown / connection_id / padding); the second one has the same extension kinds with arbitrary variable payload bytes, arbitrary legacy fields, and a cookie extension (absent / 1 byte short / exact / 1 byte long) at one of NPOS positions

import (
	"context"
	"crypto/rand"

	"github.com/pion/dtls/v3/internal/ciphersuite"
	dtlsconfig "github.com/pion/dtls/v3/internal/config"
	dtlsflight "github.com/pion/dtls/v3/internal/flight"
	dtlsstate "github.com/pion/dtls/v3/internal/state"
	"github.com/pion/dtls/v3/pkg/crypto/elliptic"
	"github.com/pion/dtls/v3/pkg/protocol/handshake"
)

var zzKxCalls int

func zzGenerateKeypairForPeer(c elliptic.Curve, peer []byte) (*elliptic.Keypair, error) {
	zzKxCalls++
	return &elliptic.Keypair{Curve: c, PublicKey: []byte{7}, PrivateKey: []byte{9}}, nil
}

func zzPreMasterSecret(pub, priv []byte, c elliptic.Curve) ([]byte, error) {
	zzKxCalls++
	return []byte{1, 2, 3}, nil
}

type zzRandReader struct{ log *[][]byte }

func (r zzRandReader) Read(p []byte) (int, error) {
	b := zzsymBytes("rand", len(p))
	copy(p, b)
	*r.log = append(*r.log, b)
	return len(p), nil
}

// ---------------------------------------------------------------------------------------------
// ClientHello builder (RFC 9147 section 5.3 / RFC 8446 section 4.1.2, written out by hand)
//   handshake header: msg_type(1)=1 length(3) message_seq(2) fragment_offset(3)=0 fragment_length(3)=length
//   body: legacy_version(2) random(32) legacy_session_id<0..32> legacy_cookie<0..255> cipher_suites<2..>
//         legacy_compression_methods<1..> extensions<..>; extension = type(2) length(2) data

type zzExt struct {
	typ  uint16
	data []byte
}

type zzHello struct {
	raw     []byte
	version []byte
	random  []byte
	sid     []byte
	cookie  []byte
	suites  []byte
	comp    []byte
	exts    []zzExt
}

func zzBuildHello(seq uint16, version, random, sid, cookie, suites, comp []byte, exts []zzExt) *zzHello {
	body := []byte{}
	body = append(body, version...)
	body = append(body, random...)
	body = append(body, byte(len(sid)))
	body = append(body, sid...)
	body = append(body, byte(len(cookie)))
	body = append(body, cookie...)
	body = append(body, byte(len(suites)>>8), byte(len(suites)))
	body = append(body, suites...)
	body = append(body, byte(len(comp)))
	body = append(body, comp...)
	block := []byte{}
	for _, e := range exts {
		block = append(block, byte(e.typ>>8), byte(e.typ), byte(len(e.data)>>8), byte(len(e.data)))
		block = append(block, e.data...)
	}
	body = append(body, byte(len(block)>>8), byte(len(block)))
	body = append(body, block...)
	n := len(body)
	hdr := []byte{1, byte(n >> 16), byte(n >> 8), byte(n), byte(seq >> 8), byte(seq), 0, 0, 0, byte(n >> 16), byte(n >> 8), byte(n)}
	return &zzHello{raw: append(hdr, body...), version: version, random: random, sid: sid, cookie: cookie, suites: suites, comp: comp, exts: exts}
}

const (
	zzExtraNone    = 0
	zzExtraUnknown = 1 // private-use type 0xfafa, 1 payload byte
	zzExtraPadding = 2 // padding(21), 1 byte
	zzExtraCID     = 3 // connection_id(54), 1-byte cid
)

// zzBaseExts: the extensions a DTLS 1.3 ClientHello needs: supported_versions{DTLS1.3},
// supported_groups{x25519}, signature_algorithms{ecdsa_secp256r1_sha256}, key_share{x25519, 1-byte share}
// plus one optional extra. The key share byte and the extra payload are symbolic.
func zzBaseExts(tag string, extra int) []zzExt {
	exts := []zzExt{
		{43, []byte{2, 0xfe, 0xfc}},
		{10, []byte{0, 2, 0, 0x1d}},
		{13, []byte{0, 2, 4, 3}},
		{51, append([]byte{0, 5, 0, 0x1d, 0, 1}, zzsymBytes(tag+"_share", 1)...)},
	}
	switch extra {
	case zzExtraUnknown:
		exts = append(exts, zzExt{0xfafa, zzsymBytes(tag+"_extra", 1)})
	case zzExtraPadding:
		exts = append(exts, zzExt{21, zzsymBytes(tag+"_pad", 1)})
	case zzExtraCID:
		exts = append(exts, zzExt{54, append([]byte{1}, zzsymBytes(tag+"_cid", 1)...)})
	}
	return exts
}

func zzServerConfig() *dtlsconfig.HandshakeConfig {
	return &dtlsconfig.HandshakeConfig{
		LocalCipherSuites: []dtlsconfig.CipherSuite{ciphersuite.NewTLSAes128GcmSha256()},
		EllipticCurves:    []elliptic.Curve{elliptic.X25519},
	}
}

func zzNewServer(cfg *dtlsconfig.HandshakeConfig) (*dtlsstate.State13, *dtlsflight.Cache, *handshakeContext) {
	st := dtlsstate.NewState13(false)
	state := &st
	cache := dtlsflight.NewCache()
	return state, cache, newHandshakeContext(ParseDependencies{State: state, Cache: cache, Config: cfg})
}

func zzSameExts(a, b []zzExt) bool {
	if len(a) != len(b) {
		return false
	}
	ok := true
	for i := range a {
		ok = zzsymAnd(ok, zzsymAnd(a[i].typ == b[i].typ, zzsymEqBytes(a[i].data, b[i].data)))
	}
	return ok
}

// zzCarryOver: the extensions that must be carried over unchanged (RFC 8446 4.1.2) when the HelloRetryRequest
// carried only a cookie: all but padding(21) and cookie(44); early_data(42) is dropped from the first hello.
func zzCarryOver(exts []zzExt, first bool) []zzExt {
	out := []zzExt{}
	for _, e := range exts {
		if e.typ == 21 || e.typ == 44 || (first && e.typ == 42) {
			continue
		}
		out = append(out, e)
	}
	return out
}

// zzHrrWire checks the HelloRetryRequest wire image against RFC 8446 section 4.1.4 / RFC 9147 section 5.3:
// msg_type 2, legacy_version fefd, the fixed HelloRetryRequest random, cipher suite 0x1301, compression 0,
// extensions supported_versions = DTLS 1.3 (fefc) and cookie = uint16 length + issued cookie, nothing else.
func zzHrrWire(raw []byte, issued []byte) bool {
	magic := []byte{0xCF, 0x21, 0xAD, 0x74, 0xE5, 0x9A, 0x61, 0x11, 0xBE, 0x1D, 0x8C, 0x02, 0x1E, 0x65, 0xB8, 0x91,
		0xC2, 0xA2, 0x11, 0x16, 0x7A, 0xBB, 0x8C, 0x5E, 0x07, 0x9E, 0x09, 0xE2, 0xC8, 0xA8, 0x33, 0x9C}
	want := []byte{0xfe, 0xfd}
	want = append(want, magic...)
	want = append(want, 0)          // legacy_session_id_echo (empty)
	want = append(want, 0x13, 0x01) // cipher suite
	want = append(want, 0)          // compression
	n := len(issued)
	extlen := 4 + 2 + 4 + 2 + n
	want = append(want, byte(extlen>>8), byte(extlen))
	want = append(want, 0, 43, 0, 2, 0xfe, 0xfc)
	want = append(want, 0, 44, byte((n+2)>>8), byte(n+2), byte(n>>8), byte(n))
	want = append(want, issued...)
	if len(raw) != handshake.HeaderLength+len(want) {
		return false
	}
	return zzsymAnd(raw[0] == 2, zzsymEqBytes(raw[handshake.HeaderLength:], want))
}

// DTLS 1.3 server, hello verification enabled. First ClientHello (arbitrary random, legacy session id of
// 0..NSID-1 bytes, key share byte and extra extension none/unknown/padding/connection_id with arbitrary
// payload) is parsed by flight0Parse: the answer must be Flight2. flight2Generate must then produce exactly
// one packet whose wire image is a HelloRetryRequest carrying the issued 20-byte cookie (arbitrary bytes)
// and nothing else. A second ClientHello (message_seq 1) with arbitrary legacy version, random, session id
// (same or different length), cipher suite, compression byte, key share byte, extra extension kind/payload
// and a cookie extension that is absent / 19 / 20 / 21 arbitrary bytes at one of NPOS positions is parsed by
// flight2Parse. Proved: Flight4 (ServerHello .. Certificate, Finished) is returned only if the cookie
// extension_data is exactly uint16(20)+issued cookie, all legacy fields are byte-identical to the first
// ClientHello and all other extensions except padding are unchanged; otherwise no flight is returned, the
// handshake aborts (alert or error), and no ECDH key generation / shared-secret computation has been done.
//
//symgo:entry covers=accepted,accepted_padding_changed,rej_absent,rej_truncated,rej_too_long,rej_wrong,rej_fields,rej_exts
func zzGate13() {
	cfg := zzServerConfig()
	state, cache, hctx := zzNewServer(cfg)
	issued := zzsymBytes("issued", cookieLength)
	state.Cookie = issued

	sid1 := zzsymChoice("sid1", zzsymParam("NSID"))
	extra1 := zzsymChoice("extra1", zzsymParam("NEXTRA")+1)
	ch1 := zzBuildHello(0, []byte{0xfe, 0xfd}, zzsymBytes("ch1_random", 32), zzsymBytes("ch1_sid", sid1), nil,
		[]byte{0x13, 0x01}, []byte{0}, zzBaseExts("ch1", extra1))
	cache.Push(ch1.raw, 0, 0, handshake.TypeClientHello, true)
	f, a, err := flight0Parse(context.Background(), nil, hctx)
	zzsymAssert(err == nil, "first_hello_parses")
	zzsymAssert(a == nil, "first_hello_no_alert")
	zzsymAssert(f == Flight2, "first_hello_gets_only_cookie_request")

	pkts, ga, gerr := flight2Generate(nil, hctx)
	zzsymAssert(zzsymAnd(gerr == nil, ga == nil), "hrr_generated")
	zzsymAssert(len(pkts) == 1, "hrr_exactly_one_packet")
	hs, ok := pkts[0].Record.Content.(*handshake.Handshake)
	zzsymAssert(ok, "hrr_is_handshake")
	raw, merr := hs.Marshal()
	zzsymAssert(merr == nil, "hrr_marshals")
	zzsymAssert(zzHrrWire(raw, issued), "hrr_wire_is_cookie_request_only")
	zzsymAssert(!pkts[0].ShouldEncrypt, "hrr_plaintext")
	zzsymAssert(zzKxCalls == 0, "no_key_exchange_work_before_cookie_13")

	// second ClientHello
	sid2 := zzsymChoice("sid2", zzsymParam("NSID"))
	extra2 := zzsymChoice("extra2", zzsymParam("NEXTRA")+1)
	exts2 := zzBaseExts("ch2", extra2)
	ckind := zzsymChoice("cookie2", 4) // 0 exact length, 1 absent, 2 one short, 3 one long
	if ckind != 1 {
		n := cookieLength
		if ckind == 2 {
			n--
		} else if ckind == 3 {
			n++
		}
		data := append([]byte{0, byte(n)}, zzsymBytes("ch2_cookie", n)...)
		// position: 0 = last, 1 = first, 2 = before key_share
		pos := len(exts2)
		switch zzsymChoice("cookiepos", zzsymParam("NPOS")) {
		case 1:
			pos = 0
		case 2:
			pos = 3
		}
		withCookie := append([]zzExt{}, exts2[:pos]...)
		withCookie = append(withCookie, zzExt{44, data})
		exts2 = append(withCookie, exts2[pos:]...)
	}
	ch2 := zzBuildHello(1, zzsymBytes("ch2_version", 2), zzsymBytes("ch2_random", 32), zzsymBytes("ch2_sid", sid2), nil,
		zzsymBytes("ch2_suite", 2), zzsymBytes("ch2_comp", 1), exts2)
	cache.Push(ch2.raw, 0, 1, handshake.TypeClientHello, true)
	f2, a2, err2 := flight2Parse(context.Background(), nil, hctx)

	// oracle
	want := append([]byte{0, cookieLength}, issued...)
	var got []byte
	has := false
	for _, e := range ch2.exts {
		if e.typ == 44 {
			has, got = true, e.data
		}
	}
	cookieOK := zzsymAnd(has, zzsymEqBytes(got, want))
	fieldsOK := zzsymEqBytes(ch2.version, ch1.version)
	fieldsOK = zzsymAnd(fieldsOK, zzsymEqBytes(ch2.random, ch1.random))
	fieldsOK = zzsymAnd(fieldsOK, zzsymEqBytes(ch2.sid, ch1.sid))
	fieldsOK = zzsymAnd(fieldsOK, zzsymEqBytes(ch2.suites, ch1.suites))
	fieldsOK = zzsymAnd(fieldsOK, zzsymEqBytes(ch2.comp, ch1.comp))
	extsOK := zzSameExts(zzCarryOver(ch1.exts, true), zzCarryOver(ch2.exts, false))

	if f2 == Flight4 {
		zzsymAssert(cookieOK, "gate13_cookie_echoed_exactly")
		zzsymAssert(fieldsOK, "gate13_legacy_fields_identical")
		zzsymAssert(extsOK, "gate13_other_extensions_identical")
		if zzSameExts(ch1.exts, zzCarryOver(ch2.exts, false)) {
			zzsymCover("accepted")
		} else {
			zzsymCover("accepted_padding_changed")
		}
		return
	}
	zzsymAssert(f2 == 0, "gate13_reject_no_flight")
	zzsymAssert(zzsymOr(a2 != nil, err2 != nil), "gate13_reject_aborts")
	zzsymAssert(zzKxCalls == 0, "gate13_reject_no_key_exchange_work")
	switch {
	case ckind == 1:
		zzsymCover("rej_absent")
	case ckind == 2:
		zzsymCover("rej_truncated")
	case ckind == 3:
		zzsymCover("rej_too_long")
	case !cookieOK:
		zzsymCover("rej_wrong")
	case !fieldsOK:
		zzsymCover("rej_fields")
	default:
		zzsymCover("rej_exts")
	}
}

// flight0Parse (DTLS 1.3 server) on a well-formed first ClientHello with hello verification enabled or
// disabled: enabled => Flight2 and no ECDH work; disabled => Flight4 (non-vacuity contrast: the stubbed ECDH
// functions are then invoked).
//
//symgo:entry covers=cookie_request,verify_disabled
func zzFirstHelloAnswer13() {
	cfg := zzServerConfig()
	cfg.InsecureSkipHelloVerify = zzsymChoice("skipverify", 2) == 1
	state, cache, hctx := zzNewServer(cfg)
	state.Cookie = zzsymBytes("issued", cookieLength)
	sid1 := zzsymChoice("sid1", zzsymParam("NSID"))
	ch1 := zzBuildHello(0, []byte{0xfe, 0xfd}, zzsymBytes("ch1_random", 32), zzsymBytes("ch1_sid", sid1), nil,
		[]byte{0x13, 0x01}, []byte{0}, zzBaseExts("ch1", zzsymChoice("extra1", zzsymParam("NEXTRA")+1)))
	cache.Push(ch1.raw, 0, 0, handshake.TypeClientHello, true)
	f, a, err := flight0Parse(context.Background(), nil, hctx)
	zzsymAssert(zzsymAnd(err == nil, a == nil), "first_hello_parses")
	if cfg.InsecureSkipHelloVerify {
		zzsymAssert(f == Flight4, "verify_disabled_goes_to_flight4")
		zzsymAssert(zzKxCalls > 0, "stub_counts_key_exchange_work")
		zzsymCover("verify_disabled")
		return
	}
	zzsymAssert(f == Flight2, "first_hello_gets_only_cookie_request")
	zzsymAssert(zzKxCalls == 0, "no_key_exchange_work_before_cookie_13")
	zzsymAssert(state.LocalKeypair == nil, "no_keypair_stored_before_cookie_13")
	zzsymAssert(len(state.KeyAgreementSecret) == 0, "no_shared_secret_before_cookie_13")
	zzsymCover("cookie_request")
}

// Before a HelloRetryRequest has been generated for the current first ClientHello (state.HelloRetryRequest is
// the zero value flight0Parse leaves behind), flight2Parse never returns Flight4, whatever second
// ClientHello is in the cache - including one that echoes state.Cookie correctly.
//
//symgo:entry covers=rejected
func zzGate13NeedsIssuedRequest() {
	cfg := zzServerConfig()
	state, cache, hctx := zzNewServer(cfg)
	issued := zzsymBytes("issued", cookieLength)
	state.Cookie = issued
	ch1 := zzBuildHello(0, []byte{0xfe, 0xfd}, zzsymBytes("ch1_random", 32), nil, nil,
		[]byte{0x13, 0x01}, []byte{0}, zzBaseExts("ch1", zzExtraNone))
	cache.Push(ch1.raw, 0, 0, handshake.TypeClientHello, true)
	f, _, err := flight0Parse(context.Background(), nil, hctx)
	zzsymAssert(zzsymAnd(err == nil, f == Flight2), "first_hello_gets_only_cookie_request")
	// no flight2Generate here
	exts2 := append(zzBaseExts("ch2", zzExtraNone), zzExt{44, append([]byte{0, cookieLength}, zzsymBytes("ch2_cookie", cookieLength)...)})
	ch2 := zzBuildHello(1, []byte{0xfe, 0xfd}, zzsymBytes("ch2_random", 32), nil, nil, []byte{0x13, 0x01}, []byte{0}, exts2)
	cache.Push(ch2.raw, 0, 1, handshake.TypeClientHello, true)
	f2, _, _ := flight2Parse(context.Background(), nil, hctx)
	zzsymAssert(f2 != Flight4, "no_flight4_without_issued_retry_request")
	zzsymAssert(zzKxCalls == 0, "gate13_reject_no_key_exchange_work")
	zzsymCover("rejected")
}

// flight0Generate (DTLS 1.3 server start): with hello verification enabled the cookie is exactly 20 bytes and
// every byte is the output of one crypto/rand read made for this connection; a second connection gets the
// bytes of a separate read; nothing is sent in flight 0. With hello verification disabled no cookie is set.
//
//symgo:entry covers=cookie,no_cookie
func zzCookieFresh13() {
	var log [][]byte
	rand.Reader = zzRandReader{&log}
	cfg := zzServerConfig()
	cfg.InsecureSkipHelloVerify = zzsymChoice("skipverify", 2) == 1
	state, _, hctx := zzNewServer(cfg)
	pkts, a, err := flight0Generate(nil, hctx)
	zzsymAssert(zzsymAnd(err == nil, a == nil), "flight0_ok")
	zzsymAssert(len(pkts) == 0, "flight0_sends_nothing")
	if cfg.InsecureSkipHelloVerify {
		zzsymAssert(len(state.Cookie) == 0, "no_cookie_when_disabled")
		zzsymCover("no_cookie")
		return
	}
	zzsymAssert(len(state.Cookie) == 20, "cookie_is_20_bytes")
	zzsymAssert(len(log) >= 1, "entropy_was_read")
	zzsymAssert(len(log[0]) == 20, "cookie_read_is_20_bytes")
	zzsymAssert(zzsymEqBytes(state.Cookie, log[0]), "cookie_is_rand_output")
	n1 := len(log)
	state2, _, hctx2 := zzNewServer(cfg)
	_, _, err = flight0Generate(nil, hctx2)
	zzsymAssert(err == nil, "flight0_ok")
	zzsymAssert(len(log) > n1, "second_connection_reads_entropy_again")
	zzsymAssert(zzsymEqBytes(state2.Cookie, log[n1]), "second_cookie_is_new_rand_output")
	zzsymCover("cookie")
}
