package dtlshandshake

//symgo:pkg github.com/pion/dtls/v3/internal/handshake
//symgo:outside wall-clock timing of ClientHello pairs on a live server: the timer is modelled as "may fire at any wait", i.e. one arbitrary expiry per wait call

import (
	"time"

	dtlsconfig "github.com/pion/dtls/v3/internal/config"
	dtlsflight12 "github.com/pion/dtls/v3/internal/flight/flight12"
	dtlsflight13 "github.com/pion/dtls/v3/internal/flight/flight13"
)

// The cookie-request flight (Flight2) is registered as "do not retransmit" in both protocol versions, every
// other server flight that is sent is registered as retransmittable (so the check is not vacuous), and
// GetGenerator knows Flight2 in both versions.
//
//symgo:entry covers=f2_12,f2_13
func zzFlight2NotRetransmittable() {
	g12, re12, ok12 := dtlsflight12.GetGenerator(dtlsflight12.Flight2)
	zzsymAssert(ok12, "flight2_12_known")
	zzsymAssert(g12 != nil, "flight2_12_has_generator")
	zzsymAssert(!re12, "hvr_not_retransmittable")
	zzsymCover("f2_12")
	g13, re13, ok13 := dtlsflight13.GetGenerator(dtlsflight13.Flight2)
	zzsymAssert(ok13, "flight2_13_known")
	zzsymAssert(g13 != nil, "flight2_13_has_generator")
	zzsymAssert(!re13, "hrr_not_retransmittable")
	zzsymCover("f2_13")
	// non-vacuity: the flag is not simply always false
	_, re4, _ := dtlsflight12.GetGenerator(dtlsflight12.Flight4)
	zzsymAssert(re4, "flight4_12_is_retransmittable")
	_, re4b, _ := dtlsflight13.GetGenerator(dtlsflight13.Flight4)
	zzsymAssert(re4b, "flight4_13_is_retransmittable")
}

// handleRetransmitTimeout: with retransmit=false (the flag of the cookie-request flight) an expired timer
// leaves the FSM in Waiting (not Sending: nothing is written) and does not touch the interval, for every
// interval value and back-off configuration; with retransmit=true it goes to Sending (contrast).
//
//symgo:entry covers=no_retransmit,retransmit
func zzRetransmitTimeoutStep() {
	interval := time.Duration(zzsymI64("interval"))
	pre := interval
	cfg := &dtlsconfig.HandshakeConfig{DisableRetransmitBackoff: zzsymBool("nobackoff")}
	if zzsymChoice("retransmit", 2) == 0 {
		st := handleRetransmitTimeout(false, &interval, cfg)
		zzsymAssert(st == StateWaiting, "timer_without_retransmit_keeps_waiting")
		zzsymAssert(interval == pre, "timer_without_retransmit_keeps_interval")
		zzsymCover("no_retransmit")
		return
	}
	st := handleRetransmitTimeout(true, &interval, cfg)
	zzsymAssert(st == StateSending, "timer_with_retransmit_sends")
	zzsymCover("retransmit")
}
