package dtls

//symgo:pkg github.com/pion/dtls/v3
//symgo:param NTYPES quick=3 thorough=6
//symgo:replace github.com/pion/dtls/v3/pkg/crypto/elliptic.GenerateKeypair zzC13GenerateKeypair
//symgo:stub elliptic.GenerateKeypair returns a dummy key pair; the Conn is built directly (fragment buffer, handshake cache, DTLS 1.2 server state) without sockets or goroutines; the FSM step "signalled while waiting in Flight2" is played by calling flight12.Parse(Flight2) exactly as fsm12.wait does
//symgo:assume a record reaches Conn.bufferHandshakeRecord only after the replay check of the epoch-0 record sequence number, which an attacker satisfies by using fresh numbers
//symgo:outside records with several handshake fragments; fragments longer than 2 bytes

import (
	"context"

	"github.com/pion/dtls/v3/internal/ciphersuite"
	dtlsconfig "github.com/pion/dtls/v3/internal/config"
	dtlsflight "github.com/pion/dtls/v3/internal/flight"
	dtlsflight12 "github.com/pion/dtls/v3/internal/flight/flight12"
	"github.com/pion/dtls/v3/internal/fragmentbuffer"
	dtlsstate "github.com/pion/dtls/v3/internal/state"
	"github.com/pion/dtls/v3/pkg/crypto/elliptic"
	"github.com/pion/dtls/v3/pkg/protocol"
	"github.com/pion/dtls/v3/pkg/protocol/recordlayer"
)

func zzC13GenerateKeypair(c elliptic.Curve) (*elliptic.Keypair, error) {
	return &elliptic.Keypair{Curve: c, PublicKey: []byte{4, 1, 2}, PrivateKey: []byte{9}}, nil
}

type zzC13Logger struct{}

func (zzC13Logger) Trace(string)          {}
func (zzC13Logger) Tracef(string, ...any) {}
func (zzC13Logger) Debug(string)          {}
func (zzC13Logger) Debugf(string, ...any) {}
func (zzC13Logger) Info(string)           {}
func (zzC13Logger) Infof(string, ...any)  {}
func (zzC13Logger) Warn(string)           {}
func (zzC13Logger) Warnf(string, ...any)  {}
func (zzC13Logger) Error(string)          {}
func (zzC13Logger) Errorf(string, ...any) {}

// zzC13Record wraps one handshake fragment into an epoch-0 plaintext handshake record (RFC 6347 4.1 / 4.2.2).
func zzC13Record(recSeq byte, msgType byte, length int, msgSeq uint16, fragOff, fragLen int, frag []byte) ([]byte, *recordlayer.Header) {
	hs := []byte{msgType, 0, 0, byte(length), byte(msgSeq >> 8), byte(msgSeq), 0, 0, byte(fragOff), 0, 0, byte(fragLen)}
	hs = append(hs, frag...)
	rec := []byte{22, 0xfe, 0xfd, 0, 0, 0, 0, 0, 0, 0, recSeq, 0, byte(len(hs))}
	rec = append(rec, hs...)
	h := &recordlayer.Header{ContentType: protocol.ContentTypeHandshake, Version: protocol.Version1_2, SequenceNumber: uint64(recSeq), ContentLen: uint16(len(hs))}
	return rec, h
}

// zzC13FsmType maps a choice to handshake message types an attacker may put in the header.
func zzC13FsmType(i int) byte {
	switch i {
	case 0:
		return 1 // client_hello
	case 1:
		return 20 // finished
	case 2:
		return 16 // client_key_exchange
	case 3:
		return 11 // certificate
	case 4:
		return 0 // hello_request
	}
	return 0xee // unassigned
}

// "Each cookie request is sent only in direct response to a ClientHello": DTLS 1.2 server Conn (real
// fragment buffer, handshake cache, bufferHandshakeRecord) that has received a first ClientHello and sent
// its HelloVerifyRequest (state Flight2, waiting). One more epoch-0 handshake record arrives whose single
// fragment has an arbitrary message type from a menu (client_hello, finished, client_key_exchange, ...),
// message_seq 0, 1, 2 or 3, declared length 0..2, fragment complete or only the first byte. Whenever
// bufferHandshakeRecord reports a handshake (the reader then signals the FSM), the FSM step Parse(Flight2)
// is executed. Asserted: if that step answers Flight2 again - i.e. another HelloVerifyRequest goes out - the
// record that caused it carried a ClientHello fragment.
//
//symgo:entry covers=hvr_again_for_client_hello,aborted
func zzCookieRequestOnlyForClientHello() {
	cfg := &dtlsconfig.HandshakeConfig{
		LocalCipherSuites: []dtlsconfig.CipherSuite{&ciphersuite.TLSEcdheEcdsaWithAes128GcmSha256{}},
		EllipticCurves:    []elliptic.Curve{elliptic.X25519},
		Log:               zzC13Logger{},
	}
	c := &Conn{
		state:           dtlsstate.NewActive(false),
		fragmentBuffer:  fragmentbuffer.New(),
		handshakeCache:  dtlsflight.NewCache(),
		log:             zzC13Logger{},
		handshakeConfig: cfg,
	}
	state, err := dtlsstate.As12(c.state)
	zzsymAssert(err == nil, "state_is_dtls12")
	state.LocalVersion = protocol.Version1_2
	state.Cookie = zzsymBytes("issued", 20)
	state.NamedCurve = elliptic.X25519 // as flight0Generate leaves it
	valid := func() bool { return true }

	// first ClientHello, unfragmented: version fefd, random, sid<0>, cookie<0>, one suite, null compression, no extensions
	body := append([]byte{0xfe, 0xfd}, zzsymBytes("ch1_random", 32)...)
	body = append(body, 0, 0, 0, 2, 0xc0, 0x2b, 1, 0, 0, 0)
	rec1, h1 := zzC13Record(0, 1, len(body), 0, 0, len(body), body)
	out1, handled1, _ := c.bufferHandshakeRecord(rec1, h1, valid)
	zzsymAssert(zzsymAnd(handled1, out1.containsHandshake), "first_hello_buffered")
	f, _, perr, ok := dtlsflight12.Parse(context.Background(), dtlsflight12.Flight0, nil, state, c.handshakeCache, cfg)
	zzsymAssert(zzsymAnd(ok, perr == nil), "first_hello_parses")
	zzsymAssert(f == dtlsflight12.Flight2, "first_hello_gets_only_cookie_request")

	// second record: one arbitrary fragment
	typ := zzC13FsmType(zzsymChoice("type", zzsymParam("NTYPES")))
	msgSeq := uint16(zzsymChoice("msgseq", 4))
	length := zzsymChoice("length", 3)
	fragLen := length
	if length > 0 && zzsymChoice("partial", 2) == 1 {
		fragLen = 1
	}
	rec2, h2 := zzC13Record(1, typ, length, msgSeq, 0, fragLen, zzsymBytes("frag", fragLen))
	out2, handled2, _ := c.bufferHandshakeRecord(rec2, h2, valid)
	if !(handled2 && out2.containsHandshake) {
		zzsymCover("no_reaction")
		return // the reader does not signal the FSM
	}
	f2, _, _, ok2 := dtlsflight12.Parse(context.Background(), dtlsflight12.Flight2, nil, state, c.handshakeCache, cfg)
	zzsymAssert(ok2, "flight2_has_parser")
	if f2 != dtlsflight12.Flight2 {
		zzsymAssert(f2 != dtlsflight12.Flight4, "no_flight4_without_cookie_echo")
		zzsymCover("aborted")
		return
	}
	if typ == 1 {
		zzsymCover("hvr_again_for_client_hello")
	}
	zzsymAssert(typ == 1, "cookie_request_only_in_response_to_client_hello")
}

// Public options -> handshake configuration: the flag the flight handlers consult to skip the cookie exchange
// (HandshakeConfig.InsecureSkipHelloVerify, read by flight0Parse of DTLS 1.2 and 1.3) is set exactly when the
// application asked for it with WithInsecureSkipVerifyHello - for every combination of the other "insecure" option
// (InsecureSkipVerify, which concerns certificate verification only), client-auth policy and session store. A
// server that merely skips certificate verification still runs the cookie exchange.
//
//symgo:entry covers=hello_verify_kept,hello_verify_skipped_on_request
func zzCfgHelloVerifyOnlySkippedOnRequest() {
	cfg := &dtlsConfig{}
	cfg.InsecureSkipVerify = zzsymChoice("insecure_skip_verify", 2) == 1
	// the option is applied twice with arbitrary values (a base option list and an override): the LAST one decides
	first, last := zzsymChoice("first_skip_hello_option", 2) == 1, zzsymChoice("insecure_skip_verify_hello", 2) == 1
	zzsymAssert(WithInsecureSkipVerifyHello(first).applyServer(cfg) == nil, "option_applies")
	zzsymAssert(WithInsecureSkipVerifyHello(last).applyServer(cfg) == nil, "option_applies")
	zzsymAssert(cfg.InsecureSkipVerifyHello == last, "hello_verify_option_last_value_wins")
	cfg.ClientAuth = ClientAuthType(zzsymChoice("client_auth", 5))
	hc := newHandshakeConfig(cfg, connConfigValues{}, nil)
	zzsymAssert(hc.InsecureSkipHelloVerify == cfg.InsecureSkipVerifyHello, "cookie_exchange_skipped_only_on_explicit_request")
	if hc.InsecureSkipHelloVerify {
		zzsymCover("hello_verify_skipped_on_request")
	} else {
		zzsymCover("hello_verify_kept")
	}
}
