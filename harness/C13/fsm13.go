package dtlshandshake

//symgo:pkg github.com/pion/dtls/v3/internal/handshake
//symgo:param NEVENTS quick=3 thorough=5
//symgo:replace time.NewTimer zzNewTimer
//symgo:replace (*time.Timer).Stop zzTimerStop
//symgo:replace crypto/sha256.Sum256 zzSum256
//symgo:replace crypto/sha256.New zzSha256New
//symgo:replace github.com/pion/dtls/v3/pkg/crypto/elliptic.GenerateKeypairForPeer zz13GenerateKeypairForPeer
//symgo:replace github.com/pion/dtls/v3/pkg/crypto/prf.PreMasterSecret zz13PreMasterSecret
//symgo:stub time.NewTimer / Timer.Stop: harness timer whose channel holds one tick iff the schedule says the retransmission timer expires in this wait; SHA-256 (transcript fingerprint and transcript hash) is an uninterpreted function of the hashed bytes; ECDH key generation and shared-secret computation return dummies and are counted; Conn is the recording fake of fsm12.go
//symgo:assume as in fsm12.go: a ClientHello reaches the FSM as a complete cache entry followed by a RecvHandshake signal; a retransmitted first ClientHello is signalled without a new cache entry
//symgo:outside schedules longer than NEVENTS events; ClientHello shapes other than the one of flight13.go without an extra extension

import (
	"context"
	"crypto/rand"
	"hash"
	"time"

	"github.com/pion/dtls/v3/internal/ciphersuite"
	dtlsconfig "github.com/pion/dtls/v3/internal/config"
	dtlsflight "github.com/pion/dtls/v3/internal/flight"
	dtlsflight13 "github.com/pion/dtls/v3/internal/flight/flight13"
	dtlsstate "github.com/pion/dtls/v3/internal/state"
	"github.com/pion/dtls/v3/pkg/crypto/elliptic"
	"github.com/pion/dtls/v3/pkg/protocol"
	"github.com/pion/dtls/v3/pkg/protocol/handshake"
)

func zzTimerStop(t *time.Timer) bool { return true }

func zzSum256(b []byte) [32]byte {
	var out [32]byte
	copy(out[:], zzsymUF("sha256", 32, b))
	return out
}

type zzHash struct{ buf []byte }

func (h *zzHash) Write(p []byte) (int, error) { h.buf = append(h.buf, p...); return len(p), nil }
func (h *zzHash) Sum(b []byte) []byte         { return append(b, zzsymUF("sha256", 32, h.buf)...) }
func (h *zzHash) Reset()                      { h.buf = nil }
func (h *zzHash) Size() int                   { return 32 }
func (h *zzHash) BlockSize() int              { return 64 }

func zzSha256New() hash.Hash { return &zzHash{} }

var zz13KxCalls int

func zz13GenerateKeypairForPeer(c elliptic.Curve, peer []byte) (*elliptic.Keypair, error) {
	zz13KxCalls++
	return &elliptic.Keypair{Curve: c, PublicKey: []byte{7}, PrivateKey: []byte{9}}, nil
}

func zz13PreMasterSecret(pub, priv []byte, c elliptic.Curve) ([]byte, error) {
	zz13KxCalls++
	return []byte{1, 2, 3}, nil
}

// zzHello13 builds a DTLS 1.3 ClientHello handshake message (RFC 9147 5.3 layout): supported_versions{1.3},
// supported_groups{x25519}, signature_algorithms{ecdsa_secp256r1_sha256}, key_share{x25519, 1 byte} and,
// if cookie != nil, a trailing cookie extension with extension_data uint16 length + cookie.
// zzTwoGroups: the client also supports secp256r1, which the server prefers - the HelloRetryRequest then selects a group.
var zzTwoGroups bool

func zzHello13(seq uint16, version, random, sid, suite, comp, share, cookie []byte) []byte {
	body := []byte{}
	body = append(body, version...)
	body = append(body, random...)
	body = append(body, byte(len(sid)))
	body = append(body, sid...)
	body = append(body, 0) // legacy_cookie
	body = append(body, 0, byte(len(suite)))
	body = append(body, suite...)
	body = append(body, byte(len(comp)))
	body = append(body, comp...)
	block := []byte{0, 43, 0, 3, 2, 0xfe, 0xfc, 0, 10, 0, 4, 0, 2, 0, 0x1d, 0, 13, 0, 4, 0, 2, 4, 3, 0, 51, 0, 7, 0, 5, 0, 0x1d, 0, 1}
	if zzTwoGroups {
		// supported_groups x25519, secp256r1 - but a key share for x25519 only
		block = []byte{0, 43, 0, 3, 2, 0xfe, 0xfc, 0, 10, 0, 6, 0, 4, 0, 0x1d, 0, 0x17, 0, 13, 0, 4, 0, 2, 4, 3, 0, 51, 0, 7, 0, 5, 0, 0x1d, 0, 1}
	}
	block = append(block, share...)
	if cookie != nil {
		block = append(block, 0, 44, 0, byte(len(cookie)+2), 0, byte(len(cookie)))
		block = append(block, cookie...)
	}
	body = append(body, byte(len(block)>>8), byte(len(block)))
	body = append(body, block...)
	n := len(body)
	hdr := []byte{1, 0, byte(n >> 8), byte(n), byte(seq >> 8), byte(seq), 0, 0, 0, 0, byte(n >> 8), byte(n)}
	return append(hdr, body...)
}

// zzIsRetryRequest: the packet is a plaintext epoch-0 handshake record whose message is a ServerHello with
// the HelloRetryRequest random whose extensions are exactly supported_versions and a cookie extension
// carrying the issued cookie - i.e. no key_share, so it is not a real ServerHello.
func zzIsRetryRequest(p *dtlsflight.Packet, issued []byte) bool {
	hs, ok := p.Record.Content.(*handshake.Handshake)
	if !ok {
		return false
	}
	raw, err := hs.Marshal()
	if err != nil {
		return false
	}
	magic := []byte{0xCF, 0x21, 0xAD, 0x74, 0xE5, 0x9A, 0x61, 0x11, 0xBE, 0x1D, 0x8C, 0x02, 0x1E, 0x65, 0xB8, 0x91,
		0xC2, 0xA2, 0x11, 0x16, 0x7A, 0xBB, 0x8C, 0x5E, 0x07, 0x9E, 0x09, 0xE2, 0xC8, 0xA8, 0x33, 0x9C}
	want := append([]byte{0xfe, 0xfd}, magic...)
	want = append(want, 0, 0x13, 0x01, 0)
	n := len(issued)
	if zzTwoGroups {
		want = append(want, 0, byte(18+n), 0, 43, 0, 2, 0xfe, 0xfc, 0, 51, 0, 2, 0, 0x17, 0, 44, 0, byte(n+2), 0, byte(n))
	} else {
		want = append(want, 0, byte(12+n), 0, 43, 0, 2, 0xfe, 0xfc, 0, 44, 0, byte(n+2), 0, byte(n))
	}
	want = append(want, issued...)
	if len(raw) != handshake.HeaderLength+len(want) {
		return false
	}
	ok2 := zzsymAnd(raw[0] == 2, zzsymEqBytes(raw[handshake.HeaderLength:], want))
	return zzsymAnd(ok2, zzsymAnd(!p.ShouldEncrypt, p.Record.Header.Epoch == 0))
}

// The real DTLS 1.3 server FSM (prepare / send / wait of fsm13 with the real flight13 parsers, generators
// and transcript code) driven through every schedule of up to NEVENTS events: retransmission timer expires;
// first ClientHello arrives (or is signalled again); an ACK-only record arrives (empty or naming an unknown
// record); second ClientHello (message_seq 1) arrives with
// arbitrary legacy version, random, session id, cipher suite, compression byte, key share byte and a cookie
// extension that is absent or holds 20 arbitrary bytes. Proved for every schedule and all values: (1) until
// a second ClientHello has arrived that echoes the issued cookie exactly and repeats all other fields of the
// first one, everything written is a HelloRetryRequest carrying the issued cookie (never a real ServerHello,
// EncryptedExtensions, Certificate...), the FSM never enters Flight4 and no ECDH work is done; (2) a timer
// expiry writes nothing; (3) a HelloRetryRequest is written only in the step that handled the first
// ClientHello; (4) a wrong second ClientHello ends the handshake with an alert and nothing more written.
//
//symgo:entry covers=ack_in_flight2,hrr_sent,hrr_selects_group,timer_in_flight0,timer_in_flight2,hello_again_in_flight2,accepted,rejected
func zzFsm13OnlyCookieRequest() {
	rand.Reader = zzRand{}
	cfg := &dtlsconfig.HandshakeConfig{
		LocalCipherSuites:         []dtlsconfig.CipherSuite{ciphersuite.NewTLSAes128GcmSha256()},
		EllipticCurves:            []elliptic.Curve{elliptic.X25519},
		Log:                       zzLogger{},
		InitialRetransmitInterval: time.Second,
	}
	// the cookie request may also have to select a key-share group (the client offered a share only for a group the
	// server does not prefer): it is a cookie request all the same - sent once per ClientHello, never by the timer
	zzTwoGroups = zzsymChoice("retry_selects_group", 2) == 1
	if zzTwoGroups {
		cfg.EllipticCurves = []elliptic.Curve{elliptic.P256, elliptic.X25519}
		zzsymCover("hrr_selects_group")
	}
	st13 := dtlsstate.NewState13(false)
	state := &st13
	cache := dtlsflight.NewCache()
	conn := &zzConn{recv: make(chan RecvHandshakeState, 1)}
	fsm, ferr := newFSM13(state, cache, cfg, dtlsflight13.Flight0, nil, nil)
	zzsymAssert(ferr == nil, "fsm13_constructed")
	ctx := context.Background()

	run := func(st State) (State, bool) {
		for st == StatePreparing || st == StateSending {
			if st == StatePreparing && fsm.currentFlight == dtlsflight13.Flight4 {
				return st, true
			}
			var err error
			if st == StatePreparing {
				st, err = fsm.prepare(ctx, conn)
			} else {
				st, err = fsm.send(ctx, conn)
			}
			if err != nil {
				return StateErrored, false
			}
		}
		return st, true
	}

	st, alive := run(StatePreparing)
	zzsymAssert(alive, "flight0_starts")
	zzsymAssert(st == StateWaiting, "flight0_waits")
	zzsymAssert(len(conn.sent) == 0, "nothing_sent_before_first_hello")
	issued := state.Cookie
	zzsymAssert(len(issued) == 20, "cookie_is_20_bytes")

	ch1random := zzsymBytes("ch1_random", 32)
	sidLen := zzsymChoice("sidlen", 2)
	ch1sid := zzsymBytes("ch1_sid", sidLen)
	ch1share := zzsymBytes("ch1_share", 1)
	haveCH1 := false

	n := zzsymParam("NEVENTS")
	for i := 0; i < n; i++ {
		ev := zzsymChoice("event", 4) // 0 timer, 1 first ClientHello (again), 2 second ClientHello, 3 ACK-only record
		if ev == 2 && (!haveCH1 || zzTwoGroups) {
			return // (with a selected group the second ClientHello legitimately differs in its key share: not modelled)
		}
		before := len(conn.sent)
		inFlight2 := fsm.currentFlight == dtlsflight13.Flight2
		zzTimerFires = ev == 0
		var v2, r2, s2, su2, c2, sh2, ck2 []byte
		switch ev {
		case 1:
			if !haveCH1 {
				cache.Push(zzHello13(0, []byte{0xfe, 0xfd}, ch1random, ch1sid, []byte{0x13, 0x01}, []byte{0}, ch1share, nil),
					0, 0, handshake.TypeClientHello, true)
			}
		case 2:
			v2, r2, s2 = zzsymBytes("ch2_version", 2), zzsymBytes("ch2_random", 32), zzsymBytes("ch2_sid", sidLen)
			su2, c2, sh2 = zzsymBytes("ch2_suite", 2), zzsymBytes("ch2_comp", 1), zzsymBytes("ch2_share", 1)
			if zzsymChoice("cookie2", 2) == 0 {
				ck2 = zzsymBytes("ch2_cookie", 20)
			}
			cache.Push(zzHello13(1, v2, r2, s2, su2, c2, sh2, ck2), 0, 1, handshake.TypeClientHello, true)
		}
		conn.lateTimer = ev == 1 && haveCH1
		if ev == 3 {
			// an ACK record (cleartext ACK records are not refused by the record layer): empty, or naming a
			// record the server never sent
			acks := []protocol.ACK{{}}
			if zzsymChoice("ack_names_record", 2) == 1 {
				acks = []protocol.ACK{{Records: []protocol.RecordNumber{{Epoch: 0, SequenceNumber: 0}}}}
			}
			conn.queued = 1
			conn.lateTimer = true // the FSM keeps waiting after an ACK: let the timer end this wait call
			conn.recv <- RecvHandshakeState{Done: make(chan struct{}), ACKs: acks, IsRetransmit: zzsymBool("isretransmit")}
		} else if ev != 0 {
			conn.queued = 1
			conn.recv <- RecvHandshakeState{Done: make(chan struct{}), HasHandshake: true, IsRetransmit: zzsymBool("isretransmit")}
		}
		next, err := fsm.wait(ctx, conn)
		alive = err == nil
		if alive {
			next, alive = run(next)
		}

		wrote := conn.sent[before:]
		for _, p := range wrote {
			zzsymAssert(zzIsRetryRequest(p, issued), "only_cookie_request_on_the_wire")
		}
		if ev == 0 {
			zzsymAssert(len(wrote) == 0, "timer_expiry_writes_nothing")
			zzsymAssert(alive, "timer_expiry_keeps_handshake")
			zzsymAssert(next == StateWaiting, "timer_expiry_keeps_waiting")
			if inFlight2 {
				zzsymCover("timer_in_flight2")
			} else {
				zzsymCover("timer_in_flight0")
			}
		}
		if ev == 3 {
			zzsymAssert(len(wrote) == 0, "ack_record_never_elicits_a_cookie_request")
			zzsymAssert(alive, "ack_record_keeps_handshake")
			if inFlight2 {
				zzsymCover("ack_in_flight2")
			}
		}
		if ev == 1 {
			zzsymAssert(alive, "first_hello_keeps_handshake")
			zzsymAssert(fsm.currentFlight == dtlsflight13.Flight2, "first_hello_leads_to_flight2")
			if !haveCH1 {
				zzsymAssert(len(wrote) == 1, "first_hello_answered_with_cookie_request")
				zzsymCover("hrr_sent")
			} else {
				zzsymAssert(len(wrote) <= 1, "at_most_one_cookie_request_per_hello")
				zzsymCover("hello_again_in_flight2")
			}
			haveCH1 = true
		}
		zzsymAssert(zzsymOr(zz13KxCalls == 0, zzsymAnd(ev == 2, alive)), "no_key_exchange_work_before_cookie_13")
		if ev == 2 {
			echo := zzsymAnd(ck2 != nil, zzsymEqBytes(ck2, issued))
			echo = zzsymAnd(echo, zzsymEqBytes(v2, []byte{0xfe, 0xfd}))
			echo = zzsymAnd(echo, zzsymEqBytes(r2, ch1random))
			echo = zzsymAnd(echo, zzsymEqBytes(s2, ch1sid))
			echo = zzsymAnd(echo, zzsymEqBytes(su2, []byte{0x13, 0x01}))
			echo = zzsymAnd(echo, zzsymEqBytes(c2, []byte{0}))
			echo = zzsymAnd(echo, zzsymEqBytes(sh2, ch1share))
			zzsymAssert(len(wrote) == 0, "second_hello_never_answered_with_cookie_request_or_more")
			if alive && fsm.currentFlight == dtlsflight13.Flight4 {
				zzsymAssert(echo, "flight4_only_after_exact_echo")
				zzsymCover("accepted")
			} else {
				zzsymAssert(!alive, "wrong_second_hello_ends_handshake")
				zzsymAssert(conn.alerts > 0, "wrong_second_hello_alerted")
				zzsymAssert(zz13KxCalls == 0, "wrong_second_hello_no_key_exchange_work")
				zzsymCover("rejected")
			}
			return
		}
		zzsymAssert(fsm.currentFlight != dtlsflight13.Flight4, "no_flight4_before_second_hello")
	}
}
