package ciphersuite

// GENERATED from harness/C05/fn_aad.go: helper functions for rx_unauth.go (no entries kept).

//symgo:pkg github.com/pion/dtls/v3/pkg/crypto/ciphersuite
//symgo:param NCID quick=2 thorough=4
//symgo:param NPAY quick=2 thorough=4
//symgo:assume sequence numbers are at most 2^48-1 (Header.Unmarshal yields 48 bits, Header.Marshal and nextLocalSequenceNumber refuse more) and a record payload is shorter than 2^16 bytes (the wire length field is 16 bits)
//symgo:outside strength of the real AEAD/HMAC primitives: the claim is only that every authenticated field reaches the primitive's input injectively

import (
	"github.com/pion/dtls/v3/pkg/protocol"
	"github.com/pion/dtls/v3/pkg/protocol/recordlayer"
)

// zzSymHeader returns a record header whose fields are all symbolic (sequence number 48 bits) with
// a symbolic connection ID of ncid bytes.
func zzSymHeader(ncid int) recordlayer.Header {
	h := recordlayer.Header{
		ContentType:    protocol.ContentType(zzsymU8("ct")),
		ContentLen:     zzsymU16("clen"),
		Version:        protocol.Version{Major: zzsymU8("maj"), Minor: zzsymU8("min")},
		Epoch:          zzsymU16("epoch"),
		SequenceNumber: zzsymU64("seq"),
	}
	zzsymAssume(h.SequenceNumber <= recordlayer.MaxSequenceNumber)
	if ncid > 0 {
		h.ConnectionID = zzsymBytes("cid", ncid)
	}
	return h
}

// zzSymPayloadLen is an arbitrary payload length 0..65535.
func zzSymPayloadLen() int {
	n := zzsymInt("paylen")
	zzsymAssume(zzsymAnd(n >= 0, n <= 0xffff))
	return n
}

// zzSameAuthFields: the fields RFC 6347 6.2.3.3 / RFC 5246 6.2.3.3 authenticate for a record without
// connection ID: epoch, sequence number, type, version, length.
func zzSameAuthFields(a, b *recordlayer.Header, la, lb int) bool {
	r := zzsymAnd(a.Epoch == b.Epoch, a.SequenceNumber == b.SequenceNumber)
	r = zzsymAnd(r, a.ContentType == b.ContentType)
	r = zzsymAnd(r, zzsymAnd(a.Version.Major == b.Version.Major, a.Version.Minor == b.Version.Minor))
	return zzsymAnd(r, la == lb)
}

// zzSameAuthFieldsCID: the fields RFC 9146 5.2 authenticates for a tls12_cid record: version, epoch,
// sequence number, connection ID (length and bytes), length. (The outer type is the constant tls12_cid.)
func zzSameAuthFieldsCID(a, b *recordlayer.Header, la, lb int) bool {
	r := zzsymAnd(a.Epoch == b.Epoch, a.SequenceNumber == b.SequenceNumber)
	r = zzsymAnd(r, zzsymAnd(a.Version.Major == b.Version.Major, a.Version.Minor == b.Version.Minor))
	r = zzsymAnd(r, zzsymEqBytes(a.ConnectionID, b.ConnectionID))
	return zzsymAnd(r, la == lb)
}

// generateAEADAdditionalData (AAD of GCM/CCM/CCM-8/ChaCha20 records without connection ID) is injective:
// for two arbitrary headers (all 256 types, all versions, all epochs, all 48-bit sequence numbers) and
// arbitrary payload lengths below 2^16, equal AAD implies equal epoch, sequence number, type, version and
// length; so altering any of these fields changes the data the AEAD authenticates.
//
func zzAadPlainInjective() {
	h1, h2 := zzSymHeader(0), zzSymHeader(0)
	l1, l2 := zzSymPayloadLen(), zzSymPayloadLen()
	a1 := generateAEADAdditionalData(&h1, l1)
	a2 := generateAEADAdditionalData(&h2, l2)
	zzsymAssert(len(a1) == 13, "aad_len_13")
	same := zzSameAuthFields(&h1, &h2, l1, l2)
	eq := zzsymEqBytes(a1, a2)
	zzsymAssert(zzsymImplies(eq, same), "aad_equal_implies_fields_equal")
	zzsymAssert(zzsymImplies(same, eq), "aad_is_function_of_fields")
	if eq {
		zzsymCover("aad_equal")
	} else {
		zzsymCover("aad_differs")
	}
}

// generateAEADAdditionalDataCID (RFC 9146 AAD of tls12_cid records) is injective: two arbitrary headers
// with independently chosen connection ID lengths 0..NCID and arbitrary payload lengths: equal AAD implies
// equal version, epoch, sequence number, connection ID (length and bytes) and length.
//
func zzAadCIDInjective() {
	n1 := zzsymChoice("cidlen1", zzsymParam("NCID")+1)
	n2 := zzsymChoice("cidlen2", zzsymParam("NCID")+1)
	h1, h2 := zzSymHeader(n1), zzSymHeader(n2)
	l1, l2 := zzSymPayloadLen(), zzSymPayloadLen()
	a1 := generateAEADAdditionalDataCID(&h1, l1)
	a2 := generateAEADAdditionalDataCID(&h2, l2)
	same := zzSameAuthFieldsCID(&h1, &h2, l1, l2)
	eq := zzsymEqBytes(a1, a2)
	zzsymAssert(zzsymImplies(eq, same), "aad_cid_equal_implies_fields_equal")
	zzsymAssert(zzsymImplies(same, eq), "aad_cid_is_function_of_fields")
	if n1 != n2 {
		zzsymAssert(!eq, "aad_cid_differs_when_cid_length_differs")
		zzsymCover("cidlen_differs")
		return
	}
	if eq {
		zzsymCover("aad_equal")
	} else {
		zzsymCover("aad_differs")
	}
}

// The AAD of a record without connection ID never equals the AAD of a tls12_cid record (so re-labelling a
// record between tls12_cid and any other type changes the authenticated data), for all field values and
// connection ID lengths 0..NCID.
//
func zzAadLayoutsDisjoint() {
	n2 := zzsymChoice("cidlen2", zzsymParam("NCID")+1)
	h1, h2 := zzSymHeader(0), zzSymHeader(n2)
	a1 := generateAEADAdditionalData(&h1, zzSymPayloadLen())
	a2 := generateAEADAdditionalDataCID(&h2, zzSymPayloadLen())
	zzsymAssert(!zzsymEqBytes(a1, a2), "plain_and_cid_aad_never_equal")
	zzsymCover("checked")
}
