package dtls

//symgo:pkg github.com/pion/dtls/v3
//symgo:replace github.com/pion/dtls/v3/pkg/crypto/prf.PHash zzRecPHash
//symgo:replace github.com/pion/dtls/v3/pkg/crypto/ciphersuite.NewGCM zzFakeNewGCM
//symgo:replace github.com/pion/dtls/v3/pkg/crypto/keyschedule.HkdfExpandLabel zzRecExpandLabel
//symgo:replace crypto/sha256.New zzFakeSha256
//symgo:stub crypto/sha256.New is replaced by a fake hash.Hash whose Sum is an uninterpreted function of the written bytes
//symgo:stub keyschedule.HkdfExpandLabel is replaced by a recorder returning fresh symbolic bytes (its own RFC conformance is C10)
//symgo:stub ciphersuite.NewGCM (AES key schedule) is replaced by a constructor returning an empty GCM value: record protection is not exercised here
//symgo:stub prf.PHash is replaced by a recorder returning fresh symbolic bytes; the claim is about which secret keys the PRF and which seed it gets, not about HMAC

import (
	"hash"

	"github.com/pion/dtls/v3/internal/ciphersuite"
	dtlsstate "github.com/pion/dtls/v3/internal/state"
	cryptosuite "github.com/pion/dtls/v3/pkg/crypto/ciphersuite"
	"github.com/pion/dtls/v3/pkg/crypto/prf"
	"github.com/pion/dtls/v3/pkg/protocol"
)

var (
	zzPHashKeys  [][]byte
	zzPHashSeeds [][]byte
)

type zzFakeHash struct{ data []byte }

func (h *zzFakeHash) Write(p []byte) (int, error) { h.data = append(h.data, p...); return len(p), nil }
func (h *zzFakeHash) Sum(b []byte) []byte         { return append(b, zzsymUF("H", 32, h.data)...) }
func (h *zzFakeHash) Reset()                      { h.data = nil }
func (h *zzFakeHash) Size() int                   { return 32 }
func (h *zzFakeHash) BlockSize() int              { return 64 }
func zzFakeSha256() hash.Hash                     { return &zzFakeHash{} }

type zzExpandCall struct {
	secret  []byte
	label   string
	context []byte
	out     []byte
}

var zzExpandCalls []zzExpandCall

func zzRecExpandLabel(h func() hash.Hash, secret []byte, label string, context []byte, length int) ([]byte, error) {
	out := zzsymBytes("expand_out", length)
	zzExpandCalls = append(zzExpandCalls, zzExpandCall{secret, label, context, out})
	return out, nil
}

func zzFakeNewGCM(localKey, localWriteIV, remoteKey, remoteWriteIV []byte) (*cryptosuite.GCM, error) {
	return &cryptosuite.GCM{}, nil
}

func zzRecPHash(secret, seed []byte, requestedLength int, hashFunc prf.HashFunc) ([]byte, error) {
	zzPHashKeys = append(zzPHashKeys, secret)
	zzPHashSeeds = append(zzPHashSeeds, seed)
	return zzsymBytes("phash_out", requestedLength), nil
}

// RFC 5705 exporter on a DTLS 1.2 state: the PRF is keyed with the 48-byte master secret (never anything
// public) and the seed is label || client_random || server_random for both roles.
//
//symgo:entry covers=client,server
func zzExporter12KeyedWithMasterSecret() {
	zzPHashKeys, zzPHashSeeds = nil, nil
	ms := zzsymBytes("ms", 48)
	var lr, rr [32]byte
	copy(lr[:], zzsymBytes("lr", 32))
	copy(rr[:], zzsymBytes("rr", 32))
	s := &State{localEpoch: 1, masterSecret: ms, CipherSuiteID: TLS_ECDHE_ECDSA_WITH_AES_128_GCM_SHA256, version: protocol.Version1_2}
	s.localRandom.UnmarshalFixed(lr)
	s.remoteRandom.UnmarshalFixed(rr)
	s.isClient = zzsymChoice("isClient", 2) == 1
	out, err := s.ExportKeyingMaterial("EXTRACTOR-dtls_srtp", nil, 8)
	// Init of the real suite runs PHash too (key expansion); the exporter call is the last one
	zzsymAssert(err == nil, "export_ok")
	zzsymAssert(len(out) == 8, "export_len")
	n := len(zzPHashKeys)
	zzsymAssert(n >= 1, "prf_called")
	zzsymAssert(zzsymEqBytes(zzPHashKeys[n-1], ms), "exporter_keyed_with_master_secret")
	var want []byte
	want = append(want, []byte("EXTRACTOR-dtls_srtp")...)
	if s.isClient {
		want = append(append(want, lr[:]...), rr[:]...)
		zzsymCover("client")
	} else {
		want = append(append(want, rr[:]...), lr[:]...)
		zzsymCover("server")
	}
	zzsymAssert(zzsymEqBytes(zzPHashSeeds[n-1], want), "exporter_seed_is_label_cr_sr")
}

// The State handed out for a DTLS 1.3 connection (ConnectionState -> generateState13): ExportKeyingMaterial must not
// hand the application bytes computable from the cleartext handshake, i.e. it must either fail or key its PRF/HKDF with
// a secret (RFC 8446 section 7.5 exporter master secret). Keying the TLS 1.2 PRF with an empty secret over the public
// randoms is a violation.
//
//symgo:entry covers=exported_or_refused
func zzExporter13NotFromPublicData() {
	zzPHashKeys, zzPHashSeeds, zzExpandCalls = nil, nil, nil
	st := &dtlsstate.State13{Common: &dtlsstate.Common{IsClient: zzsymChoice("isClient", 2) == 1, LocalVersion: protocol.Version1_3}}
	st.CipherSuite = ciphersuite.ForID(TLS_AES_128_GCM_SHA256, nil)
	zzsymAssume(st.CipherSuite != nil)
	st.SetLocalEpoch(3)
	// mid-handshake snapshots (e.g. the State handed to VerifyConnection) have no exporter master secret yet
	if zzsymChoice("have_exporter_master_secret", 2) == 1 {
		st.KeySchedule.ExporterMasterSecret = zzsymBytes("ems", 32)
	}
	s, err := generateState13(st)
	zzsymAssert(err == nil, "state13_generated")
	out, err := s.ExportKeyingMaterial("EXTRACTOR-dtls_srtp", nil, 8)
	zzsymCover("exported_or_refused")
	if err != nil {
		return
	}
	for i := range zzPHashKeys {
		zzsymAssert(len(zzPHashKeys[i]) > 0, "exporter13_prf_keyed_with_empty_secret")
	}
	// RFC 8446 section 7.5: HKDF-Expand-Label(Derive-Secret(exporter_master_secret, label, ""), "exporter", Hash(""), L)
	zzsymAssert(len(zzPHashKeys) > 0 || len(zzExpandCalls) == 2, "exporter13_two_expand_steps")
	for i := range zzExpandCalls {
		// an HKDF keyed with an empty secret yields a constant anybody can compute from the label alone
		zzsymAssert(len(zzExpandCalls[i].secret) > 0, "exporter13_hkdf_keyed_with_empty_secret")
	}
	if len(zzExpandCalls) == 2 {
		zzsymAssert(zzsymEqBytes(zzExpandCalls[0].secret, st.KeySchedule.ExporterMasterSecret), "exporter13_keyed_with_exporter_master_secret")
		zzsymAssert(zzExpandCalls[0].label == "EXTRACTOR-dtls_srtp", "exporter13_first_label_is_exporter_label")
		zzsymAssert(zzsymEqBytes(zzExpandCalls[1].secret, zzExpandCalls[0].out), "exporter13_second_step_keyed_with_derived_secret")
		zzsymAssert(zzExpandCalls[1].label == "exporter", "exporter13_second_label")
		zzsymAssert(zzsymEqBytes(out, zzExpandCalls[1].out), "exporter13_output_is_second_step")
	}
}
