package dtls

//symgo:pkg github.com/pion/dtls/v3
//symgo:param NPAY quick=3 thorough=6
//symgo:stub CipherSuite.Encrypt / RecordProtection13.Seal are harness fakes returning FRESH symbolic bytes (independent of the plaintext) and recording what they were given; so "datagram == those bytes" for all values means no plaintext byte is emitted outside the cipher's output
//symgo:stub nextConn is a fake netctx.PacketConn that records written datagrams
//symgo:outside interleavings of Write with Close/retransmission/handshake completion; real ciphers; the FSM13 application-data writer (only processPacket/sealRecordContent below it is covered)

import (
	"context"
	"errors"
	"hash"
	"net"

	"github.com/pion/dtls/v3/internal/ciphersuite/types"
	"github.com/pion/dtls/v3/internal/closer"
	dtlsflight "github.com/pion/dtls/v3/internal/flight"
	dtlsfragmentbuffer "github.com/pion/dtls/v3/internal/fragmentbuffer"
	dtlshandshake "github.com/pion/dtls/v3/internal/handshake"
	dtlsstate "github.com/pion/dtls/v3/internal/state"
	"github.com/pion/dtls/v3/pkg/crypto/clientcertificate"
	"github.com/pion/dtls/v3/pkg/protocol"
	"github.com/pion/dtls/v3/pkg/protocol/alert"
	"github.com/pion/dtls/v3/pkg/protocol/handshake"
	"github.com/pion/dtls/v3/pkg/protocol/recordlayer"
)

var zzErr7 = errors.New("zz7")

type zzTxSuite struct {
	inputs  [][]byte
	outputs [][]byte
	epochs  []uint16
}

func (s *zzTxSuite) String() string                               { return "zzTx" }
func (s *zzTxSuite) ID() CipherSuiteID                            { return TLS_ECDHE_ECDSA_WITH_AES_128_GCM_SHA256 }
func (s *zzTxSuite) CertificateType() clientcertificate.Type      { return clientcertificate.ECDSASign }
func (s *zzTxSuite) HashFunc() func() hash.Hash                   { return nil }
func (s *zzTxSuite) AuthenticationType() types.AuthenticationType { return types.AuthenticationTypeCertificate }
func (s *zzTxSuite) KeyExchangeAlgorithm() types.KeyExchangeAlgorithm {
	return types.KeyExchangeAlgorithmEcdhe
}
func (s *zzTxSuite) ECC() bool                                               { return true }
func (s *zzTxSuite) Init(ms, cr, sr []byte, isClient bool) error             { return nil }
func (s *zzTxSuite) IsInitialized() bool                                     { return true }
func (s *zzTxSuite) Decrypt(h recordlayer.Header, in []byte) ([]byte, error) { return nil, zzErr7 }
func (s *zzTxSuite) Encrypt(pkt *recordlayer.RecordLayer, raw []byte) ([]byte, error) {
	s.inputs = append(s.inputs, raw)
	s.epochs = append(s.epochs, pkt.Header.Epoch)
	var out []byte
	if len(raw) <= 4096 {
		out = zzsymBytes("ct", len(raw)+8)
	} else {
		// a large record: fixed filler that no plaintext contains, arbitrary bytes at both ends
		out = make([]byte, len(raw)+8)
		for i := range out {
			out[i] = 0xc7
		}
		copy(out, zzsymBytes("ct_head", 64))
		copy(out[len(out)-64:], zzsymBytes("ct_tail", 64))
	}
	s.outputs = append(s.outputs, out)
	return out, nil
}

type zzTxNet struct {
	written [][]byte
	to      []net.Addr
}

func (n *zzTxNet) ReadFromContext(context.Context, []byte) (int, net.Addr, error) {
	return 0, nil, zzErr7
}
func (n *zzTxNet) WriteToContext(_ context.Context, b []byte, a net.Addr) (int, error) {
	n.written = append(n.written, append([]byte{}, b...))
	n.to = append(n.to, a)
	return len(b), nil
}
func (n *zzTxNet) Close() error         { return nil }
func (n *zzTxNet) LocalAddr() net.Addr  { return nil }
func (n *zzTxNet) Conn() net.PacketConn { return nil }

type zzLog7 struct{}

func (zzLog7) Trace(string)          {}
func (zzLog7) Tracef(string, ...any) {}
func (zzLog7) Debug(string)          {}
func (zzLog7) Debugf(string, ...any) {}
func (zzLog7) Info(string)           {}
func (zzLog7) Infof(string, ...any)  {}
func (zzLog7) Warn(string)           {}
func (zzLog7) Warnf(string, ...any)  {}
func (zzLog7) Error(string)          {}
func (zzLog7) Errorf(string, ...any) {}

func zzTxConn(suite *zzTxSuite, nw *zzTxNet) *Conn {
	c := &Conn{
		state:                   dtlsstate.NewActive(true),
		nextConn:                nw,
		fragmentBuffer:          dtlsfragmentbuffer.New(),
		handshakeCache:          dtlsflight.NewCache(),
		decrypted:               make(chan any, 1),
		log:                     zzLog7{},
		closed:                  closer.NewCloser(),
		handshakeEstablished:    dtlshandshake.NewEstablishment(),
		maximumTransmissionUnit: 1200,
		paddingLengthGenerator:  func(uint) uint { return 0 },
		rAddr:                   &net.UDPAddr{Port: 1},
	}
	common := dtlsstate.CommonState(c.state)
	common.CipherSuite = suite
	common.LocalVersion = protocol.Version1_2
	return c
}

// DTLS 1.2 application write below Conn.Write (newApplicationDataPacket + writeApplicationData) on an established
// connection (local epoch 1 or 2, with and without a negotiated connection ID): the single datagram handed to the
// network is byte-for-byte the cipher's output; the payload reaches only the cipher; the record carries the local
// epoch (never 0) and ShouldEncrypt is set.
//
//symgo:entry covers=plain,cidwrap
func zzTxAppDataOnlyCiphertext() {
	suite, nw := &zzTxSuite{}, &zzTxNet{}
	c := zzTxConn(suite, nw)
	common := dtlsstate.CommonState(c.state)
	epoch := uint16(1 + zzsymChoice("epoch", 2))
	common.SetLocalEpoch(epoch)
	if zzsymChoice("cid", 2) == 1 {
		common.RemoteConnectionID = zzsymBytes("rcid", 2)
		zzsymCover("cidwrap")
	} else {
		zzsymCover("plain")
	}
	payload := zzsymBytes("pay", zzsymParam("NPAY"))
	pkt := c.newApplicationDataPacket(payload)
	zzsymAssert(pkt.ShouldEncrypt, "appdata_marked_for_encryption")
	err := c.writeApplicationData(context.Background(), []*dtlsflight.Packet{pkt})
	zzsymAssert(err == nil, "write_ok")
	zzsymAssert(len(nw.written) == 1, "one_datagram")
	zzsymAssert(len(suite.outputs) == 1, "one_encrypt_call")
	zzsymAssert(zzsymEqBytes(nw.written[0], suite.outputs[0]), "datagram_is_exactly_cipher_output")
	zzsymAssert(suite.epochs[0] == epoch, "record_epoch_is_local_epoch")
	zzsymAssert(suite.epochs[0] != 0, "appdata_never_epoch0")
	// the cipher received the payload (sanity: it is inside the plaintext record given to Encrypt)
	in := suite.inputs[0]
	zzsymAssert(len(in) >= len(payload), "cipher_got_record")
}

// The same for payloads around the two-byte record length: 65535, 65536 and 131072 bytes (fixed filler, arbitrary
// first and last byte), with and without a connection ID - sizes a PacketConn over a stream-like or jumbo transport
// can carry, at which a length field that wraps to 0 must not be mistaken for "nothing to encrypt": whatever leaves is
// exactly the cipher's output.
//
//symgo:entry covers=large_plain,large_cidwrap
func zzTxLargeAppDataOnlyCiphertext() {
	suite, nw := &zzTxSuite{}, &zzTxNet{}
	c := zzTxConn(suite, nw)
	common := dtlsstate.CommonState(c.state)
	common.SetLocalEpoch(1)
	if zzsymChoice("cid", 2) == 1 {
		common.RemoteConnectionID = zzsymBytes("rcid", 2)
		zzsymCover("large_cidwrap")
	} else {
		zzsymCover("large_plain")
	}
	n := []int{65535, 65536, 131072}[zzsymChoice("payload_len", 3)]
	payload := make([]byte, n)
	payload[0], payload[n-1] = zzsymU8("pay_byte"), zzsymU8("pay_byte")
	pkt := c.newApplicationDataPacket(payload)
	err := c.writeApplicationData(context.Background(), []*dtlsflight.Packet{pkt})
	if err != nil {
		zzsymAssert(len(nw.written) == 0, "refused_large_write_sends_nothing")
		return
	}
	zzsymAssert(len(nw.written) == 1 && len(suite.outputs) == 1, "large_one_encrypt_call_one_datagram")
	zzsymAssert(len(nw.written[0]) == len(suite.outputs[0]), "large_datagram_is_exactly_cipher_output")
	w, o := nw.written[0], suite.outputs[0]
	zzsymAssert(zzsymEqBytes(w[:64], o[:64]) && zzsymEqBytes(w[len(w)-64:], o[len(o)-64:]), "large_datagram_is_exactly_cipher_output")
}

// Close and the secrets other holders still reference. The master secret of a DTLS 1.2 connection is the very slice
// the flight handlers handed to SessionStore.Set (the adapter is transparent, C14 zzStoreAdapterIsTransparent) and the
// one ConnectionState() exported: an in-memory store and an exported State keep referring to it. Closing the
// connection (established or not, as client or server) leaves those bytes untouched - "zeroize on Close" would leave
// a still-valid session id keyed with 48 zero bytes in the store, and the next resumption's keys and exporter values
// computable from the hello randoms. Arbitrary 48-byte secret.
//
//symgo:entry covers=closed_established,closed_before_establishment
func zzCloseLeavesSharedSecretsAlone() {
	suite, nw := &zzTxSuite{}, &zzTxNet{}
	c := zzTxConn(suite, nw)
	c.cancelHandshaker, c.cancelHandshakeReader = func() {}, func() {}
	st, ok := c.state.(*dtlsstate.State12)
	zzsymAssert(ok, "harness_state12")
	st.IsClient = zzsymChoice("client", 2) == 1
	secret := zzsymBytes("master_secret", 48)
	st.MasterSecret = secret
	st.PreMasterSecret = zzsymBytes("premaster_secret", 4)
	held := st.MasterSecret // what the session store / an exported State still hold
	snapshot := append([]byte{}, secret...)
	if zzsymChoice("established", 2) == 1 {
		dtlsstate.CommonState(c.state).SetLocalEpoch(1)
		dtlshandshake.ZZMarkEstablished(c.handshakeEstablished)
		zzsymCover("closed_established")
	} else {
		zzsymCover("closed_before_establishment")
	}
	_ = c.Close()
	zzsymAssert(zzsymEqBytes(held, snapshot), "close_leaves_the_stored_master_secret_untouched")
}

// Alerts: notify() encrypts iff the handshake is established; an unencrypted alert (handshake not complete) carries
// only the two alert bytes, never application data; an established connection's alert leaves only as cipher output.
//
//symgo:entry covers=alert_clear,alert_encrypted
func zzTxAlert() {
	suite, nw := &zzTxSuite{}, &zzTxNet{}
	c := zzTxConn(suite, nw)
	common := dtlsstate.CommonState(c.state)
	established := zzsymChoice("established", 2) == 1
	if established {
		common.SetLocalEpoch(1)
		dtlshandshake.ZZMarkEstablished(c.handshakeEstablished)
	}
	err := c.notify(context.Background(), alert.Level(zzsymU8("lvl")), alert.Description(zzsymU8("desc")))
	zzsymAssert(err == nil, "notify_ok")
	zzsymAssert(len(nw.written) == 1, "one_datagram")
	if established {
		zzsymAssert(len(suite.outputs) == 1, "alert_encrypted_when_established")
		zzsymAssert(zzsymEqBytes(nw.written[0], suite.outputs[0]), "alert_datagram_is_cipher_output")
		zzsymCover("alert_encrypted")
	} else {
		zzsymAssert(len(suite.outputs) == 0, "alert_clear_before_establishment")
		zzsymAssert(len(nw.written[0]) == 13+2, "clear_alert_is_header_plus_two_bytes")
		zzsymCover("alert_clear")
	}
}

type zzSeal13 struct {
	plaintexts [][]byte
	types      []protocol.ContentType
	outs       [][]byte
}

func (p *zzSeal13) Seal(h recordlayer.UnifiedHeader, seq uint64, ct protocol.ContentType, pt []byte) (recordlayer.CiphertextRecord13, error) {
	p.plaintexts = append(p.plaintexts, pt)
	p.types = append(p.types, ct)
	out := zzsymBytes("ct13", len(pt)+17)
	p.outs = append(p.outs, out)
	h.Length = uint16(len(out))
	return recordlayer.CiphertextRecord13{Header: h, EncryptedRecord: out}, nil
}
func (p *zzSeal13) Open(recordlayer.UnifiedHeader, uint64, []byte) (recordlayer.InnerPlaintext, error) {
	return recordlayer.InnerPlaintext{}, zzErr7
}
func (p *zzSeal13) UnmaskSequenceNumber(h recordlayer.UnifiedHeader, _ []byte) (recordlayer.UnifiedHeader, error) {
	return h, nil
}

// DTLS 1.3: processPacket on an application-data / alert / ACK packet marked ShouldEncrypt goes through
// Protection.Seal of the write generation of the packet's epoch; the returned record is the marshalled ciphertext
// (unified header + Seal output) and contains the payload nowhere else; without a write generation it fails.
//
//symgo:entry covers=sealed,no_generation
func zzTx13OnlyCiphertext() {
	nw := &zzTxNet{}
	c := zzTxConn(&zzTxSuite{}, nw)
	st := dtlsstate.Activate13(c.state)
	c.state = st
	st.LocalVersion = protocol.Version1_3
	seal := &zzSeal13{}
	have := zzsymChoice("have_generation", 2) == 1
	if have {
		st.TrafficKeys.Install(&dtlsstate.TrafficGeneration{Epoch: 3, Protection: seal}, nil)
	}
	st.SetLocalEpoch(3)
	payload := zzsymBytes("pay", zzsymParam("NPAY"))
	pkt := c.newApplicationDataPacket(payload)
	pkt.Record.Header.Epoch = 3
	raw, err := c.processPacket(pkt)
	if !have {
		zzsymAssert(err != nil, "no_generation_refused")
		zzsymCover("no_generation")
		return
	}
	zzsymAssert(err == nil, "seal_ok")
	zzsymAssert(len(seal.outs) == 1, "one_seal_call")
	zzsymAssert(seal.types[0] == protocol.ContentTypeApplicationData, "sealed_as_appdata")
	zzsymAssert(zzsymEqBytes(seal.plaintexts[0], payload), "seal_got_payload")
	out := seal.outs[0]
	zzsymAssert(len(raw) >= len(out), "record_contains_ciphertext")
	zzsymAssert(zzsymEqBytes(raw[len(raw)-len(out):], out), "record_tail_is_seal_output")
	zzsymAssert(len(raw)-len(out) == 5, "only_unified_header_in_front") // flags + 16-bit seq + length
	zzsymCover("sealed")
}

// Receive side of the confidentiality property: on an established DTLS 1.2 connection (remote epoch 1 or 2, cipher
// suite initialised) a record of type application_data carried in an UNPROTECTED record (epoch 0, any sequence number,
// any payload bytes) is never delivered to Read; it is answered with a fatal unexpected_message alert. The cipher is
// never consulted for it.
//
//symgo:entry covers=cleartext_appdata_refused
func zzRxCleartextAppDataNotDelivered() {
	suite, nw := &zzTxSuite{}, &zzTxNet{}
	c := zzTxConn(suite, nw)
	common := dtlsstate.CommonState(c.state)
	common.SetRemoteEpoch(uint16(1 + zzsymChoice("remote_epoch", 2)))
	common.SetLocalEpoch(1)
	dtlshandshake.ZZMarkEstablished(c.handshakeEstablished)
	c.replayProtectionWindow = 64
	pay := zzsymBytes("pay", zzsymParam("NPAY"))
	h := recordlayer.Header{ContentType: protocol.ContentTypeApplicationData, Version: protocol.Version1_2, Epoch: 0,
		SequenceNumber: zzsymU64("seq") & recordlayer.MaxSequenceNumber, ContentLen: uint16(len(pay))}
	raw, err := h.Marshal()
	zzsymAssert(err == nil, "harness_header")
	outcome, herr := c.handleIncomingPacket(context.Background(), append(raw, pay...), &net.UDPAddr{Port: 2}, nil)
	zzsymAssert(len(c.decrypted) == 0, "cleartext_application_data_never_delivered")
	zzsymAssert(herr != nil, "cleartext_application_data_is_an_error")
	zzsymAssert(outcome.responseAlert != nil && outcome.responseAlert.Level == alert.Fatal, "cleartext_application_data_fatal_alert")
	zzsymCover("cleartext_appdata_refused")
}

// The same on a DTLS 1.3 connection (an endpoint that negotiated DTLS 1.3; read keys of epoch 3 installed or, earlier
// in the handshake, only those of epoch 2): an application_data record in the DTLS 1.2 framing - unprotected by
// construction, DTLS 1.3 protects records only under the unified header - that claims epoch 0, 1, 2 or 3 is never
// delivered to Read. The cipher suite is one of the three REAL DTLS 1.3 suites: their legacy Decrypt entry point is
// what stands between such a record and Read.
//
//symgo:entry covers=cleartext_appdata_refused13
func zzRxCleartextAppDataNotDelivered13() {
	suite, nw := &zzTxSuite{}, &zzTxNet{}
	c := zzTxConn(suite, nw)
	common := dtlsstate.CommonState(c.state)
	st := dtlsstate.Activate13(c.state)
	c.state = st
	common.LocalVersion = protocol.Version1_3
	common.CipherSuite = defaultCipherSuites13()[zzsymChoice("suite13", 3)]
	remote := uint16(2 + zzsymChoice("handshake_or_application_keys", 2))
	common.SetRemoteEpoch(remote)
	common.SetLocalEpoch(remote)
	if remote == 3 {
		dtlshandshake.ZZMarkEstablished(c.handshakeEstablished)
	}
	c.replayProtectionWindow = 64
	st.TrafficKeys.Install(nil, &dtlsstate.TrafficGeneration{Epoch: remote, Protection: &zzSeal13{}})
	pay := zzsymBytes("pay", zzsymParam("NPAY"))
	epoch := uint16(zzsymChoice("claimed_epoch", 4))
	zzsymAssume(epoch <= remote)
	h := recordlayer.Header{ContentType: protocol.ContentTypeApplicationData, Version: protocol.Version1_2, Epoch: epoch,
		SequenceNumber: zzsymU64("seq") & recordlayer.MaxSequenceNumber, ContentLen: uint16(len(pay))}
	raw, err := h.Marshal()
	zzsymAssert(err == nil, "harness_header")
	_, _ = c.handleIncomingPacket(context.Background(), append(raw, pay...), &net.UDPAddr{Port: 2}, nil)
	zzsymAssert(len(c.decrypted) == 0, "cleartext_application_data_never_delivered13")
	zzsymCover("cleartext_appdata_refused13")
}

// DTLS 1.2 Finished on the wire: Conn.writePackets on the final flight as the generators hand it over
// (finished12.go proves the flags) - a cleartext ChangeCipherSpec in epoch 0 followed by a handshake Finished with 12
// arbitrary verify_data bytes marked ShouldEncrypt in epoch 1, with and without a negotiated connection ID, MTU
// 1200 or a small one that forces fragmentation of the Finished. Proved: everything written after the 14-byte
// ChangeCipherSpec record is byte-for-byte cipher output (the concatenation of what CipherSuite.Encrypt
// returned, in order), every Encrypt call was made for epoch 1, and verify_data reached only the cipher. If the
// packet were NOT marked ShouldEncrypt the Finished would leave as a plaintext record - the entry shows that
// too (label unmarked_finished_would_be_clear), which is why the generators' flag is the thing to prove.
//
//symgo:entry covers=finished_plain_header,finished_cid_header,finished_fragmented,unmarked_finished_would_be_clear
func zzTxFinished12() {
	suite, nw := &zzTxSuite{}, &zzTxNet{}
	c := zzTxConn(suite, nw)
	common := dtlsstate.CommonState(c.state)
	common.SetLocalEpoch(1)
	if zzsymChoice("cid", 2) == 1 {
		common.RemoteConnectionID = zzsymBytes("rcid", 2)
		zzsymCover("finished_cid_header")
	} else {
		zzsymCover("finished_plain_header")
	}
	small := zzsymChoice("small_mtu", 2) == 1
	if small {
		c.maximumTransmissionUnit = 5
	}
	marked := zzsymChoice("marked", 2) == 1
	vd := zzsymBytes("verify_data", 12)
	pkts := []*dtlsflight.Packet{
		{Record: &recordlayer.RecordLayer{
			Header:  recordlayer.Header{Version: protocol.Version1_2},
			Content: &protocol.ChangeCipherSpec{},
		}},
		{Record: &recordlayer.RecordLayer{
			Header:  recordlayer.Header{Version: protocol.Version1_2, Epoch: 1},
			Content: &handshake.Handshake{Message: &handshake.MessageFinished{VerifyData: vd}},
		}, ShouldEncrypt: marked, ResetLocalSequenceNumber: true},
	}
	err := c.writePackets(context.Background(), pkts)
	zzsymAssert(err == nil, "final_flight_written")
	var wire []byte
	for _, d := range nw.written {
		wire = append(wire, d...)
	}
	zzsymAssert(len(wire) >= 14 && wire[0] == byte(protocol.ContentTypeChangeCipherSpec) && wire[3] == 0 && wire[4] == 0,
		"change_cipher_spec_first_in_epoch0")
	rest := wire[14:]
	if !marked {
		// what the flag protects against: the record would be a plaintext handshake record
		zzsymAssert(len(suite.outputs) == 0 && len(rest) > 13 && rest[0] == byte(protocol.ContentTypeHandshake), "harness_unmarked_is_plaintext")
		zzsymCover("unmarked_finished_would_be_clear")

		return
	}
	var ct []byte
	for i, o := range suite.outputs {
		ct = append(ct, o...)
		zzsymAssert(suite.epochs[i] == 1, "finished_encrypted_under_epoch1")
	}
	zzsymAssert(len(suite.outputs) >= 1, "finished_went_through_the_cipher")
	zzsymAssert(zzsymEqBytes(rest, ct), "finished_leaves_only_as_cipher_output")
	if len(suite.outputs) > 1 {
		zzsymCover("finished_fragmented")
	}
}
