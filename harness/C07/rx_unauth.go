package ciphersuite

// GENERATED from harness/C05/fn_aead.go (only the two zzDecryptFailClean entries are kept as entries). C07: "application
// data arriving in an unprotected record is never delivered" - on a connection with keys installed every record of epoch > 0
// reaches Read only through the suite's Decrypt, so the clause rests on Decrypt returning a plaintext ONLY after the AEAD
// authenticated the record (change_cipher_spec, which carries no application data, is the single pass-through). A Decrypt
// that hands a too-short or otherwise unusual record back unchanged with a nil error delivers cleartext (seed C07k-1).

//symgo:pkg github.com/pion/dtls/v3/pkg/crypto/ciphersuite
//symgo:param NCID quick=2 thorough=4
//symgo:param NPAY quick=2 thorough=6
//symgo:stub cipher.AEAD is a harness fake (zzRecAEAD) that records the nonce, text and additional data it is handed; Open fails whenever the text is shorter than the tag and otherwise succeeds iff a symbolic authOK, returning arbitrary (symbolic) plaintext of length len(ciphertext)-tag
//symgo:assume AEAD unforgeability: the real Open fails for every (nonce, ciphertext, additional data) triple the peer did not seal; the harness shows that the triple determines every byte of the record, the primitive itself is outside the claim
//symgo:assume a record handed to Decrypt was cut out of the datagram by ContentAwareUnpackDatagram, so its length field equals its body length (13+CID-length header for tls12_cid, 13 otherwise)
//symgo:outside real ciphers, payloads longer than NPAY bytes (the code is length-generic: no branch depends on the payload length beyond the minimum-size checks, which are covered exhaustively)

import (
	"errors"

	"github.com/pion/dtls/v3/pkg/protocol"
	"github.com/pion/dtls/v3/pkg/protocol/recordlayer"
)

var zzErrAuth = errors.New("zz: message authentication failed")

// zzAEADCall is one recorded Seal or Open invocation.
type zzAEADCall struct {
	nonce, text, aad []byte
	ok               bool   // Open only: primitive authenticated
	plain            []byte // Open only: plaintext produced on success
}

// zzRecAEAD is the fake cipher.AEAD.
type zzRecAEAD struct {
	tag        int
	alwaysFail bool
	seals      []zzAEADCall
	opens      []zzAEADCall
}

func zzClone(b []byte) []byte { return append([]byte{}, b...) }

func (a *zzRecAEAD) NonceSize() int { return 12 }
func (a *zzRecAEAD) Overhead() int  { return a.tag }
func (a *zzRecAEAD) Seal(dst, nonce, plaintext, additionalData []byte) []byte {
	a.seals = append(a.seals, zzAEADCall{nonce: zzClone(nonce), text: zzClone(plaintext), aad: zzClone(additionalData)})
	out := append(dst, plaintext...)
	return append(out, make([]byte, a.tag)...)
}

func (a *zzRecAEAD) Open(dst, nonce, ciphertext, additionalData []byte) ([]byte, error) {
	c := zzAEADCall{nonce: zzClone(nonce), text: zzClone(ciphertext), aad: zzClone(additionalData)}
	if len(ciphertext) < a.tag || a.alwaysFail {
		a.opens = append(a.opens, c)
		return nil, zzErrAuth
	}
	if !zzsymBool("authOK") {
		a.opens = append(a.opens, c)
		return nil, zzErrAuth
	}
	c.ok = true
	c.plain = zzsymBytes("plain", len(ciphertext)-a.tag)
	a.opens = append(a.opens, c)
	return append(dst, c.plain...), nil
}

// zzSuite bundles the three AEAD record protections of DTLS 1.2 behind one shape.
// kind 0: GCM / CCM (explicit 8-byte nonce, 16-byte tag); kind 1: CCM-8 (explicit nonce, 8-byte tag);
// kind 2: ChaCha20-Poly1305 (no explicit nonce, 16-byte tag).
type zzSuite struct {
	kind     int
	fake     *zzRecAEAD
	iv       []byte
	overhead int // bytes a protected body carries beyond the plaintext
	gcm      *aead
	chacha   *ChaCha20Poly1305
}

func zzNewSuite(kind int, alwaysFail bool) *zzSuite {
	s := &zzSuite{kind: kind}
	switch kind {
	case 0:
		s.fake = &zzRecAEAD{tag: gcmTagLength, alwaysFail: alwaysFail}
		s.iv = zzsymBytes("iv", 4)
		s.gcm = newAEAD(s.fake, s.iv, s.fake, s.iv, gcmNonceLength, gcmTagLength)
		s.overhead = 8 + gcmTagLength
	case 1:
		s.fake = &zzRecAEAD{tag: int(CCMTagLength8), alwaysFail: alwaysFail}
		s.iv = zzsymBytes("iv", 4)
		s.gcm = newAEAD(s.fake, s.iv, s.fake, s.iv, ccmNonceLength, int(CCMTagLength8))
		s.overhead = 8 + int(CCMTagLength8)
	default:
		s.fake = &zzRecAEAD{tag: chachaTagLength, alwaysFail: alwaysFail}
		s.iv = zzsymBytes("iv", chachaNonceLength)
		s.chacha = &ChaCha20Poly1305{localCipher: s.fake, remoteCipher: s.fake, localWriteIV: s.iv, remoteWriteIV: s.iv}
		s.overhead = chachaTagLength
	}
	return s
}

func (s *zzSuite) encrypt(pkt *recordlayer.RecordLayer, raw []byte) ([]byte, error) {
	if s.kind == 2 {
		return s.chacha.Encrypt(pkt, raw)
	}
	return s.gcm.encrypt(pkt, raw)
}

func (s *zzSuite) decrypt(h recordlayer.Header, in []byte) ([]byte, error) {
	if s.kind == 2 {
		return s.chacha.Decrypt(h, in)
	}
	return s.gcm.decrypt(h, in)
}

// zzFramed: the record's length field agrees with its real length (what ContentAwareUnpackDatagram
// guarantees for a receiver whose connection ID is ncid bytes long). in must hold at least 13+ncid bytes.
func zzFramed(in []byte, ncid int) bool {
	isCID := in[0] == byte(protocol.ContentTypeConnectionID)
	lenPlain := int(in[11])<<8 | int(in[12])
	lenCID := int(in[11+ncid])<<8 | int(in[12+ncid])
	return zzsymOr(
		zzsymAnd(zzsymNot(isCID), lenPlain == len(in)-13),
		zzsymAnd(isCID, lenCID == len(in)-13-ncid))
}

// zzSealTwo encrypts two arbitrary records under the same write state and checks the nonce and the
// additional data handed to the primitive.
func zzSealTwo(kind int) {
	s := zzNewSuite(kind, false)
	var h [2]recordlayer.Header
	var pay [2][]byte
	for i := 0; i < 2; i++ {
		h[i] = zzSymHeader(zzsymChoice("cidlen", 2) * zzsymParam("NCID"))
		pay[i] = zzsymBytes("pay", zzsymChoice("paylen", zzsymParam("NPAY")+1))
		hdr, err := h[i].Marshal()
		zzsymAssert(err == nil, "header_marshals")
		pkt := &recordlayer.RecordLayer{Header: h[i]}
		_, err = s.encrypt(pkt, append(hdr, pay[i]...))
		zzsymAssert(err == nil, "encrypt_ok")
	}
	zzsymAssert(len(s.fake.seals) == 2, "one_seal_per_record")
	c0, c1 := s.fake.seals[0], s.fake.seals[1]
	zzsymAssert(len(c0.nonce) == 12, "nonce_is_12_bytes")
	zzsymAssert(zzsymEqBytes(c0.text, pay[0]), "sealed_text_is_the_payload")

	// nonce: injective in (epoch, 48-bit sequence number) under one write IV
	sameNum := zzsymAnd(h[0].Epoch == h[1].Epoch, h[0].SequenceNumber == h[1].SequenceNumber)
	nonceEq := zzsymEqBytes(c0.nonce, c1.nonce)
	zzsymAssert(zzsymImplies(nonceEq, sameNum), "nonce_equal_implies_epoch_and_seq_equal")
	zzsymAssert(zzsymImplies(sameNum, nonceEq), "nonce_is_function_of_epoch_and_seq")

	// additional data: injective in the authenticated fields
	cid0 := h[0].ContentType == protocol.ContentTypeConnectionID
	cid1 := h[1].ContentType == protocol.ContentTypeConnectionID
	same := zzsymOr(
		zzsymAnd(zzsymAnd(cid0, cid1), zzSameAuthFieldsCID(&h[0], &h[1], len(pay[0]), len(pay[1]))),
		zzsymAnd(zzsymAnd(zzsymNot(cid0), zzsymNot(cid1)), zzSameAuthFields(&h[0], &h[1], len(pay[0]), len(pay[1]))))
	aadEq := zzsymEqBytes(c0.aad, c1.aad)
	zzsymAssert(zzsymImplies(aadEq, same), "seal_aad_equal_implies_fields_equal")
	if nonceEq {
		zzsymCover("nonce_equal")
	} else {
		zzsymCover("nonce_differs")
	}
	if aadEq {
		zzsymCover("aad_equal")
	}
}

// aead.encrypt (AES-GCM, AES-CCM; tag 16) and its CCM-8 instance (tag 8): for two arbitrary records
// (all header field values, connection ID absent or NCID bytes, payload 0..NPAY bytes) sealed under one
// write IV, the nonce given to the AEAD is 12 bytes and equal nonces imply equal epoch and sequence number;
// the additional data given to the AEAD are equal only if every authenticated header field and the payload
// length are equal; the text sealed is the payload.
//
func zzSealNonceAadGCMCCM() {
	zzSealTwo(zzsymChoice("ccm8", 2))
}

// ChaCha20Poly1305.Encrypt: same statement for the RFC 7905 nonce (write IV xor epoch||sequence number)
// and the additional data.
//
func zzSealNonceAadChaCha() {
	zzSealTwo(2)
}

// zzOpenTwo decrypts two arbitrary well-framed records of exactly minimal-plus-p bytes under the same read
// state with a primitive that rejects, and checks that the triples handed to Open coincide only if the
// records coincide byte for byte.
func zzOpenTwo(kind int) {
	s := zzNewSuite(kind, true)
	ncid := zzsymChoice("cidlen", 2) * zzsymParam("NCID")
	var in, orig [2][]byte
	for i := 0; i < 2; i++ {
		// 13 header bytes, room for the connection ID whether or not the record turns out to be tls12_cid,
		// protection overhead, p bytes of text
		p := zzsymChoice("extra", zzsymParam("NPAY")+1)
		in[i] = zzsymBytes("rec", 13+ncid+s.overhead+p)
		zzsymAssume(zzFramed(in[i], ncid))
		orig[i] = zzClone(in[i])
		h := recordlayer.Header{}
		if ncid > 0 {
			h.ConnectionID = make([]byte, ncid)
		}
		out, err := s.decrypt(h, in[i])
		if len(s.fake.opens) != i+1 {
			// rejected before authentication (bad version ...) or change_cipher_spec: not a protected record
			zzsymCover("no_open")
			return
		}
		zzsymAssert(err != nil, "rejecting_primitive_gives_error")
		zzsymAssert(out == nil, "rejecting_primitive_gives_no_plaintext")
	}
	c0, c1 := s.fake.opens[0], s.fake.opens[1]
	tripleEq := zzsymAnd(zzsymEqBytes(c0.nonce, c1.nonce), zzsymAnd(zzsymEqBytes(c0.text, c1.text), zzsymEqBytes(c0.aad, c1.aad)))
	recEq := zzsymEqBytes(orig[0], orig[1])
	zzsymAssert(zzsymImplies(tripleEq, recEq), "open_inputs_equal_implies_records_identical")
	zzsymAssert(zzsymImplies(recEq, tripleEq), "open_inputs_are_function_of_record")
	if tripleEq {
		zzsymCover("inputs_equal")
	} else {
		zzsymCover("inputs_differ")
	}
	if len(orig[0]) != len(orig[1]) {
		zzsymCover("lengths_differ")
	}
}

// aead.decrypt (GCM/CCM tag 16, CCM-8 tag 8): two arbitrary well-framed records (every byte symbolic:
// type, version, epoch, sequence number, connection ID of 0 or NCID bytes, length, explicit nonce,
// ciphertext, tag; 0..NPAY text bytes each, lengths chosen independently) reach Open with identical
// (nonce, ciphertext||tag, additional data) only if the two records are identical byte for byte. Hence any
// single-bit, field, truncation or extension mutation of a record, or a record from another epoch, changes
// what the AEAD authenticates.
//
func zzOpenInputsBindRecordGCMCCM() {
	zzOpenTwo(zzsymChoice("ccm8", 2))
}

// ChaCha20Poly1305.Decrypt: same statement (nonce derived from the header's epoch and sequence number).
//
func zzOpenInputsBindRecordChaCha() {
	zzOpenTwo(2)
}

// zzDecryptOnce runs Decrypt on one arbitrary byte string of every length 0..header+overhead+NPAY.
func zzDecryptOnce(kind int) {
	s := zzNewSuite(kind, false)
	ncid := zzsymChoice("cidlen", 2) * zzsymParam("NCID")
	n := zzsymChoice("len", 13+ncid+s.overhead+zzsymParam("NPAY")+1)
	in := zzsymBytes("rec", n)
	orig := zzClone(in)
	h := recordlayer.Header{}
	if ncid > 0 {
		h.ConnectionID = make([]byte, ncid)
	}
	out, err := s.decrypt(h, in)
	zzsymAssert(len(s.fake.opens) <= 1, "at_most_one_open")
	if err != nil {
		zzsymAssert(out == nil, "error_returns_no_plaintext")
		if len(s.fake.opens) == 1 {
			zzsymCover("auth_failed")
		} else {
			zzsymCover("rejected_before_open")
		}
		return
	}
	if len(s.fake.opens) == 0 {
		// the only record accepted without authentication is change_cipher_spec, returned untouched
		zzsymAssert(orig[0] == byte(protocol.ContentTypeChangeCipherSpec), "unauthenticated_success_only_for_ccs")
		zzsymAssert(zzsymEqBytes(out, orig), "ccs_returned_unchanged")
		zzsymCover("ccs")
		return
	}
	c := s.fake.opens[0]
	zzsymAssert(c.ok, "success_only_if_primitive_authenticated")
	hdr := 13
	if orig[0] == byte(protocol.ContentTypeConnectionID) {
		hdr += ncid
	}
	// delivered = the record's own header followed by exactly the primitive's plaintext
	zzsymAssert(len(out) == hdr+len(c.plain), "output_length")
	zzsymAssert(zzsymEqBytes(out[:hdr], orig[:hdr]), "output_header_is_record_header")
	zzsymAssert(zzsymEqBytes(out[hdr:], c.plain), "output_body_is_primitive_plaintext")
	if hdr > 13 {
		zzsymCover("accepted_cid")
	} else {
		zzsymCover("accepted")
	}
}

// aead.decrypt (GCM/CCM/CCM-8) on every byte string of length 0..13+CID+8+tag+NPAY (all contents symbolic,
// connection ID length 0 or NCID): whenever the AEAD reports failure, or the record is rejected earlier, an
// error and no plaintext are returned; success without a call to Open happens only for change_cipher_spec
// (returned unchanged); every other success needs the AEAD to authenticate and returns the record header
// followed by exactly the AEAD's plaintext. No panic on any input.
//
//symgo:entry covers=auth_failed,rejected_before_open,ccs,accepted,accepted_cid
func zzDecryptFailCleanGCMCCM() {
	zzDecryptOnce(zzsymChoice("ccm8", 2))
}

// ChaCha20Poly1305.Decrypt: same statement, lengths 0..13+CID+16+NPAY.
//
//symgo:entry covers=auth_failed,rejected_before_open,ccs,accepted,accepted_cid
func zzDecryptFailCleanChaCha() {
	zzDecryptOnce(2)
}

// zzSealThenOpen protects one arbitrary record and hands the result to Decrypt of the peer (same IV).
func zzSealThenOpen(kind int) {
	s := zzNewSuite(kind, false)
	ncid := zzsymChoice("cidlen", 2) * zzsymParam("NCID")
	h := zzSymHeader(ncid)
	if ncid > 0 {
		// a sender puts a connection ID only into tls12_cid records
		zzsymAssume(h.ContentType == protocol.ContentTypeConnectionID)
	}
	// senders write DTLS 1.2 (fe fd) or, for early handshake records, DTLS 1.0 (fe ff)
	zzsymAssume(zzsymAnd(h.Version.Major == 0xfe, zzsymOr(h.Version.Minor == 0xfd, h.Version.Minor == 0xff)))
	pay := zzsymBytes("pay", zzsymChoice("paylen", zzsymParam("NPAY")+1))
	hdr, err := h.Marshal()
	zzsymAssert(err == nil, "header_marshals")
	rec, err := s.encrypt(&recordlayer.RecordLayer{Header: h}, append(hdr, pay...))
	zzsymAssert(err == nil, "encrypt_ok")
	zzsymAssert(len(s.fake.seals) == 1, "one_seal")
	rh := recordlayer.Header{}
	if ncid > 0 {
		rh.ConnectionID = make([]byte, ncid)
	}
	wire := zzClone(rec)
	zzsymAssert(zzFramed(wire, ncid), "sender_frames_record_with_its_real_length")
	out, err := s.decrypt(rh, wire)
	if h.ContentType == protocol.ContentTypeChangeCipherSpec {
		zzsymCover("ccs")
		return
	}
	zzsymAssert(len(s.fake.opens) == 1, "receiver_calls_open_once")
	sc, oc := s.fake.seals[0], s.fake.opens[0]
	zzsymAssert(zzsymEqBytes(oc.nonce, sc.nonce), "receiver_nonce_is_sender_nonce")
	zzsymAssert(zzsymEqBytes(oc.aad, sc.aad), "receiver_aad_is_sender_aad")
	sealed := append(zzClone(pay), make([]byte, s.fake.tag)...) // what the fake Seal emitted
	zzsymAssert(zzsymEqBytes(oc.text, sealed), "receiver_ciphertext_is_sender_ciphertext")
	if err == nil {
		zzsymAssert(zzsymEqBytes(out[len(out)-len(oc.plain):], oc.plain), "delivers_primitive_plaintext")
		zzsymCover("opened")
	} else {
		zzsymCover("primitive_rejected")
	}
}

// aead.encrypt then aead.decrypt (GCM/CCM/CCM-8) on one arbitrary record (every header field value the
// sender can write, connection ID absent or NCID bytes, payload 0..NPAY bytes): the receiver hands the AEAD
// exactly the nonce, additional data and ciphertext||tag the sender's AEAD sealed, so the genuine record is
// what authenticates; the record the sender emits is framed with its real length.
//
func zzSealOpenAgreeGCMCCM() {
	zzSealThenOpen(zzsymChoice("ccm8", 2))
}

// ChaCha20Poly1305 Encrypt then Decrypt: same statement.
//
func zzSealOpenAgreeChaCha() {
	zzSealThenOpen(2)
}
