package dtlshandshake

//symgo:pkg github.com/pion/dtls/v3/internal/handshake
//symgo:param NSTEP quick=3 thorough=4
//symgo:replace time.NewTimer zz7FakeNewTimer
//symgo:replace (*time.Timer).Stop zz7FakeTimerStop
//symgo:replace github.com/pion/dtls/v3/internal/flight/flight13.Parse zz7FakeParse13
//symgo:replace github.com/pion/dtls/v3/internal/handshake.activateApplicationRecordProtection zz7FakeActivateApp
//symgo:replace github.com/pion/dtls/v3/pkg/crypto/keyschedule.HkdfExpandLabel zz7HkdfExpandLabel
//symgo:stub time.NewTimer is a harness fake: the timer of a wait either holds a tick at once (expiry step) or never expires (receive step), as chosen by the harness
//symgo:stub Conn is a harness fake record layer: WritePackets snapshots every packet it is handed (ShouldEncrypt, ShouldTrackACK, ShouldWrapCID, epoch, content identity, fragment narrowing) and reports one tracked record with a fresh record number per handshake fragment it would emit (messages are split into the fragments the harness configured; a narrowed packet emits only the listed fragments); CommitLocalKeyUpdate succeeds
//symgo:stub flight13.Parse is replaced by a stub reporting the received flight as stale (0): the peer only retransmits / acknowledges
//symgo:stub activateApplicationRecordProtection (AEAD set-up) only moves the epochs; keyschedule.HkdfExpandLabel is an uninterpreted function; the cipher suite is a harness fake (only needed to build a KeyUpdate flight)
//symgo:outside what Conn.WritePackets does with ShouldEncrypt (record protection itself) is zzTx13OnlyCiphertext in tx.go; this file pins the flag, epoch and content the FSM hands over on every (re)transmission
//symgo:outside schedules longer than NSTEP receive/expiry steps after the first transmission

import (
	"context"
	"crypto/rand"
	"hash"
	"time"

	dtlsciphersuite "github.com/pion/dtls/v3/internal/ciphersuite"
	dtlsconfig "github.com/pion/dtls/v3/internal/config"
	dtlserrors "github.com/pion/dtls/v3/internal/errors"
	dtlsflight "github.com/pion/dtls/v3/internal/flight"
	dtlsflight13 "github.com/pion/dtls/v3/internal/flight/flight13"
	dtlsstate "github.com/pion/dtls/v3/internal/state"
	"github.com/pion/dtls/v3/pkg/protocol"
	"github.com/pion/dtls/v3/pkg/protocol/alert"
	"github.com/pion/dtls/v3/pkg/protocol/handshake"
	"github.com/pion/dtls/v3/pkg/protocol/recordlayer"
)

// ---------------------------------------------------------------------------------------------
// fakes (copies of the C17 fakes under zz7 names)
// ---------------------------------------------------------------------------------------------

var zz7TimerFires bool

func zz7FakeNewTimer(time.Duration) *time.Timer {
	ch := make(chan time.Time, 1)
	if zz7TimerFires {
		ch <- time.Time{}
	}
	return &time.Timer{C: ch}
}

func zz7FakeTimerStop(*time.Timer) bool { return true }

func zz7FakeParse13(
	context.Context, dtlsflight13.Flight, dtlsflight.Conn, dtlsflight13.ParseDependencies,
) (dtlsflight13.Flight, *alert.Alert, error, bool) {
	return 0, nil, nil, true
}

func zz7FakeActivateApp(ctx context.Context, conn Conn, state *dtlsstate.State13) error {
	conn.SetLocalEpoch(dtlsflight13.EpochApplication)
	state.SetRemoteEpoch(dtlsflight13.EpochApplication)
	return conn.HandleQueuedPackets(ctx)
}

func zz7HkdfExpandLabel(h func() hash.Hash, secret []byte, label string, context []byte, length int) ([]byte, error) {
	if h == nil {
		return nil, dtlserrors.ErrKeyScheduleMissingHashFunction
	}
	return zzsymUF("hkdf_expand_label7", length, secret, []byte(label), context), nil
}

type zz7CtxErrT struct{}

func (zz7CtxErrT) Error() string { return "zz7ctx" }

var zz7CtxErr error = zz7CtxErrT{}

// zz7Ctx is cancelled when idle is set and the receive queue is empty.
type zz7Ctx struct {
	conn *zz7Conn
	idle bool
}

func (c *zz7Ctx) Deadline() (time.Time, bool) { return time.Time{}, false }
func (c *zz7Ctx) Done() <-chan struct{} {
	ch := make(chan struct{})
	if c.idle && len(c.conn.recv) == 0 {
		close(ch)
	}
	return ch
}
func (c *zz7Ctx) Err() error    { return zz7CtxErr }
func (c *zz7Ctx) Value(any) any { return nil }

type zz7LogT struct{}

func (zz7LogT) Trace(string)          {}
func (zz7LogT) Tracef(string, ...any) {}
func (zz7LogT) Debug(string)          {}
func (zz7LogT) Debugf(string, ...any) {}
func (zz7LogT) Info(string)           {}
func (zz7LogT) Infof(string, ...any)  {}
func (zz7LogT) Warn(string)           {}
func (zz7LogT) Warnf(string, ...any)  {}
func (zz7LogT) Error(string)          {}
func (zz7LogT) Errorf(string, ...any) {}

type zz7Frag struct{ off, length uint32 }

// zz7Snap is what the record layer was handed for one packet of one WritePackets call.
type zz7Snap struct {
	write   int
	content protocol.Content
	enc     bool
	track   bool
	wrap    bool
	epoch   uint16
	narrow  int // -1: whole message; otherwise number of fragments the packet is narrowed to
}

type zz7Conn struct {
	recv    chan RecvHandshakeState
	writes  int
	snaps   []zz7Snap
	frags   map[uint16][]zz7Frag // how each handshake message (by message_seq) is fragmented on the wire
	nextSeq uint64               // next record sequence number (epoch 2)
}

func zz7NewConn() *zz7Conn {
	return &zz7Conn{recv: make(chan RecvHandshakeState, 1), frags: map[uint16][]zz7Frag{}}
}

func (c *zz7Conn) HandleQueuedPackets(context.Context) error                    { return nil }
func (c *zz7Conn) SessionKey() []byte                                           { return nil }
func (c *zz7Conn) Notify(context.Context, alert.Level, alert.Description) error { return nil }
func (c *zz7Conn) RecvHandshake() <-chan RecvHandshakeState                     { return c.recv }
func (c *zz7Conn) SetLocalEpoch(uint16)                                         {}
func (c *zz7Conn) CommitLocalKeyUpdate(*dtlsstate.TrafficGeneration) error      { return nil }

func (c *zz7Conn) WritePackets(_ context.Context, pkts []*dtlsflight.Packet) (*WriteResult, error) {
	res := &WriteResult{}
	for _, p := range pkts {
		s := zz7Snap{
			write: c.writes, content: p.Record.Content, enc: p.ShouldEncrypt, track: p.ShouldTrackACK,
			wrap: p.ShouldWrapCID, epoch: p.Record.Header.Epoch, narrow: -1,
		}
		if p.HandshakeFragmentOffsets != nil {
			s.narrow = len(p.HandshakeFragmentOffsets)
		}
		c.snaps = append(c.snaps, s)
		hs, ok := p.Record.Content.(*handshake.Handshake)
		if !ok || !p.ShouldTrackACK {
			continue
		}
		seq := hs.Header.MessageSequence
		all := c.frags[seq]
		if len(all) == 0 {
			all = []zz7Frag{{0, 1}}
		}
		for _, f := range all {
			if p.HandshakeFragmentOffsets != nil {
				if l, ok := p.HandshakeFragmentOffsets[f.off]; !ok || l != f.length {
					continue // fragment already acknowledged: not retransmitted
				}
			}
			res.TrackedRecords = append(res.TrackedRecords, SentHandshakeRecord{
				Number:    protocol.RecordNumber{Epoch: 2, SequenceNumber: c.nextSeq},
				Fragments: []SentHandshakeFragment{{MessageSequence: seq, Offset: f.off, Length: f.length}},
			})
			c.nextSeq++
		}
	}
	c.writes++
	return res, nil
}

func zz7Packet(msg handshake.Message, seq uint16, epoch uint16, enc bool) *dtlsflight.Packet {
	return &dtlsflight.Packet{
		Record: &recordlayer.RecordLayer{
			Header:  recordlayer.Header{Version: protocol.Version1_2, Epoch: epoch},
			Content: &handshake.Handshake{Header: handshake.Header{MessageSequence: seq}, Message: msg},
		},
		ShouldEncrypt: enc,
	}
}

type zz7Orig struct {
	content protocol.Content
	enc     bool
	track   bool
	wrap    bool
	epoch   uint16
}

func zz7Originals(pkts []*dtlsflight.Packet) []zz7Orig {
	out := make([]zz7Orig, 0, len(pkts))
	for _, p := range pkts {
		out = append(out, zz7Orig{
			content: p.Record.Content, enc: p.ShouldEncrypt, track: p.ShouldTrackACK, wrap: p.ShouldWrapCID,
			epoch: p.Record.Header.Epoch,
		})
	}
	return out
}

// zz7CheckWrites is the oracle: for every packet p of the original flight with p.ShouldEncrypt, every later
// write of (a narrowing of) p - identified by the identical record content - has ShouldEncrypt, the same
// epoch and the same ShouldTrackACK / ShouldWrapCID; every handshake packet written belongs to the flight;
// every ACK record the FSM writes is marked for encryption. Returns (number of protected handshake packets
// written, number of those that were narrowed retransmissions).
func zz7CheckWrites(conn *zz7Conn, orig []zz7Orig) (int, int) {
	protected, narrowed := 0, 0
	for _, s := range conn.snaps {
		if _, isACK := s.content.(*protocol.ACK); isACK {
			zzsymAssert(s.enc, "ack_record_marked_for_encryption")
			continue
		}
		found := -1
		for j := range orig {
			if orig[j].content == s.content {
				found = j
			}
		}
		zzsymAssert(found >= 0, "written_packet_belongs_to_flight")
		if found < 0 {
			continue
		}
		o := orig[found]
		if !o.enc {
			continue // plaintext messages (ServerHello) are outside this claim
		}
		protected++
		zzsymAssert(s.enc, "protected_packet_keeps_should_encrypt_on_every_write")
		zzsymAssert(s.epoch == o.epoch, "protected_packet_keeps_epoch_on_every_write")
		zzsymAssert(s.track == o.track, "protected_packet_keeps_ack_tracking")
		zzsymAssert(s.wrap == o.wrap, "protected_packet_keeps_cid_wrapping")
		if s.narrow >= 0 {
			narrowed++
		}
	}
	return protected, narrowed
}

// ---------------------------------------------------------------------------------------------
// handshake flights
// ---------------------------------------------------------------------------------------------

// DTLS 1.3 handshake flights through the real fsm13.send / fsm13.wait / handleReceivedFlight /
// applyACKProgress: (a) server flight 4 = ServerHello (plaintext, epoch 0) + EncryptedExtensions (protected,
// epoch 2, sent as two fragments in two records) + Finished (protected, one record); (b) client flight 5 =
// Certificate (protected, two fragments) + Finished (protected). After the first transmission NSTEP steps follow,
// each one of: retransmit timer expires; the peer retransmits its flight; an empty ACK arrives; an ACK for any
// one record sent so far arrives (so partial ACKs of a fragmented message, ACKs of whole messages, ACKs of old
// transmissions, and full acknowledgement are all reached). Proved over every such schedule: every packet handed
// to Conn.WritePackets that carries a message of the flight which was marked ShouldEncrypt is again marked
// ShouldEncrypt, with the same epoch, ShouldTrackACK and ShouldWrapCID - in particular the narrowed packet that is
// retransmitted after a partial ACK; nothing but packets of the flight and (encrypt-marked) ACK records is written.
//
//symgo:entry covers=hs_retransmit_whole,hs_retransmit_after_partial_ack,hs_retransmit_after_message_ack,hs_all_acked,hs_timer_resend,hs_peer_retransmit_resend
func zzProtectedFlightKeepsProtection13() {
	nstep := zzsymParam("NSTEP")
	isClient := zzsymChoice("flight", 2) == 1
	cfg := &dtlsconfig.HandshakeConfig{InitialRetransmitInterval: time.Second, Log: zz7LogT{}}
	st := dtlsstate.NewState13(isClient)
	st.SetLocalEpoch(dtlsflight13.EpochHandshake)
	conn := zz7NewConn()
	var flights []*dtlsflight.Packet
	cur := dtlsflight13.Flight4
	if isClient {
		cur = dtlsflight13.Flight5
		flights = []*dtlsflight.Packet{
			zz7Packet(&handshake.MessageCertificate13{}, 0, dtlsflight13.EpochHandshake, true),
			zz7Packet(&handshake.MessageFinished{}, 1, dtlsflight13.EpochHandshake, true),
		}
		conn.frags[0] = []zz7Frag{{0, 4}, {4, 4}}
	} else {
		flights = []*dtlsflight.Packet{
			zz7Packet(&handshake.MessageServerHello{}, 0, 0, false),
			zz7Packet(&handshake.MessageEncryptedExtensions{}, 1, dtlsflight13.EpochHandshake, true),
			zz7Packet(&handshake.MessageFinished{}, 2, dtlsflight13.EpochHandshake, true),
		}
		conn.frags[1] = []zz7Frag{{0, 4}, {4, 4}}
	}
	hc := handshakeContext{state: &st, cache: dtlsflight.NewCache(), cfg: cfg, transcript: NewTranscript()}
	fsm := &fsm13{
		currentFlight: cur, flights: flights, retransmit: true, retransmitInterval: time.Second,
		handshakeContext: hc, closed: make(chan struct{}), establishment: NewEstablishment(),
		postHandshake: newPostHandshake(hc),
	}
	fsm.prepareFlightACKTracking(flights, true) // as fsm13.prepare does
	orig := zz7Originals(flights)
	nProtected := 0
	for _, o := range orig {
		zzsymAssert(o.track, "flight_tracked_for_acks")
		if o.enc {
			nProtected++
		}
	}

	ctx := &zz7Ctx{conn: conn}
	state, err := fsm.send(ctx, conn)
	zzsymAssert(err == nil, "send_ok")
	for step := 0; step < nstep && state != StateFinished; step++ {
		sent := int(conn.nextSeq)
		kind := zzsymChoice("step", 3+sent)
		switch {
		case kind == 0: // timer expiry
			zz7TimerFires, ctx.idle = true, false
		case kind == 1: // the peer retransmits its previous flight
			zz7TimerFires, ctx.idle = false, true
			conn.recv <- RecvHandshakeState{
				Done: make(chan struct{}), HasHandshake: true, IsRetransmit: true,
				RecordsToACK: []protocol.RecordNumber{{Epoch: 2, SequenceNumber: 900}},
			}
		case kind == 2: // empty ACK
			zz7TimerFires, ctx.idle = false, true
			conn.recv <- RecvHandshakeState{Done: make(chan struct{}), ACKs: []protocol.ACK{{}}}
		default: // ACK of one record sent so far
			zz7TimerFires, ctx.idle = false, true
			rn := protocol.RecordNumber{Epoch: 2, SequenceNumber: uint64(kind - 3)}
			conn.recv <- RecvHandshakeState{Done: make(chan struct{}), ACKs: []protocol.ACK{{Records: []protocol.RecordNumber{rn}}}}
		}
		before := conn.writes
		state, err = fsm.wait(ctx, conn)
		if err != nil {
			zzsymAssert(err == zz7CtxErr, "only_cancellation_error")
			state = StateWaiting // the receive step left the FSM waiting
			continue
		}
		if state == StateSending {
			state, err = fsm.send(ctx, conn)
			zzsymAssert(err == nil, "send_ok")
			if kind == 0 {
				zzsymCover("hs_timer_resend")
			}
			if kind == 1 {
				zzsymCover("hs_peer_retransmit_resend")
			}
			// classify what was just retransmitted
			for _, s := range conn.snaps {
				if s.write < before {
					continue
				}
				if _, isHS := s.content.(*handshake.Handshake); !isHS {
					continue
				}
				if s.narrow == 1 {
					zzsymCover("hs_retransmit_after_partial_ack")
				}
			}
			if len(fsm.flights) == len(flights) {
				zzsymCover("hs_retransmit_whole")
			} else if len(fsm.flights) > 0 {
				zzsymCover("hs_retransmit_after_message_ack")
			}
		}
	}
	if len(fsm.flightACK.pending) == 0 {
		zzsymCover("hs_all_acked")
	}
	protected, _ := zz7CheckWrites(conn, orig)
	zzsymAssert(protected >= nProtected, "first_transmission_carries_every_protected_message")
}

// ---------------------------------------------------------------------------------------------
// post-handshake flights
// ---------------------------------------------------------------------------------------------

type zz7Prot struct{}

func (zz7Prot) Seal(h recordlayer.UnifiedHeader, _ uint64, _ protocol.ContentType, _ []byte) (recordlayer.CiphertextRecord13, error) {
	return recordlayer.CiphertextRecord13{Header: h}, nil
}

func (zz7Prot) Open(recordlayer.UnifiedHeader, uint64, []byte) (recordlayer.InnerPlaintext, error) {
	return recordlayer.InnerPlaintext{}, dtlserrors.ErrDecryptPacket
}

func (zz7Prot) UnmaskSequenceNumber(h recordlayer.UnifiedHeader, _ []byte) (recordlayer.UnifiedHeader, error) {
	return h, nil
}

type zz7Hash struct{}

func (zz7Hash) Write(p []byte) (int, error) { return len(p), nil }
func (zz7Hash) Sum(b []byte) []byte         { return append(b, make([]byte, 32)...) }
func (zz7Hash) Reset()                      {}
func (zz7Hash) Size() int                   { return 32 }
func (zz7Hash) BlockSize() int              { return 64 }

type zz7Suite struct {
	dtlsciphersuite.TLS13CipherSuite
}

func (s *zz7Suite) String() string             { return "zz7Suite" }
func (s *zz7Suite) ID() dtlsciphersuite.ID     { return dtlsciphersuite.TLS_AES_128_GCM_SHA256 }
func (s *zz7Suite) HashFunc() func() hash.Hash { return func() hash.Hash { return zz7Hash{} } }
func (s *zz7Suite) NewRecordProtection([]byte) (dtlsciphersuite.RecordProtection13, error) {
	return zz7Prot{}, nil
}

var _ dtlsciphersuite.CipherSuiteTLS13 = (*zz7Suite)(nil)

func zz7SetRandReader() { rand.Reader = zz7Reader{} }

type zz7Reader struct{}

func (zz7Reader) Read(p []byte) (int, error) {
	copy(p, zzsymBytes("rand7", len(p)))
	return len(p), nil
}

// DTLS 1.3 post-handshake flights through the real startNewSessionTicket / startKeyUpdate,
// handlePostHandshakeReceive (applyACK) and retransmitPostHandshake(Flight): a server's NewSessionTicket or a
// KeyUpdate (either role, update requested or not), sent under an arbitrary application epoch 3..65534 as two
// fragments in two records. After the first transmission NSTEP steps follow, each one of: the flight's timer is
// due (retransmitPostHandshake at its NextRetransmit); an ACK for any one record sent so far arrives (partial ACK
// of the fragmented message, ACK of an old transmission, or full acknowledgement). Proved over every such
// schedule: the packet is created with ShouldEncrypt, ShouldTrackACK and the current sending epoch, and every
// retransmission - including the narrowed one after a partial ACK - hands the record layer the same content with
// ShouldEncrypt still set and the same epoch and tracking; ACK records written in between are encrypt-marked;
// nothing else is written.
//
//symgo:entry covers=post_ticket,post_keyupdate,post_retransmit_whole,post_retransmit_after_partial_ack,post_completed
func zzPostHandshakeFlightKeepsProtection13() {
	nstep := zzsymParam("NSTEP")
	isTicket := zzsymChoice("kind", 2) == 0
	isClient := false
	if !isTicket {
		isClient = zzsymChoice("client", 2) == 1
	}
	epoch := zzsymU16("epoch")
	zzsymAssume(epoch >= dtlsflight13.EpochApplication)
	zzsymAssume(epoch < 65535)
	cfg := &dtlsconfig.HandshakeConfig{InitialRetransmitInterval: time.Second, Log: zz7LogT{}}
	st := dtlsstate.NewState13(isClient)
	st.CipherSuite = &zz7Suite{}
	st.SetLocalEpoch(epoch)
	st.HandshakeSendSequence = 3
	gen := &dtlsstate.TrafficGeneration{Epoch: epoch, Generation: 1, Secret: zzsymBytes("secret", 32), Protection: zz7Prot{}}
	st.TrafficKeys.Install(gen, nil)
	p := newPostHandshake(handshakeContext{state: &st, cache: dtlsflight.NewCache(), cfg: cfg, transcript: NewTranscript()})
	p.initialized = true
	conn := zz7NewConn()
	conn.frags[3] = []zz7Frag{{0, 2}, {2, 3}}
	ctx := &zz7Ctx{conn: conn}

	var err error
	if isTicket {
		zz7SetRandReader()
		err = p.startNewSessionTicket(ctx, conn, false)
		zzsymCover("post_ticket")
	} else {
		req := handshake.KeyUpdateNotRequested
		if zzsymChoice("request", 2) == 1 {
			req = handshake.KeyUpdateRequested
		}
		err = p.startKeyUpdate(ctx, conn, postHandshakeCommand{Kind: commandSendKeyUpdate, KeyUpdate: keyUpdateCommand{Request: req}})
		zzsymCover("post_keyupdate")
	}
	zzsymAssert(err == nil, "start_ok")
	zzsymAssert(len(p.flights) == 1, "one_active_flight")
	var fl *reliablePostHandshakeFlight
	for _, f := range p.flights {
		fl = f
	}
	orig := zz7Originals(fl.Packets)
	zzsymAssert(len(orig) == 1, "post_handshake_flight_is_one_message")
	zzsymAssert(orig[0].enc, "post_handshake_message_created_with_should_encrypt")
	zzsymAssert(orig[0].track, "post_handshake_message_created_ack_tracked")
	zzsymAssert(orig[0].epoch == epoch, "post_handshake_message_uses_current_sending_epoch")
	zzsymAssert(len(fl.PendingFragments) == 2, "both_fragments_pending")

	for step := 0; step < nstep && len(p.flights) != 0; step++ {
		sent := int(conn.nextSeq)
		kind := zzsymChoice("step", 1+sent)
		if kind == 0 {
			partial := len(fl.PendingFragments) == 1
			err = p.retransmitPostHandshake(ctx, conn, fl.NextRetransmit, false)
			zzsymAssert(err == nil, "retransmit_ok")
			if partial {
				zzsymCover("post_retransmit_after_partial_ack")
			} else {
				zzsymCover("post_retransmit_whole")
			}
			continue
		}
		rn := protocol.RecordNumber{Epoch: 2, SequenceNumber: uint64(kind - 1)}
		err = p.handlePostHandshakeReceive(ctx, conn, RecvHandshakeState{
			Done: make(chan struct{}), ACKs: []protocol.ACK{{Records: []protocol.RecordNumber{rn}}},
			RecordsToACK: []protocol.RecordNumber{{Epoch: uint64(epoch), SequenceNumber: 77}},
		})
		zzsymAssert(err == nil, "receive_ok")
	}
	if len(p.flights) == 0 {
		zzsymCover("post_completed")
	}
	protected, _ := zz7CheckWrites(conn, orig)
	zzsymAssert(protected >= 1, "first_transmission_written")
}
