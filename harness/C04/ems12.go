package flight12

//symgo:pkg github.com/pion/dtls/v3/internal/flight/flight12
//symgo:param NBODY quick=1 thorough=2
//symgo:replace github.com/pion/dtls/v3/pkg/crypto/prf.PHash zzFinPHash
//symgo:replace github.com/pion/dtls/v3/pkg/crypto/prf.PreMasterSecret zzFinPreMasterSecret
//symgo:replace github.com/pion/dtls/v3/internal/handshakecrypto.VerifyCertificateVerify zzFinVerifyCertificateVerify
//symgo:replace github.com/pion/dtls/v3/internal/handshakecrypto.VerifyKeySignature zzEmsVerifyKeySignature
//symgo:replace github.com/pion/dtls/v3/internal/handshakecrypto.GenerateCertificateVerify zzEmsGenerateCertificateVerify
//symgo:replace github.com/pion/dtls/v3/pkg/crypto/signaturehash.SelectSignatureScheme zzEmsSelectSignatureScheme
//symgo:stub prf.PHash(secret, seed, n) is the uninterpreted function PRF_n(secret, seed); the PRF hash is a harness fake whose Sum is the uninterpreted function H(bytes written); prf.ExtendedMasterSecret / MasterSecret / VerifyDataClient and Cache.SessionHash themselves run for real
//symgo:stub prf.PreMasterSecret (ECDH) is an uninterpreted function of both keys; VerifyKeySignature always reports a valid ServerKeyExchange signature; VerifyCertificateVerify has an arbitrary verdict; SelectSignatureScheme returns ecdsa/sha256 and GenerateCertificateVerify returns one arbitrary signature byte and records the bytes to be signed (real signing is assembly); the client's private key is a harness fake crypto.Signer that is never asked to sign
//symgo:assume UF-collision-freedom (named assumption of C04): the master secret equals PRF(pms, "extended master secret", H(T)) for every interpretation of H and PRF only if the code hashed exactly T
//symgo:assume handshake messages reach the flight handlers through the handshake cache as complete, unfragmented messages whose 12-byte header is consistent with the cache metadata; own messages are cached by Conn.cacheHandshakePacket in the form Handshake.Marshal produces after fsm12.prepare numbered them consecutively from HandshakeSendSequence
//symgo:outside message bodies longer than the bounds; RSA / hybrid key exchange (the session hash does not depend on the key-exchange algorithm)

import (
	"context"
	"crypto"
	"crypto/tls"
	"io"

	"github.com/pion/dtls/v3/internal/ciphersuite"
	dtlsconfig "github.com/pion/dtls/v3/internal/config"
	dtlsflight "github.com/pion/dtls/v3/internal/flight"
	"github.com/pion/dtls/v3/pkg/crypto/elliptic"
	dtlshash "github.com/pion/dtls/v3/pkg/crypto/hash"
	"github.com/pion/dtls/v3/pkg/crypto/signature"
	"github.com/pion/dtls/v3/pkg/crypto/signaturehash"
	"github.com/pion/dtls/v3/pkg/protocol/handshake"
)

func zzEmsVerifyKeySignature(_, _ []byte, _ dtlshash.Algorithm, _ signature.Algorithm, _ [][]byte) error {
	return nil
}

func zzEmsSelectSignatureScheme(_ []signaturehash.Algorithm, _ crypto.PrivateKey) (signaturehash.Algorithm, error) {
	return signaturehash.Algorithm{Hash: dtlshash.SHA256, Signature: signature.ECDSA}, nil
}

var zzEmsSignLog [][]byte // the bytes handed to GenerateCertificateVerify

func zzEmsGenerateCertificateVerify(bodies []byte, _ crypto.Signer, _ dtlshash.Algorithm, _ signature.Algorithm) ([]byte, error) {
	zzEmsSignLog = append(zzEmsSignLog, append([]byte{}, bodies...))
	return zzsymBytes("own_cv_signature", 1), nil
}

// zzEmsSigner is a crypto.Signer that must never be used (signing is stubbed above).
type zzEmsSigner struct{}

func (zzEmsSigner) Public() crypto.PublicKey { return nil }
func (zzEmsSigner) Sign(io.Reader, []byte, crypto.SignerOpts) ([]byte, error) {
	zzsymFail("harness/signer_used")
	return nil, nil
}

// zzEmsRandom fills r with 28 arbitrary random_bytes and returns the 32-byte Random as it appears on the wire
// (RFC 5246 7.4.1.2: uint32 gmt_unix_time + opaque random_bytes[28]); the time stays at the harness' fixed value.
func zzEmsRandom(name string, r *handshake.Random) []byte {
	rb := zzsymBytes(name, handshake.RandomBytesLength)
	copy(r.RandomBytes[:], rb)
	t := uint32(r.GMTUnixTime.Unix())
	return append([]byte{byte(t >> 24), byte(t >> 16), byte(t >> 8), byte(t)}, rb...)
}

// zzEmsExpectEMS is RFC 7627 section 4 written out:
//
//	master_secret = PRF(pre_master_secret, "extended master secret", session_hash)[0..47]
//	session_hash  = Hash(handshake_messages), all messages from ClientHello up to and including ClientKeyExchange
func zzEmsExpectEMS(pms, handshakeMessages []byte) []byte {
	seed := append([]byte("extended master secret"), zzFinH(handshakeMessages)...)
	return zzsymUF(zzFinPRFName(48), 48, pms, seed)
}

// zzEmsExpectClassic is RFC 5246 section 8.1:
//
//	master_secret = PRF(pre_master_secret, "master secret", ClientHello.random + ServerHello.random)[0..47]
func zzEmsExpectClassic(pms, clientRandom, serverRandom []byte) []byte {
	seed := zzFinCat([]byte("master secret"), clientRandom, serverRandom)
	return zzsymUF(zzFinPRFName(48), 48, pms, seed)
}

// Extended master secret, server side: flight4Parse derives the master secret when the client's
// ClientKeyExchange has arrived. Cache: optionally first ClientHello + HelloVerifyRequest, ClientHello,
// ServerHello, [Certificate], [ServerKeyExchange], [CertificateRequest], ServerHelloDone (bodies NBODY arbitrary
// bytes), client [Certificate], ClientKeyExchange, [CertificateVerify] (well-formed, payload arbitrary), and the
// client's Finished present or not yet received. Key exchange ECDHE (certificate suite; ECDH uninterpreted) or
// plain PSK; extended master secret negotiated or not. Proved: with EMS the master secret the record layer is
// keyed with equals PRF(pms, "extended master secret", Hash(ClientHello + ServerHello + Certificate +
// ServerKeyExchange + CertificateRequest + ServerHelloDone + client Certificate + ClientKeyExchange))[0..47]
// (RFC 7627 section 4: everything up to and including ClientKeyExchange, in RFC 5246 section 7.3 order, so
// neither CertificateVerify nor Finished, and not the cookie-less ClientHello / HelloVerifyRequest); without EMS
// it is the RFC 5246 section 8.1 value over the two randoms.
//
//symgo:entry covers=ems_ecdhe,ems_psk,classic,with_client_cert,with_certificate_verify,finished_pending,finished_present,with_hvr
func zzEmsHashServer() {
	zzFinReset()
	psk := zzsymChoice("psk", 2) == 1
	ems := zzsymChoice("ems", 2) == 1
	suite := &zzFinSuite{auth: ciphersuite.AuthenticationTypeCertificate, kx: ciphersuite.KeyExchangeAlgorithmEcdhe}
	cfg := zzFinConfig()
	state := zzFinState(false, suite, 0)
	state.ExtendedMasterSecret = ems
	var pms []byte
	ckePublic := []byte(nil)
	if psk {
		suite.auth, suite.kx = ciphersuite.AuthenticationTypePreSharedKey, ciphersuite.KeyExchangeAlgorithmPsk
		key := zzsymBytes("psk", 1)
		cfg.LocalPSKCallback = func([]byte) ([]byte, error) { return key, nil }
		// RFC 4279 section 2: uint16 N, N zero octets, uint16 N, the PSK
		pms = []byte{0, 1, 0, 0, 1, key[0]}
	} else {
		priv := zzsymBytes("server_private", 1)
		state.LocalKeypair = &elliptic.Keypair{Curve: elliptic.X25519, PublicKey: []byte{1}, PrivateKey: priv}
	}
	serverRandom := zzEmsRandom("server_random", &state.LocalRandom)
	clientRandom := zzEmsRandom("client_random", &state.RemoteRandom)
	cfg.LocalSignatureSchemes = []signaturehash.Algorithm{{Hash: dtlshash.SHA256, Signature: signature.ECDSA}}

	fl := &zzFinFlow{cache: dtlsflight.NewCache(), nbody: zzsymParam("NBODY")}
	hvr := zzsymChoice("hvr", 2) == 1
	hasCert := zzsymChoice("cert", 2) == 1
	hasSKE := zzsymChoice("ske", 2) == 1
	hasCReq := zzsymChoice("certreq", 2) == 1
	clientAuth := zzsymChoice("client_cert", 3) // 0 none, 1 Certificate only (CertificateVerify still missing), 2 both
	hasFin := zzsymChoice("finished", 2) == 1
	if hvr {
		fl.push("ch0", handshake.TypeClientHello, true, 0)
		fl.push("hvr", handshake.TypeHelloVerifyRequest, false, 0)
	}
	var cert, ske, creq []byte
	ch := fl.push("ch", handshake.TypeClientHello, true, 0)
	sh := fl.push("sh", handshake.TypeServerHello, false, 0)
	if hasCert {
		cert = fl.push("cert", handshake.TypeCertificate, false, 0)
	}
	if hasSKE {
		ske = fl.push("ske", handshake.TypeServerKeyExchange, false, 0)
	}
	if hasCReq {
		creq = fl.push("creq", handshake.TypeCertificateRequest, false, 0)
	}
	shd := fl.push("shd", handshake.TypeServerHelloDone, false, 0)
	state.HandshakeRecvSequence = int(fl.nextClient)
	ccert, cke, _ := zzFinClientFlight(fl, psk, clientAuth >= 1, clientAuth == 2)
	if !psk {
		ckePublic = cke[len(cke)-1:]
		pms = zzsymUF("ECDH", 4, ckePublic, state.LocalKeypair.PrivateKey)
	}
	if hasFin {
		fl.push("cfin12", handshake.TypeFinished, true, 1)
	}

	_, _, _ = flight4Parse(context.Background(), &zzFinConn{}, state, fl.cache, cfg)

	if !suite.initialized {
		// no keys yet: CertificateVerify missing or refused
		return
	}
	zzsymAssert(suite.inits == 1, "ems_hash_server/keyed_once")
	zzsymAssert(zzsymEqBytes(suite.initMaster, state.MasterSecret), "ems_hash_server/cipher_keyed_with_master_secret")
	if ems {
		want := zzEmsExpectEMS(pms, zzFinCat(ch, sh, cert, ske, creq, shd, ccert, cke))
		zzsymAssert(zzsymEqBytes(state.MasterSecret, want), "ems_hash_server/session_hash_covers_ch_through_cke")
		if psk {
			zzsymCover("ems_psk")
		} else {
			zzsymCover("ems_ecdhe")
		}
		if clientAuth >= 1 {
			zzsymCover("with_client_cert")
		}
		if clientAuth == 2 {
			zzsymCover("with_certificate_verify")
		}
		if hasFin {
			zzsymCover("finished_present")
		} else {
			zzsymCover("finished_pending")
		}
		if hvr {
			zzsymCover("with_hvr")
		}
	} else {
		want := zzEmsExpectClassic(pms, clientRandom, serverRandom)
		zzsymAssert(zzsymEqBytes(state.MasterSecret, want), "ems_hash_server/classic_master_secret")
		zzsymCover("classic")
	}
}

// Extended master secret, client side: the real flight5Generate on a client cache holding optionally the first
// ClientHello + HelloVerifyRequest, then ClientHello, ServerHello, [Certificate], [ServerKeyExchange],
// [CertificateRequest], ServerHelloDone (bodies arbitrary bytes; a CertificateRequest that is acted on is
// well-formed with one arbitrary CA-name byte). The client answers with [Certificate (empty, or one arbitrary
// byte with a private key)], ClientKeyExchange (ECDHE public key / PSK identity: one arbitrary byte),
// [CertificateVerify], ChangeCipherSpec, Finished; premaster secret 2 arbitrary bytes. The harness numbers the
// returned handshake messages like fsm12.prepare and marshals them (the bytes the peer receives and both sides
// cache). Proved: with EMS the master secret that keys the cipher equals PRF(pms, "extended master secret",
// Hash(ClientHello ... ServerHelloDone + client Certificate + ClientKeyExchange as sent))[0..47] - the same
// message list as on the server side (zzEmsHashServer), RFC 7627 section 4. Also proved (sending side of the
// Finished check): the client's CertificateVerify signs ClientHello ... ClientKeyExchange and the client's own
// verify_data = PRF(master, "client finished", Hash(ClientHello ... CertificateVerify))[0..11], i.e. exactly
// what a server that checks the client's Finished per RFC 5246 expects.
//
//symgo:entry covers=ems_ecdhe,ems_psk,classic,no_client_cert,empty_client_cert,signed_client_cert,with_hvr
func zzEmsHashClient() {
	zzFinReset()
	zzEmsSignLog = nil
	psk := zzsymChoice("psk", 2) == 1
	ems := zzsymChoice("ems", 2) == 1
	suite := &zzFinSuite{auth: ciphersuite.AuthenticationTypeCertificate, kx: ciphersuite.KeyExchangeAlgorithmEcdhe}
	cfg := zzFinConfig()
	cfg.InsecureSkipVerify = true
	cfg.LocalSignatureSchemes = []signaturehash.Algorithm{{Hash: dtlshash.SHA256, Signature: signature.ECDSA}}
	state := zzFinState(true, suite, 0)
	state.ExtendedMasterSecret = ems
	pms := zzsymBytes("pre_master_secret", 2)
	state.PreMasterSecret = pms
	state.PeerCertificates = [][]byte{{1}}
	clientRandom := zzEmsRandom("client_random", &state.LocalRandom)
	serverRandom := zzEmsRandom("server_random", &state.RemoteRandom)
	state.SetRemoteServerKeyExchange(&handshake.MessageServerKeyExchange{
		EllipticCurveType: elliptic.CurveTypeNamedCurve, NamedCurve: elliptic.X25519, PublicKey: []byte{9},
		HashAlgorithm: dtlshash.SHA256, SignatureAlgorithm: signature.ECDSA, Signature: []byte{0x51},
	})
	if psk {
		suite.auth, suite.kx = ciphersuite.AuthenticationTypePreSharedKey, ciphersuite.KeyExchangeAlgorithmPsk
		cfg.LocalPSKCallback = func([]byte) ([]byte, error) { return []byte{1}, nil }
		cfg.LocalPSKIdentityHint = zzsymBytes("psk_identity", 1)
	} else {
		state.LocalKeypair = &elliptic.Keypair{Curve: elliptic.X25519, PublicKey: zzsymBytes("client_public", 1), PrivateKey: []byte{2}}
	}

	nbody := zzsymParam("NBODY")
	fl := &zzFinFlow{cache: dtlsflight.NewCache(), nbody: nbody}
	hvr := zzsymChoice("hvr", 2) == 1
	hasCert := zzsymChoice("cert", 2) == 1
	hasSKE := zzsymChoice("ske", 2) == 1
	certReq := zzsymChoice("certreq", 3) // 0 none, 1 requested / empty client certificate, 2 requested / certificate + key
	if hvr {
		fl.push("ch0", handshake.TypeClientHello, true, 0)
		fl.push("hvr", handshake.TypeHelloVerifyRequest, false, 0)
	}
	var cert, ske, creq []byte
	ch := fl.push("ch", handshake.TypeClientHello, true, 0)
	sh := fl.push("sh", handshake.TypeServerHello, false, 0)
	if hasCert {
		cert = fl.push("cert", handshake.TypeCertificate, false, 0)
	}
	if hasSKE {
		ske = fl.push("ske", handshake.TypeServerKeyExchange, false, 0)
	}
	if certReq != 0 {
		// RFC 5246 7.4.4: certificate_types<1..2^8-1> supported_signature_algorithms<2^16-1> certificate_authorities<0..2^16-1>
		creq = fl.pushBody(handshake.TypeCertificateRequest, false, 0, append([]byte{1, 64, 0, 2, 4, 3, 0, 3, 0, 1}, zzsymBytes("creq_ca", 1)...))
		state.RemoteRequestedCertificate = true
		state.RemoteCertRequestAlgs = []signaturehash.Algorithm{{Hash: dtlshash.SHA256, Signature: signature.ECDSA}}
		cfg.LocalGetClientCertificate = func(*dtlsconfig.CertificateRequestInfo) (*tls.Certificate, error) {
			if certReq == 1 {
				return &tls.Certificate{}, nil
			}
			return &tls.Certificate{Certificate: [][]byte{zzsymBytes("own_cert", 1)}, PrivateKey: zzEmsSigner{}}, nil
		}
	}
	shd := fl.push("shd", handshake.TypeServerHelloDone, false, 0)
	state.HandshakeRecvSequence = int(fl.nextServer)
	state.HandshakeSendSequence = int(fl.nextClient)

	pkts, a, err := flight5Generate(&zzFinConn{}, state, fl.cache, cfg)
	zzsymAssert(zzsymAnd(a == nil, err == nil), "ems_hash_client/flight5_generated")

	// what goes on the wire: fsm12.prepare numbers the handshake messages consecutively, Conn marshals them
	var sent [][]byte
	var sentTypes []handshake.Type
	seq := uint16(state.HandshakeSendSequence)
	for _, p := range pkts {
		hs, ok := p.Record.Content.(*handshake.Handshake)
		if !ok {
			continue
		}
		hs.Header.MessageSequence = seq
		seq++
		raw, merr := hs.Marshal()
		zzsymAssert(merr == nil, "ems_hash_client/sent_message_marshals")
		sent = append(sent, raw)
		sentTypes = append(sentTypes, hs.Message.Type())
	}
	var ccert, cke, cv, cfin []byte
	i := 0
	if certReq != 0 {
		zzsymAssert(sentTypes[i] == handshake.TypeCertificate, "ems_hash_client/flight_shape")
		ccert = sent[i]
		i++
	}
	zzsymAssert(sentTypes[i] == handshake.TypeClientKeyExchange, "ems_hash_client/flight_shape")
	cke = sent[i]
	i++
	if certReq == 2 {
		zzsymAssert(sentTypes[i] == handshake.TypeCertificateVerify, "ems_hash_client/flight_shape")
		cv = sent[i]
		i++
	}
	zzsymAssert(len(sent) == i+1 && sentTypes[i] == handshake.TypeFinished, "ems_hash_client/flight_shape")
	cfin = sent[i]

	zzsymAssert(suite.inits == 1, "ems_hash_client/keyed_once")
	zzsymAssert(zzsymEqBytes(suite.initMaster, state.MasterSecret), "ems_hash_client/cipher_keyed_with_master_secret")
	throughCKE := zzFinCat(ch, sh, cert, ske, creq, shd, ccert, cke)
	if ems {
		zzsymAssert(zzsymEqBytes(state.MasterSecret, zzEmsExpectEMS(pms, throughCKE)), "ems_hash_client/session_hash_covers_ch_through_cke")
		if psk {
			zzsymCover("ems_psk")
		} else {
			zzsymCover("ems_ecdhe")
		}
	} else {
		zzsymAssert(zzsymEqBytes(state.MasterSecret, zzEmsExpectClassic(pms, clientRandom, serverRandom)), "ems_hash_client/classic_master_secret")
		zzsymCover("classic")
	}
	// RFC 5246 7.4.8 / 7.4.9 on the sending side
	if certReq == 2 {
		zzsymAssert(len(zzEmsSignLog) == 1, "ems_hash_client/one_certificate_verify")
		zzsymAssert(zzsymEqBytes(zzEmsSignLog[0], throughCKE), "ems_hash_client/own_certificate_verify_covers_transcript")
		zzsymCover("signed_client_cert")
	} else {
		zzsymAssert(len(zzEmsSignLog) == 0, "ems_hash_client/no_certificate_verify_without_key")
		if certReq == 1 {
			zzsymCover("empty_client_cert")
		} else {
			zzsymCover("no_client_cert")
		}
	}
	wantFin := zzFinExpect(state.MasterSecret, zzLabelClient, zzFinCat(throughCKE, cv))
	zzsymAssert(zzsymEqBytes(cfin[handshake.HeaderLength:], wantFin), "ems_hash_client/own_finished_covers_whole_transcript")
	if hvr {
		zzsymCover("with_hvr")
	}
}
