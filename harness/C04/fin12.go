package flight12

//symgo:pkg github.com/pion/dtls/v3/internal/flight/flight12
//symgo:param NBODY quick=1 thorough=2
//symgo:param NMS quick=4 thorough=48
//symgo:replace github.com/pion/dtls/v3/pkg/crypto/prf.PHash zzFinPHash
//symgo:replace github.com/pion/dtls/v3/pkg/crypto/prf.PreMasterSecret zzFinPreMasterSecret
//symgo:replace github.com/pion/dtls/v3/internal/handshakecrypto.VerifyCertificateVerify zzFinVerifyCertificateVerify
//symgo:stub prf.PreMasterSecret (ECDH) is the uninterpreted function ECDH(peer public key, own private key); handshakecrypto.VerifyCertificateVerify records the signed bytes and returns an arbitrary verdict (valid / invalid)
//symgo:stub prf.PHash(secret, seed, n) is the uninterpreted function PRF_n(secret, seed); the PRF hash (CipherSuite.HashFunc) is a harness fake whose Sum is the uninterpreted function H(bytes written). prf.VerifyDataClient/VerifyDataServer themselves (label + Hash(messages)) run for real. That the real PHash is RFC 5246 P_hash is C10 (tls12_prf.go).
//symgo:stub the cipher suite is a harness fake (Init records the master secret, no record protection); Conn is a harness fake (HandleQueuedPackets counts, SessionKey constant)
//symgo:assume UF-collision-freedom (named assumption of C04): H and PRF are uninterpreted, so "verify_data equals PRF(master, label, H(T))" holds for every interpretation only if the code hashed exactly T; conversely tampering changes T and, for a collision-free hash/PRF, the expected verify_data
//symgo:assume handshake messages reach the flight handlers through the handshake cache as complete, unfragmented messages whose 12-byte header is consistent with the cache metadata (what Conn.bufferHandshakeRecord / cacheHandshakePacket store)
//symgo:outside live man-in-the-middle runs; message bodies longer than NBODY bytes (the handlers under test never look inside the transcript messages, they hash the raw bytes)

// C04 (transcript integrity), DTLS 1.2 flight handlers: shared fakes, message builders, the RFC 5246 7.4.9 oracle,
// then the entries.

import (
	"context"
	"hash"

	"github.com/pion/dtls/v3/internal/ciphersuite"
	dtlsconfig "github.com/pion/dtls/v3/internal/config"
	dtlserrors "github.com/pion/dtls/v3/internal/errors"
	dtlsflight "github.com/pion/dtls/v3/internal/flight"
	dtlsstate "github.com/pion/dtls/v3/internal/state"
	"github.com/pion/dtls/v3/pkg/crypto/clientcertificate"
	"github.com/pion/dtls/v3/pkg/crypto/elliptic"
	dtlshash "github.com/pion/dtls/v3/pkg/crypto/hash"
	"github.com/pion/dtls/v3/pkg/crypto/prf"
	"github.com/pion/dtls/v3/pkg/crypto/signature"
	"github.com/pion/dtls/v3/pkg/crypto/signaturehash"
	"github.com/pion/dtls/v3/pkg/protocol"
	"github.com/pion/dtls/v3/pkg/protocol/alert"
	"github.com/pion/dtls/v3/pkg/protocol/handshake"
	"github.com/pion/dtls/v3/pkg/protocol/recordlayer"
)

// ---------------------------------------------------------------------------------------------
// crypto as uninterpreted functions

// zzFinHash is a fake hash.Hash: Sum(b) = b || H(everything written), H uninterpreted, 32 bytes.
type zzFinHash struct{ buf []byte }

func (h *zzFinHash) Write(p []byte) (int, error) { h.buf = append(h.buf, p...); return len(p), nil }
func (h *zzFinHash) Sum(b []byte) []byte         { return append(b, zzFinH(h.buf)...) }
func (h *zzFinHash) Reset()                      { h.buf = nil }
func (h *zzFinHash) Size() int                   { return 32 }
func (h *zzFinHash) BlockSize() int              { return 64 }

func zzFinNewHash() hash.Hash { return &zzFinHash{} }

func zzFinH(data []byte) []byte { return zzsymUF("H", 32, data) }

// zzFinPHash replaces prf.PHash: P_hash(secret, seed)[0..n-1] is the uninterpreted function PRF_n(secret, seed).
// (That the real PHash is RFC 5246 section 5 P_hash is proved in C10/tls12_prf.go.)
func zzFinPHash(secret, seed []byte, n int, _ prf.HashFunc) ([]byte, error) {
	return zzsymUF(zzFinPRFName(n), n, secret, seed), nil
}

// zzFinPRFName: one uninterpreted function per output length used by the handshake (12: verify_data, 48: master secret).
func zzFinPRFName(n int) string {
	switch n {
	case 12:
		return "PRF12"
	case 48:
		return "PRF48"
	}
	return "PRF"
}

// zzFinPreMasterSecret replaces prf.PreMasterSecret (real ECDH / ML-KEM): an uninterpreted function of both keys.
func zzFinPreMasterSecret(publicKey, privateKey []byte, _ elliptic.Curve) ([]byte, error) {
	return zzsymUF("ECDH", 4, publicKey, privateKey), nil
}

type zzFinErr struct{}

func (zzFinErr) Error() string { return "zzfin" }

var zzFinCVLog [][]byte // the signed bytes of every VerifyCertificateVerify call

// zzFinVerifyCertificateVerify replaces handshakecrypto.VerifyCertificateVerify: arbitrary verdict, input recorded.
func zzFinVerifyCertificateVerify(bodies []byte, _ dtlshash.Algorithm, _ signature.Algorithm, _ []byte, _ [][]byte) error {
	zzFinCVLog = append(zzFinCVLog, append([]byte{}, bodies...))
	if zzsymBool("certificate_verify_valid") {
		return nil
	}
	return zzFinErr{}
}

// zzFinReset clears the recording globals (all entries of the package share them).
func zzFinReset() {
	zzFinCVLog = nil
}

// zzFinExpect is RFC 5246 section 7.4.9 written out:
//
//	verify_data = PRF(master_secret, finished_label, Hash(handshake_messages))[0..11]
//
// with PRF(secret, label, seed) = P_hash(secret, label + seed) (section 5).
func zzFinExpect(master []byte, label string, handshakeMessages []byte) []byte {
	seed := append([]byte(label), zzFinH(handshakeMessages)...)
	return zzsymUF(zzFinPRFName(12), 12, master, seed)
}

const (
	zzLabelClient = "client finished"
	zzLabelServer = "server finished"
)

// ---------------------------------------------------------------------------------------------
// fake cipher suite / conn / logger

type zzFinSuite struct {
	hashFunc    func() hash.Hash // nil: the uninterpreted hash H
	auth        ciphersuite.AuthenticationType
	kx          ciphersuite.KeyExchangeAlgorithm
	initialized bool
	inits       int
	initMaster  []byte
}

func (s *zzFinSuite) String() string                          { return "zzFinSuite" }
func (s *zzFinSuite) ID() ciphersuite.ID                      { return ciphersuite.TLS_ECDHE_ECDSA_WITH_AES_128_GCM_SHA256 }
func (s *zzFinSuite) CertificateType() clientcertificate.Type { return clientcertificate.ECDSASign }
func (s *zzFinSuite) HashFunc() func() hash.Hash {
	if s.hashFunc != nil {
		return s.hashFunc
	}
	return zzFinNewHash
}
func (s *zzFinSuite) AuthenticationType() ciphersuite.AuthenticationType {
	return s.auth
}
func (s *zzFinSuite) KeyExchangeAlgorithm() ciphersuite.KeyExchangeAlgorithm { return s.kx }
func (s *zzFinSuite) ECC() bool                                              { return true }
func (s *zzFinSuite) Init(master, _, _ []byte, _ bool) error {
	s.initialized = true
	s.inits++
	s.initMaster = append([]byte{}, master...)
	return nil
}
func (s *zzFinSuite) IsInitialized() bool                                     { return s.initialized }
func (s *zzFinSuite) Decrypt(_ recordlayer.Header, in []byte) ([]byte, error) { return in, nil }
func (s *zzFinSuite) Encrypt(_ *recordlayer.RecordLayer, raw []byte) ([]byte, error) {
	return raw, nil
}

type zzFinConn struct{ queued int }

func (c *zzFinConn) HandleQueuedPackets(context.Context) error { c.queued++; return nil }
func (c *zzFinConn) SessionKey() []byte                        { return []byte{0x5e} }

type zzFinLog struct{}

func (zzFinLog) Trace(string)          {}
func (zzFinLog) Tracef(string, ...any) {}
func (zzFinLog) Debug(string)          {}
func (zzFinLog) Debugf(string, ...any) {}
func (zzFinLog) Info(string)           {}
func (zzFinLog) Infof(string, ...any)  {}
func (zzFinLog) Warn(string)           {}
func (zzFinLog) Warnf(string, ...any)  {}
func (zzFinLog) Error(string)          {}
func (zzFinLog) Errorf(string, ...any) {}

// ---------------------------------------------------------------------------------------------
// handshake messages as they sit in the handshake cache

// zzFinRaw lays out one complete, unfragmented DTLS handshake message (RFC 6347 section 4.2.2):
//
//	msg_type(1) length(3) message_seq(2) fragment_offset(3)=0 fragment_length(3)=length body
func zzFinRaw(typ handshake.Type, seq uint16, body []byte) []byte {
	n := len(body)
	hdr := []byte{byte(typ), byte(n >> 16), byte(n >> 8), byte(n), byte(seq >> 8), byte(seq), 0, 0, 0, byte(n >> 16), byte(n >> 8), byte(n)}
	return append(hdr, body...)
}

// zzFinFlow builds the cache of one handshake: messages are pushed in wire order, each side numbering its own
// messages consecutively from 0 (RFC 6347 section 4.2.2).
type zzFinFlow struct {
	cache      *dtlsflight.Cache
	nextClient uint16
	nextServer uint16
	nbody      int
	varlen     bool // every body length chosen independently in 0..nbody instead of exactly nbody
}

// push stores a message with a fresh symbolic body of nbody bytes and returns its raw bytes (header + body).
func (f *zzFinFlow) push(name string, typ handshake.Type, isClient bool, epoch uint16) []byte {
	n := f.nbody
	if f.varlen {
		n = zzsymChoice(name+"_len", f.nbody+1)
	}
	return f.pushBody(typ, isClient, epoch, zzsymBytes(name, n))
}

func (f *zzFinFlow) pushBody(typ handshake.Type, isClient bool, epoch uint16, body []byte) []byte {
	seq := f.nextServer
	if isClient {
		seq = f.nextClient
		f.nextClient++
	} else {
		f.nextServer++
	}
	raw := zzFinRaw(typ, seq, body)
	f.cache.Push(raw, epoch, seq, typ, isClient)
	return raw
}

func zzFinCat(parts ...[]byte) []byte {
	out := []byte{}
	for _, p := range parts {
		out = append(out, p...)
	}
	return out
}

// zzFinState: a DTLS 1.2 state with the fake suite selected and an arbitrary master secret of nms bytes.
func zzFinState(isClient bool, suite *zzFinSuite, nms int) *dtlsstate.State12 {
	st := &dtlsstate.State12{
		Common: &dtlsstate.Common{IsClient: isClient, LocalVersion: protocol.Version1_2, CipherSuite: suite},
	}
	if nms > 0 {
		st.MasterSecret = zzsymBytes("master_secret", nms)
	}
	return st
}

// zzFinConfig: with or without a session store whose operations all succeed (Set / Del return nil, Get finds nothing):
// whether the endpoint keeps sessions must not change what a Finished check decides - in particular a successful
// store operation on the failure path must not stand in for the verdict (seed C04k-1).
func zzFinConfig() *dtlsconfig.HandshakeConfig {
	cfg := &dtlsconfig.HandshakeConfig{Log: zzFinLog{}}
	if zzsymChoice("session_store", 2) == 1 {
		cfg.HasSessionStore = true
		cfg.GetSession = func([]byte) ([]byte, []byte, error) { return nil, nil, nil }
		cfg.SetSession = func(_, _, _ []byte) error { return nil }
		cfg.DelSession = func([]byte) error { return nil }
	}

	return cfg
}

// ---------------------------------------------------------------------------------------------
// entries

// Full DTLS 1.2 handshake, client side: flight5Parse (the client's last check before it reports success) on a
// handshake cache that holds every message kind a full handshake can contain - optionally the first
// ClientHello + HelloVerifyRequest, then ClientHello, ServerHello, [Certificate], [ServerKeyExchange],
// [CertificateRequest], ServerHelloDone, [client Certificate], ClientKeyExchange, [CertificateVerify], client
// Finished (epoch 1) and the server's Finished (epoch 1) - each optional message independently present or
// absent, every body NBODY arbitrary bytes behind a real 12-byte handshake header, the server's verify_data 12
// (or 11) arbitrary bytes, the master secret NMS arbitrary bytes. Proved: Flight5 (handshake complete) is
// returned only if verify_data = PRF(master_secret, "server finished", Hash(T))[0..11] where T is, in RFC 5246
// section 7.3 order, the concatenation of ALL those messages up to and including the client's Finished, without
// the initial ClientHello/HelloVerifyRequest pair (RFC 6347 section 4.2.1) - the list is written out in the
// harness; nothing is completed, a fatal handshake_failure alert and ErrVerifyDataMismatch are returned
// otherwise; a session is stored only after the check.
//
//symgo:entry covers=accepted,rejected,with_hvr,without_hvr,all_optional_present,no_optional_present,short_verify_data,session_saved
func zzFinClient() {
	zzFinReset()
	suite := &zzFinSuite{auth: ciphersuite.AuthenticationTypeCertificate, kx: ciphersuite.KeyExchangeAlgorithmEcdhe, initialized: true}
	state := zzFinState(true, suite, zzsymParam("NMS"))
	cfg := zzFinConfig()
	saved := 0
	var savedSecret []byte
	cfg.SetSession = func(_, _, secret []byte) error {
		saved++
		savedSecret = secret
		return nil
	}
	if zzsymChoice("session_id", 2) == 1 {
		state.SessionID = []byte{7}
	}

	fl := &zzFinFlow{cache: dtlsflight.NewCache(), nbody: zzsymParam("NBODY")}
	hvr := zzsymChoice("hvr", 2) == 1
	hasCert := zzsymChoice("cert", 2) == 1
	hasSKE := zzsymChoice("ske", 2) == 1
	hasCReq := zzsymChoice("certreq", 2) == 1
	hasCCert := zzsymChoice("ccert", 2) == 1
	hasCV := zzsymChoice("certverify", 2) == 1

	if hvr {
		fl.push("ch0", handshake.TypeClientHello, true, 0)
		fl.push("hvr", handshake.TypeHelloVerifyRequest, false, 0)
	}
	var cert, ske, creq, ccert, cv []byte
	ch := fl.push("ch", handshake.TypeClientHello, true, 0)
	sh := fl.push("sh", handshake.TypeServerHello, false, 0)
	if hasCert {
		cert = fl.push("cert", handshake.TypeCertificate, false, 0)
	}
	if hasSKE {
		ske = fl.push("ske", handshake.TypeServerKeyExchange, false, 0)
	}
	if hasCReq {
		creq = fl.push("creq", handshake.TypeCertificateRequest, false, 0)
	}
	shd := fl.push("shd", handshake.TypeServerHelloDone, false, 0)
	if hasCCert {
		ccert = fl.push("ccert", handshake.TypeCertificate, true, 0)
	}
	cke := fl.push("cke", handshake.TypeClientKeyExchange, true, 0)
	if hasCV {
		cv = fl.push("cv", handshake.TypeCertificateVerify, true, 0)
	}
	cfin := fl.push("cfin", handshake.TypeFinished, true, 1)
	// the message under test: the server's Finished
	state.HandshakeRecvSequence = int(fl.nextServer)
	vdLen := 12 - zzsymChoice("verify_data_short", 2)
	verifyData := zzsymBytes("verify_data", vdLen)
	fl.pushBody(handshake.TypeFinished, false, 1, verifyData)

	// oracle: RFC 5246 7.4.9 handshake_messages for the server's Finished, RFC 5246 7.3 order
	transcript := zzFinCat(ch, sh, cert, ske, creq, shd, ccert, cke, cv, cfin)
	want := zzFinExpect(state.MasterSecret, zzLabelServer, transcript)

	conn := &zzFinConn{}
	next, a, err := flight5Parse(context.Background(), conn, state, fl.cache, cfg)

	if next != 0 {
		zzsymAssert(next == Flight5, "fin_client/completes_as_flight5")
		zzsymAssert(zzsymAnd(a == nil, err == nil), "fin_client/complete_without_alert")
		zzsymAssert(zzsymEqBytes(verifyData, want), "fin_client/server_finished_covers_whole_transcript")
		if len(state.SessionID) > 0 {
			zzsymAssert(saved == 1, "fin_client/session_saved_once")
			zzsymAssert(zzsymEqBytes(savedSecret, state.MasterSecret), "fin_client/saved_secret_is_master")
			zzsymCover("session_saved")
		}
		zzsymCover("accepted")
	} else {
		zzsymAssert(saved == 0, "fin_client/no_session_saved_on_reject")
		zzsymAssert(a != nil && a.Level == alert.Fatal && a.Description == alert.HandshakeFailure, "fin_client/reject_is_fatal_handshake_failure")
		zzsymAssert(err == dtlserrors.ErrVerifyDataMismatch, "fin_client/reject_is_verify_data_mismatch")
		zzsymAssert(zzsymNot(zzsymEqBytes(verifyData, want)), "fin_client/rejects_only_wrong_verify_data")
		zzsymCover("rejected")
		if vdLen != 12 {
			zzsymCover("short_verify_data")
		}
	}
	if hvr {
		zzsymCover("with_hvr")
	} else {
		zzsymCover("without_hvr")
	}
	if hasCert && hasSKE && hasCReq && hasCCert && hasCV {
		zzsymCover("all_optional_present")
	}
	if !hasCert && !hasSKE && !hasCReq && !hasCCert && !hasCV {
		zzsymCover("no_optional_present")
	}
}

// Abbreviated (session resumption) handshake, client side: handleResumption (called by flight3Parse when the
// ServerHello echoes the offered session id) on a cache holding optionally the first ClientHello +
// HelloVerifyRequest, then ClientHello, ServerHello and the server's Finished (epoch 1); bodies 0..NBODY+1
// arbitrary bytes each (lengths independent), verify_data 12 (or 11) arbitrary bytes, resumed master secret NMS arbitrary bytes. Proved: Flight5b
// (client goes on to send its own Finished) is returned only if verify_data = PRF(master_secret,
// "server finished", Hash(ClientHello + ServerHello))[0..11] (RFC 5246 section 7.3 figure 2: these are all the
// messages that precede the server's Finished in an abbreviated handshake; the cookie-less ClientHello and the
// HelloVerifyRequest are excluded per RFC 6347 section 4.2.1); otherwise fatal handshake_failure +
// ErrVerifyDataMismatch and no next flight.
//
//symgo:entry covers=accepted,rejected,with_hvr,without_hvr,short_verify_data
func zzFinResumeClient() {
	zzFinReset()
	suite := &zzFinSuite{auth: ciphersuite.AuthenticationTypeCertificate, kx: ciphersuite.KeyExchangeAlgorithmEcdhe}
	state := zzFinState(true, suite, zzsymParam("NMS"))
	state.SessionID = []byte{7}
	cfg := zzFinConfig()

	fl := &zzFinFlow{cache: dtlsflight.NewCache(), nbody: zzsymParam("NBODY") + 1, varlen: true}
	hvr := zzsymChoice("hvr", 2) == 1
	if hvr {
		fl.push("ch0", handshake.TypeClientHello, true, 0)
		fl.push("hvr", handshake.TypeHelloVerifyRequest, false, 0)
	}
	ch := fl.push("ch", handshake.TypeClientHello, true, 0)
	// flight3Parse calls handleResumption with HandshakeRecvSequence still at the ServerHello
	state.HandshakeRecvSequence = int(fl.nextServer)
	sh := fl.push("sh", handshake.TypeServerHello, false, 0)
	vdLen := 12 - zzsymChoice("verify_data_short", 2)
	verifyData := zzsymBytes("verify_data", vdLen)
	fl.pushBody(handshake.TypeFinished, false, 1, verifyData)

	want := zzFinExpect(state.MasterSecret, zzLabelServer, zzFinCat(ch, sh))

	conn := &zzFinConn{}
	next, a, err := handleResumption(context.Background(), conn, state, fl.cache, cfg)
	if next != 0 {
		zzsymAssert(next == Flight5b, "fin_resume_client/continues_with_flight5b")
		zzsymAssert(zzsymAnd(a == nil, err == nil), "fin_resume_client/complete_without_alert")
		zzsymAssert(zzsymEqBytes(verifyData, want), "fin_resume_client/server_finished_covers_whole_transcript")
		zzsymCover("accepted")
	} else {
		zzsymAssert(a != nil && a.Level == alert.Fatal && a.Description == alert.HandshakeFailure, "fin_resume_client/reject_is_fatal_handshake_failure")
		zzsymAssert(err == dtlserrors.ErrVerifyDataMismatch, "fin_resume_client/reject_is_verify_data_mismatch")
		zzsymAssert(zzsymNot(zzsymEqBytes(verifyData, want)), "fin_resume_client/rejects_only_wrong_verify_data")
		zzsymCover("rejected")
		if vdLen != 12 {
			zzsymCover("short_verify_data")
		}
	}
	if hvr {
		zzsymCover("with_hvr")
	} else {
		zzsymCover("without_hvr")
	}
}

// Abbreviated (session resumption) handshake, server side: flight4bParse on a cache holding optionally the
// first ClientHello + HelloVerifyRequest, then ClientHello, ServerHello, the server's own Finished (epoch 1)
// and the client's Finished (epoch 1); bodies 0..NBODY+1 arbitrary bytes each (lengths independent), the client's verify_data 12 (or 11)
// arbitrary bytes, master secret NMS arbitrary bytes. Proved: Flight4b (handshake complete) is returned only if
// verify_data = PRF(master_secret, "client finished", Hash(ClientHello + ServerHello + server Finished))[0..11]
// (RFC 5246 section 7.3 figure 2 order, label of the peer); otherwise fatal handshake_failure +
// ErrVerifyDataMismatch and no flight.
//
//symgo:entry covers=accepted,rejected,with_hvr,without_hvr,short_verify_data,waiting_without_client_finished
func zzFinResumeServer() {
	zzFinReset()
	suite := &zzFinSuite{auth: ciphersuite.AuthenticationTypeCertificate, kx: ciphersuite.KeyExchangeAlgorithmEcdhe, initialized: true}
	state := zzFinState(false, suite, zzsymParam("NMS"))
	state.SessionID = []byte{7}
	cfg := zzFinConfig()

	fl := &zzFinFlow{cache: dtlsflight.NewCache(), nbody: zzsymParam("NBODY") + 1, varlen: true}
	hvr := zzsymChoice("hvr", 2) == 1
	if hvr {
		fl.push("ch0", handshake.TypeClientHello, true, 0)
		fl.push("hvr", handshake.TypeHelloVerifyRequest, false, 0)
	}
	ch := fl.push("ch", handshake.TypeClientHello, true, 0)
	sh := fl.push("sh", handshake.TypeServerHello, false, 0)
	sfin := fl.push("sfin", handshake.TypeFinished, false, 1)
	state.HandshakeRecvSequence = int(fl.nextClient)
	if zzsymChoice("client_finished_arrived", 2) == 0 {
		// nothing but the (possibly retransmitted) ClientHello has arrived from the client so far: the server keeps
		// waiting - no flight, in particular not "Flight4b = handshake complete", comes out of the parser
		next, a, err := flight4bParse(context.Background(), &zzFinConn{}, state, fl.cache, cfg)
		zzsymAssert(next == 0, "fin_resume_server/no_completion_without_client_finished")
		zzsymAssert(a == nil && err == nil, "fin_resume_server/waits_quietly_for_client_finished")
		zzsymCover("waiting_without_client_finished")
		return
	}
	vdLen := 12 - zzsymChoice("verify_data_short", 2)
	verifyData := zzsymBytes("verify_data", vdLen)
	fl.pushBody(handshake.TypeFinished, true, 1, verifyData)

	want := zzFinExpect(state.MasterSecret, zzLabelClient, zzFinCat(ch, sh, sfin))

	next, a, err := flight4bParse(context.Background(), &zzFinConn{}, state, fl.cache, cfg)
	if next != 0 {
		zzsymAssert(next == Flight4b, "fin_resume_server/completes_as_flight4b")
		zzsymAssert(zzsymAnd(a == nil, err == nil), "fin_resume_server/complete_without_alert")
		zzsymAssert(zzsymEqBytes(verifyData, want), "fin_resume_server/client_finished_covers_whole_transcript")
		zzsymCover("accepted")
	} else {
		zzsymAssert(a != nil && a.Level == alert.Fatal && a.Description == alert.HandshakeFailure, "fin_resume_server/reject_is_fatal_handshake_failure")
		zzsymAssert(err == dtlserrors.ErrVerifyDataMismatch, "fin_resume_server/reject_is_verify_data_mismatch")
		zzsymAssert(zzsymNot(zzsymEqBytes(verifyData, want)), "fin_resume_server/rejects_only_wrong_verify_data")
		zzsymCover("rejected")
		if vdLen != 12 {
			zzsymCover("short_verify_data")
		}
	}
	if hvr {
		zzsymCover("with_hvr")
	} else {
		zzsymCover("without_hvr")
	}
}

// zzFinClientFlight pushes the client's second flight of a full handshake with well-formed bodies (the server
// parses these): [Certificate with one 1-byte certificate], ClientKeyExchange (ECDHE: 1-byte public key; PSK:
// 1-byte identity), [CertificateVerify sha256/ecdsa with a 1-byte signature]; every payload byte arbitrary.
func zzFinClientFlight(fl *zzFinFlow, psk, hasCCert, hasCV bool) (ccert, cke, cv []byte) {
	if hasCCert {
		// RFC 5246 7.4.2: certificate_list<0..2^24-1> of ASN.1Cert<1..2^24-1>
		ccert = fl.pushBody(handshake.TypeCertificate, true, 0, append([]byte{0, 0, 4, 0, 0, 1}, zzsymBytes("ccert", 1)...))
	}
	if psk {
		// RFC 4279 section 2: psk_identity<0..2^16-1>
		cke = fl.pushBody(handshake.TypeClientKeyExchange, true, 0, append([]byte{0, 1}, zzsymBytes("cke_identity", 1)...))
	} else {
		// RFC 8422 5.7: ECPoint ecdh_Yc = opaque point<1..2^8-1>
		cke = fl.pushBody(handshake.TypeClientKeyExchange, true, 0, append([]byte{1}, zzsymBytes("cke_public", 1)...))
	}
	if hasCV {
		// RFC 5246 7.4.8: SignatureAndHashAlgorithm(2) opaque signature<0..2^16-1>
		cv = fl.pushBody(handshake.TypeCertificateVerify, true, 0, append([]byte{4, 3, 0, 1}, zzsymBytes("cv_signature", 1)...))
	}
	return ccert, cke, cv
}

// Full DTLS 1.2 handshake, server side: flight4Parse (the server's only look at the client's second flight) on
// a cache holding optionally the first ClientHello + HelloVerifyRequest, then ClientHello, ServerHello,
// [Certificate], [ServerKeyExchange], [CertificateRequest], ServerHelloDone (bodies NBODY arbitrary bytes) and
// the client's [Certificate], ClientKeyExchange, [CertificateVerify] (well-formed, payload bytes arbitrary) and
// Finished (epoch 1, 12 arbitrary verify_data bytes). Three key-establishment modes: keys already derived by an
// earlier flight4Parse call that was still waiting for Finished (master secret NMS arbitrary bytes), plain PSK
// with the classic master secret, certificate-authenticated ECDHE with extended master secret (ECDH and the
// signature check stubbed). Client authentication none or require-any. Asserted: Flight6 (the server sends its
// own Finished and reports success) is returned only if the client's verify_data = PRF(master_secret,
// "client finished", Hash(T))[0..11], T = ClientHello ... CertificateVerify in RFC 5246 section 7.3 order
// (label fin_server_full/client_finished_not_verified). Also asserted: a CertificateVerify is checked over
// ClientHello ... ClientKeyExchange (RFC 5246 section 7.4.8).
// KNOWN TO FAIL on the current tree (design finding F5): flight4Parse pulls the client's Finished from the
// cache, checks only that it decodes, and never computes or compares verify_data.
//
//symgo:entry covers=flight6,flight6_keys_already_derived,flight6_psk,flight6_cert_ems,flight6_with_client_cert,not_complete,with_hvr,without_hvr
func zzFinServerFull() {
	zzFinReset()
	mode := zzsymChoice("mode", 3) // 0 keys already derived, 1 PSK classic master secret, 2 certificate ECDHE + EMS
	suite := &zzFinSuite{auth: ciphersuite.AuthenticationTypeCertificate, kx: ciphersuite.KeyExchangeAlgorithmEcdhe}
	cfg := zzFinConfig()
	var state *dtlsstate.State12
	switch mode {
	case 0:
		suite.initialized = true
		state = zzFinState(false, suite, zzsymParam("NMS"))
	case 1:
		suite.auth, suite.kx = ciphersuite.AuthenticationTypePreSharedKey, ciphersuite.KeyExchangeAlgorithmPsk
		state = zzFinState(false, suite, 0)
		psk := zzsymBytes("psk", 1)
		cfg.LocalPSKCallback = func([]byte) ([]byte, error) { return psk, nil }
	case 2:
		state = zzFinState(false, suite, 0)
		state.ExtendedMasterSecret = true
		state.LocalKeypair = &elliptic.Keypair{Curve: elliptic.X25519, PublicKey: []byte{1}, PrivateKey: zzsymBytes("server_private", 1)}
	}
	copy(state.LocalRandom.RandomBytes[:], zzsymBytes("server_random", 2))
	copy(state.RemoteRandom.RandomBytes[:], zzsymBytes("client_random", 2))
	cfg.LocalSignatureSchemes = []signaturehash.Algorithm{{Hash: dtlshash.SHA256, Signature: signature.ECDSA}}
	if zzsymChoice("client_auth", 2) == 1 {
		cfg.ClientAuth = dtlsconfig.RequireAnyClientCert
	}

	fl := &zzFinFlow{cache: dtlsflight.NewCache(), nbody: zzsymParam("NBODY")}
	hvr := zzsymChoice("hvr", 2) == 1
	hasCert := zzsymChoice("cert", 2) == 1
	hasSKE := zzsymChoice("ske", 2) == 1
	hasCReq := zzsymChoice("certreq", 2) == 1
	hasCCert := zzsymChoice("ccert", 2) == 1
	hasCV := zzsymChoice("certverify", 2) == 1
	if hvr {
		fl.push("ch0", handshake.TypeClientHello, true, 0)
		fl.push("hvr", handshake.TypeHelloVerifyRequest, false, 0)
	}
	var cert, ske, creq []byte
	ch := fl.push("ch", handshake.TypeClientHello, true, 0)
	sh := fl.push("sh", handshake.TypeServerHello, false, 0)
	if hasCert {
		cert = fl.push("cert", handshake.TypeCertificate, false, 0)
	}
	if hasSKE {
		ske = fl.push("ske", handshake.TypeServerKeyExchange, false, 0)
	}
	if hasCReq {
		creq = fl.push("creq", handshake.TypeCertificateRequest, false, 0)
	}
	shd := fl.push("shd", handshake.TypeServerHelloDone, false, 0)
	state.HandshakeRecvSequence = int(fl.nextClient)
	ccert, cke, cv := zzFinClientFlight(fl, mode == 1, hasCCert, hasCV)
	verifyData := zzsymBytes("verify_data", 12)
	fl.pushBody(handshake.TypeFinished, true, 1, verifyData)

	conn := &zzFinConn{}
	next, _, _ := flight4Parse(context.Background(), conn, state, fl.cache, cfg)

	// RFC 5246 7.4.8: the CertificateVerify signature covers every message from ClientHello up to, not including, itself
	for _, signed := range zzFinCVLog {
		zzsymAssert(zzsymEqBytes(signed, zzFinCat(ch, sh, cert, ske, creq, shd, ccert, cke)), "fin_server_full/certificate_verify_covers_transcript")
	}
	if next == 0 {
		zzsymCover("not_complete")
		return
	}
	zzsymAssert(next == Flight6, "fin_server_full/completes_as_flight6")
	zzsymAssert(suite.initialized, "fin_server_full/keys_derived_before_completion")
	if mode != 0 {
		zzsymAssert(zzsymEqBytes(suite.initMaster, state.MasterSecret), "fin_server_full/cipher_keyed_with_master_secret")
	}
	zzsymCover("flight6")
	switch mode {
	case 0:
		zzsymCover("flight6_keys_already_derived")
	case 1:
		zzsymCover("flight6_psk")
	case 2:
		zzsymCover("flight6_cert_ems")
	}
	if hasCCert {
		zzsymCover("flight6_with_client_cert")
	}
	if hvr {
		zzsymCover("with_hvr")
	} else {
		zzsymCover("without_hvr")
	}
	// RFC 5246 7.4.9: handshake_messages for the client's Finished = everything before it, 7.3 order
	want := zzFinExpect(state.MasterSecret, zzLabelClient, zzFinCat(ch, sh, cert, ske, creq, shd, ccert, cke, cv))
	zzsymAssert(zzsymEqBytes(verifyData, want), "fin_server_full/client_finished_not_verified")
}

// The property in its end-to-end form for the full handshake, client side: an honest server computes its
// Finished over ITS view of the transcript (bodies "peer_*"), the client holds its own view (bodies "own_*",
// same message kinds: ClientHello, ServerHello, Certificate, ServerKeyExchange, CertificateRequest,
// ServerHelloDone, client Certificate, ClientKeyExchange, CertificateVerify, client Finished; NBODY arbitrary
// bytes each, i.e. an on-path attacker may have altered any byte of any message in either direction), both
// share the master secret. Under the named assumption that Hash and PRF do not collide on the two transcripts
// (stated as an explicit zzsymAssume on exactly these two inputs), flight5Parse reports completion (Flight5)
// only if the two views are byte-for-byte identical, and it does complete when they are.
//
//symgo:entry covers=untampered_accepted,tampered_rejected
func zzFinClientTamper() {
	zzFinReset()
	suite := &zzFinSuite{auth: ciphersuite.AuthenticationTypeCertificate, kx: ciphersuite.KeyExchangeAlgorithmEcdhe, initialized: true}
	state := zzFinState(true, suite, zzsymParam("NMS"))
	cfg := zzFinConfig()
	kinds := []struct {
		name     string
		typ      handshake.Type
		isClient bool
		epoch    uint16
	}{
		{"ch", handshake.TypeClientHello, true, 0}, {"sh", handshake.TypeServerHello, false, 0},
		{"cert", handshake.TypeCertificate, false, 0}, {"ske", handshake.TypeServerKeyExchange, false, 0},
		{"creq", handshake.TypeCertificateRequest, false, 0}, {"shd", handshake.TypeServerHelloDone, false, 0},
		{"ccert", handshake.TypeCertificate, true, 0}, {"cke", handshake.TypeClientKeyExchange, true, 0},
		{"cv", handshake.TypeCertificateVerify, true, 0}, {"cfin", handshake.TypeFinished, true, 1},
	}
	own := &zzFinFlow{cache: dtlsflight.NewCache(), nbody: zzsymParam("NBODY")}
	peer := &zzFinFlow{cache: dtlsflight.NewCache(), nbody: zzsymParam("NBODY")}
	var ownT, peerT []byte
	for _, k := range kinds {
		ownT = append(ownT, own.push("own_"+k.name, k.typ, k.isClient, k.epoch)...)
		peerT = append(peerT, peer.push("peer_"+k.name, k.typ, k.isClient, k.epoch)...)
	}
	// the honest server's Finished, RFC 5246 7.4.9, over the server's view
	verifyData := zzFinExpect(state.MasterSecret, zzLabelServer, peerT)
	// named assumption: no hash / PRF collision between the two views
	zzsymAssume(zzsymImplies(zzsymEqBytes(verifyData, zzFinExpect(state.MasterSecret, zzLabelServer, ownT)), zzsymEqBytes(peerT, ownT)))
	state.HandshakeRecvSequence = int(own.nextServer)
	own.pushBody(handshake.TypeFinished, false, 1, verifyData)

	next, _, _ := flight5Parse(context.Background(), &zzFinConn{}, state, own.cache, cfg)
	same := zzsymEqBytes(peerT, ownT)
	if next != 0 {
		zzsymAssert(same, "fin_client_tamper/completes_only_on_identical_views")
		zzsymCover("untampered_accepted")
	} else {
		zzsymAssert(zzsymNot(same), "fin_client_tamper/identical_views_complete")
		zzsymCover("tampered_rejected")
	}
}
