package flight12

//symgo:pkg github.com/pion/dtls/v3/internal/flight/flight12
//symgo:param NBODY quick=1 thorough=2
//symgo:param NMS quick=4 thorough=48
//symgo:replace github.com/pion/dtls/v3/pkg/crypto/prf.PHash zzFinPHash
//symgo:stub prf.PHash(secret, seed, n) is the uninterpreted function PRF_n(secret, seed) and records its arguments; the PRF hash (CipherSuite.HashFunc) is a harness fake whose Sum is the uninterpreted function H(bytes written). prf.VerifyDataClient/VerifyDataServer themselves (label + Hash(messages)) run for real. That the real PHash is RFC 5246 P_hash is C10 (tls12_prf.go).
//symgo:stub the cipher suite is a harness fake (Init records the master secret, no record protection); Conn is a harness fake (HandleQueuedPackets counts, SessionKey constant)
//symgo:assume UF-collision-freedom (named assumption of C04): H and PRF are uninterpreted, so "verify_data equals PRF(master, label, H(T))" holds for every interpretation only if the code hashed exactly T; conversely tampering changes T and, for a collision-free hash/PRF, the expected verify_data
//symgo:assume handshake messages reach the flight handlers through the handshake cache as complete, unfragmented messages whose 12-byte header is consistent with the cache metadata (what Conn.bufferHandshakeRecord / cacheHandshakePacket store)
//symgo:outside live man-in-the-middle runs; message bodies longer than NBODY bytes (the handlers under test never look inside the transcript messages, they hash the raw bytes)

// C04 (transcript integrity), DTLS 1.2 flight handlers: shared fakes, message builders, the RFC 5246 7.4.9 oracle,
// then the entries.

import (
	"context"
	"hash"

	"github.com/pion/dtls/v3/internal/ciphersuite"
	dtlsconfig "github.com/pion/dtls/v3/internal/config"
	dtlserrors "github.com/pion/dtls/v3/internal/errors"
	dtlsflight "github.com/pion/dtls/v3/internal/flight"
	dtlsstate "github.com/pion/dtls/v3/internal/state"
	"github.com/pion/dtls/v3/pkg/crypto/clientcertificate"
	"github.com/pion/dtls/v3/pkg/crypto/prf"
	"github.com/pion/dtls/v3/pkg/protocol"
	"github.com/pion/dtls/v3/pkg/protocol/alert"
	"github.com/pion/dtls/v3/pkg/protocol/handshake"
	"github.com/pion/dtls/v3/pkg/protocol/recordlayer"
)

// ---------------------------------------------------------------------------------------------
// crypto as uninterpreted functions

// zzFinHash is a fake hash.Hash: Sum(b) = b || H(everything written), H uninterpreted, 32 bytes.
type zzFinHash struct{ buf []byte }

func (h *zzFinHash) Write(p []byte) (int, error) { h.buf = append(h.buf, p...); return len(p), nil }
func (h *zzFinHash) Sum(b []byte) []byte {
	zzFinHashLog = append(zzFinHashLog, append([]byte{}, h.buf...))
	return append(b, zzFinH(h.buf)...)
}
func (h *zzFinHash) Reset()         { h.buf = nil }
func (h *zzFinHash) Size() int      { return 32 }
func (h *zzFinHash) BlockSize() int { return 64 }

func zzFinNewHash() hash.Hash { return &zzFinHash{} }

func zzFinH(data []byte) []byte { return zzsymUF("H", 32, data) }

// zzFinPHashCall is one recorded call of prf.PHash.
type zzFinPHashCall struct {
	secret, seed []byte
	n            int
}

var (
	zzFinPHashLog []zzFinPHashCall // every prf.PHash call (secret, label+seed, length)
	zzFinHashLog  [][]byte         // the input of every hash.Sum
)

// zzFinPHash replaces prf.PHash: P_hash(secret, seed)[0..n-1] is the uninterpreted function PRF_n(secret, seed).
// (That the real PHash is RFC 5246 section 5 P_hash is proved in C10/tls12_prf.go.)
func zzFinPHash(secret, seed []byte, n int, _ prf.HashFunc) ([]byte, error) {
	zzFinPHashLog = append(zzFinPHashLog, zzFinPHashCall{append([]byte{}, secret...), append([]byte{}, seed...), n})
	return zzsymUF("PRF", n, secret, seed), nil
}

// zzFinReset clears the recording globals (all entries of the package share them).
func zzFinReset() {
	zzFinPHashLog = nil
	zzFinHashLog = nil
}

// zzFinExpect is RFC 5246 section 7.4.9 written out:
//
//	verify_data = PRF(master_secret, finished_label, Hash(handshake_messages))[0..11]
//
// with PRF(secret, label, seed) = P_hash(secret, label + seed) (section 5).
func zzFinExpect(master []byte, label string, handshakeMessages []byte) []byte {
	seed := append([]byte(label), zzFinH(handshakeMessages)...)
	return zzsymUF("PRF", 12, master, seed)
}

const (
	zzLabelClient = "client finished"
	zzLabelServer = "server finished"
)

// ---------------------------------------------------------------------------------------------
// fake cipher suite / conn / logger

type zzFinSuite struct {
	auth        ciphersuite.AuthenticationType
	kx          ciphersuite.KeyExchangeAlgorithm
	initialized bool
	inits       int
	initMaster  []byte
}

func (s *zzFinSuite) String() string                          { return "zzFinSuite" }
func (s *zzFinSuite) ID() ciphersuite.ID                      { return ciphersuite.TLS_ECDHE_ECDSA_WITH_AES_128_GCM_SHA256 }
func (s *zzFinSuite) CertificateType() clientcertificate.Type { return clientcertificate.ECDSASign }
func (s *zzFinSuite) HashFunc() func() hash.Hash              { return zzFinNewHash }
func (s *zzFinSuite) AuthenticationType() ciphersuite.AuthenticationType {
	return s.auth
}
func (s *zzFinSuite) KeyExchangeAlgorithm() ciphersuite.KeyExchangeAlgorithm { return s.kx }
func (s *zzFinSuite) ECC() bool                                              { return true }
func (s *zzFinSuite) Init(master, _, _ []byte, _ bool) error {
	s.initialized = true
	s.inits++
	s.initMaster = append([]byte{}, master...)
	return nil
}
func (s *zzFinSuite) IsInitialized() bool                                     { return s.initialized }
func (s *zzFinSuite) Decrypt(_ recordlayer.Header, in []byte) ([]byte, error) { return in, nil }
func (s *zzFinSuite) Encrypt(_ *recordlayer.RecordLayer, raw []byte) ([]byte, error) {
	return raw, nil
}

type zzFinConn struct{ queued int }

func (c *zzFinConn) HandleQueuedPackets(context.Context) error { c.queued++; return nil }
func (c *zzFinConn) SessionKey() []byte                        { return []byte{0x5e} }

type zzFinLog struct{}

func (zzFinLog) Trace(string)          {}
func (zzFinLog) Tracef(string, ...any) {}
func (zzFinLog) Debug(string)          {}
func (zzFinLog) Debugf(string, ...any) {}
func (zzFinLog) Info(string)           {}
func (zzFinLog) Infof(string, ...any)  {}
func (zzFinLog) Warn(string)           {}
func (zzFinLog) Warnf(string, ...any)  {}
func (zzFinLog) Error(string)          {}
func (zzFinLog) Errorf(string, ...any) {}

// ---------------------------------------------------------------------------------------------
// handshake messages as they sit in the handshake cache

// zzFinRaw lays out one complete, unfragmented DTLS handshake message (RFC 6347 section 4.2.2):
//
//	msg_type(1) length(3) message_seq(2) fragment_offset(3)=0 fragment_length(3)=length body
func zzFinRaw(typ handshake.Type, seq uint16, body []byte) []byte {
	n := len(body)
	hdr := []byte{byte(typ), byte(n >> 16), byte(n >> 8), byte(n), byte(seq >> 8), byte(seq), 0, 0, 0, byte(n >> 16), byte(n >> 8), byte(n)}
	return append(hdr, body...)
}

// zzFinFlow builds the cache of one handshake: messages are pushed in wire order, each side numbering its own
// messages consecutively from 0 (RFC 6347 section 4.2.2).
type zzFinFlow struct {
	cache      *dtlsflight.Cache
	nextClient uint16
	nextServer uint16
	nbody      int
}

// push stores a message with a fresh symbolic body of nbody bytes and returns its raw bytes (header + body).
func (f *zzFinFlow) push(name string, typ handshake.Type, isClient bool, epoch uint16) []byte {
	return f.pushBody(typ, isClient, epoch, zzsymBytes(name, f.nbody))
}

func (f *zzFinFlow) pushBody(typ handshake.Type, isClient bool, epoch uint16, body []byte) []byte {
	seq := f.nextServer
	if isClient {
		seq = f.nextClient
		f.nextClient++
	} else {
		f.nextServer++
	}
	raw := zzFinRaw(typ, seq, body)
	f.cache.Push(raw, epoch, seq, typ, isClient)
	return raw
}

func zzFinCat(parts ...[]byte) []byte {
	out := []byte{}
	for _, p := range parts {
		out = append(out, p...)
	}
	return out
}

// zzFinState: a DTLS 1.2 state with the fake suite selected and an arbitrary master secret of nms bytes.
func zzFinState(isClient bool, suite *zzFinSuite, nms int) *dtlsstate.State12 {
	st := &dtlsstate.State12{
		Common: &dtlsstate.Common{IsClient: isClient, LocalVersion: protocol.Version1_2, CipherSuite: suite},
	}
	if nms > 0 {
		st.MasterSecret = zzsymBytes("master_secret", nms)
	}
	return st
}

func zzFinConfig() *dtlsconfig.HandshakeConfig {
	return &dtlsconfig.HandshakeConfig{Log: zzFinLog{}}
}

// ---------------------------------------------------------------------------------------------
// entries

// Full DTLS 1.2 handshake, client side: flight5Parse (the client's last check before it reports success) on a
// handshake cache that holds every message kind a full handshake can contain - optionally the first
// ClientHello + HelloVerifyRequest, then ClientHello, ServerHello, [Certificate], [ServerKeyExchange],
// [CertificateRequest], ServerHelloDone, [client Certificate], ClientKeyExchange, [CertificateVerify], client
// Finished (epoch 1) and the server's Finished (epoch 1) - each optional message independently present or
// absent, every body NBODY arbitrary bytes behind a real 12-byte handshake header, the server's verify_data 12
// (or 11) arbitrary bytes, the master secret NMS arbitrary bytes. Proved: Flight5 (handshake complete) is
// returned only if verify_data = PRF(master_secret, "server finished", Hash(T))[0..11] where T is, in RFC 5246
// section 7.3 order, the concatenation of ALL those messages up to and including the client's Finished, without
// the initial ClientHello/HelloVerifyRequest pair (RFC 6347 section 4.2.1) - the list is written out in the
// harness; nothing is completed, a fatal handshake_failure alert and ErrVerifyDataMismatch are returned
// otherwise; a session is stored only after the check.
//
//symgo:entry covers=accepted,rejected,with_hvr,without_hvr,all_optional_present,no_optional_present,short_verify_data,session_saved
func zzFinClient() {
	zzFinReset()
	suite := &zzFinSuite{auth: ciphersuite.AuthenticationTypeCertificate, kx: ciphersuite.KeyExchangeAlgorithmEcdhe, initialized: true}
	state := zzFinState(true, suite, zzsymParam("NMS"))
	cfg := zzFinConfig()
	saved := 0
	var savedSecret []byte
	cfg.SetSession = func(_, _, secret []byte) error {
		saved++
		savedSecret = secret
		return nil
	}
	if zzsymChoice("session_id", 2) == 1 {
		state.SessionID = []byte{7}
	}

	fl := &zzFinFlow{cache: dtlsflight.NewCache(), nbody: zzsymParam("NBODY")}
	hvr := zzsymChoice("hvr", 2) == 1
	hasCert := zzsymChoice("cert", 2) == 1
	hasSKE := zzsymChoice("ske", 2) == 1
	hasCReq := zzsymChoice("certreq", 2) == 1
	hasCCert := zzsymChoice("ccert", 2) == 1
	hasCV := zzsymChoice("certverify", 2) == 1

	if hvr {
		fl.push("ch0", handshake.TypeClientHello, true, 0)
		fl.push("hvr", handshake.TypeHelloVerifyRequest, false, 0)
	}
	var cert, ske, creq, ccert, cv []byte
	ch := fl.push("ch", handshake.TypeClientHello, true, 0)
	sh := fl.push("sh", handshake.TypeServerHello, false, 0)
	if hasCert {
		cert = fl.push("cert", handshake.TypeCertificate, false, 0)
	}
	if hasSKE {
		ske = fl.push("ske", handshake.TypeServerKeyExchange, false, 0)
	}
	if hasCReq {
		creq = fl.push("creq", handshake.TypeCertificateRequest, false, 0)
	}
	shd := fl.push("shd", handshake.TypeServerHelloDone, false, 0)
	if hasCCert {
		ccert = fl.push("ccert", handshake.TypeCertificate, true, 0)
	}
	cke := fl.push("cke", handshake.TypeClientKeyExchange, true, 0)
	if hasCV {
		cv = fl.push("cv", handshake.TypeCertificateVerify, true, 0)
	}
	cfin := fl.push("cfin", handshake.TypeFinished, true, 1)
	// the message under test: the server's Finished
	state.HandshakeRecvSequence = int(fl.nextServer)
	vdLen := 12 - zzsymChoice("verify_data_short", 2)
	verifyData := zzsymBytes("verify_data", vdLen)
	fl.pushBody(handshake.TypeFinished, false, 1, verifyData)

	// oracle: RFC 5246 7.4.9 handshake_messages for the server's Finished, RFC 5246 7.3 order
	transcript := zzFinCat(ch, sh, cert, ske, creq, shd, ccert, cke, cv, cfin)
	want := zzFinExpect(state.MasterSecret, zzLabelServer, transcript)

	conn := &zzFinConn{}
	next, a, err := flight5Parse(context.Background(), conn, state, fl.cache, cfg)

	if next != 0 {
		zzsymAssert(next == Flight5, "fin_client/completes_as_flight5")
		zzsymAssert(zzsymAnd(a == nil, err == nil), "fin_client/complete_without_alert")
		zzsymAssert(zzsymEqBytes(verifyData, want), "fin_client/server_finished_covers_whole_transcript")
		if len(state.SessionID) > 0 {
			zzsymAssert(saved == 1, "fin_client/session_saved_once")
			zzsymAssert(zzsymEqBytes(savedSecret, state.MasterSecret), "fin_client/saved_secret_is_master")
			zzsymCover("session_saved")
		}
		zzsymCover("accepted")
	} else {
		zzsymAssert(saved == 0, "fin_client/no_session_saved_on_reject")
		zzsymAssert(a != nil && a.Level == alert.Fatal && a.Description == alert.HandshakeFailure, "fin_client/reject_is_fatal_handshake_failure")
		zzsymAssert(err == dtlserrors.ErrVerifyDataMismatch, "fin_client/reject_is_verify_data_mismatch")
		zzsymAssert(zzsymNot(zzsymEqBytes(verifyData, want)), "fin_client/rejects_only_wrong_verify_data")
		zzsymCover("rejected")
		if vdLen != 12 {
			zzsymCover("short_verify_data")
		}
	}
	if hvr {
		zzsymCover("with_hvr")
	} else {
		zzsymCover("without_hvr")
	}
	if hasCert && hasSKE && hasCReq && hasCCert && hasCV {
		zzsymCover("all_optional_present")
	}
	if !hasCert && !hasSKE && !hasCReq && !hasCCert && !hasCV {
		zzsymCover("no_optional_present")
	}
}
