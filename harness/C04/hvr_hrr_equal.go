package negotiation

// NOTE: this file is a verbatim copy of /verif/harness/C13/negotiation.go (hvr_equal / hrr_equal are shared by C04 and C13, see DESIGN.md).

//symgo:pkg github.com/pion/dtls/v3/internal/negotiation
//symgo:param NSID quick=2 thorough=3
//symgo:param NSUITE quick=2 thorough=2
//symgo:param NEXT quick=2 thorough=2
//symgo:param NPAY quick=1 thorough=2
//symgo:param RSID quick=2 thorough=2
//symgo:param RPAY quick=1 thorough=2
//symgo:param NCK quick=1 thorough=2
//symgo:outside ClientHello bodies beyond the bounds: session id < NSID (1.2) / RSID (1.3) bytes, 1..NSUITE cipher suites (1.3: one), one compression method, at most NEXT extensions with payloads from a menu of NPAY / RPAY lengths, issued cookie of 3 bytes (1.2) / 1..NCK bytes (1.3) - the comparison code is length-generic (bytes.Equal on slices)

// ---------------------------------------------------------------------------------------------
// ClientHello body builder (RFC 6347 section 4.3.2 / RFC 8446 section 4.1.2 layout written out by hand):
//   client_version(2) random(32) session_id<0..32> cookie<0..255> cipher_suites<2..2^16-2>
//   compression_methods<1..255> extensions<0..2^16-1> ; each extension: type(2) length(2) data

type zzExt struct {
	typ  []byte // 2 bytes, big endian
	data []byte
}

type zzHello struct {
	body    []byte
	version []byte
	random  []byte
	sid     []byte
	cookie  []byte
	suites  []byte
	comp    []byte
	exts    []zzExt
}

func zzBuild(version, random, sid, cookie, suites, comp []byte, exts []zzExt) *zzHello {
	body := []byte{}
	body = append(body, version...)
	body = append(body, random...)
	body = append(body, byte(len(sid)))
	body = append(body, sid...)
	body = append(body, byte(len(cookie)))
	body = append(body, cookie...)
	body = append(body, byte(len(suites)>>8), byte(len(suites)))
	body = append(body, suites...)
	body = append(body, byte(len(comp)))
	body = append(body, comp...)
	block := []byte{}
	for _, e := range exts {
		block = append(block, e.typ...)
		block = append(block, byte(len(e.data)>>8), byte(len(e.data)))
		block = append(block, e.data...)
	}
	body = append(body, byte(len(block)>>8), byte(len(block)))
	body = append(body, block...)
	return &zzHello{body: body, version: version, random: random, sid: sid, cookie: cookie, suites: suites, comp: comp, exts: exts}
}

// zzArbitraryHello: every field arbitrary; shape (lengths, number of extensions) chosen by zzsymChoice.
// cookieLens / payLens are the menus of lengths to choose from.
func zzArbitraryHello(tag string, nsid, nsuite int, cookieLens, payLens []int) *zzHello {
	sid := zzsymBytes(tag+"_sid", zzsymChoice(tag+"_sidlen", nsid))
	cookie := zzsymBytes(tag+"_cookie", cookieLens[zzsymChoice(tag+"_cookielen", len(cookieLens))])
	suites := zzsymBytes(tag+"_suites", 2*(1+zzsymChoice(tag+"_nsuites", nsuite)))
	next := zzsymChoice(tag+"_next", zzsymParam("NEXT")+1)
	exts := make([]zzExt, next)
	for i := range exts {
		exts[i].typ = zzsymBytes(tag+"_exttype", 2)
		exts[i].data = zzsymBytes(tag+"_extdata", payLens[zzsymChoice(tag+"_extlen", len(payLens))])
	}
	return zzBuild(zzsymBytes(tag+"_version", 2), zzsymBytes(tag+"_random", 32), sid, cookie, suites, zzsymBytes(tag+"_comp", 1), exts)
}

func zzTyp(e zzExt) uint16 { return uint16(e.typ[0])<<8 | uint16(e.typ[1]) }

// zzFirstOfType: the first extension of the given type (forks on the symbolic types).
func zzFirstOfType(exts []zzExt, typ uint16) (bool, []byte) {
	for _, e := range exts {
		if zzTyp(e) == typ {
			return true, e.data
		}
	}
	return false, nil
}

// zzSameList: two extension lists are identical in length, order, types and payloads (non-forking).
func zzSameList(a, b []zzExt) bool {
	if len(a) != len(b) {
		return false
	}
	ok := true
	for i := range a {
		ok = zzsymAnd(ok, zzsymAnd(zzsymEqBytes(a[i].typ, b[i].typ), zzsymEqBytes(a[i].data, b[i].data)))
	}
	return ok
}

func zzFieldsEqual(a, b *zzHello) bool {
	ok := zzsymEqBytes(a.version, b.version)
	ok = zzsymAnd(ok, zzsymEqBytes(a.random, b.random))
	ok = zzsymAnd(ok, zzsymEqBytes(a.sid, b.sid))
	ok = zzsymAnd(ok, zzsymEqBytes(a.suites, b.suites))
	ok = zzsymAnd(ok, zzsymEqBytes(a.comp, b.comp))
	return ok
}

// DTLS 1.2 cookie check ValidateHelloVerifyRequestResponse on two arbitrary well-framed ClientHello bodies
// (independent shapes: session id 0..NSID-1 bytes, 1..NSUITE suites, 0..NEXT extensions of arbitrary type
// with 0- or 1-byte payloads; first cookie field empty, second cookie field 0/2/3 bytes) and an arbitrary
// issued 3-byte cookie. Proved: the function returns nil only if the second ClientHello's cookie field is
// byte-for-byte the issued cookie, client_version/random/session_id/cipher_suites/compression_methods are
// identical to the first ClientHello, and the connection_id and use_srtp extensions are unchanged
// (presence and payload). Label hvr_other_extensions_equal demands in addition that the complete extension
// list is identical ("otherwise identical" in the property text).
//
//symgo:entry covers=accepted_identical,accepted_ext_changed,rej_cookie_wrong,rej_cookie_absent,rej_cookie_truncated,rej_fields,rej_cid_or_srtp
func zzHvrEqual() {
	issued := zzsymBytes("issued", 3)
	pay := []int{1, 0, 2}[:zzsymParam("NPAY")]
	ch1 := zzArbitraryHello("ch1", zzsymParam("NSID"), zzsymParam("NSUITE"), []int{0}, pay)
	ch2 := zzArbitraryHello("ch2", zzsymParam("NSID"), zzsymParam("NSUITE"), []int{3, 0, 2}, pay)
	s1, e1 := snapshotClientHello(ch1.body)
	s2, e2 := snapshotClientHello(ch2.body)
	zzsymAssert(zzsymAnd(e1 == nil, e2 == nil), "well_framed_hello_snapshots")
	err := ValidateHelloVerifyRequestResponse(s1, s2, issued)

	cookieOK := zzsymEqBytes(ch2.cookie, issued)
	fieldsOK := zzFieldsEqual(ch1, ch2)
	if err != nil {
		if len(ch2.cookie) == 0 {
			zzsymCover("rej_cookie_absent")
		} else if len(ch2.cookie) == 2 {
			zzsymCover("rej_cookie_truncated")
		} else if !cookieOK {
			zzsymCover("rej_cookie_wrong")
		} else if !fieldsOK {
			zzsymCover("rej_fields")
		} else {
			zzsymCover("rej_cid_or_srtp")
		}
		return
	}
	zzsymAssert(cookieOK, "hvr_cookie_echoed_exactly")
	zzsymAssert(fieldsOK, "hvr_fields_identical")
	for _, typ := range []uint16{54, 14} { // connection_id, use_srtp
		p1, d1 := zzFirstOfType(ch1.exts, typ)
		p2, d2 := zzFirstOfType(ch2.exts, typ)
		zzsymAssert(p1 == p2, "hvr_cid_srtp_presence_unchanged")
		if p1 && p2 {
			zzsymAssert(zzsymEqBytes(d1, d2), "hvr_cid_srtp_payload_unchanged")
		}
	}
	same := zzSameList(ch1.exts, ch2.exts)
	if same {
		zzsymCover("accepted_identical")
	} else {
		zzsymCover("accepted_ext_changed")
	}
	zzsymAssert(same, "hvr_other_extensions_equal")
}

// zzFilter returns the extensions that RFC 8446 section 4.1.2 requires to be carried over unchanged from
// ClientHello1 to ClientHello2 after a HelloRetryRequest that carries a cookie (and a key_share iff
// withGroup): everything except padding(21), cookie(44), key_share(51, only if the HRR selected a group),
// and - in the first ClientHello only - early_data(42), which must be removed.
func zzFilter(exts []zzExt, first, withGroup bool) []zzExt {
	out := []zzExt{}
	for _, e := range exts {
		t := zzTyp(e)
		if t == 21 || t == 44 {
			continue
		}
		if withGroup && t == 51 {
			continue
		}
		if first && t == 42 {
			continue
		}
		out = append(out, e)
	}
	return out
}

// DTLS 1.3 cookie check ValidateClientHelloRetry on two arbitrary well-framed ClientHello bodies
// (independent shapes as in zzHvrEqual; extension payloads 0 bytes or the size of a cookie extension) against
// a validated HelloRetryRequest that carries an arbitrary issued cookie of 1..2 bytes and no key_share.
// Proved: nil is returned only if ClientHello2 contains a cookie extension whose extension_data is exactly
// uint16 length + issued cookie, the legacy fields (version, random, session id, legacy cookie, suites,
// compression) are byte-identical, and every other extension - except padding, and early_data which must be
// dropped - is carried over unchanged in order, type and payload (RFC 8446 section 4.1.2).
//
//symgo:entry covers=accepted,accepted_cookie_replaced,rej_no_cookie,rej_wrong_cookie,rej_fields,rej_exts
func zzHrrEqual() {
	clen := 1 + zzsymChoice("issuedlen", zzsymParam("NCK"))
	issued := zzsymBytes("issued", clen)
	req := RetryRequest{CipherSuiteID: zzsymU16("suite"), Cookie: issued, HasCookie: true, valid: true}
	pay := []int{2 + clen, 0}[:zzsymParam("RPAY")]
	legacy := []int{0, 1}[:zzsymParam("NCK")]
	ch1 := zzArbitraryHello("ch1", zzsymParam("RSID"), 1, legacy, pay)
	ch2 := zzArbitraryHello("ch2", zzsymParam("RSID"), 1, legacy, pay)
	s1, e1 := snapshotClientHello(ch1.body)
	s2, e2 := snapshotClientHello(ch2.body)
	zzsymAssert(zzsymAnd(e1 == nil, e2 == nil), "well_framed_hello_snapshots")
	err := ValidateClientHelloRetry(s1, s2, req)

	want := append([]byte{0, byte(clen)}, issued...)
	has, data := zzFirstOfType(ch2.exts, 44)
	fieldsOK := zzsymAnd(zzFieldsEqual(ch1, ch2), zzsymEqBytes(ch1.cookie, ch2.cookie))
	if err != nil {
		if !has {
			zzsymCover("rej_no_cookie")
		} else if !zzsymEqBytes(data, want) {
			zzsymCover("rej_wrong_cookie")
		} else if !fieldsOK {
			zzsymCover("rej_fields")
		} else {
			zzsymCover("rej_exts")
		}
		return
	}
	zzsymAssert(has, "hrr_cookie_extension_present")
	zzsymAssert(zzsymEqBytes(data, want), "hrr_cookie_echoed_exactly")
	zzsymAssert(fieldsOK, "hrr_legacy_fields_identical")
	zzsymAssert(zzSameList(zzFilter(ch1.exts, true, false), zzFilter(ch2.exts, false, false)), "hrr_other_extensions_identical")
	if p1, _ := zzFirstOfType(ch1.exts, 44); p1 {
		zzsymCover("accepted_cookie_replaced")
	} else {
		zzsymCover("accepted")
	}
}

// A RetryRequest that did not come out of ValidateHelloRetryRequest (zero value: what the server state holds
// before any HelloRetryRequest was generated, or after flight0Parse reset it) never validates a second
// ClientHello, whatever the two hellos are - so a server cannot be talked into Flight4 without having
// issued a cookie.
//
//symgo:entry covers=rejected
func zzHrrNeedsIssuedRequest() {
	pay := []int{3, 0}
	ch1 := zzArbitraryHello("ch1", 2, 1, []int{0}, pay)
	ch2 := zzArbitraryHello("ch2", 2, 1, []int{0}, pay)
	s1, _ := snapshotClientHello(ch1.body)
	s2, _ := snapshotClientHello(ch2.body)
	err := ValidateClientHelloRetry(s1, s2, RetryRequest{})
	zzsymAssert(err != nil, "unissued_retry_request_never_validates")
	zzsymCover("rejected")
}

// zzSparse: n bytes, fixed filler except arbitrary bytes at the given positions (long vectors whose every byte were a
// solver variable would only slow the comparison down; the comparison under test treats all positions alike).
func zzSparse(tag string, n int, fill byte, at ...int) []byte {
	b := make([]byte, n)
	for i := range b {
		b[i] = fill
	}
	for _, p := range at {
		b[p] = zzsymU8(tag)
	}
	return b
}

// The same DTLS 1.2 check with vectors beyond one-byte lengths: 130 cipher suites (260 bytes, arbitrary bytes at the
// start, around the 255/256 boundary and at the end), a 32-byte session id, no extensions. The second ClientHello
// echoes the issued cookie exactly; it is accepted only if every sampled suite byte (and the compression method)
// equals the first ClientHello's - a comparison that stops at 255 bytes would accept a changed tail.
//
//symgo:entry covers=long_accepted,long_rejected
func zzHvrEqualLongSuiteList() {
	issued := zzsymBytes("issued", 3)
	at := []int{0, 1, 128, 254, 255, 256, 257, 259}
	mk := func(tag string, cookie []byte) *zzHello {
		return zzBuild(zzsymBytes(tag+"_version", 2), zzsymBytes(tag+"_random", 32), zzSparse(tag+"_sid", 32, 7, 0, 31), cookie,
			zzSparse(tag+"_suite_byte", 260, 0xc0, at...), zzsymBytes(tag+"_comp", 1), nil)
	}
	ch1, ch2 := mk("ch1", nil), mk("ch2", append([]byte{}, issued...))
	s1, e1 := snapshotClientHello(ch1.body)
	s2, e2 := snapshotClientHello(ch2.body)
	zzsymAssert(zzsymAnd(e1 == nil, e2 == nil), "well_framed_hello_snapshots")
	err := ValidateHelloVerifyRequestResponse(s1, s2, issued)
	if err != nil {
		zzsymAssert(!zzFieldsEqual(ch1, ch2), "hvr_long_identical_hello_accepted")
		zzsymCover("long_rejected")
		return
	}
	zzsymAssert(zzFieldsEqual(ch1, ch2), "hvr_long_fields_identical")
	zzsymCover("long_accepted")
}

// The DTLS 1.3 check with an extension payload beyond one-byte lengths: ClientHello1 carries one extension of arbitrary
// type with a 260-byte payload (arbitrary bytes at the start, around offsets 4..7 and 255/256, and at the end).
// ClientHello2 carries the cookie extension with exactly the issued cookie and either (a) one extension of arbitrary
// type with a 260-byte payload or (b) the same 268 bytes framed differently: an extension with a 4-byte payload
// followed by one with a 253-byte payload (a list that serialises to the same bytes when lengths are written in one
// byte is a DIFFERENT list). Accepted only in shape (a) with identical type and payload.
//
//symgo:entry covers=longext_accepted,longext_rejected,longext_split_rejected
func zzHrrEqualLongExtension() {
	issued := zzsymBytes("issued", 2)
	req := RetryRequest{CipherSuiteID: zzsymU16("suite"), Cookie: issued, HasCookie: true, valid: true}
	at := []int{0, 3, 4, 5, 6, 7, 254, 255, 256, 259}
	legacy := func(tag string) (v, r, s, su, c []byte) {
		return zzsymBytes(tag+"_version", 2), zzsymBytes(tag+"_random", 32), nil, zzsymBytes(tag+"_suites", 2), zzsymBytes(tag+"_comp", 1)
	}
	v1, r1, s1b, su1, c1 := legacy("ch1")
	ch1 := zzBuild(v1, r1, s1b, nil, su1, c1, []zzExt{{typ: zzsymBytes("ch1_exttype", 2), data: zzSparse("ch1_ext_byte", 260, 0x11, at...)}})
	cookieExt := zzExt{typ: []byte{0, 44}, data: append([]byte{0, 2}, issued...)}
	v2, r2, s2b, su2, c2 := legacy("ch2")
	split := zzsymChoice("ch2_split_framing", 2) == 1
	var exts2 []zzExt
	if split {
		whole := zzSparse("ch2_ext_byte", 260, 0x11, at...)
		// 4 payload bytes, then what used to be payload bytes 4..6 read as type(2) + length low byte, then the rest
		exts2 = []zzExt{{typ: zzsymBytes("ch2_exttype", 2), data: whole[:4]}, {typ: whole[4:6], data: whole[7:]}, cookieExt}
	} else {
		exts2 = []zzExt{{typ: zzsymBytes("ch2_exttype", 2), data: zzSparse("ch2_ext_byte", 260, 0x11, at...)}, cookieExt}
	}
	ch2 := zzBuild(v2, r2, s2b, nil, su2, c2, exts2)
	sn1, e1 := snapshotClientHello(ch1.body)
	sn2, e2 := snapshotClientHello(ch2.body)
	zzsymAssert(zzsymAnd(e1 == nil, e2 == nil), "well_framed_hello_snapshots")
	err := ValidateClientHelloRetry(sn1, sn2, req)
	if err != nil {
		if split {
			zzsymCover("longext_split_rejected")
		} else {
			zzsymCover("longext_rejected")
		}
		return
	}
	zzsymAssert(zzFieldsEqual(ch1, ch2), "hrr_long_legacy_fields_identical")
	zzsymAssert(zzSameList(zzFilter(ch1.exts, true, false), zzFilter(ch2.exts, false, false)), "hrr_long_other_extensions_identical")
	zzsymCover("longext_accepted")
}
