package flight12

//symgo:pkg github.com/pion/dtls/v3/internal/flight/flight12
//symgo:param NBODY quick=1 thorough=2
//symgo:stub the cipher suite is a harness fake that reports "already initialised" (keys derived by an earlier flight4Parse call that was still waiting for the Finished) and whose PRF hash is a concrete 32-byte toy hash; Conn is a harness fake. No function of the library or the standard library is replaced: on the current tree flight4Parse calls no cryptographic function on this path - which is the defect.
//symgo:assume handshake messages reach the flight handlers through the handshake cache as complete, unfragmented messages whose 12-byte header is consistent with the cache metadata

import (
	"context"
	"hash"

	"github.com/pion/dtls/v3/internal/ciphersuite"
	dtlsflight "github.com/pion/dtls/v3/internal/flight"
	"github.com/pion/dtls/v3/pkg/protocol/handshake"
)

// zzFinToyHash is a concrete (natively executable) stand-in for the PRF hash: a 32-byte polynomial fold of the
// input. On the current tree flight4Parse never calls it on this path; once the server does check the client's
// Finished, the real prf.PHash / crypto/hmac run on top of it and the entry stays natively replayable.
type zzFinToyHash struct {
	sum [32]byte
	n   int
}

func (h *zzFinToyHash) Write(p []byte) (int, error) {
	for _, b := range p {
		i := h.n % 32
		h.sum[i] = h.sum[i]*31 + b + byte(h.n)
		h.n++
	}
	return len(p), nil
}
func (h *zzFinToyHash) Sum(b []byte) []byte { return append(b, h.sum[:]...) }
func (h *zzFinToyHash) Reset()              { h.sum, h.n = [32]byte{}, 0 }
func (h *zzFinToyHash) Size() int           { return 32 }
func (h *zzFinToyHash) BlockSize() int      { return 64 }

func zzFinNewToyHash() hash.Hash { return &zzFinToyHash{} }

// zzFinServerRun builds the server's cache of one full handshake (bodies given) with the client's verify_data
// vd and runs the real flight4Parse on it.
func zzFinServerRun(nbody int, hvr, hasCert, hasSKE, hasCReq bool, bodies map[string][]byte, vd []byte) Flight {
	suite := &zzFinSuite{auth: ciphersuite.AuthenticationTypeCertificate, kx: ciphersuite.KeyExchangeAlgorithmEcdhe, initialized: true, hashFunc: zzFinNewToyHash}
	state := zzFinState(false, suite, 0)
	state.MasterSecret = bodies["master_secret"]
	cfg := zzFinConfig()
	fl := &zzFinFlow{cache: dtlsflight.NewCache(), nbody: nbody}
	if hvr {
		fl.pushBody(handshake.TypeClientHello, true, 0, bodies["ch0"])
		fl.pushBody(handshake.TypeHelloVerifyRequest, false, 0, bodies["hvr"])
	}
	fl.pushBody(handshake.TypeClientHello, true, 0, bodies["ch"])
	fl.pushBody(handshake.TypeServerHello, false, 0, bodies["sh"])
	if hasCert {
		fl.pushBody(handshake.TypeCertificate, false, 0, bodies["cert"])
	}
	if hasSKE {
		fl.pushBody(handshake.TypeServerKeyExchange, false, 0, bodies["ske"])
	}
	if hasCReq {
		fl.pushBody(handshake.TypeCertificateRequest, false, 0, bodies["creq"])
	}
	fl.pushBody(handshake.TypeServerHelloDone, false, 0, bodies["shd"])
	state.HandshakeRecvSequence = int(fl.nextClient)
	// RFC 8422 5.7: ClientKeyExchange = opaque point<1..2^8-1>
	fl.pushBody(handshake.TypeClientKeyExchange, true, 0, append([]byte{1}, bodies["cke_public"]...))
	fl.pushBody(handshake.TypeFinished, true, 1, vd)
	next, _, _ := flight4Parse(context.Background(), &zzFinConn{}, state, fl.cache, cfg)
	return next
}

// Natively replayable form of fin_server_full (no stubbed crypto, so the counterexample is re-run against the
// real build): the same full-handshake server cache (optionally first ClientHello + HelloVerifyRequest, then
// ClientHello, ServerHello, [Certificate], [ServerKeyExchange], [CertificateRequest], ServerHelloDone,
// ClientKeyExchange; bodies NBODY arbitrary bytes) is completed by two client Finished messages with arbitrary
// 12-byte verify_data A and B, and the real flight4Parse is run on each (cipher keys already derived, arbitrary
// 4-byte master secret). verify_data is a function of the master secret and the transcript (RFC 5246 section
// 7.4.9), both identical in the two runs, so at most one of two different values can be correct. Asserted: the
// server does not reach Flight6 for both A and B when A differs from B.
// KNOWN TO FAIL on the current tree (design finding F5, label fin_server_full/client_finished_not_verified):
// flight4Parse never compares the client's verify_data, every value is accepted.
//
//symgo:entry covers=both_complete
func zzFinServerFullNative() {
	nbody := zzsymParam("NBODY")
	hvr := zzsymChoice("hvr", 2) == 1
	hasCert := zzsymChoice("cert", 2) == 1
	hasSKE := zzsymChoice("ske", 2) == 1
	hasCReq := zzsymChoice("certreq", 2) == 1
	bodies := map[string][]byte{"master_secret": zzsymBytes("master_secret", 4), "cke_public": zzsymBytes("cke_public", 1)}
	for _, name := range []string{"ch0", "hvr", "ch", "sh", "cert", "ske", "creq", "shd"} {
		bodies[name] = zzsymBytes(name, nbody)
	}
	vdA := zzsymBytes("verify_data_a", 12)
	vdB := zzsymBytes("verify_data_b", 12)
	nextA := zzFinServerRun(nbody, hvr, hasCert, hasSKE, hasCReq, bodies, vdA)
	nextB := zzFinServerRun(nbody, hvr, hasCert, hasSKE, hasCReq, bodies, vdB)
	zzsymObserveInt("next_a", int(nextA))
	zzsymObserveInt("next_b", int(nextB))
	if nextA == Flight6 && nextB == Flight6 {
		zzsymCover("both_complete")
		zzsymAssert(zzsymEqBytes(vdA, vdB), "fin_server_full/client_finished_not_verified")
	}
}
