package dtls

//symgo:pkg github.com/pion/dtls/v3
//symgo:param NWIRE quick=6 thorough=10
//symgo:stub CipherSuite is a harness fake whose Encrypt returns its input (the record framing under test is what is handed to the cipher)
//symgo:outside message bodies longer than NWIRE bytes on this path (fragmentHandshake itself is covered up to 70000 bytes by zzSplitManyFragments); what the cipher does with the record (C05/C10)

import (
	"hash"

	"github.com/pion/dtls/v3/internal/ciphersuite/types"
	dtlsflight "github.com/pion/dtls/v3/internal/flight"
	dtlsstate "github.com/pion/dtls/v3/internal/state"
	"github.com/pion/dtls/v3/pkg/crypto/clientcertificate"
	"github.com/pion/dtls/v3/pkg/protocol"
	"github.com/pion/dtls/v3/pkg/protocol/handshake"
	"github.com/pion/dtls/v3/pkg/protocol/recordlayer"
)

type zzWireSuite struct{}

func (zzWireSuite) String() string                               { return "zzWire" }
func (zzWireSuite) ID() CipherSuiteID                            { return TLS_ECDHE_ECDSA_WITH_AES_128_GCM_SHA256 }
func (zzWireSuite) CertificateType() clientcertificate.Type      { return clientcertificate.ECDSASign }
func (zzWireSuite) HashFunc() func() hash.Hash                   { return nil }
func (zzWireSuite) AuthenticationType() types.AuthenticationType { return types.AuthenticationTypeCertificate }
func (zzWireSuite) KeyExchangeAlgorithm() types.KeyExchangeAlgorithm {
	return types.KeyExchangeAlgorithmEcdhe
}
func (zzWireSuite) ECC() bool                                                  { return true }
func (zzWireSuite) Init(_, _, _ []byte, _ bool) error                          { return nil }
func (zzWireSuite) IsInitialized() bool                                        { return true }
func (zzWireSuite) Decrypt(_ recordlayer.Header, in []byte) ([]byte, error)    { return in, nil }
func (zzWireSuite) Encrypt(_ *recordlayer.RecordLayer, r []byte) ([]byte, error) { return r, nil }

// Sender side, one level up from zzSplit: Conn.processHandshakePacket - the function that frames the fragments of
// fragmentHandshake into records - for every body length L = 0..NWIRE, every MTU = 1..L+1, arbitrary body bytes,
// message type and message sequence, epoch 0 (cleartext) and epoch 1 (handed to the cipher), as ordinary handshake
// records AND as tls12_cid records (RFC 9146: peer connection ID of 1..3 bytes in the header, inner plaintext =
// fragment || real type 22 || zeros, record padding 0..2 from the padding generator). The record payloads, read
// with the RFC 6347 4.2.2 layout written out by hand, are exactly the fragments: one record per fragment, each
// carrying the 12-byte handshake header and at most MTU body bytes, headers repeating type, total length and
// message sequence, offsets contiguous from 0, fragment_length = bytes carried, concatenation = the body - in
// particular a CID-wrapped record never carries the whole message once per fragment. Seed C12k-2.
//
//symgo:entry covers=wire_plain,wire_cid,wire_many_fragments,wire_padded
func zzSplitOnWire() {
	l := zzsymChoice("L", zzsymParam("NWIRE")+1)
	mtu := 1 + zzsymChoice("mtu", l+1)
	body := zzsymBytes("body", l)
	typ := zzsymU8("type")
	mseq := zzsymU16("mseq")
	epoch := uint16(zzsymChoice("epoch", 2))
	wrap := zzsymChoice("wrapcid", 2) == 1
	pad := 0
	c := &Conn{state: dtlsstate.NewActive(true), maximumTransmissionUnit: mtu}
	common := dtlsstate.CommonState(c.state)
	common.CipherSuite = zzWireSuite{}
	common.LocalVersion = protocol.Version1_2
	common.LocalSequenceNumber = []uint64{0, 0}
	cidLen := 0
	if wrap {
		cidLen = 1 + zzsymChoice("cidlen", 3)
		common.RemoteConnectionID = zzsymBytes("rcid", cidLen)
		pad = zzsymChoice("pad", 3)
	}
	c.paddingLengthGenerator = func(uint) uint { return uint(pad) }
	hs := &handshake.Handshake{
		Header:  handshake.Header{MessageSequence: mseq},
		Message: &zzRawMsg{typ: handshake.Type(typ), body: body},
	}
	pkt := &dtlsflight.Packet{
		Record: &recordlayer.RecordLayer{
			Header:  recordlayer.Header{Epoch: epoch, Version: protocol.Version1_2, ContentType: protocol.ContentTypeHandshake},
			Content: hs,
		},
		ShouldEncrypt: epoch > 0,
		ShouldWrapCID: wrap,
	}
	_, merr := pkt.Record.Marshal() // what cacheHandshakePacket does before the packet is processed
	zzsymAssert(merr == nil, "wire_marshal_ok")
	raws, err := c.processHandshakePacket(pkt, hs)
	zzsymAssert(err == nil, "wire_process_ok")
	zzsymAssert(len(raws) >= 1, "wire_at_least_one_record")

	off := 0
	var cat []byte
	for _, raw := range raws {
		// record header: type(1) version(2) epoch(2) sequence(6) [cid] length(2)
		hdr := 13 + cidLen
		zzsymAssert(len(raw) >= hdr, "wire_record_has_header")
		if wrap {
			zzsymAssert(raw[0] == 25, "wire_record_type_tls12_cid")
			zzsymAssert(zzsymEqBytes(raw[11:11+cidLen], common.RemoteConnectionID), "wire_record_carries_peer_cid")
		} else {
			zzsymAssert(raw[0] == 22, "wire_record_type_handshake")
		}
		zzsymAssert(int(zzU16(raw[hdr-2:hdr])) == len(raw)-hdr, "wire_record_length_is_payload")
		f := raw[hdr:]
		if wrap {
			// DTLSInnerPlaintext: content || real_type || zeros
			zzsymAssert(len(f) >= 1+pad, "wire_inner_plaintext_has_type")
			for _, z := range f[len(f)-pad:] {
				zzsymAssert(z == 0, "wire_inner_padding_is_zero")
			}
			zzsymAssert(f[len(f)-pad-1] == 22, "wire_inner_real_type_handshake")
			f = f[:len(f)-pad-1]
		}
		zzsymAssert(len(f) >= 12, "wire_fragment_has_header")
		n := len(f) - 12
		zzsymAssert(n <= mtu, "wire_fragment_body_at_most_mtu")
		zzsymAssert(f[0] == typ, "wire_header_repeats_type")
		zzsymAssert(zzU24(f[1:4]) == l, "wire_header_repeats_length")
		zzsymAssert(zzU16(f[4:6]) == mseq, "wire_header_repeats_sequence")
		zzsymAssert(zzU24(f[6:9]) == off, "wire_offsets_contiguous")
		zzsymAssert(zzU24(f[9:12]) == n, "wire_fragment_length_is_carried_bytes")
		cat = append(cat, f[12:]...)
		off += n
	}
	zzsymAssert(off == l, "wire_fragment_lengths_sum_to_L")
	zzsymAssert(zzsymEqBytes(cat, body), "wire_concatenation_is_body")
	if wrap {
		zzsymCover("wire_cid")
		if pad > 0 {
			zzsymCover("wire_padded")
		}
	} else {
		zzsymCover("wire_plain")
	}
	if len(raws) > 1 {
		zzsymCover("wire_many_fragments")
	}
}
