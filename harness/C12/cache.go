package dtls

//symgo:pkg github.com/pion/dtls/v3
//symgo:param NLC quick=2 thorough=2
//symgo:param NKC quick=3 thorough=4
//symgo:replace (*github.com/pion/dtls/v3/internal/flight.Cache).Push zzCRecordPush
//symgo:stub flight.Cache.Push is replaced by a recorder (the Cache offers no way to enumerate its items) so the harness sees every insertion into the handshake cache; zzCacheContent in cache_content.go runs the real Cache.Push
//symgo:assume honest sender as in reassemble.go: all pieces of a message come from one partition into non-empty consecutive pieces (an empty message is one empty piece), consistent headers, one epoch per message
//symgo:outside messages longer than NLC bytes, more than two messages, more than NKC records; empty fragments of non-empty messages (see zzReassembleZeroLen, defect F12)

import (
	dtlsflight "github.com/pion/dtls/v3/internal/flight"
	dtlsfragmentbuffer "github.com/pion/dtls/v3/internal/fragmentbuffer"
	dtlsstate "github.com/pion/dtls/v3/internal/state"
	"github.com/pion/dtls/v3/pkg/protocol"
	"github.com/pion/dtls/v3/pkg/protocol/handshake"
	"github.com/pion/dtls/v3/pkg/protocol/recordlayer"
)

// ---- recorder standing in for flight.Cache.Push ----------------------------------------------------------

type zzCPushed struct {
	data       []byte
	epoch, seq uint16
	typ        handshake.Type
	isClient   bool
}

var zzCPushes []zzCPushed

func zzCRecordPush(h *dtlsflight.Cache, data []byte, epoch, messageSequence uint16, typ handshake.Type, isClient bool) {
	zzCPushes = append(zzCPushes, zzCPushed{append([]byte{}, data...), epoch, messageSequence, typ, isClient})
}

// ---- no-op logger -------------------------------------------------------------------------------------------

type zzCNopLog struct{}

func (zzCNopLog) Trace(string)          {}
func (zzCNopLog) Tracef(string, ...any) {}
func (zzCNopLog) Debug(string)          {}
func (zzCNopLog) Debugf(string, ...any) {}
func (zzCNopLog) Info(string)           {}
func (zzCNopLog) Infof(string, ...any)  {}
func (zzCNopLog) Warn(string)           {}
func (zzCNopLog) Warnf(string, ...any)  {}
func (zzCNopLog) Error(string)          {}
func (zzCNopLog) Errorf(string, ...any) {}

// ---- abstract sender/receiver model (same as reassemble.go, without empty pieces) --------------------------

type zzCMsg struct {
	typ       uint8
	seq       uint16
	epoch     uint16
	l         int
	body      []byte
	got       []bool
	seen      bool
	delivered bool
	pieces    [][2]int
}

func zzCNewMsg(name string, seq uint16, l int) *zzCMsg {
	return &zzCMsg{typ: zzsymU8(name + "type"), seq: seq, epoch: zzsymU16(name + "epoch"), l: l,
		body: zzsymBytes(name+"body", l), got: make([]bool, l)}
}

// non-empty pieces of one partition are pairwise identical or disjoint
func (m *zzCMsg) zzCConsistent(off, n int) bool {
	for _, p := range m.pieces {
		same := p[0] == off && p[1] == n
		disjoint := off+n <= p[0] || p[0]+p[1] <= off
		if !same && !disjoint {
			return false
		}
	}
	return true
}

func (m *zzCMsg) zzCArrive(off, n int) {
	m.pieces = append(m.pieces, [2]int{off, n})
	m.seen = true
	for b := off; b < off+n; b++ {
		m.got[b] = true
	}
}

func (m *zzCMsg) zzCComplete() bool {
	if !m.seen {
		return false
	}
	for _, g := range m.got {
		if !g {
			return false
		}
	}
	return true
}

// RFC 6347 4.2.2 handshake fragment and 4.1 record, by hand.
func (m *zzCMsg) zzCPiece(off, n int) []byte {
	h := []byte{m.typ, 0, 0, byte(m.l), byte(m.seq >> 8), byte(m.seq), 0, 0, byte(off), 0, 0, byte(n)}
	return append(h, m.body[off:off+n]...)
}

func zzCRecord(epoch uint16, rseq uint8, payload []byte) []byte {
	rec := []byte{22, 0xfe, 0xfd, byte(epoch >> 8), byte(epoch), 0, 0, 0, 0, 0, rseq, byte(len(payload) >> 8), byte(len(payload))}
	return append(rec, payload...)
}

func zzCChoosePiece(msgs []*zzCMsg) (m *zzCMsg, off, n int, ok bool) {
	m = msgs[zzsymChoice("msg", len(msgs))]
	if m.l == 0 {
		return m, 0, 0, true
	}
	off = zzsymChoice("off", m.l)
	n = 1 + zzsymChoice("len", m.l-off)
	return m, off, n, m.zzCConsistent(off, n)
}

// zzCConn builds a Conn with just the receive-side pieces bufferHandshakeRecord touches. base is the
// handshake receive sequence the FSM has reached (messages below it were consumed earlier).
func zzCConn(isClient, is13 bool, base int) *Conn {
	c := &Conn{
		state:          dtlsstate.NewActive(isClient),
		fragmentBuffer: dtlsfragmentbuffer.New(),
		handshakeCache: dtlsflight.NewCache(),
		log:            zzCNopLog{},
	}
	if is13 {
		s13 := dtlsstate.Activate13(c.state)
		s13.HandshakeRecvSequence = base
		c.state = s13
		dtlsstate.CommonState(c.state).LocalVersion = protocol.Version1_3
	} else {
		s12 := dtlsstate.Activate12(c.state)
		s12.HandshakeRecvSequence = base
		c.state = s12
		dtlsstate.CommonState(c.state).LocalVersion = protocol.Version1_2
	}
	return c
}

// Conn.bufferHandshakeRecord (syncFragmentBufferHandshakeSequence, FragmentBuffer.Push, Pop loop, cache insert):
// two messages (message_seq base and base+1, base 0 or 1 = handshake receive sequence already reached),
// lengths 0..NLC, arbitrary bodies/types/epochs, client or server side, DTLS 1.2 or 1.3 state; NKC records
// each carrying one arbitrary piece of either message, the last record optionally two pieces (one partition per message; any order, duplicates,
// interleaving, pieces of already cached messages). After every record the list of insertions into the
// handshake cache equals exactly the list of messages whose last byte has arrived, in sequence order: each
// message is inserted once, never before it is complete, never a second time on retransmitted pieces, with
// data = header(type, L, seq, 0, L) + original body, its epoch, sequence, type and the peer's role; records
// of already cached messages are reported as retransmit. The caller's record buffer is overwritten after every call
// (the read loop reuses it): cached messages are unaffected.
//
//symgo:entry paths=80000 covers=packed_record,cached_one,cached_two_at_once,cached_none_yet,retransmit_not_cached_again,complete_waiting_for_earlier,v12,v13
func zzCacheOnce() {
	isClient := zzsymBool("isClient")
	is13 := zzsymChoice("is13", 2) == 1
	base := zzsymChoice("base", 2)
	c := zzCConn(isClient, is13, base)
	maxL := zzsymParam("NLC")
	msgs := []*zzCMsg{
		zzCNewMsg("m0", uint16(base), zzsymChoice("L0", maxL+1)),
		zzCNewMsg("m1", uint16(base+1), zzsymChoice("L1", maxL+1)),
	}
	next := 0
	marks := 0
	for i := 0; i < zzsymParam("NKC"); i++ {
		m, off, n, ok := zzCChoosePiece(msgs)
		if !ok {
			return
		}
		wasDelivered := m.delivered
		wasComplete := m.zzCComplete()
		payload := m.zzCPiece(off, n)
		// other stacks pack several handshake fragments into one record (RFC 6347 4.2.3): the LAST record may
		// carry a second piece, of either message, after the first one - in particular a retransmitted piece
		// of a cached message followed by the piece that completes the next message
		var m2 *zzCMsg
		off2, n2 := 0, 0
		if i == zzsymParam("NKC")-1 && zzsymChoice("packed", 2) == 1 {
			var ok2 bool
			m2, off2, n2, ok2 = zzCChoosePiece(msgs)
			if !ok2 || m2.epoch != m.epoch {
				return
			}
			if m2 == m && !(off2 == off && n2 == n) && !(off2+n2 <= off || off+n <= off2) {
				return // the two pieces of one record belong to the same partition too (honest sender)
			}
			payload = append(payload, m2.zzCPiece(off2, n2)...)
			wasDelivered = wasDelivered || m2.delivered
			zzsymCover("packed_record")
		}
		buf := zzCRecord(m.epoch, uint8(i), payload)
		hdr := &recordlayer.Header{ContentType: protocol.ContentTypeHandshake, Version: protocol.Version1_2,
			Epoch: m.epoch, SequenceNumber: uint64(i), ContentLen: uint16(len(payload))}
		outcome, handled, _ := c.bufferHandshakeRecord(buf, hdr, func() bool { marks++; return true })
		// the read loop owns buf and reuses it for the next datagram (pooled read buffer, in-place AEAD decryption):
		// whatever the buffer layer keeps must be its own copy
		for k := range buf {
			buf[k] ^= 0xff
		}
		zzsymAssert(handled, "record_handled")
		zzsymAssert(outcome.containsHandshake, "record_contains_handshake")
		zzsymAssert(marks == i+1, "record_marked_valid_once")
		if wasDelivered {
			zzsymAssert(outcome.retransmit, "record_of_cached_message_is_retransmit")
		}

		m.zzCArrive(off, n)
		if m2 != nil {
			m2.zzCArrive(off2, n2)
		}
		before := next
		for next < len(msgs) && msgs[next].zzCComplete() {
			msgs[next].delivered = true
			next++
		}
		// exactly-once, in order, never early
		if len(zzCPushes) > next {
			if wasDelivered {
				zzsymFail("retransmitted_piece_cached_again")
			} else {
				zzsymFail("message_cached_twice_or_while_incomplete")
			}
			return
		}
		zzsymAssert(len(zzCPushes) == next, "complete_message_not_cached")
		for j := before; j < next; j++ {
			p, w := zzCPushes[j], msgs[j]
			zzsymAssert(zzsymEqBytes(p.data, w.zzCPiece(0, w.l)), "cached_data_is_header_and_original_body")
			zzsymAssert(p.seq == w.seq, "cached_sequence")
			zzsymAssert(uint8(p.typ) == w.typ, "cached_type")
			zzsymAssert(p.epoch == w.epoch, "cached_epoch")
			zzsymAssert(p.isClient == !isClient, "cached_role_is_peer")
		}
		switch {
		case next-before == 1:
			zzsymCover("cached_one")
		case next-before == 2:
			zzsymCover("cached_two_at_once")
		case wasDelivered:
			zzsymCover("retransmit_not_cached_again")
		case wasComplete:
			zzsymCover("complete_waiting_for_earlier") // complete but waiting for the earlier message
		default:
			zzsymCover("cached_none_yet")
		}
	}
	if is13 {
		zzsymCover("v13")
	} else {
		zzsymCover("v12")
	}
}
