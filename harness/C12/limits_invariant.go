package fragmentbuffer

// GENERATED copy of harness/C08/frag_limits.go: the inductive step of the fragment buffer's representation invariant
// (counters equal what is stored, caps respected, nothing stored for delivered sequences). C12 needs it as the
// induction that carries 'reassembled exactly once whatever the duplication' from the bounded histories of
// reassemble.go to histories of any length: e.g. a duplicate that leaked a counter slot would make the buffer refuse
// the completing fragment after enough duplicates.

//symgo:pkg github.com/pion/dtls/v3/internal/fragmentbuffer
//symgo:param FRAGLIM_NBODY quick=1 thorough=2
//symgo:assume representation invariant of FragmentBuffer (established by New, re-established by every step entry below): every cache key equals the MessageSequence of the fragments stored under it and is >= currentMessageSequenceNumber; every fragmentByOffset key equals that fragment's FragmentOffset; len(data) == FragmentLength; fragmentsLength == sum of the stored FragmentLength; totalBufferSize / totalFragmentCount == sums over the whole cache; totalBufferSize < fragmentBufferMaxSize
//symgo:assume the part of the cache not touched by the step is summarised by two symbolic non-negative integers (bytes and fragments held under other message sequence numbers); Push and Pop reach the cache only through the key of the message they handle, AdvanceTo only deletes keys below its argument (the summarised keys are taken to be at or above it)
//symgo:outside pre-states with more than two messages or more than two fragments per message in the touched part; records with more than two fragments; fragment bodies above FRAGLIM_NBODY bytes

import (
	"github.com/pion/dtls/v3/pkg/protocol"
	"github.com/pion/dtls/v3/pkg/protocol/handshake"
	"github.com/pion/dtls/v3/pkg/protocol/recordlayer"
)

// zzFragArbitrary builds an arbitrary FragmentBuffer that satisfies the representation invariant: shape
// (0, 1 or 2 messages; 1 or 2 fragments each; body lengths 0 or 1) is enumerated, everything else (current
// sequence number, message sequence numbers, declared lengths, offsets, types, epochs, bytes) is symbolic.
// restSize/restCount stand for whatever else is stored under other sequence numbers.
func zzFragArbitrary(shapes int) (f *FragmentBuffer, restSize, restCount int) {
	f = New()
	f.currentMessageSequenceNumber = zzsymU16("cur")
	nfrags := []int{}
	switch zzsymChoice("shape", shapes) {
	case 1:
		nfrags = []int{1}
	case 2:
		nfrags = []int{2}
	case 3:
		nfrags = []int{1, 1}
	}
	size, count := 0, 0
	for _, nf := range nfrags {
		seq := zzsymU16("seq")
		zzsymAssume(seq >= f.currentMessageSequenceNumber)
		for other := range f.cache {
			zzsymAssume(other != seq)
		}
		fr := &fragments{fragmentByOffset: map[uint32]*fragment{}, handshakeLength: zzsymU32("hlen")}
		zzsymAssume(fr.handshakeLength < 1<<24)
		for i := 0; i < nf; i++ {
			off := zzsymU32("off")
			zzsymAssume(off < 1<<24)
			for other := range fr.fragmentByOffset {
				zzsymAssume(other != off)
			}
			data := zzsymBytes("data", zzsymChoice("dlen", 2))
			length := zzsymU32("len") // every fragment repeats a Length; nothing forces them to agree
			zzsymAssume(length < 1<<24)
			fr.fragmentByOffset[off] = &fragment{
				recordLayerHeader: recordlayer.Header{
					ContentType: protocol.ContentTypeHandshake,
					Version:     protocol.Version1_2,
					Epoch:       zzsymU16("epoch"),
				},
				handshakeHeader: handshake.Header{
					Type:            handshake.Type(zzsymU8("type")),
					Length:          length,
					MessageSequence: seq,
					FragmentOffset:  off,
					FragmentLength:  uint32(len(data)),
				},
				data: data,
			}
			fr.fragmentsLength += uint32(len(data))
			size += len(data)
			count++
		}
		f.cache[seq] = fr
	}
	restSize = zzsymInt("restSize")
	restCount = zzsymInt("restCount")
	zzsymAssume(restSize >= 0)
	zzsymAssume(restCount >= 0)
	zzsymAssume(restSize < fragmentBufferMaxSize)
	zzsymAssume(restCount < 1<<20)
	f.totalBufferSize = restSize + size
	f.totalFragmentCount = restCount + count
	zzsymAssume(f.totalBufferSize < fragmentBufferMaxSize)
	return f, restSize, restCount
}

// zzFragInvariant asserts the representation invariant on the touched part of the buffer and that the two
// counters equal the summarised part plus what is really stored.
func zzFragInvariant(f *FragmentBuffer, restSize, restCount int) {
	size, count := 0, 0
	okKeys, okLens, okSeq := true, true, true
	for seq, fr := range f.cache {
		sum := uint32(0)
		for off, g := range fr.fragmentByOffset {
			okKeys = zzsymAnd(okKeys, zzsymAnd(off == g.handshakeHeader.FragmentOffset, seq == g.handshakeHeader.MessageSequence))
			okLens = zzsymAnd(okLens, uint32(len(g.data)) == g.handshakeHeader.FragmentLength)
			sum += uint32(len(g.data))
			size += len(g.data)
			count++
		}
		okLens = zzsymAnd(okLens, fr.fragmentsLength == sum)
		okSeq = zzsymAnd(okSeq, seq >= f.currentMessageSequenceNumber)
		zzsymAssert(len(fr.fragmentByOffset) > 0, "inv_no_empty_message_entry")
	}
	zzsymAssert(okKeys, "inv_keys_match_headers")
	zzsymAssert(okLens, "inv_lengths_match_stored_bytes")
	zzsymAssert(okSeq, "inv_nothing_below_current_sequence")
	zzsymAssert(f.totalBufferSize == restSize+size, "inv_size_counter_equals_stored_bytes")
	zzsymAssert(f.totalFragmentCount == restCount+count, "inv_count_counter_equals_stored_fragments")
	zzsymAssert(f.totalBufferSize >= 0, "inv_size_not_negative")
	zzsymAssert(f.totalFragmentCount >= 0, "inv_count_not_negative")
	zzsymAssert(f.totalBufferSize < fragmentBufferMaxSize, "inv_size_below_cap")
}

// Induction step for Push: from ANY buffer state that satisfies the representation invariant (see the assume
// lines; totals up to the caps via the symbolic summary) one handshake record (gate at the top of Push passed:
// content type handshake, DTLS 1.2; payload fully symbolic with one fragment of 0..FRAGLIM_NBODY bytes or room
// for two) is pushed. Proved: no panic; the invariant holds again (counters equal stored bytes/fragments, are
// non-negative, the byte counter is below fragmentBufferMaxSize); one record adds at most its payload bytes and
// at most one fragment per 12 payload bytes; the fragment counter never grows past fragmentBufferMaxCount
// (it never exceeds max(previous value, fragmentBufferMaxCount)); a buffer at either cap refuses the record
// and stores nothing.
//
//symgo:entry covers=stored,overflow_refused,rejected,retransmit,duplicate_ignored,new_message,two_stored paths=30000 nonterm=violation
func zzFragLimitsPushStep() {
	f, restSize, restCount := zzFragArbitrary(4)
	nbody := zzsymParam("FRAGLIM_NBODY")
	n := 25 + zzsymChoice("reclen", nbody+1)
	maxFrags := 1
	if zzsymChoice("two", 2) == 1 {
		n += 12
		maxFrags = 2
	}
	buf := zzsymBytes("rec", n)
	zzsymAssume(buf[0] == 22)
	zzsymAssume(buf[1] == 0xfe)
	zzsymAssume(buf[2] == 0xfd)
	preSize, preCount, preMsgs := f.totalBufferSize, f.totalFragmentCount, len(f.cache)
	_, isRetransmit, err := f.Push(buf)
	zzFragInvariant(f, restSize, restCount)
	dSize, dCount := f.totalBufferSize-preSize, f.totalFragmentCount-preCount
	zzsymAssert(zzsymAnd(dSize >= 0, dSize <= n-25), "push_adds_at_most_payload_bytes")
	zzsymAssert(zzsymAnd(dCount >= 0, dCount <= maxFrags), "push_adds_at_most_one_fragment_per_12_bytes")
	zzsymAssert(zzsymOr(f.totalFragmentCount <= preCount, f.totalFragmentCount <= fragmentBufferMaxCount),
		"count_never_grows_past_cap")
	if zzsymOr(preSize+n >= fragmentBufferMaxSize, preCount >= fragmentBufferMaxCount) {
		zzsymAssert(err != nil, "full_buffer_refuses")
		zzsymAssert(zzsymAnd(dSize == 0, dCount == 0), "refused_push_stores_nothing")
		zzsymCover("overflow_refused")
		return
	}
	switch {
	case err != nil:
		zzsymCover("rejected")
	case dCount > 0:
		zzsymCover("stored")
		if dCount == 2 {
			zzsymCover("two_stored")
		}
		if len(f.cache) > preMsgs {
			zzsymCover("new_message")
		}
	case isRetransmit:
		zzsymCover("retransmit")
	default:
		zzsymCover("duplicate_ignored")
	}
}

// The strict reading of the fragment cap, as its own claim: from any state with at most fragmentBufferMaxCount
// stored fragments, one pushed record (one or two fragments, as in zzFragLimitsPushStep) never leaves more than
// fragmentBufferMaxCount fragments stored. Finding reported by this entry (label count_cap_strict) before the fix
// "enforce the fragment count cap for every fragment of a record": Push tested the cap once per record, before
// parsing, so a record with several (empty) fragments pushed at fragmentBufferMaxCount-1 overshot it.
//
//symgo:entry covers=at_cap_refused,below_cap_stored nonterm=violation
func zzFragLimitsCountCapStrict() {
	f, _, _ := zzFragArbitrary(2)
	n := 25
	if zzsymChoice("two", 2) == 1 {
		n += 12
	}
	buf := zzsymBytes("rec", n)
	zzsymAssume(buf[0] == 22)
	zzsymAssume(buf[1] == 0xfe)
	zzsymAssume(buf[2] == 0xfd)
	preCount := f.totalFragmentCount
	zzsymAssume(preCount <= fragmentBufferMaxCount)
	_, _, err := f.Push(buf)
	zzsymAssert(f.totalFragmentCount <= fragmentBufferMaxCount, "count_cap_strict")
	if preCount == fragmentBufferMaxCount {
		zzsymAssert(err != nil, "at_cap_refuses")
		zzsymCover("at_cap_refused")
	} else if f.totalFragmentCount > preCount {
		zzsymCover("below_cap_stored")
	}
}

// Induction step for Pop: from ANY buffer state that satisfies the representation invariant, one Pop. Proved: no
// panic (the crash F1 - message of Length 0 holding only a zero-length fragment at an offset other than 0 - is such
// a state and was reported by these entries as panic:...@Pop before its fix); the invariant holds again; nothing is added; a nil result leaves the buffer as it
// was; a non-nil result removes exactly the message with the current sequence number and advances the current
// sequence number by one.
//
//symgo:entry covers=popped,nil_absent,nil_incomplete nonterm=violation
func zzFragLimitsPopStep() {
	f, restSize, restCount := zzFragArbitrary(4)
	cur := f.currentMessageSequenceNumber
	preSize, preCount, preMsgs := f.totalBufferSize, f.totalFragmentCount, len(f.cache)
	fr, present := f.cache[cur]
	content, _ := f.Pop()
	zzFragInvariant(f, restSize, restCount)
	if content == nil {
		zzsymAssert(zzsymAnd(f.totalBufferSize == preSize, f.totalFragmentCount == preCount), "nil_pop_keeps_counters")
		zzsymAssert(len(f.cache) == preMsgs, "nil_pop_keeps_messages")
		zzsymAssert(f.currentMessageSequenceNumber == cur, "nil_pop_keeps_sequence")
		if present {
			zzsymCover("nil_incomplete")
		} else {
			zzsymCover("nil_absent")
		}
		return
	}
	zzsymCover("popped")
	zzsymAssert(present, "pop_only_stored_message")
	zzsymAssert(f.currentMessageSequenceNumber == cur+1, "pop_advances_sequence")
	zzsymAssert(len(f.cache) == preMsgs-1, "pop_removes_one_message")
	zzsymAssert(f.totalBufferSize == preSize-int(fr.fragmentsLength), "pop_releases_message_bytes")
	zzsymAssert(f.totalFragmentCount == preCount-len(fr.fragmentByOffset), "pop_releases_message_fragments")
}

// Induction step for AdvanceTo: from ANY buffer state that satisfies the representation invariant, AdvanceTo with
// an arbitrary sequence number. Proved: no panic; the invariant holds again with the current sequence number
// max(old, argument) - every message below it is gone and its bytes/fragments are released; nothing is added.
//
//symgo:entry covers=advanced_dropped,advanced_kept,not_advanced nonterm=violation
func zzFragLimitsAdvanceStep() {
	f, restSize, restCount := zzFragArbitrary(4)
	cur := f.currentMessageSequenceNumber
	preSize, preCount, preMsgs := f.totalBufferSize, f.totalFragmentCount, len(f.cache)
	to := zzsymU16("to")
	f.AdvanceTo(to)
	zzFragInvariant(f, restSize, restCount)
	zzsymAssert(zzsymAnd(f.totalBufferSize <= preSize, f.totalFragmentCount <= preCount), "advance_adds_nothing")
	if to <= cur {
		zzsymAssert(f.currentMessageSequenceNumber == cur, "advance_backwards_is_nop")
		zzsymAssert(zzsymAnd(f.totalBufferSize == preSize, len(f.cache) == preMsgs), "advance_backwards_keeps_all")
		zzsymCover("not_advanced")
		return
	}
	zzsymAssert(f.currentMessageSequenceNumber == to, "advance_sets_sequence")
	if len(f.cache) < preMsgs {
		zzsymCover("advanced_dropped")
	} else {
		zzsymCover("advanced_kept")
	}
}
