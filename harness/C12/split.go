package dtls

//symgo:pkg github.com/pion/dtls/v3
//symgo:param NSPLIT quick=16 thorough=28
//symgo:param NRT quick=4 thorough=5
//symgo:assume fragmentHandshake runs after Handshake.Marshal (prepareRawPacket -> cacheHandshakePacket -> Record.Marshal), which sets Header.Length = len(body) and Header.Type = Message.Type(); the harness calls Handshake.Marshal first, like the real send path
//symgo:assume maximumTransmissionUnit >= 1 (effectiveMTU / WithMTU reject non-positive values)
//symgo:outside message bodies longer than NSPLIT bytes; MTU values above L+1 behave like L+1 (one fragment) and are not enumerated

import (
	dtlsfragmentbuffer "github.com/pion/dtls/v3/internal/fragmentbuffer"
	"github.com/pion/dtls/v3/pkg/protocol"
	"github.com/pion/dtls/v3/pkg/protocol/handshake"
)

// zzRawMsg is a handshake message whose body is an arbitrary byte string and whose type is arbitrary.
type zzRawMsg struct {
	typ  handshake.Type
	body []byte
}

func (m *zzRawMsg) Marshal() ([]byte, error) { return m.body, nil }
func (m *zzRawMsg) Unmarshal([]byte) error   { return nil }
func (m *zzRawMsg) Type() handshake.Type     { return m.typ }

// RFC 6347 4.2.2 handshake header layout, written out by hand (the oracle does not use pion's decoder):
// msg_type(1) length(3) message_seq(2) fragment_offset(3) fragment_length(3).
func zzU24(b []byte) int { return int(b[0])<<16 | int(b[1])<<8 | int(b[2]) }

func zzU16(b []byte) uint16 { return uint16(b[0])<<8 | uint16(b[1]) }

// Sender side. Conn.fragmentHandshake (and util.SplitBytes under it) for every body length L = 0..NSPLIT,
// every MTU = 1..L+1, arbitrary body bytes, message type and message sequence: every fragment carries a
// 12-byte header and at most MTU body bytes; the header of every fragment repeats type, total length L and
// message sequence; fragment offsets are contiguous starting at 0 and fragment_length is the number of
// body bytes actually carried; the lengths sum to L and the concatenation of the fragment bodies is the
// body; L = 0 yields exactly one fragment, which is empty.
//
//symgo:entry covers=empty_message,single_fragment,many_fragments,short_last_fragment
func zzSplit() {
	l := zzsymChoice("L", zzsymParam("NSPLIT")+1)
	mtu := 1 + zzsymChoice("mtu", l+1)
	body := zzsymBytes("body", l)
	typ := zzsymU8("type")
	seq := zzsymU16("mseq")

	c := &Conn{maximumTransmissionUnit: mtu}
	hs := &handshake.Handshake{
		Header:  handshake.Header{MessageSequence: seq},
		Message: &zzRawMsg{typ: handshake.Type(typ), body: body},
	}
	_, merr := hs.Marshal() // what cacheHandshakePacket does before fragmentation
	zzsymAssert(merr == nil, "marshal_ok")

	frags, err := c.fragmentHandshake(hs)
	zzsymAssert(err == nil, "fragment_ok")
	zzsymAssert(len(frags) >= 1, "at_least_one_fragment")

	off := 0
	var cat []byte
	for _, f := range frags {
		zzsymAssert(len(f) >= 12, "fragment_has_header")
		n := len(f) - 12
		zzsymAssert(n <= mtu, "fragment_body_at_most_mtu")
		zzsymAssert(f[0] == typ, "header_repeats_type")
		zzsymAssert(zzU24(f[1:4]) == l, "header_repeats_length")
		zzsymAssert(zzU16(f[4:6]) == seq, "header_repeats_sequence")
		zzsymAssert(zzU24(f[6:9]) == off, "offsets_contiguous")
		zzsymAssert(zzU24(f[9:12]) == n, "fragment_length_is_carried_bytes")
		cat = append(cat, f[12:]...)
		off += n
	}
	zzsymAssert(off == l, "fragment_lengths_sum_to_L")
	zzsymAssert(zzsymEqBytes(cat, body), "concatenation_is_body")
	switch {
	case l == 0:
		zzsymAssert(len(frags) == 1, "empty_message_one_fragment")
		zzsymAssert(len(frags[0]) == 12, "empty_message_empty_fragment")
		zzsymCover("empty_message")
	case len(frags) == 1:
		zzsymCover("single_fragment")
	default:
		zzsymCover("many_fragments")
		if len(frags[len(frags)-1])-12 < mtu {
			zzsymCover("short_last_fragment")
		}
	}
}

// The same for messages that need MANY fragments (a certificate chain at a small MTU): body lengths 600 and 1300 at
// MTU 1 and 2 (600..1300 fragments), 3000 at MTU 5 and 70000 (beyond a two-byte length) at MTU 100, arbitrary bytes
// at the start, in the middle and at the end of the body. However many fragments it takes, none carries more than MTU
// body bytes, offsets are contiguous and the lengths sum to L.
//
//symgo:entry covers=hundreds_of_fragments
func zzSplitManyFragments() {
	shape := [][2]int{{600, 1}, {1300, 2}, {1300, 1}, {3000, 5}, {70000, 100}}[zzsymChoice("shape", 5)]
	l, mtu := shape[0], shape[1]
	body := make([]byte, l)
	for _, p := range []int{0, l / 2, l - 1} {
		body[p] = zzsymU8("body_byte")
	}
	c := &Conn{maximumTransmissionUnit: mtu}
	hs := &handshake.Handshake{Message: &zzRawMsg{typ: handshake.TypeCertificate, body: body}}
	_, merr := hs.Marshal()
	zzsymAssert(merr == nil, "marshal_ok")
	frags, err := c.fragmentHandshake(hs)
	zzsymAssert(err == nil, "fragment_ok")
	off := 0
	for _, f := range frags {
		n := len(f) - 12
		zzsymAssert(n >= 0 && n <= mtu, "fragment_body_at_most_mtu")
		zzsymAssert(zzU24(f[1:4]) == l && zzU24(f[6:9]) == off && zzU24(f[9:12]) == n, "many_fragment_headers")
		off += n
	}
	zzsymAssert(off == l, "fragment_lengths_sum_to_L")
	zzsymAssert(frags[0][12] == body[0] && frags[len(frags)-1][len(frags[len(frags)-1])-1] == body[l-1], "many_fragment_bodies")
	zzsymCover("hundreds_of_fragments")
}

// zzPerm returns the idx-th permutation (factorial number system) of 0..n-1.
func zzPerm(n, idx int) []int {
	pool := make([]int, n)
	for i := range pool {
		pool[i] = i
	}
	out := make([]int, 0, n)
	for k := n; k >= 1; k-- {
		j := idx % k
		idx /= k
		out = append(out, pool[j])
		pool = append(pool[:j], pool[j+1:]...)
	}
	return out
}

func zzFact(n int) int {
	f := 1
	for i := 2; i <= n; i++ {
		f *= i
	}
	return f
}

// zzRecord wraps one handshake fragment into a DTLS 1.2 plaintext record (RFC 6347 4.1, by hand).
func zzRecord(epoch uint16, frag []byte) []byte {
	rec := []byte{22, 0xfe, 0xfd, byte(epoch >> 8), byte(epoch), 0, 0, 0, 0, 0, 0, byte(len(frag) >> 8), byte(len(frag))}
	return append(rec, frag...)
}

// Sender to receiver. The fragments produced by Conn.fragmentHandshake for a message of L = 0..NRT arbitrary
// bytes and MTU 1..L+1 are delivered, one record each, to a fresh FragmentBuffer in every arrival
// permutation, one fragment of them (any) delivered twice; the buffer is popped after every arrival.
// Nothing is surfaced before the last missing fragment has arrived; at that point exactly one message is
// surfaced, equal to header(type, L, sequence, offset 0, fragment_length L) followed by the original body; the
// duplicate delivered afterwards is reported as a retransmission and surfaces nothing.
//
//symgo:entry covers=rt_one_fragment,rt_in_order,rt_out_of_order,rt_dup_before_complete,rt_dup_after_complete
func zzSplitThenReassemble() {
	l := zzsymChoice("L", zzsymParam("NRT")+1)
	mtu := 1 + zzsymChoice("mtu", l+1)
	body := zzsymBytes("body", l)
	typ := zzsymU8("type")
	epoch := zzsymU16("epoch")

	c := &Conn{maximumTransmissionUnit: mtu}
	hs := &handshake.Handshake{Message: &zzRawMsg{typ: handshake.Type(typ), body: body}} // message_seq 0: first message
	_, merr := hs.Marshal()
	zzsymAssert(merr == nil, "marshal_ok")
	frags, err := c.fragmentHandshake(hs)
	zzsymAssert(err == nil, "fragment_ok")
	n := len(frags)

	perm := zzPerm(n, zzsymChoice("perm", zzFact(n)))
	dup := zzsymChoice("dup", n)        // which fragment is delivered twice
	dupAt := zzsymChoice("dupAt", n+1) // position of the second copy in the arrival sequence (n = after all)
	var arrivals []int
	for i := 0; i <= n; i++ {
		if i == dupAt {
			arrivals = append(arrivals, dup)
		}
		if i < n {
			arrivals = append(arrivals, perm[i])
		}
	}

	want := append([]byte{typ, 0, 0, byte(l), 0, 0, 0, 0, 0, 0, 0, byte(l)}, body...)
	fb := dtlsfragmentbuffer.New()
	got := make([]bool, n)
	missing := n
	delivered := false
	inOrder := true
	for i := 0; i < n; i++ {
		if perm[i] != i {
			inOrder = false
		}
	}
	for _, a := range arrivals {
		isHS, isRetransmit, perr := fb.Push(zzRecord(epoch, frags[a]))
		zzsymAssert(perr == nil, "push_ok")
		zzsymAssert(isHS, "push_is_handshake")
		if delivered {
			zzsymAssert(isRetransmit, "fragment_of_delivered_message_is_retransmit")
			zzsymCover("rt_dup_after_complete")
		} else if got[a] {
			zzsymCover("rt_dup_before_complete")
		}
		if !got[a] {
			got[a] = true
			missing--
		}
		out, outEpoch := fb.Pop()
		if !delivered && missing == 0 {
			zzsymAssert(out != nil, "complete_message_surfaced")
			zzsymAssert(zzsymEqBytes(out, want), "surfaced_message_is_original")
			zzsymAssert(outEpoch == epoch, "surfaced_epoch")
			delivered = true
			out, _ = fb.Pop()
			zzsymAssert(out == nil, "surfaced_once")
		} else {
			// either still incomplete or already delivered
			zzsymAssert(out == nil, "nothing_surfaced_while_incomplete_or_again")
		}
	}
	zzsymAssert(delivered, "delivered_at_end")
	switch {
	case n == 1:
		zzsymCover("rt_one_fragment")
	case inOrder:
		zzsymCover("rt_in_order")
	default:
		zzsymCover("rt_out_of_order")
	}
}

// Wiring of the MTU option into what fragmentHandshake reads: for every int, the connection's
// maximumTransmissionUnit (newConnConfigValues) is the configured MTU when positive and the library default (1200)
// otherwise - never zero or negative, so SplitBytes always makes progress.
//
//symgo:entry covers=mtu_configured,mtu_default
func zzMTUWiring() {
	cfg := &dtlsConfig{}
	cfg.MTU = zzsymInt("mtu")
	// the fragment budget is the configured one whatever versions are enabled (a DTLS 1.3-capable endpoint must not
	// silently cut larger fragments than the application allowed)
	switch zzsymChoice("versions", 4) {
	case 1:
		cfg.MinVersion, cfg.MaxVersion = protocol.Version1_2, protocol.Version1_2
	case 2:
		cfg.MinVersion, cfg.MaxVersion = protocol.Version1_2, protocol.Version1_3
	case 3:
		cfg.MinVersion, cfg.MaxVersion = protocol.Version1_3, protocol.Version1_3
	}
	values, err := newConnConfigValues(cfg)
	zzsymAssert(err == nil, "wiring_config_values_ok")
	if cfg.MTU > 0 {
		zzsymAssert(values.maximumTransmissionUnit == cfg.MTU, "wiring_mtu_is_configured_value")
		zzsymCover("mtu_configured")
	} else {
		zzsymAssert(values.maximumTransmissionUnit == 1200, "wiring_mtu_defaults_to_1200")
		zzsymCover("mtu_default")
	}
	zzsymAssert(values.maximumTransmissionUnit > 0, "wiring_mtu_positive")
}
