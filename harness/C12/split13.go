package dtls

//symgo:pkg github.com/pion/dtls/v3
//symgo:param NSPLIT13 quick=6 thorough=10
//symgo:stub RecordProtection13.Seal is a harness fake that returns the plaintext fragment it is given (prefixed by a 16-byte dummy), so the emitted record reveals which fragment was sealed
//symgo:outside the ACK bookkeeping that consumes the tracked fragments is C20/C17; here the claim is that what is tracked and what is (re)sent are the fragments themselves

import (
	dtlsflight "github.com/pion/dtls/v3/internal/flight"
	dtlsstate "github.com/pion/dtls/v3/internal/state"
	"github.com/pion/dtls/v3/pkg/protocol"
	"github.com/pion/dtls/v3/pkg/protocol/handshake"
	"github.com/pion/dtls/v3/pkg/protocol/recordlayer"
)

type zzSeal12 struct{ sealed [][]byte }

func (p *zzSeal12) Seal(h recordlayer.UnifiedHeader, seq uint64, ct protocol.ContentType, pt []byte) (recordlayer.CiphertextRecord13, error) {
	p.sealed = append(p.sealed, append([]byte{}, pt...))
	out := append(make([]byte, 16), pt...)
	h.Length = uint16(len(out))
	return recordlayer.CiphertextRecord13{Header: h, EncryptedRecord: out}, nil
}
func (p *zzSeal12) Open(recordlayer.UnifiedHeader, uint64, []byte) (recordlayer.InnerPlaintext, error) {
	return recordlayer.InnerPlaintext{}, nil
}
func (p *zzSeal12) UnmaskSequenceNumber(h recordlayer.UnifiedHeader, _ []byte) (recordlayer.UnifiedHeader, error) {
	return h, nil
}

// DTLS 1.3 sender side (Conn.processProtectedHandshakePacketTracked): a protected handshake message of every body
// length L = 0..NSPLIT13 and MTU 1..L+1 is sent as tracked records. Proved: (1) the sealed plaintexts are exactly the
// fragments of the message (contiguous offsets, at most MTU body bytes, concatenation = body); (2) the ACK-tracking
// entry of each record names exactly the fragment that record carries: message sequence, fragment offset and the
// number of body bytes in THAT fragment; (3) a retransmission restricted to any one still-unacknowledged tracked
// fragment (HandshakeFragmentOffsets = {offset: tracked length}) re-sends exactly that fragment, byte for byte -
// so a partially acknowledged message can always be completed by the receiver.
//
//symgo:entry covers=one_fragment,several_fragments,retransmitted_one
func zzSplit13Tracked() {
	l := zzsymChoice("L", zzsymParam("NSPLIT13")+1)
	mtu := 1 + zzsymChoice("mtu", l+1)
	body := zzsymBytes("body", l)
	mseq := zzsymU16("mseq")
	seal := &zzSeal12{}
	c := &Conn{maximumTransmissionUnit: mtu, state: dtlsstate.NewActive(false)}
	st := dtlsstate.Activate13(c.state)
	c.state = st
	st.LocalVersion = protocol.Version1_3
	st.TrafficKeys.Install(&dtlsstate.TrafficGeneration{Epoch: 2, Protection: seal}, nil)
	mk := func(offsets map[uint32]uint32) (*dtlsflight.Packet, *handshake.Handshake) {
		hs := &handshake.Handshake{Header: handshake.Header{MessageSequence: mseq}, Message: &zzRawMsg{typ: handshake.TypeCertificate, body: body}}
		_, merr := hs.Marshal()
		zzsymAssert(merr == nil, "marshal_ok")
		return &dtlsflight.Packet{
			Record:                   &recordlayer.RecordLayer{Header: recordlayer.Header{Epoch: 2, Version: protocol.Version1_2}, Content: hs},
			ShouldEncrypt:            true,
			ShouldTrackACK:           true,
			HandshakeFragmentOffsets: offsets,
		}, hs
	}
	pkt, hs := mk(nil)
	recs, err := c.processProtectedHandshakePacketTracked(pkt, hs)
	zzsymAssert(err == nil, "send_ok")
	zzsymAssert(len(recs) == len(seal.sealed) && len(recs) >= 1, "one_record_per_fragment")
	off := 0
	var cat []byte
	for i, f := range seal.sealed {
		zzsymAssert(len(f) >= 12, "fragment_has_header")
		fl := zzU24(f[9:12])
		zzsymAssert(zzU24(f[6:9]) == off, "offsets_contiguous")
		zzsymAssert(fl == len(f)-12 && fl <= mtu, "fragment_length_is_body_bytes_within_mtu")
		zzsymAssert(zzU24(f[1:4]) == l && zzU16(f[4:6]) == mseq, "header_repeats_length_and_sequence")
		tr := recs[i].tracked
		zzsymAssert(tr != nil && len(tr.Fragments) == 1, "record_is_tracked")
		zzsymAssert(tr.Fragments[0].MessageSequence == mseq, "tracked_message_sequence")
		zzsymAssert(int(tr.Fragments[0].Offset) == off, "tracked_offset_is_fragment_offset")
		zzsymAssert(int(tr.Fragments[0].Length) == fl, "tracked_length_is_fragment_length")
		cat = append(cat, f[12:]...)
		off += fl
	}
	zzsymAssert(off == l && zzsymEqBytes(cat, body), "fragments_concatenate_to_body")
	if len(recs) == 1 {
		zzsymCover("one_fragment")
		return
	}
	zzsymCover("several_fragments")
	// retransmit exactly one tracked fragment, as the ACK bookkeeping would request it
	k := zzsymChoice("retransmit", len(recs))
	want := seal.sealed[k]
	tf := recs[k].tracked.Fragments[0]
	seal.sealed = nil
	pkt2, hs2 := mk(map[uint32]uint32{tf.Offset: tf.Length})
	recs2, err := c.processProtectedHandshakePacketTracked(pkt2, hs2)
	zzsymAssert(err == nil, "resend_ok")
	zzsymAssert(len(recs2) == 1 && len(seal.sealed) == 1, "resend_carries_the_requested_fragment")
	if len(seal.sealed) == 1 {
		zzsymAssert(zzsymEqBytes(seal.sealed[0], want), "resent_fragment_is_byte_identical")
	}
	zzsymCover("retransmitted_one")
}
