package dtls

//symgo:pkg github.com/pion/dtls/v3
//symgo:param NLC quick=2 thorough=3
//symgo:param NKC quick=3 thorough=3
//symgo:assume honest sender as in cache.go (model helpers zzC* are defined there)
//symgo:outside same as cache.go

import (
	"github.com/pion/dtls/v3/pkg/protocol"
	"github.com/pion/dtls/v3/pkg/protocol/recordlayer"
)

// Conn.bufferHandshakeRecord with the REAL flight.Cache (natively replayable companion of zzCacheOnce): same
// two messages and NKC arbitrary piece arrivals (DTLS 1.2 state, base sequence 0). After every record,
// handshakeCache.PullExact(seq, peer role) finds a message if and only if all its bytes and all bytes of the
// earlier message have arrived, and what it finds is header(type, L, seq, 0, L) + original body with the
// message's epoch and type; nothing is found under the local role.
//
//symgo:entry covers=found_complete,absent_incomplete,absent_waiting_for_earlier
func zzCacheContent() {
	isClient := zzsymBool("isClient")
	c := zzCConn(isClient, false, 0)
	maxL := zzsymParam("NLC")
	msgs := []*zzCMsg{
		zzCNewMsg("m0", 0, zzsymChoice("L0", maxL+1)),
		zzCNewMsg("m1", 1, zzsymChoice("L1", maxL+1)),
	}
	next := 0
	for i := 0; i < zzsymParam("NKC"); i++ {
		m, off, n, ok := zzCChoosePiece(msgs)
		if !ok {
			return
		}
		buf := zzCRecord(m.epoch, uint8(i), m.zzCPiece(off, n))
		hdr := &recordlayer.Header{ContentType: protocol.ContentTypeHandshake, Version: protocol.Version1_2,
			Epoch: m.epoch, SequenceNumber: uint64(i), ContentLen: uint16(12 + n)}
		_, handled, _ := c.bufferHandshakeRecord(buf, hdr, func() bool { return true })
		zzsymAssert(handled, "record_handled")
		m.zzCArrive(off, n)
		for next < len(msgs) && msgs[next].zzCComplete() {
			next++
		}
		for j, w := range msgs {
			item, found := c.handshakeCache.PullExact(w.seq, !isClient)
			_, foundLocal := c.handshakeCache.PullExact(w.seq, isClient)
			zzsymAssert(!foundLocal, "nothing_cached_under_local_role")
			if j < next {
				zzsymAssert(found, "complete_message_in_cache")
				if !found {
					return
				}
				zzsymAssert(zzsymEqBytes(item.Data, w.zzCPiece(0, w.l)), "cache_item_is_header_and_original_body")
				zzsymAssert(item.Epoch == w.epoch, "cache_item_epoch")
				zzsymAssert(uint8(item.Typ) == w.typ, "cache_item_type")
				zzsymCover("found_complete")
			} else {
				zzsymAssert(!found, "incomplete_message_not_in_cache")
				if w.zzCComplete() {
					zzsymCover("absent_waiting_for_earlier")
				} else {
					zzsymCover("absent_incomplete")
				}
			}
		}
	}
}
