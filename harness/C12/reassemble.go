package fragmentbuffer

//symgo:pkg github.com/pion/dtls/v3/internal/fragmentbuffer
//symgo:param NL quick=3 thorough=3
//symgo:param NK quick=3 thorough=4
//symgo:param NBASE quick=1 thorough=2
//symgo:param NLZ quick=2 thorough=3
//symgo:param NKZ quick=3 thorough=3
//symgo:param NLP quick=2 thorough=3
//symgo:param NLWIDE quick=4 thorough=4
//symgo:param NKWIDE quick=3 thorough=3
//symgo:param NLLONG quick=2 thorough=2
//symgo:param NKLONG quick=5 thorough=5
//symgo:assume honest sender: all pieces of one message come from ONE partition of its body into consecutive pieces (non-empty pieces pairwise identical or disjoint, an empty piece only at a cut point), every piece header repeats the message's type, total length and sequence, and all pieces of a message travel in the same epoch. Dishonest or overlapping fragmentations are outside C12 (C08 covers them for memory safety only)
//symgo:outside messages longer than NL bytes, more than two messages in flight, more than NK arrivals, message_seq wrap-around at 65535, the 2 MB / 1000 fragment buffer limits

// ---- abstract model of the sender side (independent of pion's encoder/decoder) --------------------------

// zzMsg is one original handshake message.
type zzMsg struct {
	typ   uint8
	seq   uint16
	epoch uint16
	l     int
	body  []byte
	// receiver-side model
	got       []bool // byte b has arrived
	seen      bool   // at least one piece has arrived (an empty message consists of exactly one empty piece)
	delivered bool
	// zeroFirst: an empty piece arrived at an offset o < l before the non-empty piece that starts at o (F12 trigger)
	zeroFirst bool
	started   []bool // a non-empty piece starting at offset o has arrived
	pieces    [][2]int
}

func zzNewMsg(name string, seq uint16, l int) *zzMsg {
	return &zzMsg{
		typ: zzsymU8(name + "type"), seq: seq, epoch: zzsymU16(name + "epoch"), l: l,
		body: zzsymBytes(name+"body", l), got: make([]bool, l), started: make([]bool, l+1),
	}
}

// zzConsistent: does the piece [off, off+n) belong to the same partition as the pieces seen so far?
func (m *zzMsg) zzConsistent(off, n int) bool {
	for _, p := range m.pieces {
		po, pn := p[0], p[1]
		switch {
		case n > 0 && pn > 0:
			same := po == off && pn == n
			disjoint := off+n <= po || po+pn <= off
			if !same && !disjoint {
				return false
			}
		case n == 0 && pn > 0:
			if po < off && off < po+pn {
				return false
			}
		case n > 0 && pn == 0:
			if off < po && po < off+n {
				return false
			}
		}
	}
	return true
}

// zzArrive records the arrival of piece [off, off+n) in the model.
func (m *zzMsg) zzArrive(off, n int) {
	m.pieces = append(m.pieces, [2]int{off, n})
	m.seen = true
	if n == 0 && off < m.l && !m.started[off] {
		m.zeroFirst = true
	}
	if n > 0 {
		m.started[off] = true
	}
	for b := off; b < off+n; b++ {
		m.got[b] = true
	}
}

// zzComplete: every byte of the message has arrived (and, for an empty message, its single empty piece).
func (m *zzMsg) zzComplete() bool {
	if !m.seen {
		return false
	}
	for _, g := range m.got {
		if !g {
			return false
		}
	}
	return true
}

// RFC 6347 4.2.2: msg_type(1) length(3) message_seq(2) fragment_offset(3) fragment_length(3) body.
func (m *zzMsg) zzPiece(off, n int) []byte {
	h := []byte{
		m.typ, 0, 0, byte(m.l), byte(m.seq >> 8), byte(m.seq),
		0, 0, byte(off), 0, 0, byte(n),
	}
	return append(h, m.body[off:off+n]...)
}

// zzWhole is the unfragmented message the receiver must surface.
func (m *zzMsg) zzWhole() []byte { return m.zzPiece(0, m.l) }

// RFC 6347 4.1: type(1)=22 version(2)=fe fd epoch(2) sequence_number(6) length(2) fragment.
func zzRecord(epoch uint16, rseq uint8, payload []byte) []byte {
	rec := []byte{22, 0xfe, 0xfd, byte(epoch >> 8), byte(epoch), 0, 0, 0, 0, 0, rseq, byte(len(payload) >> 8), byte(len(payload))}
	return append(rec, payload...)
}

func zzBase(i int) uint16 {
	switch i {
	case 1:
		return 0x1234
	case 2:
		return 1
	}
	return 0
}

// zzPopAll pops until nil and checks every surfaced message against the model, then checks that nothing
// that is complete and next in sequence was held back.
func zzPopAll(fb *FragmentBuffer, msgs []*zzMsg, next *int) {
	for {
		out, epoch := fb.Pop()
		if out == nil {
			break
		}
		if *next >= len(msgs) {
			zzsymFail("popped_more_messages_than_sent")
			return
		}
		m := msgs[*next]
		// safety: only the next message in sequence, only when no byte is missing, exactly the original bytes
		zzsymAssert(m.zzComplete(), "nothing_popped_while_a_byte_is_missing")
		zzsymAssert(len(out) >= 12, "popped_has_header")
		zzsymAssert(uint16(out[4])<<8|uint16(out[5]) == m.seq, "popped_in_sequence_order_at_most_once")
		zzsymAssert(zzsymEqBytes(out, m.zzWhole()), "popped_is_header_and_original_body")
		zzsymAssert(epoch == m.epoch, "popped_epoch_is_message_epoch")
		m.delivered = true
		*next++
		zzsymCover("popped")
	}
	// liveness: the next message in sequence is surfaced as soon as all its bytes have arrived
	if *next < len(msgs) && msgs[*next].zzComplete() {
		if msgs[*next].zeroFirst {
			// known defect F12: an empty piece stored first at offset o makes the real piece at o a "duplicate"
			zzsymFail("reassemble/zero_len_piece")
		} else {
			zzsymFail("complete_message_not_delivered")
		}
	}
}

// zzChoosePiece picks (message, offset, length) for one arrival; ok=false when the piece does not belong to
// the partition already fixed by earlier arrivals of that message (path abandoned, nothing claimed).
func zzChoosePiece(msgs []*zzMsg, allowZero bool) (m *zzMsg, off, n int, ok bool) {
	m = msgs[zzsymChoice("msg", len(msgs))]
	if m.l == 0 {
		return m, 0, 0, true // the only piece of an empty message
	}
	off = zzsymChoice("off", m.l+1)
	if allowZero {
		n = zzsymChoice("len", m.l-off+1)
	} else {
		if off == m.l {
			return m, 0, 0, false
		}
		n = 1 + zzsymChoice("len", m.l-off)
	}
	return m, off, n, m.zzConsistent(off, n)
}

func zzReassembleRun(maxL, k, nbase int, allowZero bool) {
	base := zzBase(zzsymChoice("base", nbase))
	fb := New()
	if base > 0 {
		fb.AdvanceTo(base) // what Conn.syncFragmentBufferHandshakeSequence does after earlier messages
	}
	msgs := []*zzMsg{
		zzNewMsg("m0", base, zzsymChoice("L0", maxL+1)),
		zzNewMsg("m1", base+1, zzsymChoice("L1", maxL+1)),
	}
	next := 0
	usedZero := false
	for i := 0; i < k; i++ {
		m, off, n, ok := zzChoosePiece(msgs, allowZero)
		if !ok {
			return
		}
		if n == 0 && m.l > 0 {
			usedZero = true
		}
		if allowZero && i == k-1 && !usedZero {
			return // arrival sequences without an empty piece are the business of zzReassemble
		}
		wasDelivered := m.delivered
		isHS, isRetransmit, err := fb.Push(zzRecord(m.epoch, uint8(i), m.zzPiece(off, n)))
		zzsymAssert(err == nil, "push_ok")
		zzsymAssert(isHS, "push_is_handshake")
		if wasDelivered {
			zzsymAssert(isRetransmit, "piece_of_delivered_message_is_retransmit")
			zzsymCover("retransmit_after_delivery")
		} else if !isRetransmit {
			zzsymCover("new_data")
		}
		if !wasDelivered && m.zzComplete() {
			zzsymCover("duplicate_before_delivery")
		}
		m.zzArrive(off, n)
		before := next
		zzPopAll(fb, msgs, &next)
		switch {
		case next-before == 2:
			zzsymCover("two_messages_released_by_one_piece")
		case next == before && m != msgs[0] && m.zzComplete() && !wasDelivered:
			zzsymCover("later_message_waits_for_earlier")
		}
		if len(m.pieces) >= 2 && m.pieces[len(m.pieces)-2][0] > off {
			zzsymCover("out_of_order_offsets")
		}
		if n == 0 && m.l == 0 {
			zzsymCover("empty_message")
		}
	}
	if usedZero {
		zzsymCover("empty_piece_of_nonempty_message")
	}
}

// Receiver side, pieces without empty fragments. Two messages with consecutive message_seq (base, base+1),
// lengths 0..NL each, arbitrary bodies, types and epochs, base one of NBASE values (0, 0x1234, 1; reached with AdvanceTo); NK arrivals, each an arbitrary non-empty piece
// (any offset, any length) of either message, subject only to all pieces of a message coming from one
// partition (an empty message has its single empty piece) - so any order, any duplication, any interleaving
// of the two sequences, including pieces of already delivered messages. One record per piece; after every
// arrival the buffer is popped until nil. Every popped message equals header(type, L, seq, 0, L) followed by
// the original body and carries its epoch, messages come out in sequence order at most once, never while a
// byte is missing, and the next message in sequence is popped as soon as its last byte has arrived; every
// piece of an already delivered message is reported isRetransmit.
//
//symgo:entry covers=popped,retransmit_after_delivery,new_data,duplicate_before_delivery,two_messages_released_by_one_piece,later_message_waits_for_earlier,out_of_order_offsets,empty_message
func zzReassemble() {
	zzReassembleRun(zzsymParam("NL"), zzsymParam("NK"), zzsymParam("NBASE"), false)
}

// zzReassemble with longer messages: lengths 0..NLWIDE, NKWIDE arrivals, base sequence 0 (thorough tier only).
//
//symgo:entry tier=thorough covers=popped,retransmit_after_delivery,new_data,two_messages_released_by_one_piece,later_message_waits_for_earlier,out_of_order_offsets
func zzReassembleWide() {
	zzReassembleRun(zzsymParam("NLWIDE"), zzsymParam("NKWIDE"), 1, false)
}

// zzReassemble with longer arrival sequences: lengths 0..NLLONG, NKLONG arrivals, base sequence 0 (thorough
// tier only).
//
//symgo:entry tier=thorough covers=popped,retransmit_after_delivery,new_data,duplicate_before_delivery,two_messages_released_by_one_piece,later_message_waits_for_earlier,out_of_order_offsets,empty_message
func zzReassembleLong() {
	zzReassembleRun(zzsymParam("NLLONG"), zzsymParam("NKLONG"), 1, false)
}

// Same claim as zzReassemble, but pieces may be EMPTY fragments (fragment_length 0) of non-empty messages at
// any cut point of the partition (offset 0..L), lengths 0..NLZ, NKZ arrivals, at least one such empty piece
// per arrival sequence. Expected to expose defect F12 under the label reassemble/zero_len_piece: an empty
// piece that arrives before the real piece starting at the same offset occupies that offset in
// fragmentByOffset, the real piece is then discarded as a duplicate and the message is never surfaced.
//
//symgo:entry covers=popped,empty_piece_of_nonempty_message,new_data
func zzReassembleZeroLen() {
	zzReassembleRun(zzsymParam("NLZ"), zzsymParam("NKZ"), 1, true)
}

// Several handshake fragments in ONE record (pushHandshakeFragments loops over them): two records, each
// carrying two arbitrary non-empty pieces (same partition rule) of two messages of length 0..NLP; popped
// until nil after each record. Same assertions as zzReassemble; a record that contains a piece of an already
// delivered message is reported isRetransmit.
//
//symgo:entry covers=popped,packed_retransmit,packed_two_messages_one_record
func zzReassemblePackedRecords() {
	fb := New()
	maxL := zzsymParam("NLP")
	msgs := []*zzMsg{
		zzNewMsg("m0", 0, zzsymChoice("L0", maxL+1)),
		zzNewMsg("m1", 1, zzsymChoice("L1", maxL+1)),
	}
	msgs[1].epoch = msgs[0].epoch // one record carries one epoch
	next := 0
	for r := 0; r < 2; r++ {
		var payload []byte
		anyDelivered := false
		var first *zzMsg
		for j := 0; j < 2; j++ {
			m, off, n, ok := zzChoosePiece(msgs, false)
			if !ok {
				return
			}
			if m.delivered {
				anyDelivered = true
			}
			if j == 0 {
				first = m
			}
			payload = append(payload, m.zzPiece(off, n)...)
			m.zzArrive(off, n)
		}
		isHS, isRetransmit, err := fb.Push(zzRecord(msgs[0].epoch, uint8(r), payload))
		zzsymAssert(err == nil, "push_ok")
		zzsymAssert(isHS, "push_is_handshake")
		if anyDelivered {
			zzsymAssert(isRetransmit, "piece_of_delivered_message_is_retransmit")
			zzsymCover("packed_retransmit")
		}
		before := next
		zzPopAll(fb, msgs, &next)
		if next-before == 2 && first == msgs[1] {
			zzsymCover("packed_two_messages_one_record")
		}
	}
}

// Re-fragmented retransmissions (RFC 6347 4.2.3 lets a sender fragment a retransmission differently, e.g. after a
// path-MTU change): ONE message of length 1..NLOVER whose NKOVER pieces are ARBITRARY non-empty byte ranges - any
// offsets and lengths, overlapping or not, from as many different fragmentations as there are pieces (all carry the
// same body bytes). Safety only is claimed for such input: whenever the buffer surfaces the message, every one of its
// bytes has arrived in some piece and the surfaced bytes are header(type, L, seq, 0, L) followed by the original
// body; it is surfaced at most once. (That such a message is EVENTUALLY surfaced once all bytes have arrived is not
// claimed: the buffer keeps the first fragment per offset and may need a retransmission that fits.)
//
//symgo:param NLOVER quick=3 thorough=4
//symgo:param NKOVER quick=3 thorough=4
//symgo:entry covers=overlap_surfaced_complete,overlap_held_back,overlapping_pieces_seen
func zzReassembleOverlappingFragmentations() {
	l := 1 + zzsymChoice("L", zzsymParam("NLOVER"))
	m := zzNewMsg("m", 0, l)
	fb := New()
	surfaced := 0
	for i := 0; i < zzsymParam("NKOVER"); i++ {
		off := zzsymChoice("off", l)
		n := 1 + zzsymChoice("len", l-off)
		for _, p := range m.pieces {
			if !(p[0] == off && p[1] == n) && !(off+n <= p[0] || p[0]+p[1] <= off) {
				zzsymCover("overlapping_pieces_seen")
			}
		}
		_, _, err := fb.Push(zzRecord(m.epoch, uint8(i), m.zzPiece(off, n)))
		zzsymAssert(err == nil, "overlap_push_ok")
		m.zzArrive(off, n)
		for {
			out, _ := fb.Pop()
			if out == nil {
				break
			}
			surfaced++
			zzsymAssert(m.zzComplete(), "message_surfaced_while_a_byte_is_missing")
			zzsymAssert(zzsymEqBytes(out, m.zzWhole()), "surfaced_message_is_the_original")
			zzsymAssert(surfaced == 1, "message_surfaced_once")
			zzsymCover("overlap_surfaced_complete")
		}
	}
	if surfaced == 0 {
		zzsymCover("overlap_held_back")
	}
}
