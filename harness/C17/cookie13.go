package dtlshandshake

//symgo:pkg github.com/pion/dtls/v3/internal/handshake
//symgo:param NTIMEOUT quick=4 thorough=9
//symgo:replace time.NewTimer zzFakeNewTimer
//symgo:replace (*time.Timer).Stop zzFakeTimerStop
//symgo:replace github.com/pion/dtls/v3/internal/handshake.commitPreparedFlights zzFakeCommitPrepared
//symgo:replace github.com/pion/dtls/v3/internal/negotiation.ValidateHelloRetryRequest zzFakeValidateHRR
//symgo:stub time.NewTimer is a harness fake (see fsm13.go)
//symgo:stub commitPreparedFlights (transcript hashing / key schedule of an outgoing flight) is replaced by a no-op; it sends nothing in the real code
//symgo:stub negotiation.ValidateHelloRetryRequest (consistency of the HelloRetryRequest with the recorded ClientHello) is replaced by a stub that accepts and reports what the request carries (cookie; cookie + selected group)
//symgo:assume 0 < initial interval <= 60 s

import (
	"github.com/pion/dtls/v3/internal/ciphersuite"
	dtlsconfig "github.com/pion/dtls/v3/internal/config"
	dtlsflight "github.com/pion/dtls/v3/internal/flight"
	dtlsflight13 "github.com/pion/dtls/v3/internal/flight/flight13"
	"github.com/pion/dtls/v3/internal/negotiation"
	dtlsstate "github.com/pion/dtls/v3/internal/state"
	"github.com/pion/dtls/v3/pkg/crypto/elliptic"
	"github.com/pion/dtls/v3/pkg/protocol/handshake"
)

func zzFakeCommitPrepared(Conn, *dtlsstate.State13, *Transcript, *dtlsconfig.HandshakeConfig, []*dtlsflight.Packet) error {
	return nil
}

var zzFakeHRRSelectsGroup bool

func zzFakeValidateHRR(negotiation.ClientHelloSnapshot, *handshake.MessageServerHello) (negotiation.RetryRequest, error) {
	if zzFakeHRRSelectsGroup {
		return negotiation.RetryRequest{HasCookie: true, HasSelectedGroup: true, SelectedGroup: elliptic.P384}, nil
	}

	return negotiation.RetryRequest{HasCookie: true}, nil
}

// DTLS 1.3 cookie request through the real prepare step: a server FSM whose retransmit flag is still set from
// the previous flight enters PREPARING for flight 2; the real flight13 generator builds the HelloRetryRequest
// (with a symbolic cookie), fsm13.prepare/send/wait run, the timer expires NTIMEOUT times in silence.
// Proved: exactly one datagram write (the HelloRetryRequest ServerHello), no write on any timer expiry, the
// interval stays at the configured value, nothing is tracked for ACKs.
//
//symgo:entry covers=hrr_sent_once,hrr_with_selected_group
func zzCookieFlightNoTimerResend13() {
	k := zzsymParam("NTIMEOUT")
	init := zzSymInit()
	disabled := zzsymChoice("disableBackoff", 2) == 1
	cfg := &dtlsconfig.HandshakeConfig{InitialRetransmitInterval: init, DisableRetransmitBackoff: disabled, Log: zzLog{}}
	st := dtlsstate.NewState13(false)
	st.Cookie = zzsymBytes("cookie", 4)
	st.CipherSuite = ciphersuite.NewTLSAes128GcmSha256()
	// the same HelloRetryRequest may also select a key-share group (client offered no share for the server's group):
	// it still carries the cookie, and is still answered once per ClientHello, never by the timer (seed C17k-2)
	zzFakeHRRSelectsGroup = zzsymChoice("selects_group", 2) == 1
	if zzFakeHRRSelectsGroup {
		st.SelectedGroup = elliptic.P384
		zzsymCover("hrr_with_selected_group")
	}
	fsm := zzNewFSM13(&st, cfg, dtlsflight13.Flight2, zzFlightPackets(), true, init)

	ctx := zzNewCtx()
	conn := zzNewConn(0)
	conn.track = true
	zzTimerFires = func(idx int) bool { return idx < k }
	zzTimerHook = func(idx int) {
		if idx == k {
			ctx.cancel()
		}
	}
	err := fsm.Run(ctx, conn, StatePreparing)
	zzsymAssert(err == errZZCtx, "run_ends_by_cancellation_only")
	zzsymAssert(len(zzTimerLog) == k+1, "one_timer_per_wait")
	zzsymAssert(len(conn.writes) == 1, "cookie_request_never_retransmitted_on_timer")
	w := conn.writes[0]
	zzsymAssert(len(w) == 1, "cookie_flight_is_one_message")
	hs, _ := w[0].Record.Content.(*handshake.Handshake)
	sh, isSH := hs.Message.(*handshake.MessageServerHello)
	zzsymAssert(isSH, "cookie_flight_is_server_hello")
	zzsymAssert(dtlsflight13.IsHelloRetryRequest(sh), "cookie_flight_is_hello_retry_request")
	zzsymAssert(len(fsm.flightACK.pending) == 0, "cookie_flight_not_tracked")
	for i := 0; i <= k; i++ {
		zzsymAssert(zzTimerLog[i] == init, "cookie_flight_interval_constant")
	}
	zzsymCover("hrr_sent_once")
}
