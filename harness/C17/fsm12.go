package dtlshandshake

//symgo:pkg github.com/pion/dtls/v3/internal/handshake
//symgo:param NTIMEOUT quick=4 thorough=9
//symgo:param NEV quick=2 thorough=3
//symgo:replace time.NewTimer zzFakeNewTimer
//symgo:replace (*time.Timer).Stop zzFakeTimerStop
//symgo:replace github.com/pion/dtls/v3/internal/flight/flight12.Parse zzFakeParse12
//symgo:stub time.NewTimer is a harness fake: it records the requested duration and returns a timer whose channel already holds a tick (timer expires) or stays empty (never expires), as chosen by the harness
//symgo:stub Conn is a harness fake that records every WritePackets / Notify call; RecvHandshake is a queue pre-filled by the harness with one event per received datagram (what Conn.readAndBuffer produces)
//symgo:stub context.Context is a harness fake whose Done channel the harness closes to end a run
//symgo:stub flight12.Parse (wait entries only) is replaced by a stub that returns one of: flight incomplete/stale (0), same flight, next flight, fatal alert+error, unknown flight; the real parsers are exercised by C11/C12
//symgo:assume 0 < initial interval <= 60 s and initial <= running interval <= 60 s (see backoff.go; invariant proved by zzBackoffLaw)
//symgo:assume the retransmit flag of a waiting FSM is the one GetGenerator returns for its current flight (fsm12.prepare assigns it; checked for the cookie flight by zzCookieFlightNoTimerResend12)
//symgo:outside the global datagram-count bound over unbounded schedules follows from the per-event bounds proved here (each timer expiry: exactly one WritePackets; each received event: zero in WAITING, at most one in FINISHED) by induction over the FSM loop, it is not itself enumerated
//symgo:outside number of datagrams per WritePackets (fragmentation of the stored flight) is C10/C09 territory

import (
	"context"
	"time"

	dtlsconfig "github.com/pion/dtls/v3/internal/config"
	dtlsflight "github.com/pion/dtls/v3/internal/flight"
	dtlsflight12 "github.com/pion/dtls/v3/internal/flight/flight12"
	dtlsstate "github.com/pion/dtls/v3/internal/state"
	"github.com/pion/dtls/v3/pkg/protocol/alert"
	"github.com/pion/dtls/v3/pkg/protocol/handshake"
)

// ---- flight12.Parse stub ----

var (
	zzParseCalls  int
	zzParseKinds  []int // result kind of every call
	zzParseChoose func(n int) int
)

const (
	zzParseStale   = iota // flight incomplete / stale / garbage: keep waiting
	zzParseSame           // parser reports the current flight again
	zzParseNext           // parser advances to another flight
	zzParseFatal          // invalid flight: alert + error
	zzParseUnknown        // no parser for the flight
	zzParseKindCount
)

func zzOtherFlight12(f dtlsflight12.Flight) dtlsflight12.Flight {
	if f == dtlsflight12.Flight3 {
		return dtlsflight12.Flight5
	}
	return dtlsflight12.Flight3
}

func zzFakeParse12(
	_ context.Context, f dtlsflight12.Flight, _ dtlsflight.Conn, _ *dtlsstate.State12,
	_ *dtlsflight.Cache, _ *dtlsconfig.HandshakeConfig,
) (dtlsflight12.Flight, *alert.Alert, error, bool) {
	n := zzParseCalls
	zzParseCalls++
	kind := zzParseChoose(n)
	zzParseKinds = append(zzParseKinds, kind)
	switch kind {
	case zzParseSame:
		return f, nil, nil, true
	case zzParseNext:
		return zzOtherFlight12(f), nil, nil, true
	case zzParseFatal:
		return 0, &alert.Alert{Level: alert.Fatal, Description: alert.HandshakeFailure}, errZZ, true
	case zzParseUnknown:
		return 0, nil, nil, false
	}
	return 0, nil, nil, true
}

// DTLS 1.2, total silence. The real FSM loop (runHandshakeFSM with fsm12.send / fsm12.wait) is started in
// SENDING with a stored flight, for every flight that awaits a reply (0,1,2,3,4,4b,5), every initial interval
// 0 < init <= 60 s, backoff enabled/disabled; the retransmit timer expires NTIMEOUT times, then the context is
// cancelled. Proved: the k-th timer is armed with exactly min(init*2^k, 60 s) (init when backoff is disabled);
// every expiry causes exactly one WritePackets of the stored flight (writes = expiries + 1) and nothing else;
// for the cookie request (flight 2, HelloVerifyRequest) no expiry causes any write and the interval stays init.
//
//symgo:entry covers=silence_backoff,silence_constant,silence_cookie,silence_hit_cap
func zzSilenceSchedule12() {
	k := zzsymParam("NTIMEOUT")
	init := zzSymInit()
	disabled := zzsymChoice("disableBackoff", 2) == 1
	f := zzAllFlights12[zzsymChoice("flight", 7)] // the seven flights that are not a last-send flight
	cfg := &dtlsconfig.HandshakeConfig{InitialRetransmitInterval: init, DisableRetransmitBackoff: disabled, Log: zzLog{}}
	st := dtlsstate.NewState12(zzIsClientFlight12(f))
	flights := zzFlightPackets()
	fsm, _ := NewFSM12(&st, nil, cfg, f, flights, NewEstablishment()).(*fsm12)
	_, flag, ok := dtlsflight12.GetGenerator(f) // what fsm12.prepare stores for this flight
	zzsymAssert(ok, "generator_exists")
	fsm.retransmit = flag

	ctx := zzNewCtx()
	conn := zzNewConn(0)
	zzTimerFires = func(idx int) bool { return idx < k }
	zzTimerHook = func(idx int) {
		if idx == k {
			ctx.cancel()
		}
	}
	err := fsm.Run(ctx, conn, StateSending)
	zzsymAssert(err == errZZCtx, "run_ends_by_cancellation_only")
	zzsymAssert(len(zzTimerLog) == k+1, "one_timer_per_wait")

	cookieFlight := f == dtlsflight12.Flight2 // RFC 6347 4.2.1: HelloVerifyRequest is never retransmitted on a timer
	for i := 0; i <= k; i++ {
		if cookieFlight {
			zzsymAssert(zzTimerLog[i] == init, "cookie_flight_interval_constant")
		} else {
			zzsymAssert(zzTimerLog[i] == zzSchedule(init, i, disabled), "kth_interval_is_min_init_2k_60s")
		}
	}
	if cookieFlight {
		zzsymAssert(len(conn.writes) == 1, "cookie_request_never_retransmitted_on_timer")
		zzsymCover("silence_cookie")
	} else {
		zzsymAssert(len(conn.writes) == k+1, "one_write_per_timer_expiry")
		if disabled {
			zzsymCover("silence_constant")
		} else {
			zzsymCover("silence_backoff")
			if zzTimerLog[k] == zzCap {
				zzsymCover("silence_hit_cap")
			}
		}
	}
	for _, w := range conn.writes {
		zzsymAssert(zzSameFlight(w, flights), "retransmission_is_the_stored_flight")
	}
	zzsymAssert(conn.notifies == 0, "no_alert_in_silence")
}

// DTLS 1.2 cookie request through the real prepare step: a server FSM whose retransmit flag is still set
// from the previous flight enters PREPARING for flight 2; the real flight2Generate builds the
// HelloVerifyRequest, fsm12.prepare/send/wait run, the timer expires NTIMEOUT times in silence.
// Proved: exactly one datagram write (the HelloVerifyRequest), no write on any timer expiry.
//
//symgo:entry covers=cookie_sent_once
func zzCookieFlightNoTimerResend12() {
	k := zzsymParam("NTIMEOUT")
	init := zzSymInit()
	disabled := zzsymChoice("disableBackoff", 2) == 1
	cfg := &dtlsconfig.HandshakeConfig{InitialRetransmitInterval: init, DisableRetransmitBackoff: disabled, Log: zzLog{}}
	st := dtlsstate.NewState12(false)
	st.Cookie = zzsymBytes("cookie", 4)
	fsm, _ := NewFSM12(&st, nil, cfg, dtlsflight12.Flight2, zzFlightPackets(), NewEstablishment()).(*fsm12)
	zzsymAssert(fsm.retransmit, "precondition_flag_set")
	zzsymAssert(fsm.retransmitInterval == init, "new_fsm_starts_at_configured_interval")

	ctx := zzNewCtx()
	conn := zzNewConn(0)
	zzTimerFires = func(idx int) bool { return idx < k }
	zzTimerHook = func(idx int) {
		if idx == k {
			ctx.cancel()
		}
	}
	err := fsm.Run(ctx, conn, StatePreparing)
	zzsymAssert(err == errZZCtx, "run_ends_by_cancellation_only")
	zzsymAssert(len(zzTimerLog) == k+1, "one_timer_per_wait")
	zzsymAssert(len(conn.writes) == 1, "cookie_request_never_retransmitted_on_timer")
	w := conn.writes[0]
	zzsymAssert(len(w) == 1, "cookie_flight_is_one_message")
	hs, _ := w[0].Record.Content.(*handshake.Handshake)
	_, isHVR := hs.Message.(*handshake.MessageHelloVerifyRequest)
	zzsymAssert(isHVR, "cookie_flight_is_hello_verify_request")
	for i := 0; i <= k; i++ {
		zzsymAssert(zzTimerLog[i] == init, "cookie_flight_interval_constant")
	}
	zzsymCover("cookie_sent_once")
}

// DTLS 1.2 reset rule and per-event emission in WAITING: fsm12.wait is run once from an arbitrary interval
// init <= I <= 60 s with 0..NEV received-datagram events queued (IsRetransmit symbolic per event, parser outcome
// per event: stale/incomplete, same flight, next flight, fatal, unknown), the timer either expiring or not (then
// the context is cancelled), retransmit flag on/off, backoff on/off, for a client (1), a server (4) and a
// last-receive (5) flight. An abstract model is stepped over the events actually consumed: I := init iff the
// event is not a retransmission; a timer exit then applies the backoff law. Proved: the interval after wait
// equals the model; the timer was armed once with I; wait itself never writes a datagram (stale, repeated or
// invalid flights cause no emission, at most one alert for a fatal one); a timer exit yields SENDING iff the
// retransmit flag is set.
//
//symgo:entry covers=reset_on_new_data,kept_on_retransmit,timer_after_events,timer_exit_resend,timer_exit_noresend,event_exit_preparing,event_exit_finished,event_exit_fatal,cancel_exit,stale_ignored
func zzResetRule12() {
	nev := zzsymChoice("events", zzsymParam("NEV")+1)
	init := zzSymInit()
	i0 := time.Duration(zzsymI64("I"))
	zzsymAssume(init <= i0)
	zzsymAssume(i0 <= zzCap)
	disabled := zzsymBool("disableBackoff")
	flag := zzsymChoice("retransmitFlag", 2) == 1
	cur := []dtlsflight12.Flight{dtlsflight12.Flight1, dtlsflight12.Flight4, dtlsflight12.Flight5}[zzsymChoice("flight", 3)]
	cfg := &dtlsconfig.HandshakeConfig{InitialRetransmitInterval: init, DisableRetransmitBackoff: disabled, Log: zzLog{}}
	st := dtlsstate.NewState12(zzIsClientFlight12(cur))
	flights := zzFlightPackets()
	fsm := &fsm12{currentFlight: cur, flights: flights, retransmit: flag, retransmitInterval: i0, state: &st, cfg: cfg}

	conn := zzNewConn(nev)
	retx := make([]bool, nev)
	for i := 0; i < nev; i++ {
		retx[i] = zzsymBool("isRetransmit")
		conn.recv <- RecvHandshakeState{Done: make(chan struct{}), HasHandshake: true, IsRetransmit: retx[i]}
	}
	timerFires := zzsymChoice("timerFires", 2) == 1
	ctx := zzNewCtx()
	if !timerFires {
		ctx.cancel()
	}
	zzTimerFires = func(int) bool { return timerFires }
	zzParseChoose = func(int) int { return zzsymChoice("parse", zzParseKindCount) }

	state, err := fsm.wait(ctx, conn)

	consumed := nev - len(conn.recv)
	zzsymAssert(zzParseCalls == consumed, "one_parse_per_event")
	zzsymAssert(len(zzTimerLog) == 1, "timer_armed_once")
	zzsymAssert(zzTimerLog[0] == i0, "timer_armed_with_current_interval")
	zzsymAssert(len(conn.writes) == 0, "waiting_never_writes_on_received_event")
	zzsymAssert(conn.notifies <= 1, "at_most_one_alert")

	// abstract model of the interval
	want := i0
	for i := 0; i < consumed; i++ {
		if !retx[i] {
			want = init
			zzsymCover("reset_on_new_data")
		} else {
			zzsymCover("kept_on_retransmit")
		}
	}
	lastKind := zzParseStale
	if consumed > 0 {
		lastKind = zzParseKinds[consumed-1]
	}
	for i := 0; i+1 < consumed; i++ {
		zzsymAssert(zzParseKinds[i] == zzParseStale, "only_stale_events_keep_waiting")
		zzsymCover("stale_ignored")
	}
	timerTaken := timerFires && len(zzTimerChans[0]) == 0
	switch {
	case lastKind != zzParseStale: // the last consumed event ended the wait
		zzsymAssert(!timerTaken, "event_exit_leaves_timer")
		switch lastKind {
		case zzParseSame:
			if cur == dtlsflight12.Flight5 {
				zzsymAssert(state == StateFinished && err == nil, "last_flight_received_finishes")
				zzsymCover("event_exit_finished")
			} else {
				zzsymAssert(state == StatePreparing && err == nil, "same_flight_prepares")
			}
		case zzParseNext:
			zzsymAssert(state == StatePreparing && err == nil, "next_flight_prepares")
			zzsymAssert(fsm.currentFlight == zzOtherFlight12(cur), "flight_advanced")
			zzsymCover("event_exit_preparing")
		case zzParseFatal:
			zzsymAssert(state == StateErrored && err == errZZ, "fatal_flight_errors")
			zzsymAssert(conn.notifies == 1, "fatal_flight_one_alert")
			zzsymCover("event_exit_fatal")
		case zzParseUnknown:
			zzsymAssert(state == StateErrored && err != nil, "unknown_flight_errors")
		}
	case timerTaken:
		zzsymAssert(err == nil, "timer_exit_no_error")
		if flag {
			zzsymAssert(state == StateSending, "timer_exit_resends_iff_flag")
			want = zzBackoffOracle(want, disabled)
			zzsymCover("timer_exit_resend")
		} else {
			zzsymAssert(state == StateWaiting, "timer_exit_resends_iff_flag")
			zzsymCover("timer_exit_noresend")
		}
		if consumed > 0 {
			zzsymCover("timer_after_events")
		}
	default:
		zzsymAssert(!timerFires, "only_cancellation_left")
		zzsymAssert(state == StateErrored && err == errZZCtx, "cancel_exit")
		want = init
		zzsymCover("cancel_exit")
	}
	zzsymAssert(fsm.retransmitInterval == want, "interval_reset_iff_event_is_new_data")
	zzsymAssert(fsm.retransmit == flag, "wait_keeps_retransmit_flag")
	zzsymAssert(zzSameFlight(fsm.flights, flights), "wait_keeps_stored_flight")
}
