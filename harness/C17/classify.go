package fragmentbuffer

//symgo:pkg github.com/pion/dtls/v3/internal/fragmentbuffer
//symgo:outside how the connection forwards the flag to the state machines (bufferHandshakeRecord copies it into the packet outcome; C17 fsm entries take it as an arbitrary input)

import (
	"github.com/pion/dtls/v3/pkg/protocol"
	"github.com/pion/dtls/v3/pkg/protocol/recordlayer"
)

// Where the state machines' IsRetransmit input comes from. "Retransmitted data never resets the back-off" rests on
// the fragment buffer classifying EVERY fragment of an already assembled message as a retransmission: a record with
// one well-formed handshake fragment of arbitrary type (ClientHello included), arbitrary message_seq below the
// buffer's current one (arbitrary as well), arbitrary epoch, record number, length fields and 0..2 body bytes is
// reported as (handshake, retransmission), stores nothing and leaves the expected sequence number alone. The same
// fragment with message_seq at or above the current one is never reported as a retransmission.
//
//symgo:entry covers=stale_is_retransmit,fresh_is_not_retransmit
func zzStaleFragmentIsRetransmission() {
	f := New()
	cur := zzsymU16("current_message_seq")
	f.AdvanceTo(cur)
	n := zzsymChoice("fragment_len", 3)
	hh := zzsymBytes("handshake_header", 12)
	hh[9], hh[10], hh[11] = 0, 0, byte(n) // fragment_length
	seq := uint16(hh[4])<<8 | uint16(hh[5])
	body := zzsymBytes("fragment", n)
	rec := recordlayer.Header{ContentType: protocol.ContentTypeHandshake, Version: protocol.Version1_2, Epoch: zzsymU16("epoch"), SequenceNumber: 5, ContentLen: uint16(12 + n)}
	raw, err := rec.Marshal()
	zzsymAssert(err == nil, "harness_header")
	isHandshake, isRetransmit, err := f.Push(append(append(raw, hh...), body...))
	if seq < cur {
		zzsymAssert(err == nil && isHandshake, "stale_fragment_is_a_handshake_record")
		zzsymAssert(isRetransmit, "stale_fragment_is_reported_as_retransmission")
		zzsymAssert(len(f.cache) == 0 && f.currentMessageSequenceNumber == cur, "stale_fragment_changes_nothing")
		zzsymCover("stale_is_retransmit")
		return
	}
	zzsymAssert(!isRetransmit, "fresh_fragment_is_not_a_retransmission")
	zzsymCover("fresh_is_not_retransmit")
}
