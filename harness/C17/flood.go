package dtlshandshake

//symgo:pkg github.com/pion/dtls/v3/internal/handshake
//symgo:param NEV quick=3 thorough=4
//symgo:param NTIMEOUT quick=2 thorough=3
//symgo:replace time.NewTimer zzFakeNewTimer
//symgo:replace (*time.Timer).Stop zzFakeTimerStop
//symgo:replace github.com/pion/dtls/v3/internal/flight/flight12.Parse zzFakeParse12
//symgo:replace github.com/pion/dtls/v3/internal/flight/flight13.Parse zzFakeParse13
//symgo:replace github.com/pion/dtls/v3/internal/handshake.DeriveAndStoreApplicationTrafficSecrets zzFakeDeriveApp
//symgo:replace github.com/pion/dtls/v3/internal/handshake.activateApplicationRecordProtection zzFakeActivateApp
//symgo:stub time.NewTimer is a harness fake: it records the requested duration; the timer of a wait expires as long as fewer than NTIMEOUT expiries have been consumed
//symgo:stub Conn is a harness fake that records every WritePackets / Notify call; RecvHandshake is a queue pre-filled with NEV stale events (one per received datagram)
//symgo:stub context.Context is a harness fake that is cancelled when the queue is empty and NTIMEOUT expiries were consumed
//symgo:stub flight12.Parse / flight13.Parse are replaced by a stub that reports every received flight as stale / incomplete / not the awaited one (result 0, no error): the peer keeps sending old flights or garbage that passes the record layer
//symgo:stub DeriveAndStoreApplicationTrafficSecrets / activateApplicationRecordProtection replaced by stubs that only move epochs
//symgo:assume 0 < initial interval <= 60 s
//symgo:outside schedules longer than NEV received datagrams and NTIMEOUT timer expiries (the per-step entries give the inductive argument)

import (
	"time"

	dtlsconfig "github.com/pion/dtls/v3/internal/config"
	dtlsflight12 "github.com/pion/dtls/v3/internal/flight/flight12"
	dtlsflight13 "github.com/pion/dtls/v3/internal/flight/flight13"
	dtlsstate "github.com/pion/dtls/v3/internal/state"
	"github.com/pion/dtls/v3/pkg/protocol"
)

// number of fake-timer ticks that were delivered to the code under test
func zzConsumedTicks() int {
	n := 0
	for i, ch := range zzTimerChans {
		if zzTimerTicked[i] && len(ch) == 0 {
			n++
		}
	}
	return n
}

// zzCtxFlood is cancelled when the receive queue is empty and k expiries were consumed.
type zzCtxFlood struct {
	conn *zzConn
	k    int
}

func (c *zzCtxFlood) Deadline() (time.Time, bool) { return time.Time{}, false }
func (c *zzCtxFlood) Done() <-chan struct{} {
	ch := make(chan struct{})
	if len(c.conn.recv) == 0 && zzConsumedTicks() >= c.k {
		close(ch)
	}
	return ch
}
func (c *zzCtxFlood) Err() error    { return errZZCtx }
func (c *zzCtxFlood) Value(any) any { return nil }

// DTLS 1.2 under a flood of stale datagrams, every interleaving: the real loop (runHandshakeFSM, fsm12.send,
// fsm12.wait) starts in SENDING (client flight 1, server flight 4, cookie flight 2); 0..NEV stale handshake
// datagrams are queued (IsRetransmit symbolic each) and the retransmit timer may expire NTIMEOUT times; the
// select in wait picks timer or datagram in every possible order. A trace model (interval := init on a
// non-retransmitted datagram, backoff law on an expiry) is replayed over the observed order. Proved: every timer
// is armed with the model interval; the number of WritePackets is exactly 1 + NTIMEOUT (1 for the cookie flight)
// whatever the peer sends: stale datagrams cause no emission at all and every write is the stored flight.
//
//symgo:entry covers=flood12_reset_between_timeouts,flood12_backoff_kept,flood12_cookie,flood12_no_events
func zzStaleFlood12() {
	k := zzsymParam("NTIMEOUT")
	nev := zzsymChoice("events", zzsymParam("NEV")+1)
	init := zzSymInit()
	disabled := zzsymBool("disableBackoff")
	f := []dtlsflight12.Flight{dtlsflight12.Flight1, dtlsflight12.Flight4, dtlsflight12.Flight2}[zzsymChoice("flight", 3)]
	cfg := &dtlsconfig.HandshakeConfig{InitialRetransmitInterval: init, DisableRetransmitBackoff: disabled, Log: zzLog{}}
	st := dtlsstate.NewState12(zzIsClientFlight12(f))
	flights := zzFlightPackets()
	fsm, _ := NewFSM12(&st, nil, cfg, f, flights, NewEstablishment()).(*fsm12)
	_, flag, _ := dtlsflight12.GetGenerator(f)
	fsm.retransmit = flag

	conn := zzNewConn(nev)
	retx := make([]bool, nev)
	for i := 0; i < nev; i++ {
		retx[i] = zzsymBool("isRetransmit")
		conn.recv <- RecvHandshakeState{Done: make(chan struct{}), HasHandshake: true, IsRetransmit: retx[i]}
	}
	zzTimerFires = func(int) bool { return zzConsumedTicks() < k }
	var parseAt []int // number of timers armed when the e-th datagram was parsed
	zzParseChoose = func(int) int {
		parseAt = append(parseAt, len(zzTimerLog))
		return zzParseStale
	}
	err := fsm.Run(&zzCtxFlood{conn: conn, k: k}, conn, StateSending)
	zzsymAssert(err == errZZCtx, "run_ends_by_cancellation_only")
	zzsymAssert(len(conn.recv) == 0 && len(parseAt) == nev, "all_datagrams_consumed")
	zzsymAssert(len(zzTimerLog) == k+1, "one_timer_per_wait")

	// replay the trace model
	cur := init
	e := 0
	for j := 0; j <= k; j++ {
		zzsymAssert(zzTimerLog[j] == cur, "timer_armed_with_model_interval")
		grown := cur > init
		for e < nev && parseAt[e] == j+1 {
			if !retx[e] {
				cur = init
				if grown {
					zzsymCover("flood12_reset_between_timeouts")
				}
			} else if grown {
				zzsymCover("flood12_backoff_kept")
			}
			e++
		}
		if j < k && flag {
			cur = zzBackoffOracle(cur, disabled)
		}
	}
	zzsymAssert(e == nev, "trace_fully_replayed")
	if flag {
		zzsymAssert(len(conn.writes) == k+1, "writes_are_exactly_initial_plus_timer_expiries")
	} else {
		zzsymAssert(len(conn.writes) == 1, "cookie_request_never_retransmitted")
		zzsymCover("flood12_cookie")
	}
	for _, w := range conn.writes {
		zzsymAssert(zzSameFlight(w, flights), "every_write_is_the_stored_flight")
	}
	zzsymAssert(conn.notifies == 0, "stale_datagrams_cause_no_alert")
	if nev == 0 {
		zzsymCover("flood12_no_events")
	}
}

// DTLS 1.3 under a flood of stale datagrams, every interleaving: the real loop (runHandshakeFSM, fsm13.send,
// fsm13.wait, handleReceivedFlight) starts in SENDING (client flight 1, server flight 4, client final flight 5);
// 0..NEV datagrams carrying stale handshake records are queued (IsRetransmit symbolic each, each with one record
// to acknowledge) and the retransmit timer may expire NTIMEOUT times, in every possible order. The sequence of
// writes is replayed against a trace model: a datagram is answered by exactly one lone ACK record; if it is a
// peer retransmission the flight is re-sent exactly once right after it (interval: backoff law), otherwise the
// interval becomes init; a timer expiry re-sends the flight once (backoff law). Proved: every timer is armed
// with the model interval and the number of flight transmissions is exactly 1 + NTIMEOUT + number of peer
// retransmissions received, the number of ACK records exactly the number of datagrams received.
//
//symgo:entry covers=flood13_event_resend,flood13_timer_resend,flood13_reset,flood13_no_events
func zzStaleFlood13() {
	k := zzsymParam("NTIMEOUT")
	nev := zzsymChoice("events", zzsymParam("NEV")+1)
	init := zzSymInit()
	disabled := zzsymBool("disableBackoff")
	f := []dtlsflight13.Flight{dtlsflight13.Flight1, dtlsflight13.Flight4, dtlsflight13.Flight5}[zzsymChoice("flight", 3)]
	cfg := &dtlsconfig.HandshakeConfig{InitialRetransmitInterval: init, DisableRetransmitBackoff: disabled, Log: zzLog{}}
	st := dtlsstate.NewState13(zzIsClientFlight13(f))
	flights := zzFlightPackets()
	zzSetSeq(flights[0], 0)
	zzSetSeq(flights[1], 1)
	fsm := zzNewFSM13(&st, cfg, f, flights, true, init)

	conn := zzNewConn(nev)
	conn.track = true
	retx := make([]bool, nev)
	for i := 0; i < nev; i++ {
		retx[i] = zzsymBool("isRetransmit")
		conn.recv <- RecvHandshakeState{
			Done: make(chan struct{}), HasHandshake: true, IsRetransmit: retx[i],
			RecordsToACK: []protocol.RecordNumber{{Epoch: 2, SequenceNumber: uint64(100 + i)}},
		}
	}
	zzTimerFires = func(int) bool { return zzConsumedTicks() < k }
	zzParse13Choose = func() int { return zzParseStale }
	err := fsm.Run(&zzCtxFlood{conn: conn, k: k}, conn, StateSending)
	zzsymAssert(err == errZZCtx, "run_ends_by_cancellation_only")
	zzsymAssert(len(conn.recv) == 0, "all_datagrams_consumed")

	// replay the write sequence against the trace model
	zzsymAssert(len(conn.writes) >= 1 && zzSameFlight(conn.writes[0], flights), "first_write_is_the_flight")
	cur := init
	timer := 0
	zzsymAssert(zzTimerLog[0] == cur, "timer_armed_with_model_interval")
	e, flightWrites, ackWrites, timerResends := 0, 1, 0, 0
	for i := 1; i < len(conn.writes); i++ {
		w := conn.writes[i]
		if zzIsACKOnly(w) {
			ackWrites++
			zzsymAssert(e < nev, "ack_only_for_a_received_datagram")
			if retx[e] {
				// peer retransmission: exactly one immediate re-send of the flight
				zzsymAssert(i+1 < len(conn.writes) && zzSameFlight(conn.writes[i+1], flights), "peer_retransmission_answered_by_one_resend")
				i++
				flightWrites++
				cur = zzBackoffOracle(cur, disabled)
				timer++
				zzsymAssert(zzTimerLog[timer] == cur, "timer_armed_with_model_interval")
				zzsymCover("flood13_event_resend")
			} else {
				if cur > init {
					zzsymCover("flood13_reset")
				}
				cur = init
			}
			e++
			continue
		}
		// a flight write not preceded by a retransmission event: timer expiry
		zzsymAssert(zzSameFlight(w, flights), "every_other_write_is_the_stored_flight")
		flightWrites++
		timerResends++
		cur = zzBackoffOracle(cur, disabled)
		timer++
		zzsymAssert(zzTimerLog[timer] == cur, "timer_armed_with_model_interval")
		zzsymCover("flood13_timer_resend")
	}
	zzsymAssert(e == nev && ackWrites == nev, "one_ack_per_received_datagram")
	zzsymAssert(timerResends == k, "one_resend_per_timer_expiry")
	zzsymAssert(timer == len(zzTimerLog)-1, "one_timer_per_wait")
	nRetx := 0
	for i := 0; i < nev; i++ {
		if retx[i] {
			nRetx++
		}
	}
	zzsymAssert(flightWrites == 1+k+nRetx, "flight_writes_are_initial_plus_expiries_plus_peer_retransmissions")
	zzsymAssert(conn.notifies == 0, "stale_datagrams_cause_no_alert")
	if nev == 0 {
		zzsymCover("flood13_no_events")
	}
}
