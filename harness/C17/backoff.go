package dtlshandshake

//symgo:pkg github.com/pion/dtls/v3/internal/handshake
//symgo:assume the configured initial retransmit interval satisfies 0 < init <= 60 s (config.go only guarantees > 0; the RFC cap is 60 s, a larger configured value is outside the claim)
//symgo:assume the running interval I satisfies init <= I <= 60 s (inductive invariant: established by NewFSM12/newFSM13 with I = init, preserved by every step proved here)

import (
	"time"

	dtlsconfig "github.com/pion/dtls/v3/internal/config"
	dtlsflight "github.com/pion/dtls/v3/internal/flight"
	dtlsflight12 "github.com/pion/dtls/v3/internal/flight/flight12"
	dtlsflight13 "github.com/pion/dtls/v3/internal/flight/flight13"
	dtlsstate "github.com/pion/dtls/v3/internal/state"
)

const zzCap = 60 * time.Second

// zzBackoffOracle is the RFC 6347 4.2.4.1 / RFC 9147 5.8.2 timer law written out: double, cap at 60 s;
// constant when backoff is disabled. Pre: 0 <= i <= 60 s, so 2*i cannot overflow.
func zzBackoffOracle(i time.Duration, disabled bool) time.Duration {
	if disabled {
		return i
	}
	if i > zzCap/2 {
		return zzCap
	}
	return 2 * i
}

// One timer expiry from an arbitrary interval I with 0 < init <= I <= 60 s (all 64-bit values):
// retransmit flag set => state Sending and I' = min(2I, 60 s), or I' = I when backoff is disabled;
// retransmit flag clear (cookie request flights) => state Waiting and I unchanged. The invariant
// init <= I' <= 60 s and I' >= I is re-established, so the law holds for timeout sequences of any length.
//
//symgo:entry covers=doubled,capped,constant,no_retransmit
func zzBackoffLaw() {
	init := time.Duration(zzsymI64("init"))
	i0 := time.Duration(zzsymI64("I"))
	zzsymAssume(init > 0)
	zzsymAssume(init <= i0)
	zzsymAssume(i0 <= zzCap)
	disabled := zzsymBool("disableBackoff")
	retransmit := zzsymBool("retransmit")
	cfg := &dtlsconfig.HandshakeConfig{InitialRetransmitInterval: init, DisableRetransmitBackoff: disabled}
	i := i0
	st := handleRetransmitTimeout(retransmit, &i, cfg)
	if !retransmit {
		zzsymAssert(st == StateWaiting, "no_retransmit_flag_keeps_waiting")
		zzsymAssert(i == i0, "no_retransmit_flag_keeps_interval")
		zzsymCover("no_retransmit")
		return
	}
	zzsymAssert(st == StateSending, "timeout_resends")
	zzsymAssert(i == zzBackoffOracle(i0, disabled), "interval_follows_backoff_law")
	zzsymAssert(i >= i0, "interval_never_shrinks_on_timeout")
	zzsymAssert(zzsymAnd(i >= init, i <= zzCap), "invariant_init_le_I_le_60s")
	zzsymAssert(cfg.InitialRetransmitInterval == init, "config_untouched")
	if disabled {
		zzsymCover("constant")
	} else if i == zzCap {
		zzsymCover("capped")
	} else {
		zzsymCover("doubled")
	}
}

// Cancellation of a wait restores the initial interval (any I, any init) and reports the error state.
//
//symgo:entry covers=cancelled
func zzWaitCancellationResets() {
	init := time.Duration(zzsymI64("init"))
	i := time.Duration(zzsymI64("I"))
	cfg := &dtlsconfig.HandshakeConfig{InitialRetransmitInterval: init, DisableRetransmitBackoff: zzsymBool("disableBackoff")}
	st, err := handleWaitCancellation(&i, cfg, errZZ)
	zzsymAssert(st == StateErrored, "cancel_is_error_state")
	zzsymAssert(err == errZZ, "cancel_error_passed_through")
	zzsymAssert(i == init, "cancel_restores_initial_interval")
	zzsymCover("cancelled")
}

type zzErr struct{}

func (zzErr) Error() string { return "zz" }

var errZZ error = zzErr{}

// Per-flight retransmit flag tables (flight12.GetGenerator, flight13.GetGenerator) for every flight value
// 0..255: a generator exists exactly for the defined flights (nine in DTLS 1.2, six in DTLS 1.3); the flag is
// false exactly for the cookie request (flight 2: HelloVerifyRequest / HelloRetryRequest) and true for every
// other flight.
//
//symgo:entry covers=flag12_cookie,flag12_other,flag12_undefined,flag13_cookie,flag13_other,flag13_undefined
func zzRetransmitFlagTable() {
	v := zzsymChoice("flight", 256)
	f12 := dtlsflight12.Flight(v)
	gen12, flag12, ok12 := dtlsflight12.GetGenerator(f12)
	if v >= 1 && v <= 9 { // Flight0..Flight6 incl. 4b, 5b
		zzsymAssert(ok12 && gen12 != nil, "defined_flight12_has_generator")
		if f12 == dtlsflight12.Flight2 {
			zzsymAssert(!flag12, "hello_verify_request_not_retransmitted")
			zzsymCover("flag12_cookie")
		} else {
			zzsymAssert(flag12, "flight12_retransmitted")
			zzsymCover("flag12_other")
		}
	} else {
		zzsymAssert(!ok12 && !flag12, "undefined_flight12_refused")
		zzsymCover("flag12_undefined")
	}
	f13 := dtlsflight13.Flight(v)
	gen13, flag13, ok13 := dtlsflight13.GetGenerator(f13)
	if v >= 1 && v <= 6 { // Flight0..Flight5
		zzsymAssert(ok13 && gen13 != nil, "defined_flight13_has_generator")
		if f13 == dtlsflight13.Flight2 {
			zzsymAssert(!flag13, "hello_retry_request_not_retransmitted")
			zzsymCover("flag13_cookie")
		} else {
			zzsymAssert(flag13, "flight13_retransmitted")
			zzsymCover("flag13_other")
		}
	} else {
		zzsymAssert(!ok13 && !flag13, "undefined_flight13_refused")
		zzsymCover("flag13_undefined")
	}
}

// A new handshake FSM (NewFSM12, newFSM13 for a server) starts with exactly the configured interval, for every
// 64-bit value, and with the retransmit flag set iff it was given an initial flight to (re)send.
//
//symgo:entry covers=new_fsm12,new_fsm13
func zzNewFSMStartsAtConfiguredInterval() {
	init := time.Duration(zzsymI64("init"))
	cfg := &dtlsconfig.HandshakeConfig{InitialRetransmitInterval: init, DisableRetransmitBackoff: zzsymBool("disableBackoff")}
	var flights []*dtlsflight.Packet
	withFlights := zzsymChoice("initialFlights", 2) == 1
	if withFlights {
		flights = zzFlightPackets()
	}
	st12 := dtlsstate.NewState12(zzsymChoice("isClient", 2) == 1)
	f12, _ := NewFSM12(&st12, nil, cfg, dtlsflight12.Flight1, flights, NewEstablishment()).(*fsm12)
	zzsymAssert(f12.retransmitInterval == init, "new_fsm12_starts_at_configured_interval")
	zzsymAssert(f12.retransmit == withFlights, "new_fsm12_flag_iff_initial_flight")
	zzsymCover("new_fsm12")
	st13 := dtlsstate.NewState13(false)
	f13, err := newFSM13(&st13, dtlsflight.NewCache(), cfg, dtlsflight13.Flight0, flights, nil)
	zzsymAssert(err == nil, "new_fsm13_ok")
	zzsymAssert(f13.retransmitInterval == init, "new_fsm13_starts_at_configured_interval")
	zzsymAssert(f13.retransmit == withFlights, "new_fsm13_flag_iff_initial_flight")
	zzsymAssert(f13.postHandshake.initialRetransmitInterval == init, "post_handshake_starts_at_configured_interval")
	zzsymCover("new_fsm13")
}
