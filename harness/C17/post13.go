package dtlshandshake

//symgo:pkg github.com/pion/dtls/v3/internal/handshake
//symgo:param NTIMEOUT quick=3 thorough=7
//symgo:replace time.NewTimer zzFakeNewTimer
//symgo:replace (*time.Timer).Stop zzFakeTimerStop
//symgo:replace time.Now zzFakeNow
//symgo:stub time.Now / time.NewTimer are a harness fake clock: Now returns the fake clock, a fake timer either never expires or expires at once, delivering (and moving the clock to) creation time + requested duration
//symgo:stub Conn is a harness fake that records every WritePackets / Notify call and returns one tracked record (epoch 2, fresh sequence number, one fragment) per handshake packet marked ShouldTrackACK
//symgo:stub crypto/rand.Reader is a harness fake returning symbolic bytes (NewSessionTicket identity / age_add)
//symgo:assume 0 < initial interval <= 60 s and initial <= running interval <= 60 s
//symgo:outside post-handshake KeyUpdate flights (need the TLS 1.3 key schedule); their retransmission goes through the same retransmitPostHandshakeFlight / nextTimer code proved here for the NewSessionTicket flight

import (
	"crypto/rand"
	"time"

	dtlsconfig "github.com/pion/dtls/v3/internal/config"
	dtlsflight "github.com/pion/dtls/v3/internal/flight"
	dtlsflight13 "github.com/pion/dtls/v3/internal/flight/flight13"
	dtlsstate "github.com/pion/dtls/v3/internal/state"
	"github.com/pion/dtls/v3/pkg/protocol"
	"github.com/pion/dtls/v3/pkg/protocol/handshake"
)

type zzFakeReader struct{}

func (zzFakeReader) Read(p []byte) (int, error) {
	copy(p, zzsymBytes("rand", len(p)))
	return len(p), nil
}

func zzClockStart() {
	zzClock = time.Unix(1_000_000, 0)
	zzClockOn = true
}

func zzPostFlight(interval time.Duration, next time.Time) *reliablePostHandshakeFlight {
	pkts := zzFlightPackets()[:1]
	zzSetSeq(pkts[0], 5)
	pkts[0].ShouldTrackACK = true
	id := postHandshakeFlightID{Category: postHandshakeNewSessionTicket, MessageSequence: 5}
	return &reliablePostHandshakeFlight{
		ID: id, Packets: pkts, Epoch: 3,
		PendingFragments:   map[postHandshakeFragment]struct{}{{MessageSequence: 5, Offset: 0, Length: 1}: {}},
		SentRecords:        map[protocol.RecordNumber]struct{}{},
		RetransmitInterval: interval, NextRetransmit: next,
	}
}

func zzNewPost(isClient bool, cfg *dtlsconfig.HandshakeConfig) (*postHandshake, *dtlsstate.State13) {
	st := dtlsstate.NewState13(isClient)
	hc := handshakeContext{state: &st, cache: dtlsflight.NewCache(), cfg: cfg, transcript: NewTranscript()}
	return newPostHandshake(hc), &st
}

// DTLS 1.3 post-handshake timer law, one step of retransmitPostHandshakeFlight from an arbitrary interval
// 0 < I <= 60 s and an arbitrary expiry time (whole seconds 0 .. 2^33): exactly one WritePackets of the flight's
// own packets; I' = min(2I, 60 s), or I when backoff is disabled; the next retransmission is scheduled exactly
// I' after the expiry time.
//
//symgo:entry covers=post_doubled,post_capped,post_constant
func zzPostBackoffStep13() {
	i0 := time.Duration(zzsymI64("I"))
	zzsymAssume(i0 > 0)
	zzsymAssume(i0 <= zzCap)
	disabled := zzsymBool("disableBackoff")
	sec := zzsymI64("nowSec")
	zzsymAssume(sec >= 0)
	zzsymAssume(sec <= 1<<33)
	now := time.Unix(sec, 0)
	cfg := &dtlsconfig.HandshakeConfig{InitialRetransmitInterval: i0, DisableRetransmitBackoff: disabled, Log: zzLog{}}
	p, _ := zzNewPost(false, cfg)
	fl := zzPostFlight(i0, now)
	p.flights[fl.ID] = fl
	conn := zzNewConn(0)
	conn.track = true
	err := p.retransmitPostHandshakeFlight(zzNewCtx(), conn, fl, now, disabled)
	zzsymAssert(err == nil, "retransmit_ok")
	zzsymAssert(len(conn.writes) == 1, "one_write_per_timer_expiry")
	zzsymAssert(zzSameFlight(conn.writes[0], fl.Packets), "retransmission_is_the_stored_flight")
	want := zzBackoffOracle(i0, disabled)
	zzsymAssert(fl.RetransmitInterval == want, "interval_follows_backoff_law")
	zzsymAssert(fl.NextRetransmit.Sub(now) == want, "next_retransmit_is_now_plus_interval")
	if disabled {
		zzsymCover("post_constant")
	} else if want == zzCap {
		zzsymCover("post_capped")
	} else {
		zzsymCover("post_doubled")
	}
}

// DTLS 1.3 post-handshake: retransmitPostHandshake resends a flight only when its own timer is due. One
// active flight with NextRetransmit = now + delta, delta any whole number of seconds in [-60, 60]: a write
// happens iff delta <= 0; a flight that is not due is left untouched.
//
//symgo:entry covers=post_due,post_not_due
func zzPostResendOnlyWhenDue13() {
	init := 1 * time.Second
	cfg := &dtlsconfig.HandshakeConfig{InitialRetransmitInterval: init, Log: zzLog{}}
	p, _ := zzNewPost(false, cfg)
	delta := zzsymI64("deltaSec")
	zzsymAssume(delta >= -60)
	zzsymAssume(delta <= 60)
	now := time.Unix(1_000_000, 0)
	next := time.Unix(1_000_000+delta, 0)
	fl := zzPostFlight(init, next)
	p.flights[fl.ID] = fl
	conn := zzNewConn(0)
	conn.track = true
	err := p.retransmitPostHandshake(zzNewCtx(), conn, now, false)
	zzsymAssert(err == nil, "retransmit_ok")
	if delta <= 0 {
		zzsymAssert(len(conn.writes) == 1, "due_flight_resent_once")
		zzsymCover("post_due")
	} else {
		zzsymAssert(len(conn.writes) == 0, "no_resend_before_timer")
		zzsymAssert(fl.RetransmitInterval == init, "not_due_interval_untouched")
		zzsymCover("post_not_due")
	}
}

// DTLS 1.3 FINISHED in total silence, real loop (runHandshakeFSM with fsm13.finish). Server: on entering
// FINISHED it sends its NewSessionTicket flight once (real startNewSessionTicket), then the flight's timer
// expires NTIMEOUT times. Proved: the k-th timer is armed with min(init*2^k, 60 s) (init if backoff is
// disabled), every expiry causes exactly one WritePackets of that same flight, nothing else is written.
// Client: never arms a timer and never writes. init ranges over whole seconds 1..60.
//
//symgo:entry covers=finished_server_ticket_schedule,finished_client_silent,finished_hit_cap
func zzFinishedSilence13() {
	k := zzsymParam("NTIMEOUT")
	secs := zzsymI64("initSec")
	zzsymAssume(secs >= 1)
	zzsymAssume(secs <= 60)
	init := time.Duration(secs) * time.Second
	disabled := zzsymChoice("disableBackoff", 2) == 1
	isClient := zzsymChoice("isClient", 2) == 1
	cfg := &dtlsconfig.HandshakeConfig{InitialRetransmitInterval: init, DisableRetransmitBackoff: disabled, Log: zzLog{}}
	st := dtlsstate.NewState13(isClient)
	st.SetLocalEpoch(dtlsflight13.EpochApplication)
	cur := dtlsflight13.Flight4
	if isClient {
		cur = dtlsflight13.Flight5
	}
	fsm := zzNewFSM13(&st, cfg, cur, nil, false, init)
	rand.Reader = zzFakeReader{}
	zzClockStart()
	ctx := zzNewCtx()
	conn := zzNewConn(0)
	conn.track = true
	zzTimerFires = func(idx int) bool { return idx < k }
	zzTimerHook = func(idx int) {
		if idx == k {
			ctx.cancel()
		}
	}
	if isClient {
		ctx.cancel()
	}
	err := fsm.Run(ctx, conn, StateFinished)
	zzsymAssert(err == errZZCtx, "run_ends_by_cancellation_only")
	if isClient {
		zzsymAssert(len(zzTimerLog) == 0, "client_no_timer_after_completion")
		zzsymAssert(len(conn.writes) == 0, "client_silent_after_completion")
		zzsymCover("finished_client_silent")
		return
	}
	zzsymAssert(len(zzTimerLog) == k+1, "one_timer_per_iteration")
	zzsymAssert(len(conn.writes) == k+1, "one_write_per_timer_expiry")
	first := conn.writes[0]
	zzsymAssert(len(first) == 1, "ticket_flight_is_one_message")
	hs, _ := first[0].Record.Content.(*handshake.Handshake)
	_, isTicket := hs.Message.(*handshake.MessageNewSessionTicket)
	zzsymAssert(isTicket, "post_handshake_flight_is_new_session_ticket")
	for _, w := range conn.writes {
		zzsymAssert(zzSameFlight(w, first), "retransmission_is_the_stored_flight")
	}
	for i := 0; i <= k; i++ {
		zzsymAssert(zzTimerLog[i] == zzSchedule(init, i, disabled), "kth_interval_is_min_init_2k_60s")
	}
	if !disabled && zzTimerLog[k] == zzCap {
		zzsymCover("finished_hit_cap")
	}
	zzsymCover("finished_server_ticket_schedule")
}

// DTLS 1.3 FINISHED, one received-datagram event (real fsm13.finish, two consecutive steps). Both roles;
// event: IsRetransmit symbolic, with/without handshake data (handshake cache empty: stale data), ACK one of
// {none, the ticket's record, unknown record}, 0..1 records to acknowledge. Proved: apart from the server's
// one-time NewSessionTicket transmission the step writes at most one datagram, a lone ACK record, and only when
// there are records to acknowledge (the peer retransmitted protected handshake records); the flight is never
// re-sent in response to a received event; once the ticket's record is acknowledged no timer is armed any
// more, otherwise the timer is armed with the unchanged initial interval.
//
//symgo:entry covers=fin13_ack_sent,fin13_nothing_sent,fin13_ticket_acked,fin13_ticket_pending,fin13_client
func zzFinishedEvent13() {
	init := 2 * time.Second
	isClient := zzsymChoice("isClient", 2) == 1
	cfg := &dtlsconfig.HandshakeConfig{InitialRetransmitInterval: init, DisableRetransmitBackoff: zzsymBool("disableBackoff"), Log: zzLog{}}
	st := dtlsstate.NewState13(isClient)
	st.SetLocalEpoch(dtlsflight13.EpochApplication)
	cur := dtlsflight13.Flight4
	if isClient {
		cur = dtlsflight13.Flight5
	}
	fsm := zzNewFSM13(&st, cfg, cur, nil, false, init)
	rand.Reader = zzFakeReader{}
	zzClockStart()
	conn := zzNewConn(1)
	conn.track = true
	zzTimerFires = func(int) bool { return false }

	var acks []protocol.ACK
	ackKind := zzsymChoice("ack", 3)
	switch ackKind {
	case 1:
		acks = []protocol.ACK{{Records: []protocol.RecordNumber{{Epoch: 2, SequenceNumber: 0}}}} // the ticket's record
	case 2:
		acks = []protocol.ACK{{Records: []protocol.RecordNumber{{Epoch: 9, SequenceNumber: 9}}}}
	}
	var toACK []protocol.RecordNumber
	if zzsymChoice("recordsToACK", 2) == 1 {
		toACK = []protocol.RecordNumber{{Epoch: 3, SequenceNumber: 7}}
	}
	conn.recv <- RecvHandshakeState{
		Done: make(chan struct{}), HasHandshake: zzsymChoice("hasHandshake", 2) == 1,
		IsRetransmit: zzsymBool("isRetransmit"), ACKs: acks, RecordsToACK: toACK,
	}
	state, err := fsm.finish(zzNewCtx(), conn)
	zzsymAssert(err == nil && state == StateFinished, "finish_stays_finished")
	zzsymAssert(len(conn.recv) == 0, "event_consumed")

	writes := conn.writes
	if !isClient {
		zzsymAssert(len(writes) >= 1, "server_sends_ticket_once")
		hs, _ := writes[0][0].Record.Content.(*handshake.Handshake)
		_, isTicket := hs.Message.(*handshake.MessageNewSessionTicket)
		zzsymAssert(isTicket, "first_write_is_ticket")
		writes = writes[1:]
	} else {
		zzsymCover("fin13_client")
	}
	zzsymAssert(len(writes) <= 1, "at_most_one_write_per_received_event")
	if len(toACK) != 0 {
		zzsymAssert(len(writes) == 1, "records_to_ack_are_acknowledged")
		zzsymAssert(zzIsACKOnly(writes[0]), "event_step_writes_only_an_ack")
		zzsymCover("fin13_ack_sent")
	} else {
		zzsymAssert(len(writes) == 0, "nothing_written_without_records_to_ack")
		zzsymCover("fin13_nothing_sent")
	}

	// second step: nothing queued, context cancelled; observe whether a retransmit timer is still armed
	nTimers := len(zzTimerLog)
	nWrites := len(conn.writes)
	ctx2 := zzNewCtx()
	ctx2.cancel()
	_, err2 := fsm.finish(ctx2, conn)
	zzsymAssert(err2 == errZZCtx, "second_step_cancelled")
	zzsymAssert(len(conn.writes) == nWrites, "idle_step_writes_nothing")
	if !isClient && ackKind != 1 {
		zzsymAssert(len(zzTimerLog) == nTimers+1, "pending_ticket_keeps_timer")
		zzsymAssert(zzTimerLog[nTimers] == init, "received_event_does_not_change_ticket_interval")
		zzsymCover("fin13_ticket_pending")
	} else {
		zzsymAssert(len(zzTimerLog) == nTimers, "no_timer_without_pending_flight")
		if !isClient {
			zzsymCover("fin13_ticket_acked")
		}
	}
}
