package dtlshandshake

//symgo:pkg github.com/pion/dtls/v3/internal/handshake

// Shared fakes for the C17 harnesses of package internal/handshake.

import (
	"context"
	"time"

	dtlsflight "github.com/pion/dtls/v3/internal/flight"
	dtlsflight12 "github.com/pion/dtls/v3/internal/flight/flight12"
	"github.com/pion/dtls/v3/pkg/protocol"
	"github.com/pion/dtls/v3/pkg/protocol/alert"
	"github.com/pion/dtls/v3/pkg/protocol/handshake"
	"github.com/pion/dtls/v3/pkg/protocol/recordlayer"
)

// ---- fake timer ----

var (
	zzTimerLog    []time.Duration    // every duration handed to time.NewTimer, in order
	zzTimerFires  func(idx int) bool // does the idx-th timer expire?
	zzTimerHook   func(idx int)      // called when the idx-th timer is created
	zzTimerChans  []chan time.Time   // the channel of each created timer
	zzTimerTicked []bool             // was the timer created with a pending tick?
)

func zzFakeNewTimer(d time.Duration) *time.Timer {
	idx := len(zzTimerLog)
	zzTimerLog = append(zzTimerLog, d)
	ch := make(chan time.Time, 1)
	fires := zzTimerFires != nil && zzTimerFires(idx)
	zzTimerTicked = append(zzTimerTicked, fires)
	if fires {
		// the tick carries the expiry time; the fake clock jumps to it
		if zzClockOn {
			zzClock = zzClock.Add(d)
		}
		ch <- zzClock
	}
	zzTimerChans = append(zzTimerChans, ch)
	if zzTimerHook != nil {
		zzTimerHook(idx)
	}
	return &time.Timer{C: ch}
}

func zzFakeTimerStop(t *time.Timer) bool { return true }

// ---- fake clock (only moved by expiring fake timers) ----

var (
	zzClock   time.Time
	zzClockOn bool // only the post-handshake harnesses read the clock
)

func zzFakeNow() time.Time { return zzClock }

// ---- fake context ----

type zzCtx struct{ done chan struct{} }

func zzNewCtx() *zzCtx                       { return &zzCtx{done: make(chan struct{})} }
func (c *zzCtx) Deadline() (time.Time, bool) { return time.Time{}, false }
func (c *zzCtx) Done() <-chan struct{}       { return c.done }
func (c *zzCtx) Err() error                  { return errZZCtx }
func (c *zzCtx) Value(any) any               { return nil }
func (c *zzCtx) cancel()                     { close(c.done) }

var _ context.Context = (*zzCtx)(nil)

type zzCtxErr struct{}

func (zzCtxErr) Error() string { return "zzctx" }

var errZZCtx error = zzCtxErr{}

// ---- fake logger ----

type zzLog struct{}

func (zzLog) Trace(string)          {}
func (zzLog) Tracef(string, ...any) {}
func (zzLog) Debug(string)          {}
func (zzLog) Debugf(string, ...any) {}
func (zzLog) Info(string)           {}
func (zzLog) Infof(string, ...any)  {}
func (zzLog) Warn(string)           {}
func (zzLog) Warnf(string, ...any)  {}
func (zzLog) Error(string)          {}
func (zzLog) Errorf(string, ...any) {}

// ---- fake Conn ----

type zzConn struct {
	recv      chan RecvHandshakeState
	writes    [][]*dtlsflight.Packet // argument of every WritePackets call
	notifies  int
	writeErr  func(n int) error // optional: error for the n-th write
	queued    int               // HandleQueuedPackets calls
	epochSets int
	track     bool   // report one tracked record per ShouldTrackACK handshake packet (DTLS 1.3 record layer)
	nextSeq   uint64 // next record sequence number handed out (epoch 2)
}

func zzNewConn(queue int) *zzConn {
	return &zzConn{recv: make(chan RecvHandshakeState, queue)}
}

func (c *zzConn) HandleQueuedPackets(context.Context) error { c.queued++; return nil }
func (c *zzConn) SessionKey() []byte                        { return nil }
func (c *zzConn) Notify(context.Context, alert.Level, alert.Description) error {
	c.notifies++
	return nil
}

func (c *zzConn) WritePackets(_ context.Context, pkts []*dtlsflight.Packet) (*WriteResult, error) {
	n := len(c.writes)
	c.writes = append(c.writes, pkts)
	if c.writeErr != nil {
		if err := c.writeErr(n); err != nil {
			return nil, err
		}
	}
	res := &WriteResult{}
	if c.track {
		for _, p := range pkts {
			hs, ok := p.Record.Content.(*handshake.Handshake)
			if !ok || !p.ShouldTrackACK {
				continue
			}
			res.TrackedRecords = append(res.TrackedRecords, SentHandshakeRecord{
				Number:    protocol.RecordNumber{Epoch: 2, SequenceNumber: c.nextSeq},
				Fragments: []SentHandshakeFragment{{MessageSequence: hs.Header.MessageSequence, Offset: 0, Length: 1}},
			})
			c.nextSeq++
		}
	}
	return res, nil
}
func (c *zzConn) RecvHandshake() <-chan RecvHandshakeState { return c.recv }
func (c *zzConn) SetLocalEpoch(uint16)                     { c.epochSets++ }

// zzSameFlight: the write is the stored flight itself (same packets, same order).
func zzSameFlight(a, b []*dtlsflight.Packet) bool {
	if len(a) != len(b) {
		return false
	}
	for i := range a {
		if a[i] != b[i] {
			return false
		}
	}
	return true
}

// zzIsACKOnly: the write consists of exactly one ACK record.
func zzIsACKOnly(pkts []*dtlsflight.Packet) bool {
	if len(pkts) != 1 || pkts[0].Record == nil {
		return false
	}
	_, ok := pkts[0].Record.Content.(*protocol.ACK)
	return ok
}

// zzSchedule is the closed form of the timer law: the k-th interval of a silent wait is
// min(init * 2^k, 60 s) (init itself when backoff is disabled). Pre: 0 < init <= 60 s, k <= 16 (no overflow).
func zzSchedule(init time.Duration, k int, disabled bool) time.Duration {
	if disabled {
		return init
	}
	v := init << uint(k)
	if v > zzCap {
		return zzCap
	}
	return v
}

// ---- helpers ----

func zzFlightPackets() []*dtlsflight.Packet {
	mk := func() *dtlsflight.Packet {
		return &dtlsflight.Packet{Record: &recordlayer.RecordLayer{
			Header:  recordlayer.Header{Version: protocol.Version1_2},
			Content: &handshake.Handshake{Message: &handshake.MessageServerHelloDone{}},
		}}
	}
	return []*dtlsflight.Packet{mk(), mk()}
}

var zzAllFlights12 = []dtlsflight12.Flight{
	dtlsflight12.Flight0, dtlsflight12.Flight1, dtlsflight12.Flight2, dtlsflight12.Flight3, dtlsflight12.Flight4,
	dtlsflight12.Flight4b, dtlsflight12.Flight5, dtlsflight12.Flight5b, dtlsflight12.Flight6,
}

// flights sent by the client (RFC 6347 figure 1 and the abbreviated handshake): 1, 3, 5, 5b.
func zzIsClientFlight12(f dtlsflight12.Flight) bool {
	return f == dtlsflight12.Flight1 || f == dtlsflight12.Flight3 || f == dtlsflight12.Flight5 || f == dtlsflight12.Flight5b
}

func zzSymInit() time.Duration {
	init := time.Duration(zzsymI64("init"))
	zzsymAssume(init > 0)
	zzsymAssume(init <= zzCap)
	return init
}

func zzSetSeq(p *dtlsflight.Packet, seq uint16) {
	p.Record.Content.(*handshake.Handshake).Header.MessageSequence = seq
}
