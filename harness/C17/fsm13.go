package dtlshandshake

//symgo:pkg github.com/pion/dtls/v3/internal/handshake
//symgo:param NTIMEOUT quick=4 thorough=9
//symgo:replace time.NewTimer zzFakeNewTimer
//symgo:replace (*time.Timer).Stop zzFakeTimerStop
//symgo:replace github.com/pion/dtls/v3/internal/flight/flight13.Parse zzFakeParse13
//symgo:replace github.com/pion/dtls/v3/internal/handshake.DeriveAndStoreApplicationTrafficSecrets zzFakeDeriveApp
//symgo:replace github.com/pion/dtls/v3/internal/handshake.activateApplicationRecordProtection zzFakeActivateApp
//symgo:stub time.NewTimer is a harness fake: it records the requested duration and returns a timer whose channel already holds a tick (timer expires) or stays empty (never expires), as chosen by the harness
//symgo:stub Conn is a harness fake that records every WritePackets / Notify call and returns one tracked record (epoch 2, fresh sequence number, one fragment) per handshake packet marked ShouldTrackACK
//symgo:stub context.Context is a harness fake whose Done channel the harness closes to end a run
//symgo:stub flight13.Parse is replaced by a stub that returns one of: flight incomplete/stale (0), same flight, another flight, fatal alert+error, unknown flight
//symgo:stub DeriveAndStoreApplicationTrafficSecrets and activateApplicationRecordProtection (key schedule / AEAD set-up) are replaced by stubs that only move the epochs; they send nothing in the real code either
//symgo:assume 0 < initial interval <= 60 s and initial <= running interval <= 60 s (see backoff.go; invariant proved by zzBackoffLaw)
//symgo:assume the retransmit flag of a waiting FSM is the one GetGenerator returns for its current flight (fsm13.prepare assigns it)
//symgo:outside the global datagram-count bound over unbounded schedules follows from the per-event bounds proved here (timer expiry: exactly one WritePackets of the flight; received event: at most one ACK record plus at most one re-send of the flight) by induction over the FSM loop, it is not itself enumerated

import (
	"context"
	"time"

	dtlsconfig "github.com/pion/dtls/v3/internal/config"
	dtlsflight "github.com/pion/dtls/v3/internal/flight"
	dtlsflight13 "github.com/pion/dtls/v3/internal/flight/flight13"
	dtlsstate "github.com/pion/dtls/v3/internal/state"
	"github.com/pion/dtls/v3/pkg/protocol"
	"github.com/pion/dtls/v3/pkg/protocol/alert"
)

// ---- stubs ----

var zzParse13Choose func() int

func zzOtherFlight13(f dtlsflight13.Flight) dtlsflight13.Flight {
	if zzIsClientFlight13(f) {
		return dtlsflight13.Flight5
	}
	return dtlsflight13.Flight4
}

func zzFakeParse13(
	_ context.Context, f dtlsflight13.Flight, _ dtlsflight.Conn, _ dtlsflight13.ParseDependencies,
) (dtlsflight13.Flight, *alert.Alert, error, bool) {
	zzParseCalls++
	kind := zzParse13Choose()
	zzParseKinds = append(zzParseKinds, kind)
	switch kind {
	case zzParseSame:
		return f, nil, nil, true
	case zzParseNext:
		return zzOtherFlight13(f), nil, nil, true
	case zzParseFatal:
		return 0, &alert.Alert{Level: alert.Fatal, Description: alert.HandshakeFailure}, errZZ, true
	case zzParseUnknown:
		return 0, nil, nil, false
	}
	return 0, nil, nil, true
}

func zzFakeDeriveApp(*dtlsstate.State13, *Transcript) error { return nil }

func zzFakeActivateApp(ctx context.Context, conn Conn, state *dtlsstate.State13) error {
	conn.SetLocalEpoch(dtlsflight13.EpochApplication)
	state.SetRemoteEpoch(dtlsflight13.EpochApplication)
	return conn.HandleQueuedPackets(ctx)
}

// ---- helpers ----

var zzAllFlights13 = []dtlsflight13.Flight{
	dtlsflight13.Flight0, dtlsflight13.Flight1, dtlsflight13.Flight2,
	dtlsflight13.Flight3, dtlsflight13.Flight4, dtlsflight13.Flight5,
}

// flights sent by the client (RFC 9147 figure 6/7): ClientHello (1), second ClientHello (3), final flight (5).
func zzIsClientFlight13(f dtlsflight13.Flight) bool {
	return f == dtlsflight13.Flight1 || f == dtlsflight13.Flight3 || f == dtlsflight13.Flight5
}

func zzNewFSM13(
	st *dtlsstate.State13, cfg *dtlsconfig.HandshakeConfig, f dtlsflight13.Flight,
	flights []*dtlsflight.Packet, flag bool, interval time.Duration,
) *fsm13 {
	hc := handshakeContext{state: st, cache: dtlsflight.NewCache(), cfg: cfg, transcript: NewTranscript()}
	fsm := &fsm13{
		currentFlight: f, flights: flights, retransmit: flag, retransmitInterval: interval,
		handshakeContext: hc, closed: make(chan struct{}), establishment: NewEstablishment(),
		postHandshake: newPostHandshake(hc),
	}
	fsm.prepareFlightACKTracking(flights, flag) // as fsm13.prepare does
	return fsm
}

// DTLS 1.3, total silence. The real FSM loop (runHandshakeFSM with fsm13.send / fsm13.wait) is started in
// SENDING with a stored two-message flight, for every flight (0..5; in 1.3 the client's final flight 5 also
// waits, for its ACK), every initial interval 0 < init <= 60 s, backoff enabled/disabled; the retransmit
// timer expires NTIMEOUT times, then the context is cancelled. Proved: the k-th timer is armed with exactly
// min(init*2^k, 60 s) (init when backoff is disabled); every expiry causes exactly one WritePackets of the
// stored flight and nothing else; for the cookie request (flight 2, HelloRetryRequest) no expiry causes any
// write and the interval stays init.
//
//symgo:entry covers=silence_backoff,silence_constant,silence_cookie,silence_hit_cap,silence_final_flight
func zzSilenceSchedule13() {
	k := zzsymParam("NTIMEOUT")
	init := zzSymInit()
	disabled := zzsymChoice("disableBackoff", 2) == 1
	f := zzAllFlights13[zzsymChoice("flight", 6)]
	cfg := &dtlsconfig.HandshakeConfig{InitialRetransmitInterval: init, DisableRetransmitBackoff: disabled, Log: zzLog{}}
	st := dtlsstate.NewState13(zzIsClientFlight13(f))
	flights := zzFlightPackets()
	_, flag, ok := dtlsflight13.GetGenerator(f) // what fsm13.prepare stores for this flight
	zzsymAssert(ok, "generator_exists")
	fsm := zzNewFSM13(&st, cfg, f, flights, flag, init)

	ctx := zzNewCtx()
	conn := zzNewConn(0)
	conn.track = true
	zzTimerFires = func(idx int) bool { return idx < k }
	zzTimerHook = func(idx int) {
		if idx == k {
			ctx.cancel()
		}
	}
	err := fsm.Run(ctx, conn, StateSending)
	zzsymAssert(err == errZZCtx, "run_ends_by_cancellation_only")
	zzsymAssert(len(zzTimerLog) == k+1, "one_timer_per_wait")

	cookieFlight := f == dtlsflight13.Flight2 // RFC 9147 5.1: HelloRetryRequest is stateless, never retransmitted on a timer
	for i := 0; i <= k; i++ {
		if cookieFlight {
			zzsymAssert(zzTimerLog[i] == init, "cookie_flight_interval_constant")
		} else {
			zzsymAssert(zzTimerLog[i] == zzSchedule(init, i, disabled), "kth_interval_is_min_init_2k_60s")
		}
	}
	if cookieFlight {
		zzsymAssert(len(conn.writes) == 1, "cookie_request_never_retransmitted_on_timer")
		zzsymCover("silence_cookie")
	} else {
		zzsymAssert(len(conn.writes) == k+1, "one_write_per_timer_expiry")
		if f == dtlsflight13.Flight5 {
			zzsymCover("silence_final_flight")
		}
		if disabled {
			zzsymCover("silence_constant")
		} else {
			zzsymCover("silence_backoff")
			if zzTimerLog[k] == zzCap {
				zzsymCover("silence_hit_cap")
			}
		}
	}
	for _, w := range conn.writes {
		zzsymAssert(zzSameFlight(w, flights), "retransmission_is_the_stored_flight")
	}
	zzsymAssert(conn.notifies == 0, "no_alert_in_silence")
}

// DTLS 1.3 reset rule and per-event emission: one fsm13.handleReceivedFlight step. The FSM has sent a
// two-message flight through the real fsm13.send (records tracked for ACKs when the retransmit flag is set)
// and waits with an arbitrary interval init <= I <= 60 s. One received-datagram event arrives: IsRetransmit
// symbolic, with/without handshake data, ACK content one of {none, empty ACK, first record, all records,
// unknown record}, 0..1 records to acknowledge, parser outcome one of {stale, same, other flight, fatal,
// unknown}; all six flights, retransmit flag on/off, backoff on/off. Model: base := I if the event is a
// retransmission, else init. Proved: the step itself writes at most one datagram and that is a lone ACK record,
// only when there are records to acknowledge, never the flight; it returns SENDING (one re-send of the flight by
// fsm13.send) only if the retransmit flag was set and the event is a peer retransmission or carries an ACK, and
// then the interval is backoff(base); otherwise the interval is exactly base; FINISHED is reached only when
// every tracked record was acknowledged (client, final flight) or the peer's last flight arrived (server).
//
//symgo:entry covers=reset_on_new_data,kept_on_retransmit,resend_on_peer_retransmit,resend_on_empty_ack,resend_on_partial_ack,all_acked_finished,all_acked_waiting,ack_sent,no_ack_sent,advance_preparing,server_finished,fatal,stale_new_data_waits,new_data_then_resend
func zzReceived13() {
	init := zzSymInit()
	i0 := time.Duration(zzsymI64("I"))
	zzsymAssume(init <= i0)
	zzsymAssume(i0 <= zzCap)
	disabled := zzsymBool("disableBackoff")
	flag := zzsymChoice("retransmitFlag", 2) == 1
	f := zzAllFlights13[zzsymChoice("flight", 6)]
	isClient := zzIsClientFlight13(f)
	cfg := &dtlsconfig.HandshakeConfig{InitialRetransmitInterval: init, DisableRetransmitBackoff: disabled, Log: zzLog{}}
	st := dtlsstate.NewState13(isClient)
	flights := zzFlightPackets()
	zzSetSeq(flights[0], 0)
	zzSetSeq(flights[1], 1)
	fsm := zzNewFSM13(&st, cfg, f, flights, flag, init)
	ctx := zzNewCtx()
	conn := zzNewConn(1)
	conn.track = true
	_, serr := fsm.send(ctx, conn) // real first transmission: tracks record numbers {2,0} and {2,1}
	zzsymAssert(serr == nil, "send_ok")
	pending0 := len(fsm.flightACK.pending)
	if flag {
		zzsymAssert(pending0 == 2, "both_messages_tracked")
	} else {
		zzsymAssert(pending0 == 0, "nothing_tracked_without_flag")
	}
	conn.writes = nil
	fsm.retransmitInterval = i0

	isRetransmit := zzsymBool("isRetransmit")
	hasHandshake := zzsymChoice("hasHandshake", 2) == 1
	var acks []protocol.ACK
	ackKind := zzsymChoice("ack", 5)
	switch ackKind {
	case 1:
		acks = []protocol.ACK{{}}
	case 2:
		acks = []protocol.ACK{{Records: []protocol.RecordNumber{{Epoch: 2, SequenceNumber: 0}}}}
	case 3:
		acks = []protocol.ACK{{Records: []protocol.RecordNumber{{Epoch: 2, SequenceNumber: 0}, {Epoch: 2, SequenceNumber: 1}}}}
	case 4:
		acks = []protocol.ACK{{Records: []protocol.RecordNumber{{Epoch: 9, SequenceNumber: 9}}}}
	}
	var toACK []protocol.RecordNumber
	if zzsymChoice("recordsToACK", 2) == 1 {
		toACK = []protocol.RecordNumber{{Epoch: 2, SequenceNumber: 7}}
	}
	zzParse13Choose = func() int { return zzsymChoice("parse", zzParseKindCount) }
	ev := RecvHandshakeState{Done: make(chan struct{}), HasHandshake: hasHandshake, IsRetransmit: isRetransmit, ACKs: acks, RecordsToACK: toACK}

	tr, err := fsm.handleReceivedFlight(ctx, conn, ev)

	// emission of the step itself
	zzsymAssert(len(conn.writes) <= 1, "at_most_one_write_per_received_event")
	if len(conn.writes) == 1 {
		zzsymAssert(zzIsACKOnly(conn.writes[0]), "event_step_writes_only_an_ack")
		zzsymAssert(len(toACK) != 0, "ack_only_when_records_to_ack")
		zzsymCover("ack_sent")
	} else {
		zzsymCover("no_ack_sent")
	}
	zzsymAssert(conn.notifies <= 1, "at_most_one_alert")
	zzsymAssert(zzParseCalls <= 1, "at_most_one_parse")
	if err != nil {
		zzsymCover("fatal")
		return
	}

	base := i0
	if !isRetransmit {
		base = init
		zzsymCover("reset_on_new_data")
	} else {
		zzsymCover("kept_on_retransmit")
	}
	pending1 := len(fsm.flightACK.pending)
	zzsymAssert(pending1 <= pending0, "acks_only_shrink_pending")
	switch tr.state {
	case StateSending:
		zzsymAssert(flag, "resend_only_with_retransmit_flag")
		zzsymAssert(isRetransmit || len(acks) != 0, "resend_only_on_peer_retransmit_or_ack")
		zzsymAssert(fsm.retransmitInterval == zzBackoffOracle(base, disabled), "resend_applies_backoff_to_base")
		zzsymAssert(pending1 > 0, "resend_only_while_unacknowledged")
		if isRetransmit {
			zzsymCover("resend_on_peer_retransmit")
		} else if ackKind == 1 {
			zzsymCover("resend_on_empty_ack")
			zzsymCover("new_data_then_resend")
		} else if ackKind == 2 {
			zzsymCover("resend_on_partial_ack")
		}
		// what fsm13.send will now retransmit: only messages that are still unacknowledged
		for _, p := range fsm.flights {
			zzsymAssert(p == flights[0] || p == flights[1], "resend_subset_of_stored_flight")
		}
		if ackKind == 2 {
			zzsymAssert(len(fsm.flights) == 1 && fsm.flights[0] == flights[1], "acked_message_not_resent")
		}
	case StateWaiting:
		zzsymAssert(fsm.retransmitInterval == base, "interval_reset_iff_event_is_new_data")
		if flag && ackKind == 3 {
			zzsymAssert(!fsm.retransmit, "fully_acked_flight_stops_retransmitting")
			zzsymCover("all_acked_waiting")
		}
		if !isRetransmit && ackKind == 0 {
			zzsymCover("stale_new_data_waits")
		}
	case StateFinished:
		zzsymAssert(fsm.retransmitInterval == base, "interval_reset_iff_event_is_new_data")
		if isClient {
			zzsymAssert(f == dtlsflight13.Flight5 && flag && pending1 == 0 && ackKind == 3, "client_finishes_only_when_final_flight_fully_acked")
			zzsymCover("all_acked_finished")
		} else {
			zzsymAssert(f == dtlsflight13.Flight4 && zzParseCalls == 1 && zzParseKinds[0] != zzParseStale, "server_finishes_only_on_peer_last_flight")
			zzsymCover("server_finished")
		}
	case StatePreparing:
		zzsymAssert(fsm.retransmitInterval == base, "interval_reset_iff_event_is_new_data")
		zzsymAssert(zzParseCalls == 1 && zzParseKinds[0] != zzParseStale, "advance_only_on_parsed_flight")
		zzsymCover("advance_preparing")
	default:
		zzsymFail("unexpected_state")
	}
	if !flag {
		zzsymAssert(!fsm.retransmit, "retransmit_flag_never_turns_on")
	}
}

// DTLS 1.3 transitionAfterACK as a table: ACK result {empty ACK?, progress on a message?}, 0..1 fragments still
// pending, peer retransmission yes/no, retransmit flag, all six flights, arbitrary interval init <= I <= 60 s.
// Proved: SENDING only if the retransmit flag is set and (peer retransmission or empty ACK or partial progress),
// and then I' = backoff(I); in every other case I is untouched; FINISHED only for the last-send flight with
// nothing pending; the retransmit flag can only be cleared, and only when everything was acknowledged.
//
//symgo:entry covers=table_sending,table_waiting,table_finished,table_flag_cleared
func zzTransitionAfterACK13() {
	init := zzSymInit()
	i0 := time.Duration(zzsymI64("I"))
	zzsymAssume(init <= i0)
	zzsymAssume(i0 <= zzCap)
	disabled := zzsymBool("disableBackoff")
	flag := zzsymChoice("retransmitFlag", 2) == 1
	f := zzAllFlights13[zzsymChoice("flight", 6)]
	cfg := &dtlsconfig.HandshakeConfig{InitialRetransmitInterval: init, DisableRetransmitBackoff: disabled, Log: zzLog{}}
	st := dtlsstate.NewState13(zzIsClientFlight13(f))
	fsm := zzNewFSM13(&st, cfg, f, zzFlightPackets(), flag, i0)
	pending := zzsymChoice("pending", 2)
	if pending == 1 {
		fsm.flightACK.pending[SentHandshakeFragment{MessageSequence: 1, Length: 1}] = struct{}{}
	}
	res := ACKResult{Empty: zzsymChoice("emptyACK", 2) == 1}
	progress := zzsymChoice("progress", 2) == 1
	if progress {
		res.Messages = []MessageACKProgress{{MessageSequence: 0, Changed: true, Complete: true}}
	}
	peerRetransmit := zzsymChoice("peerRetransmit", 2) == 1

	tr := fsm.transitionAfterACK(res, peerRetransmit)

	switch tr.state {
	case StateSending:
		zzsymAssert(flag, "resend_only_with_retransmit_flag")
		zzsymAssert(peerRetransmit || res.Empty || progress, "resend_only_on_peer_retransmit_or_ack")
		zzsymAssert(!(progress && pending == 0), "no_resend_when_everything_acked")
		zzsymAssert(fsm.retransmitInterval == zzBackoffOracle(i0, disabled), "resend_applies_backoff")
		zzsymCover("table_sending")
	case StateFinished:
		zzsymAssert(f == dtlsflight13.Flight5 && pending == 0 && progress, "finished_only_last_flight_fully_acked")
		zzsymAssert(fsm.retransmitInterval == i0, "interval_untouched_without_resend")
		zzsymCover("table_finished")
	case StateWaiting:
		zzsymAssert(fsm.retransmitInterval == i0, "interval_untouched_without_resend")
		zzsymCover("table_waiting")
	default:
		zzsymFail("unexpected_state")
	}
	if fsm.retransmit != flag {
		zzsymAssert(flag && !fsm.retransmit && progress && pending == 0, "flag_only_cleared_when_fully_acked")
		zzsymCover("table_flag_cleared")
	}
	// with the flag set, a peer retransmission / empty ACK while something is pending always triggers the re-send
	if flag && pending == 1 && (peerRetransmit || res.Empty) {
		zzsymAssert(tr.state == StateSending, "loss_signal_triggers_resend")
	}
}
