package dtls

//symgo:pkg github.com/pion/dtls/v3
//symgo:outside config.go does not bound the configured interval from above: a configured value > 60 s is clamped to 60 s by the first timeout (backoff on or off); the C17 timer-law entries assume configured <= 60 s

import "time"

// Configured flight interval -> initial retransmit interval (config.go effectiveFlightInterval and the
// WithFlightInterval option), for every 64-bit duration: the effective initial interval is always > 0; it is
// the configured value when that is positive and the 1 s default otherwise; the option refuses values <= 0 and
// stores every positive value unchanged.
//
//symgo:entry covers=configured,defaulted,option_refused,option_stored
func zzConfiguredInterval() {
	d := time.Duration(zzsymI64("flightInterval"))
	eff := effectiveFlightInterval(d)
	zzsymAssert(eff > 0, "initial_interval_positive")
	if d > 0 {
		zzsymAssert(eff == d, "initial_interval_is_configured_value")
		zzsymCover("configured")
	} else {
		zzsymAssert(eff == time.Second, "initial_interval_defaults_to_1s")
		zzsymCover("defaulted")
	}
	cfg := &dtlsConfig{}
	err := WithFlightInterval(d).applyServer(cfg)
	if d <= 0 {
		zzsymAssert(err != nil, "option_refuses_non_positive")
		zzsymAssert(cfg.FlightInterval == 0, "refused_option_stores_nothing")
		zzsymCover("option_refused")
	} else {
		zzsymAssert(err == nil, "option_accepts_positive")
		zzsymAssert(cfg.FlightInterval == d, "option_stores_value")
		zzsymCover("option_stored")
	}
}

// Wiring of the two retransmission options into what the FSMs read: newConnConfigValues + newHandshakeConfig
// give HandshakeConfig.InitialRetransmitInterval = effectiveFlightInterval(configured) and
// DisableRetransmitBackoff exactly as configured, for every 64-bit configured interval and both settings of the
// backoff switch (the FSM entries start from these two fields).
//
//symgo:entry covers=wired_backoff_on,wired_backoff_off
func zzRetransmitOptionsWiring() {
	cfg := &dtlsConfig{}
	cfg.FlightInterval = time.Duration(zzsymI64("flightInterval"))
	cfg.DisableRetransmitBackoff = zzsymChoice("disable_backoff", 2) == 1
	values, err := newConnConfigValues(cfg)
	zzsymAssert(err == nil, "wiring_config_values_ok")
	hc := newHandshakeConfig(cfg, values, nil)
	zzsymAssert(hc.InitialRetransmitInterval == effectiveFlightInterval(cfg.FlightInterval), "wiring_initial_retransmit_interval")
	zzsymAssert(hc.DisableRetransmitBackoff == cfg.DisableRetransmitBackoff, "wiring_disable_backoff_as_configured")
	if cfg.DisableRetransmitBackoff {
		zzsymCover("wired_backoff_off")
	} else {
		zzsymCover("wired_backoff_on")
	}
}
