package dtlshandshake

//symgo:pkg github.com/pion/dtls/v3/internal/handshake
//symgo:param NEV quick=2 thorough=4
//symgo:stub Conn is a harness fake that records every WritePackets / Notify call; RecvHandshake is a queue pre-filled by the harness with one event per received datagram (what Conn.readAndBuffer produces)
//symgo:stub context.Context is a harness fake that is cancelled when the receive queue is empty
//symgo:assume 0 < initial interval <= 60 s

import (
	"time"

	dtlsconfig "github.com/pion/dtls/v3/internal/config"
	dtlsflight "github.com/pion/dtls/v3/internal/flight"
	dtlsflight12 "github.com/pion/dtls/v3/internal/flight/flight12"
	dtlsstate "github.com/pion/dtls/v3/internal/state"
)

// DTLS 1.2 FINISHED: the real loop (runHandshakeFSM with fsm12.finish / fsm12.send) is started in FINISHED
// with the stored final flight, in each of the four flights a completed endpoint can sit in (server: 6 after a
// full handshake, 4b after an abbreviated one; client: 5 and 5b), with 0..NEV received-datagram events queued
// (IsRetransmit symbolic); the context is cancelled when the queue is empty. No timer exists in FINISHED.
// Proved: writes happen only in response to a received event, at most one WritePackets per event and it is the
// stored final flight; the sender of the handshake's LAST flight (server in 6, client in 5b) answers exactly
// the peer's retransmissions; the side that completed by receiving the last flight (client in 5, server in 4b)
// never re-sends; no timer is ever armed (no timer-driven retransmission after completion); the establishment
// signal is set. On the tree before the repair the (server, 4b) case FAILED: one late retransmitted ClientHello
// made a completed resumed server re-send flight 4b and fall back into WAITING, from where it retransmitted on
// the timer (I, 2I, 4I ... 60 s) for as long as the peer stayed silent (confirmed with live connections); and a
// resumed client never answered the server's retransmitted 4b (its lost 5b was never repaired).
//
//symgo:entry covers=finished_server_resend,finished_client_resend_5b,finished_client_silent,finished_server_4b_silent,finished_no_event
func zzFinishResend12() {
	nev := zzsymChoice("events", zzsymParam("NEV")+1)
	init := zzSymInit()
	isClient := zzsymChoice("isClient", 2) == 1
	// the flight a completed endpoint sits in: the server's Flight6 / the client's Flight5 after a full handshake,
	// the server's Flight4b / the client's Flight5b after an abbreviated one
	resumed := zzsymChoice("resumed", 2) == 1
	cur := dtlsflight12.Flight6
	switch {
	case isClient && resumed:
		cur = dtlsflight12.Flight5b
	case isClient:
		cur = dtlsflight12.Flight5
	case resumed:
		cur = dtlsflight12.Flight4b
	}
	cfg := &dtlsconfig.HandshakeConfig{InitialRetransmitInterval: init, DisableRetransmitBackoff: zzsymBool("disableBackoff"), Log: zzLog{}}
	st := dtlsstate.NewState12(isClient)
	flights := zzFlightPackets()
	est := NewEstablishment()
	fsm, _ := NewFSM12(&st, dtlsflight.NewCache(), cfg, cur, flights, est).(*fsm12)

	conn := zzNewConn(nev)
	ctx := &zzCtxWhenIdle{conn: conn}
	nRetx := 0
	for i := 0; i < nev; i++ {
		isRetransmit := zzsymBool("isRetransmit")
		if isRetransmit {
			nRetx++
		}
		conn.recv <- RecvHandshakeState{Done: make(chan struct{}), HasHandshake: true, IsRetransmit: isRetransmit}
	}
	err := fsm.Run(ctx, conn, StateFinished)
	zzsymAssert(err == errZZCtx, "run_ends_by_cancellation_only")
	zzsymAssert(len(conn.recv) == 0, "all_events_consumed")
	zzsymAssert(len(zzTimerLog) == 0, "no_timer_after_completion")
	zzsymAssert(len(conn.writes) <= nev, "at_most_one_write_per_received_event")
	for _, w := range conn.writes {
		zzsymAssert(zzSameFlight(w, flights), "resend_is_the_stored_final_flight")
	}
	zzsymAssert(est.Established(), "established_signalled")
	lastSender := cur.IsLastSendFlight() // the server after a full handshake, the client after an abbreviated one
	switch {
	case nev == 0:
		zzsymAssert(len(conn.writes) == 0, "no_write_without_received_event")
		zzsymCover("finished_no_event")
	case lastSender:
		// RFC 6347 4.2.4: the sender of the handshake's last flight re-sends it when (and only when) the peer
		// retransmits its own last flight
		zzsymAssert(len(conn.writes) == nRetx, "last_sender_answers_exactly_the_peer_retransmissions")
		if len(conn.writes) > 0 {
			if isClient {
				zzsymCover("finished_client_resend_5b")
			} else {
				zzsymCover("finished_server_resend")
			}
		}
	default:
		// this side completed BY RECEIVING the last flight: it has nothing to re-send (its own flight was
		// evidently received), and a re-send would put it back into WAITING with the timer armed
		zzsymAssert(len(conn.writes) == 0, "receiver_of_last_flight_never_resends_after_completion")
		if isClient {
			zzsymCover("finished_client_silent")
		} else {
			zzsymCover("finished_server_4b_silent")
		}
	}
}

// zzCtxWhenIdle is cancelled exactly when the receive queue is empty (end of the schedule).
type zzCtxWhenIdle struct{ conn *zzConn }

func (c *zzCtxWhenIdle) Deadline() (time.Time, bool) { return time.Time{}, false }
func (c *zzCtxWhenIdle) Done() <-chan struct{} {
	ch := make(chan struct{})
	if len(c.conn.recv) == 0 {
		close(ch)
	}
	return ch
}
func (c *zzCtxWhenIdle) Err() error    { return errZZCtx }
func (c *zzCtxWhenIdle) Value(any) any { return nil }

// DTLS 1.2 FINISHED, strict reading of "re-sends its final flight only in response to the peer's
// retransmission": one fsm12.finish step of a server with one received-datagram event whose IsRetransmit flag
// is symbolic. The flag is computed by the fragment buffer (true iff the datagram carries a fragment of an
// already assembled message). Asserted: the step returns SENDING only if the event is a retransmission.
// KNOWN TO FAIL on the current tree (label finish12_resends_on_non_retransmit_event): fsm12.finish ignores
// IsRetransmit, so any datagram that carries a well-formed epoch-0 handshake fragment with a not yet assembled
// message_seq makes a completed server re-send its final flight (one re-send per datagram, so still bounded).
//
//symgo:entry covers=finish_retransmit_event,finish_new_data_event
func zzFinishResendOnlyOnRetransmit12() {
	init := zzSymInit()
	cfg := &dtlsconfig.HandshakeConfig{InitialRetransmitInterval: init, Log: zzLog{}}
	st := dtlsstate.NewState12(false)
	fsm, _ := NewFSM12(&st, nil, cfg, dtlsflight12.Flight6, zzFlightPackets(), NewEstablishment()).(*fsm12)
	conn := zzNewConn(1)
	isRetransmit := zzsymBool("isRetransmit")
	conn.recv <- RecvHandshakeState{Done: make(chan struct{}), HasHandshake: true, IsRetransmit: isRetransmit}
	state, err := fsm.finish(zzNewCtx(), conn)
	zzsymAssert(err == nil, "finish_ok")
	if isRetransmit {
		zzsymAssert(state == StateSending, "server_answers_peer_retransmission")
		zzsymCover("finish_retransmit_event")
	} else {
		zzsymCover("finish_new_data_event")
		zzsymAssert(state != StateSending, "finish12_resends_on_non_retransmit_event")
	}
}
