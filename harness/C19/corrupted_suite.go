package dtls

//symgo:pkg github.com/pion/dtls/v3
//symgo:stub nextConn is the fake PacketConn of resume_seq.go; the cipher suites are the REAL ones (ciphersuite.ForID is not replaced in this file)
//symgo:native no

import (
	"context"
	"net"

	dtlsflight "github.com/pion/dtls/v3/internal/flight"
	"github.com/pion/dtls/v3/pkg/protocol"
	"github.com/pion/dtls/v3/pkg/protocol/alert"
	"github.com/pion/dtls/v3/pkg/protocol/recordlayer"
)

// Corrupted serialised bytes: the cipher-suite id of an exported DTLS 1.2 state replaced by one of the three TLS 1.3
// suite ids (the version field still says 1.2; everything else arbitrary as above). Resuming either fails cleanly or
// yields a connection on which writing application data and sending an alert fail cleanly or succeed - never a
// Go panic (a TLS 1.3 suite reports itself initialised although it has no DTLS 1.2 record protection, so the import
// goes through; what follows must keep checking what kind of state it has).
//
//symgo:entry covers=corrupted_suite_resumed
func zzC19CorruptedSuiteNeverPanics() {
	exported := &State{
		localEpoch: 1, remoteEpoch: 1, isClient: zzsymChoice("isClient", 2) == 1,
		CipherSuiteID:  []CipherSuiteID{TLS_AES_128_GCM_SHA256, TLS_AES_256_GCM_SHA384, TLS_CHACHA20_POLY1305_SHA256}[zzsymChoice("suite13", 3)],
		masterSecret:   zzsymBytes("ms", 48),
		sequenceNumber: zzsymU64("next_seq"),
	}
	exported.localRandom.UnmarshalFixed(zzC19SeqRandom("lrand"))
	exported.remoteRandom.UnmarshalFixed(zzC19SeqRandom("rrand"))
	if zzsymChoice("with_remote_cid", 2) == 1 {
		exported.remoteConnectionID = zzsymBytes("rcid", 2)
	}
	cfg := &dtlsConfig{}
	cfg.InsecureSkipVerify = true
	if zzsymChoice("resume_options_dual_stack", 2) == 1 {
		cfg.MinVersion, cfg.MaxVersion = protocol.Version1_2, protocol.Version1_3
	}
	c, err := resumeWithConfig(exported, zzC19PC{}, &net.UDPAddr{Port: 1}, cfg)
	if err != nil || c == nil {
		zzsymCover("corrupted_suite_refused")
		return
	}
	if _, err = c.prepareHandshakeStart(context.Background()); err != nil {
		zzsymCover("corrupted_suite_refused")
		return
	}
	_, _ = c.processPacket(c.newApplicationDataPacket(zzsymBytes("pay", 2)))
	_, _ = c.processPacket(&dtlsflight.Packet{
		Record: &recordlayer.RecordLayer{
			Header:  recordlayer.Header{Epoch: 1, Version: protocol.Version1_2},
			Content: &alert.Alert{Level: alert.Warning, Description: alert.CloseNotify},
		},
		ShouldEncrypt: true,
	})
	zzsymCover("corrupted_suite_resumed")
}
