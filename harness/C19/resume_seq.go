package dtls

//symgo:pkg github.com/pion/dtls/v3
//symgo:param NREC quick=2 thorough=4
//symgo:param NPAY quick=2 thorough=4
//symgo:replace github.com/pion/dtls/v3/internal/ciphersuite.ForID zzC19SeqForID
//symgo:stub ciphersuite.ForID returns a harness cipher suite whose Encrypt is the identity and which records the (epoch, sequence number) of every record it is asked to protect - the pair the real AEAD suites build their nonce from
//symgo:stub nextConn is a fake netctx.PacketConn that records written datagrams
//symgo:assume gob is the identity on serializedState (this file calls serialize / deserialize directly, bypassing the gob step of MarshalBinary / UnmarshalBinary)
//symgo:assume the exporting connection sends nothing more after its state was taken (two live copies of one state necessarily share numbers)
//symgo:outside encoding/gob; the goroutines of a live resumed connection (handshake FSM in its Finished state, read loop); the peer; concurrent Write and ConnectionState calls

import (
	"context"
	"errors"
	"hash"
	"net"

	"github.com/pion/dtls/v3/internal/ciphersuite"
	"github.com/pion/dtls/v3/internal/ciphersuite/types"
	"github.com/pion/dtls/v3/internal/closer"
	dtlsconfig "github.com/pion/dtls/v3/internal/config"
	dtlsflight "github.com/pion/dtls/v3/internal/flight"
	dtlsfragmentbuffer "github.com/pion/dtls/v3/internal/fragmentbuffer"
	dtlshandshake "github.com/pion/dtls/v3/internal/handshake"
	dtlsstate "github.com/pion/dtls/v3/internal/state"
	"github.com/pion/dtls/v3/pkg/crypto/clientcertificate"
	"github.com/pion/dtls/v3/pkg/crypto/elliptic"
	"github.com/pion/dtls/v3/pkg/protocol"
	"github.com/pion/dtls/v3/pkg/protocol/recordlayer"
)

// zzC19SeqLog is shared by every fake suite instance: the records protected so far, in order, by either connection.
var (
	zzC19SeqEpochs []uint16
	zzC19SeqSeqs   []uint64
)

type zzC19SeqSuite struct {
	id     CipherSuiteID
	inited bool
}

func (s *zzC19SeqSuite) String() string                          { return "zzC19" }
func (s *zzC19SeqSuite) ID() CipherSuiteID                       { return s.id }
func (s *zzC19SeqSuite) CertificateType() clientcertificate.Type { return clientcertificate.ECDSASign }
func (s *zzC19SeqSuite) HashFunc() func() hash.Hash              { return nil }
func (s *zzC19SeqSuite) AuthenticationType() types.AuthenticationType {
	return types.AuthenticationTypeCertificate
}
func (s *zzC19SeqSuite) KeyExchangeAlgorithm() types.KeyExchangeAlgorithm {
	return types.KeyExchangeAlgorithmEcdhe
}
func (s *zzC19SeqSuite) ECC() bool { return true }
func (s *zzC19SeqSuite) Init(ms, cr, sr []byte, isClient bool) error {
	s.inited = true
	return nil
}
func (s *zzC19SeqSuite) IsInitialized() bool                                     { return s.inited }
func (s *zzC19SeqSuite) Decrypt(h recordlayer.Header, in []byte) ([]byte, error) { return in, nil }
func (s *zzC19SeqSuite) Encrypt(pkt *recordlayer.RecordLayer, raw []byte) ([]byte, error) {
	zzC19SeqEpochs = append(zzC19SeqEpochs, pkt.Header.Epoch)
	zzC19SeqSeqs = append(zzC19SeqSeqs, pkt.Header.SequenceNumber)
	return raw, nil
}

func zzC19SeqForID(id ciphersuite.ID, custom func() []ciphersuite.CipherSuite) ciphersuite.CipherSuite {
	if id != TLS_ECDHE_ECDSA_WITH_AES_128_GCM_SHA256 {
		return nil
	}
	return &zzC19SeqSuite{id: id}
}

// zzC19ErrNet is what every read from the fake network returns (net.ErrClosed is nil in the engine: package net is not initialised).
var zzC19ErrNet = errors.New("zzC19 net: nothing to read")

type zzC19Net struct{ written [][]byte }

func (n *zzC19Net) ReadFromContext(context.Context, []byte) (int, net.Addr, error) {
	return 0, nil, zzC19ErrNet
}
func (n *zzC19Net) WriteToContext(_ context.Context, b []byte, a net.Addr) (int, error) {
	n.written = append(n.written, append([]byte{}, b...))
	return len(b), nil
}
func (n *zzC19Net) Close() error         { return nil }
func (n *zzC19Net) LocalAddr() net.Addr  { return nil }
func (n *zzC19Net) Conn() net.PacketConn { return nil }

type zzC19Log struct{}

func (zzC19Log) Trace(string)          {}
func (zzC19Log) Tracef(string, ...any) {}
func (zzC19Log) Debug(string)          {}
func (zzC19Log) Debugf(string, ...any) {}
func (zzC19Log) Info(string)           {}
func (zzC19Log) Infof(string, ...any)  {}
func (zzC19Log) Warn(string)           {}
func (zzC19Log) Warnf(string, ...any)  {}
func (zzC19Log) Error(string)          {}
func (zzC19Log) Errorf(string, ...any) {}

func zzC19SeqConn(isClient bool, nw *zzC19Net) *Conn {
	c := zzC19SeqConnRaw(isClient, nw)
	// the export points of the property are points of an ESTABLISHED connection
	dtlshandshake.ZZMarkEstablished(c.handshakeEstablished)

	return c
}

func zzC19SeqConnRaw(isClient bool, nw *zzC19Net) *Conn {
	return &Conn{
		state:                   dtlsstate.NewActive(isClient),
		nextConn:                nw,
		fragmentBuffer:          dtlsfragmentbuffer.New(),
		handshakeCache:          dtlsflight.NewCache(),
		decrypted:               make(chan any, 1),
		log:                     zzC19Log{},
		closed:                  closer.NewCloser(),
		handshakeEstablished:    dtlshandshake.NewEstablishment(),
		maximumTransmissionUnit: 1200,
		paddingLengthGenerator:  func(uint) uint { return 0 },
		rAddr:                   &net.UDPAddr{Port: 1},
	}
}

// zzC19WireHeader parses the record header of a datagram that holds exactly one record.
func zzC19WireHeader(raw []byte, cidLen int) recordlayer.Header {
	var h recordlayer.Header
	if cidLen > 0 {
		h.ConnectionID = make([]byte, cidLen)
	}
	zzsymAssert(h.Unmarshal(raw) == nil, "wire_header_parses")
	return h
}

// zzC19SameNegotiated: every field of two exported States other than the sequence number is equal.
func zzC19SameNegotiated(a, b *State) bool {
	alr, arr := a.localRandom.MarshalFixed(), a.remoteRandom.MarshalFixed()
	blr, brr := b.localRandom.MarshalFixed(), b.remoteRandom.MarshalFixed()
	ok := zzsymAnd(a.localEpoch == b.localEpoch, a.remoteEpoch == b.remoteEpoch)
	ok = zzsymAnd(ok, zzsymAnd(zzsymEqBytes(alr[:], blr[:]), zzsymEqBytes(arr[:], brr[:])))
	ok = zzsymAnd(ok, zzsymEqBytes(a.masterSecret, b.masterSecret))
	ok = zzsymAnd(ok, a.srtpProtectionProfile == b.srtpProtectionProfile)
	ok = zzsymAnd(ok, zzsymEqBytes(a.peerSRTPMKI, b.peerSRTPMKI))
	ok = zzsymAnd(ok, zzsymEqBytes(a.localConnectionID, b.localConnectionID))
	ok = zzsymAnd(ok, zzsymEqBytes(a.remoteConnectionID, b.remoteConnectionID))
	ok = zzsymAnd(ok, zzsymAnd(a.rrcNegotiated == b.rrcNegotiated, a.isClient == b.isClient))
	ok = zzsymAnd(ok, zzsymAnd(a.version == b.version, a.CipherSuiteID == b.CipherSuiteID))
	ok = zzsymAnd(ok, zzC19EqCerts(a.PeerCertificates, b.PeerCertificates))
	ok = zzsymAnd(ok, zzsymEqBytes(a.IdentityHint, b.IdentityHint))
	ok = zzsymAnd(ok, zzsymEqBytes(a.SessionID, b.SessionID))
	ok = zzsymAnd(ok, zzsymEqStr(a.NegotiatedProtocol, b.NegotiatedProtocol))
	return ok
}

// An established DTLS 1.2 connection (either role, with or without a negotiated connection ID, SRTP profile, MKI and
// ALPN negotiated, local epoch 1, next sequence number s0 anywhere in 0..2^48-1-3*NREC) sends n0 = 0..NREC
// application records through writeApplicationData; ConnectionState is called a first time (its result is kept);
// the connection sends n1 = 0..NREC more records; ConnectionState is called again and THIS state is passed through
// serialize / deserialize (gob = identity), turned into an internal state by generateInternalState and installed by
// the resume branch of prepareHandshakeStart on a fresh Conn, which sends n2 = 0..NREC more records. So the export
// point is arbitrary, also relative to earlier exports. Each exported State carries exactly the next unused
// sequence number at its own export point (s0+n0, then s0+n0+n1) and the current epochs; the two States differ in
// nothing else. The k-th record of the whole run (k = 0..n0+n1+n2-1) leaves with epoch 1 and sequence number s0+k,
// both on the wire and in the header given to the cipher: the resumed connection continues the record sequence, no
// (epoch, sequence number) pair - hence no AEAD nonce - is used twice, and the connection-ID framing of the records is
// the same before and after. A further export taken from the resumed connection reports s0+n0+n1+n2.
//
//symgo:entry covers=client,server,plain,cidwrap,export_fresh,export_after_records,second_export_same_point,second_export_later,resumed_idle,resumed_sends
func zzC19ResumeContinuesSequence() {
	zzC19SeqEpochs, zzC19SeqSeqs = nil, nil
	nrec := zzsymParam("NREC")
	isClient := zzsymChoice("isClient", 2) == 1
	cidLen := 2 * zzsymChoice("cid", 2)

	nw1 := &zzC19Net{}
	c1 := zzC19SeqConn(isClient, nw1)
	st1 := dtlsstate.Activate12(c1.state)
	st1.LocalVersion = protocol.Version1_2
	suite := &zzC19SeqSuite{id: TLS_ECDHE_ECDSA_WITH_AES_128_GCM_SHA256, inited: true}
	st1.CipherSuite = suite
	st1.MasterSecret = zzsymBytes("ms", 48)
	st1.LocalRandom.UnmarshalFixed(zzC19SeqRandom("lrand"))
	st1.RemoteRandom.UnmarshalFixed(zzC19SeqRandom("rrand"))
	st1.SetLocalEpoch(1)
	st1.SetRemoteEpoch(1)
	s0 := zzsymU64("s0")
	zzsymAssume(s0 <= recordlayer.MaxSequenceNumber-uint64(3*nrec))
	st1.LocalSequenceNumber = []uint64{zzsymU64("ctr0"), s0}
	if cidLen > 0 {
		st1.RemoteConnectionID = zzsymBytes("rcid", cidLen)
		st1.SetLocalConnectionID(zzsymBytes("lcid", 1))
	}
	st1.SetSRTPProtectionProfile(SRTP_AES128_CM_HMAC_SHA1_80)
	st1.RemoteSRTPMasterKeyIdentifier = zzsymBytes("mki", 2)
	st1.NegotiatedProtocol = zzsymString("alpn", 2)
	st1.RRCNegotiated = zzsymBool("rrc")

	ctx := context.Background()
	n0 := zzsymChoice("n0", nrec+1)
	for i := 0; i < n0; i++ {
		pkt := c1.newApplicationDataPacket(zzsymBytes("pay0", zzsymParam("NPAY")))
		zzsymAssert(c1.writeApplicationData(ctx, []*dtlsflight.Packet{pkt}) == nil, "write_before_export_ok")
	}

	// an earlier export, kept by the application
	early, ok := c1.ConnectionState()
	zzsymAssert(ok, "early_export_ok")
	zzsymAssert(early.sequenceNumber == s0+uint64(n0), "early_export_next_unused_sequence_number")
	zzsymAssert(zzsymAnd(early.localEpoch == 1, early.remoteEpoch == 1), "early_export_epochs")

	n1 := zzsymChoice("n1", nrec+1)
	for i := 0; i < n1; i++ {
		pkt := c1.newApplicationDataPacket(zzsymBytes("pay1", zzsymParam("NPAY")))
		zzsymAssert(c1.writeApplicationData(ctx, []*dtlsflight.Packet{pkt}) == nil, "write_before_export_ok")
	}
	n1 += n0 // from here on: number of records sent by the exporting connection

	// the export that is resumed from ... import
	exported, ok := c1.ConnectionState()
	zzsymAssert(ok, "export_ok")
	zzsymAssert(exported.sequenceNumber == s0+uint64(n1), "export_next_unused_sequence_number")
	zzsymAssert(zzsymAnd(exported.localEpoch == 1, exported.remoteEpoch == 1), "export_current_epochs")
	zzsymAssert(zzC19SameNegotiated(&early, &exported), "exports_differ_only_in_sequence_number")
	zzsymAssert(early.sequenceNumber == s0+uint64(n0), "earlier_export_not_changed_by_later_records")
	ser, err := exported.serialize()
	zzsymAssert(err == nil, "serialize_ok")
	var imported State
	imported.deserialize(*ser)
	internal, err := imported.generateInternalState()
	zzsymAssert(err == nil, "import_ok")

	nw2 := &zzC19Net{}
	c2 := zzC19SeqConn(internal.IsClient, nw2)
	c2.handshakeConfig = &dtlsconfig.HandshakeConfig{ResumeState: internal, MinVersion: protocol.Version1_2, MaxVersion: protocol.Version1_2}
	c2.setLocalEpoch(0) // as createConn does
	c2.setRemoteEpoch(0)
	_, err = c2.prepareHandshakeStart(ctx)
	zzsymAssert(err == nil, "resume_start_ok")

	n2 := zzsymChoice("n2", nrec+1)
	for i := 0; i < n2; i++ {
		pkt := c2.newApplicationDataPacket(zzsymBytes("pay2", zzsymParam("NPAY")))
		zzsymAssert(c2.writeApplicationData(ctx, []*dtlsflight.Packet{pkt}) == nil, "write_after_resume_ok")
	}

	zzsymAssert(len(nw1.written) == n1, "one_datagram_per_record_before")
	zzsymAssert(len(nw2.written) == n2, "one_datagram_per_record_after")
	zzsymAssert(len(zzC19SeqSeqs) == n1+n2, "every_record_protected_once")
	for k := 0; k < n1+n2; k++ {
		raw := []byte(nil)
		if k < n1 {
			raw = nw1.written[k]
		} else {
			raw = nw2.written[k-n1]
		}
		h := zzC19WireHeader(raw, cidLen)
		want := s0 + uint64(k)
		if k >= n1 {
			// no reuse: strictly above every number used before the export
			zzsymAssert(h.SequenceNumber >= s0+uint64(n1), "resumed_wire_seq_not_reused")
			zzsymAssert(zzC19SeqSeqs[k] >= s0+uint64(n1), "resumed_cipher_seq_not_reused")
			zzsymAssert(h.Epoch == 1, "resumed_wire_epoch")
			zzsymAssert(zzC19SeqEpochs[k] == 1, "resumed_cipher_epoch")
			if cidLen > 0 {
				zzsymAssert(h.ContentType == protocol.ContentTypeConnectionID, "resumed_keeps_cid_framing")
				zzsymAssert(zzsymEqBytes(h.ConnectionID, st1.RemoteConnectionID), "resumed_sends_peer_cid")
			} else {
				zzsymAssert(h.ContentType == protocol.ContentTypeApplicationData, "resumed_keeps_plain_framing")
			}
		}
		zzsymAssert(h.SequenceNumber == want, "wire_seq_continues")
		zzsymAssert(zzC19SeqSeqs[k] == want, "cipher_seq_continues")
	}

	again, ok := c2.ConnectionState()
	zzsymAssert(ok, "reexport_ok")
	zzsymAssert(again.sequenceNumber == s0+uint64(n1+n2), "reexport_sequence_number")
	zzsymAssert(again.localEpoch == 1, "reexport_epoch")

	if isClient {
		zzsymCover("client")
	} else {
		zzsymCover("server")
	}
	if cidLen > 0 {
		zzsymCover("cidwrap")
	} else {
		zzsymCover("plain")
	}
	if n1 == 0 {
		zzsymCover("export_fresh")
	} else {
		zzsymCover("export_after_records")
	}
	if n1 == n0 {
		zzsymCover("second_export_same_point")
	} else {
		zzsymCover("second_export_later")
	}
	if n2 == 0 {
		zzsymCover("resumed_idle")
	} else {
		zzsymCover("resumed_sends")
	}
}

func zzC19SeqRandom(name string) (r [32]byte) {
	copy(r[:], zzsymBytes(name, 32))
	return r
}

// The end of the sequence space across an export: an established DTLS 1.2 connection whose epoch-1 send counter is
// ANY value from 2^48-2 upwards (the last two numbers still unused, the last one unused, exhausted) writes one
// record (it goes out with the last numbers, or is refused), its state is exported, serialised, imported
// (generateInternalState) and the resumed connection writes again. Proved: no (epoch 1, sequence number) appears
// twice on the wire over the whole run; once a write has been refused for exhaustion every later write - on the
// exporting connection and on the resumed one - is refused too; the exported and the imported counter are exactly the
// live counter (never clamped back into the 48-bit space, which would re-issue 2^48-1).
//
//symgo:entry covers=exhausted_before_export,last_number_used_before_export,exhausted_stays_exhausted_after_resume
func zzC19SequenceSpaceEndAcrossExport() {
	zzC19SeqEpochs, zzC19SeqSeqs = nil, nil
	isClient := zzsymChoice("isClient", 2) == 1
	nw1 := &zzC19Net{}
	c1 := zzC19SeqConn(isClient, nw1)
	st1 := dtlsstate.Activate12(c1.state)
	st1.LocalVersion = protocol.Version1_2
	st1.CipherSuite = &zzC19SeqSuite{id: TLS_ECDHE_ECDSA_WITH_AES_128_GCM_SHA256, inited: true}
	st1.MasterSecret = zzsymBytes("ms", 48)
	st1.LocalRandom.UnmarshalFixed(zzC19SeqRandom("lrand"))
	st1.RemoteRandom.UnmarshalFixed(zzC19SeqRandom("rrand"))
	st1.SetLocalEpoch(1)
	st1.SetRemoteEpoch(1)
	s0 := zzsymU64("s0")
	zzsymAssume(s0 >= recordlayer.MaxSequenceNumber-1)
	zzsymAssume(s0 < ^uint64(0)-8)
	st1.LocalSequenceNumber = []uint64{0, s0}
	ctx := context.Background()
	write := func(c *Conn) bool {
		pkt := c.newApplicationDataPacket(zzsymBytes("pay", 1))
		return c.writeApplicationData(ctx, []*dtlsflight.Packet{pkt}) == nil
	}
	refused := false
	for i := 0; i < 2; i++ {
		ok := write(c1)
		zzsymAssert(!(refused && ok), "write_after_exhaustion_refused")
		refused = refused || !ok
	}
	live := st1.LocalSequenceNumber[1]
	exported, err := generateState(st1)
	zzsymAssert(err == nil, "export_ok")
	zzsymAssert(exported.sequenceNumber == live, "export_carries_live_counter")
	ser, err := exported.serialize()
	zzsymAssert(err == nil, "serialize_ok")
	var imported State
	imported.deserialize(*ser)
	internal, err := imported.generateInternalState()
	zzsymAssert(err == nil, "import_ok")
	zzsymAssert(internal.LocalSequenceNumber[1] == live, "import_restores_live_counter_unclamped")

	nw2 := &zzC19Net{}
	c2 := zzC19SeqConn(internal.IsClient, nw2)
	c2.handshakeConfig = &dtlsconfig.HandshakeConfig{ResumeState: internal, MinVersion: protocol.Version1_2, MaxVersion: protocol.Version1_2}
	c2.setLocalEpoch(0)
	c2.setRemoteEpoch(0)
	_, err = c2.prepareHandshakeStart(ctx)
	zzsymAssert(err == nil, "resume_start_ok")
	for i := 0; i < 2; i++ {
		ok := write(c2)
		zzsymAssert(!(refused && ok), "write_after_exhaustion_refused_on_resumed_connection")
		refused = refused || !ok
	}
	// everything that went out used a distinct number
	for a := range zzC19SeqSeqs {
		for b := a + 1; b < len(zzC19SeqSeqs); b++ {
			zzsymAssert(zzC19SeqSeqs[a] != zzC19SeqSeqs[b], "no_sequence_number_reused_at_the_end_of_the_space")
		}
		zzsymAssert(zzC19SeqSeqs[a] <= recordlayer.MaxSequenceNumber, "only_48_bit_numbers_on_the_wire")
	}
	switch {
	case s0 > recordlayer.MaxSequenceNumber:
		zzsymCover("exhausted_before_export")
	case live > recordlayer.MaxSequenceNumber:
		zzsymCover("last_number_used_before_export")
	}
	if refused {
		zzsymCover("exhausted_stays_exhausted_after_resume")
	}
}

type zzC19PC struct{ net.PacketConn }

// The resume entry point itself (resumeWithConfig -> generateInternalState -> createConn, then the start decision
// adopts the state): an exported State with ARBITRARY local and remote connection IDs of 0..2 bytes each (so also
// the one-sided cases: send-only, receive-only), either role, is resumed with a configuration that has or has not a
// connection-ID generator (nothing is negotiated on resume: the option must not matter). Proved: the resumed
// connection holds exactly the exported local and remote connection IDs (inbound records are still split and
// checked with the negotiated local CID length, outbound records still carry the peer's CID), the exported epochs
// and next sequence number, and re-exports the same State.
//
//symgo:entry covers=resume_cids_kept_with_generator,resume_cids_kept_without_generator,one_sided_cid
func zzC19ResumeEntryPointKeepsCIDs() {
	isClient := zzsymChoice("isClient", 2) == 1
	exported := &State{
		localEpoch: 1, remoteEpoch: 1, isClient: isClient,
		CipherSuiteID:  TLS_ECDHE_ECDSA_WITH_AES_128_GCM_SHA256,
		masterSecret:   zzsymBytes("ms", 48),
		sequenceNumber: zzsymU64("next_seq"),
	}
	exported.localRandom.UnmarshalFixed(zzC19SeqRandom("lrand"))
	exported.remoteRandom.UnmarshalFixed(zzC19SeqRandom("rrand"))
	exported.localConnectionID = zzsymBytes("lcid", zzsymChoice("lcidlen", 3))
	exported.remoteConnectionID = zzsymBytes("rcid", zzsymChoice("rcidlen", 3))
	cfg := &dtlsConfig{}
	cfg.InsecureSkipVerify = true
	withGen := zzsymChoice("cid_generator_on_resume", 2) == 1
	if withGen {
		cfg.ConnectionIDGenerator = func() []byte { return []byte{9, 9, 9} }
	}
	// the version / group options of the resuming configuration do not decide whether the exported DTLS 1.2 session
	// is used: a dual-stack configuration (also one that spells out the default groups, hybrid group included) resumes it
	switch zzsymChoice("resume_versions", 3) {
	case 1:
		cfg.MinVersion, cfg.MaxVersion = protocol.Version1_2, protocol.Version1_3
	case 2:
		cfg.MaxVersion = protocol.Version1_3
		cfg.EllipticCurves = []elliptic.Curve{elliptic.X25519MLKEM768, elliptic.X25519, elliptic.P256, elliptic.P384}
	}
	c, err := resumeWithConfig(exported, zzC19PC{}, &net.UDPAddr{Port: 1}, cfg)
	zzsymAssert(err == nil && c != nil, "resume_entry_ok")
	_, err = c.prepareHandshakeStart(context.Background())
	zzsymAssert(err == nil, "resume_start_ok")
	common := dtlsstate.CommonState(c.state)
	zzsymAssert(len(common.LocalConnectionID()) == len(exported.localConnectionID) &&
		zzsymEqBytes(common.LocalConnectionID(), exported.localConnectionID), "resumed_local_cid_is_the_exported_one")
	zzsymAssert(len(common.RemoteConnectionID) == len(exported.remoteConnectionID) &&
		zzsymEqBytes(common.RemoteConnectionID, exported.remoteConnectionID), "resumed_remote_cid_is_the_exported_one")
	inbound := common.LocalConnectionIDForInboundRecords()
	zzsymAssert(len(inbound) == len(exported.localConnectionID) && zzsymEqBytes(inbound, exported.localConnectionID),
		"resumed_inbound_records_are_split_with_the_exported_local_cid")
	zzsymAssert(common.LocalEpoch() == 1 && common.RemoteEpoch() == 1, "resumed_epochs")
	zzsymAssert(common.LocalSequenceNumber[1] == exported.sequenceNumber, "resumed_next_sequence_number")
	if withGen {
		zzsymCover("resume_cids_kept_with_generator")
	} else {
		zzsymCover("resume_cids_kept_without_generator")
	}
	if (len(exported.localConnectionID) == 0) != (len(exported.remoteConnectionID) == 0) {
		zzsymCover("one_sided_cid")
	}
}
