package dtls

//symgo:pkg github.com/pion/dtls/v3
//symgo:param NB quick=2 thorough=5
//symgo:assume gob is the identity on serializedState: MarshalBinary writes gob(serialize(s)) and UnmarshalBinary reads deserialize(gob^-1(bytes)); this file checks serialize/deserialize around that identity
//symgo:outside encoding/gob itself (reflection): how truncated or corrupted bytes decode, or whether they decode at all

import (
	"errors"

	"github.com/pion/dtls/v3/pkg/protocol"
)

// zzC19Len gives field number k a length in 0..NB that differs between fields of one path and takes every value
// 0..NB over the NB+1 paths of the "len" choice.
func zzC19Len(base, k int) int { return (base + k) % (zzsymParam("NB") + 1) }

// zzC19ArbState builds a State with arbitrary scalar fields and byte fields of the chosen lengths.
func zzC19ArbState(base int) *State {
	s := &State{
		localEpoch:            zzsymU16("lepoch"),
		remoteEpoch:           zzsymU16("repoch"),
		masterSecret:          zzsymBytes("ms", 24*zzC19Len(base, 0)),
		sequenceNumber:        zzsymU64("seq"),
		srtpProtectionProfile: SRTPProtectionProfile(zzsymU16("srtp")),
		peerSRTPMKI:           zzsymBytes("mki", zzC19Len(base, 1)),
		localConnectionID:     zzsymBytes("lcid", zzC19Len(base, 2)),
		remoteConnectionID:    zzsymBytes("rcid", zzC19Len(base, 3)),
		rrcNegotiated:         zzsymBool("rrc"),
		isClient:              zzsymBool("isclient"),
		CipherSuiteID:         CipherSuiteID(zzsymU16("suite")),
		IdentityHint:          zzsymBytes("hint", zzC19Len(base, 4)),
		SessionID:             zzsymBytes("sid", zzC19Len(base, 5)),
		NegotiatedProtocol:    zzsymString("alpn", zzC19Len(base, 6)),
	}
	var lr, rr [32]byte
	copy(lr[:], zzsymBytes("lrand", 32))
	copy(rr[:], zzsymBytes("rrand", 32))
	s.localRandom.UnmarshalFixed(lr)
	s.remoteRandom.UnmarshalFixed(rr)
	for i := 0; i < zzC19Len(base, 7); i++ {
		s.PeerCertificates = append(s.PeerCertificates, zzsymBytes("cert", zzC19Len(base, 8+i)))
	}
	return s
}

func zzC19EqCerts(a, b [][]byte) bool {
	if len(a) != len(b) {
		return false
	}
	ok := true
	for i := range a {
		ok = zzsymAnd(ok, zzsymEqBytes(a[i], b[i]))
	}
	return ok
}

// serialize followed by deserialize is the identity on every field of State, for arbitrary field values
// (all 16/64-bit scalars, both roles, byte fields of every length 0..NB, 0..NB peer certificates), and the
// exported struct carries each value under its own name. The version tag is 1.2 after the round trip when it was
// 1.2 or unset. A state tagged DTLS 1.3 is refused with ErrStateSerializationUnsupported; an unset cipher suite
// (id 0) never panics.
//
//symgo:entry covers=rt_ok,v13_refused,suite_unset,version_unset,version_12
func zzC19SerializeRoundTrip() {
	base := zzsymChoice("len", zzsymParam("NB")+1)
	s := zzC19ArbState(base)
	switch zzsymChoice("version", 4) {
	case 0:
		s.version = protocol.Version{}
	case 1:
		s.version = protocol.Version1_2
	case 2:
		s.version = protocol.Version1_3
	case 3:
		s.version = protocol.Version{Major: zzsymU8("vmaj"), Minor: zzsymU8("vmin")}
	}
	ser, err := s.serialize()
	if s.CipherSuiteID == 0 {
		zzsymCover("suite_unset")
		if err != nil {
			return
		}
	}
	if s.version.Equal(protocol.Version1_3) {
		zzsymAssert(err != nil, "v13_serialize_refused")
		zzsymAssert(errors.Is(err, ErrStateSerializationUnsupported), "v13_serialize_refused_with_unsupported")
		zzsymCover("v13_refused")
		return
	}
	zzsymAssert(err == nil, "serialize_ok")

	wantVersion := s.version
	if s.version.Equal(protocol.Version{}) {
		wantVersion = protocol.Version1_2
		zzsymCover("version_unset")
	} else if s.version.Equal(protocol.Version1_2) {
		zzsymCover("version_12")
	}

	// the exported struct carries each value under its own name
	lr, rr := s.localRandom.MarshalFixed(), s.remoteRandom.MarshalFixed()
	zzsymAssert(ser.Version == wantVersion, "wire_version")
	zzsymAssert(ser.LocalEpoch == s.localEpoch, "wire_local_epoch")
	zzsymAssert(ser.RemoteEpoch == s.remoteEpoch, "wire_remote_epoch")
	zzsymAssert(zzsymEqBytes(ser.LocalRandom[:], lr[:]), "wire_local_random")
	zzsymAssert(zzsymEqBytes(ser.RemoteRandom[:], rr[:]), "wire_remote_random")
	zzsymAssert(ser.CipherSuiteID == uint16(s.CipherSuiteID), "wire_suite")
	zzsymAssert(zzsymEqBytes(ser.MasterSecret, s.masterSecret), "wire_master_secret")
	zzsymAssert(ser.SequenceNumber == s.sequenceNumber, "wire_sequence_number")
	zzsymAssert(ser.SRTPProtectionProfile == uint16(s.srtpProtectionProfile), "wire_srtp")
	zzsymAssert(zzsymEqBytes(ser.PeerSRTPMKI, s.peerSRTPMKI), "wire_mki")
	zzsymAssert(zzsymEqBytes(ser.LocalConnectionID, s.localConnectionID), "wire_local_cid")
	zzsymAssert(zzsymEqBytes(ser.RemoteConnectionID, s.remoteConnectionID), "wire_remote_cid")
	zzsymAssert(ser.RRCNegotiated == s.rrcNegotiated, "wire_rrc")
	zzsymAssert(ser.IsClient == s.isClient, "wire_role")
	zzsymAssert(zzsymEqStr(ser.NegotiatedProtocol, s.NegotiatedProtocol), "wire_alpn")

	// gob = identity (assumption): the decoder hands deserialize the same struct value
	t := &State{}
	t.deserialize(*ser)

	tlr, trr := t.localRandom.MarshalFixed(), t.remoteRandom.MarshalFixed()
	zzsymAssert(t.version == wantVersion, "rt_version")
	zzsymAssert(t.localEpoch == s.localEpoch, "rt_local_epoch")
	zzsymAssert(t.remoteEpoch == s.remoteEpoch, "rt_remote_epoch")
	zzsymAssert(zzsymEqBytes(tlr[:], lr[:]), "rt_local_random")
	zzsymAssert(zzsymEqBytes(trr[:], rr[:]), "rt_remote_random")
	zzsymAssert(t.localRandom.RandomBytes == s.localRandom.RandomBytes, "rt_local_random_bytes")
	zzsymAssert(t.RemoteRandomBytes() == s.RemoteRandomBytes(), "rt_remote_random_bytes")
	zzsymAssert(zzsymEqBytes(t.masterSecret, s.masterSecret), "rt_master_secret")
	zzsymAssert(t.sequenceNumber == s.sequenceNumber, "rt_sequence_number")
	zzsymAssert(t.srtpProtectionProfile == s.srtpProtectionProfile, "rt_srtp")
	zzsymAssert(zzsymEqBytes(t.peerSRTPMKI, s.peerSRTPMKI), "rt_mki")
	zzsymAssert(zzsymEqBytes(t.localConnectionID, s.localConnectionID), "rt_local_cid")
	zzsymAssert(zzsymEqBytes(t.remoteConnectionID, s.remoteConnectionID), "rt_remote_cid")
	zzsymAssert(t.rrcNegotiated == s.rrcNegotiated, "rt_rrc")
	zzsymAssert(t.isClient == s.isClient, "rt_role")
	zzsymAssert(t.CipherSuiteID == s.CipherSuiteID, "rt_suite")
	zzsymAssert(zzC19EqCerts(t.PeerCertificates, s.PeerCertificates), "rt_peer_certificates")
	zzsymAssert(zzsymEqBytes(t.IdentityHint, s.IdentityHint), "rt_identity_hint")
	zzsymAssert(zzsymEqBytes(t.SessionID, s.SessionID), "rt_session_id")
	zzsymAssert(zzsymEqStr(t.NegotiatedProtocol, s.NegotiatedProtocol), "rt_alpn")
	zzsymCover("rt_ok")
}
