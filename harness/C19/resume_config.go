package dtls

//symgo:pkg github.com/pion/dtls/v3
//symgo:stub the cipher suite of the resume state and nextConn are the harness fakes of resume_seq.go (no call is replaced in this file: it replays natively)
//symgo:outside what the connection does after the start decision (FSM goroutines, network)

import (
	"context"

	dtlsconfig "github.com/pion/dtls/v3/internal/config"
	dtlshandshake "github.com/pion/dtls/v3/internal/handshake"
	dtlsstate "github.com/pion/dtls/v3/internal/state"
	"github.com/pion/dtls/v3/pkg/protocol"
)

// Start decision of a Conn created by Resume (createConn stores the imported DTLS 1.2 state in
// handshakeConfig.ResumeState, min/max version come from the options given to Resume): for either role the
// connection adopts the imported state and enters the handshake FSM in its Finished state, i.e. it resumes the
// session instead of negotiating a new one. Checked for the two version ranges under which a DTLS 1.2 session can
// have been negotiated: DTLS 1.2 only (the default) and DTLS 1.2..1.3 (WithMaxVersion(1.3); the peer chose 1.2).
// With the 1.2..1.3 range the server side must not go and wait for a ClientHello and the client side must not send
// one (the fake network fails every read, so a wait shows up as an error; the adopted state is asserted in any case).
//
//symgo:entry covers=range_12_only,range_12_13,client,server
func zzC19ResumeAdoptsStateForVersionRange() {
	isClient := zzsymChoice("isClient", 2) == 1
	dual := zzsymChoice("range", 2) == 1

	resume := &dtlsstate.State{Common: &dtlsstate.Common{IsClient: isClient, LocalVersion: protocol.Version1_2}}
	resume.CipherSuite = &zzC19SeqSuite{id: TLS_ECDHE_ECDSA_WITH_AES_128_GCM_SHA256, inited: true}
	resume.MasterSecret = zzsymBytes("ms", 48)
	resume.SetLocalEpoch(1)
	resume.SetRemoteEpoch(1)
	resume.LocalSequenceNumber = []uint64{zzsymU64("ctr0"), zzsymU64("ctr1")}

	nw := &zzC19Net{}
	c := zzC19SeqConn(isClient, nw)
	c.handshakeConfig = &dtlsconfig.HandshakeConfig{ResumeState: resume, MinVersion: protocol.Version1_2, MaxVersion: protocol.Version1_2, Log: zzC19Log{}}
	if dual {
		c.handshakeConfig.MaxVersion = protocol.Version1_3
	}
	c.setLocalEpoch(0) // as createConn does
	c.setRemoteEpoch(0)

	start, err := c.prepareHandshakeStart(context.Background())
	adopted := false
	if got, ok := c.state.(*dtlsstate.State); ok {
		adopted = got == resume
	}
	if dual {
		zzsymCover("range_12_13")
		// distinct labels: this is the case the library gets wrong (resume state silently dropped)
		zzsymAssert(adopted, "resume_state_dropped_when_dtls13_enabled")
		zzsymAssert(len(nw.written) == 0, "resume_sends_client_hello_when_dtls13_enabled")
		zzsymAssert(err == nil, "resume_start_fails_when_dtls13_enabled")
		zzsymAssert(start.fsmState == dtlshandshake.StateFinished, "resume_renegotiates_when_dtls13_enabled")
	} else {
		zzsymCover("range_12_only")
		zzsymAssert(err == nil, "resume_start_ok")
		zzsymAssert(adopted, "resume_state_adopted")
		zzsymAssert(start.fsmState == dtlshandshake.StateFinished, "resume_starts_in_finished_state")
		zzsymAssert(len(nw.written) == 0, "resume_sends_nothing")
	}
	zzsymAssert(dtlsstate.CommonState(c.state).LocalEpoch() == 1, "resumed_local_epoch_kept")
	if isClient {
		zzsymCover("client")
	} else {
		zzsymCover("server")
	}
}
