package dtls

//symgo:pkg github.com/pion/dtls/v3
//symgo:param NSUITE quick=17 thorough=17
//symgo:param NEPOCH quick=2 thorough=5
//symgo:param NLEN quick=1 thorough=3
//symgo:param SYMSUITE quick=0 thorough=1
//symgo:replace encoding/gob.NewEncoder zzC19GobNewEncoder
//symgo:replace (*encoding/gob.Encoder).Encode zzC19GobEncode
//symgo:replace encoding/gob.NewDecoder zzC19GobNewDecoder
//symgo:replace (*encoding/gob.Decoder).Decode zzC19GobDecode
//symgo:replace github.com/pion/dtls/v3/pkg/crypto/prf.PHash zzC19PHash
//symgo:replace github.com/pion/dtls/v3/pkg/crypto/ciphersuite.NewGCM zzC19NewGCM
//symgo:replace github.com/pion/dtls/v3/pkg/crypto/ciphersuite.NewCCM zzC19NewCCM
//symgo:replace github.com/pion/dtls/v3/pkg/crypto/ciphersuite.NewCBC zzC19NewCBC
//symgo:replace github.com/pion/dtls/v3/pkg/crypto/ciphersuite.NewChaCha20Poly1305 zzC19NewChaCha
//symgo:assume gob is the identity on serializedState: Encoder.Encode hands the struct value it is given to the next Decoder.Decode unchanged (the byte slice returned by MarshalBinary is therefore empty and ignored)
//symgo:assume a corrupted or truncated byte string either makes gob's Decode return an error or makes it produce SOME serializedState value; entry zzC19DecodedAnything quantifies over both outcomes and over every such value within the stated length bounds
//symgo:assume export point: the connection is established, i.e. a record was already sent in the current local epoch, so LocalSequenceNumber has an entry for it (generateState indexes it without a bounds check)
//symgo:stub encoding/gob (reflection) is replaced by the identity described above
//symgo:stub prf.PHash is an uninterpreted function of (secret, seed, length) and records its arguments: equal keys/exports are proved from equal PRF inputs only
//symgo:stub ciphersuite.NewGCM/NewCCM/NewCBC/NewChaCha20Poly1305 record the key material they are given (local = write side, remote = read side) and return an empty cipher; record protection itself is C05/C10
//symgo:outside encoding/gob: which byte strings decode and to what; live traffic with a real peer after the resume (goroutines, sockets); whether a corruption of a field that does not feed the keys (ALPN, sequence number, ...) is detected - the format has no integrity check, so it is not

import (
	"context"
	"encoding/gob"
	"errors"
	"io"

	"github.com/pion/dtls/v3/internal/ciphersuite"
	dtlsconfig "github.com/pion/dtls/v3/internal/config"
	dtlshandshake "github.com/pion/dtls/v3/internal/handshake"
	dtlsstate "github.com/pion/dtls/v3/internal/state"
	cryptosuite "github.com/pion/dtls/v3/pkg/crypto/ciphersuite"
	"github.com/pion/dtls/v3/pkg/crypto/prf"
	"github.com/pion/dtls/v3/pkg/protocol"
)

// ---------------------------------------------------------------------------------------------
// stubs
// ---------------------------------------------------------------------------------------------

var (
	zzC19Wire      serializedState // the value "on the wire" between Encode and Decode
	zzC19DecodeErr bool            // gob rejects the bytes
	zzC19ErrGob    = errors.New("zzC19 gob: corrupted")
)

func zzC19GobNewEncoder(w io.Writer) *gob.Encoder { return new(gob.Encoder) }
func zzC19GobNewDecoder(r io.Reader) *gob.Decoder { return new(gob.Decoder) }
func zzC19GobEncode(e *gob.Encoder, v any) error {
	zzC19Wire = v.(serializedState)
	return nil
}
func zzC19GobDecode(d *gob.Decoder, v any) error {
	if zzC19DecodeErr {
		return zzC19ErrGob
	}
	*(v.(*serializedState)) = zzC19Wire
	return nil
}

type zzC19PRFCall struct{ secret, seed []byte }

var zzC19PRFCalls []zzC19PRFCall

func zzC19Itoa(n int) string {
	if n == 0 {
		return "0"
	}
	s := ""
	for n > 0 {
		s = string(rune('0'+n%10)) + s
		n /= 10
	}
	return s
}

func zzC19Copy(b []byte) []byte { return append([]byte{}, b...) }

func zzC19PHash(secret, seed []byte, requestedLength int, hashFunc prf.HashFunc) ([]byte, error) {
	zzC19PRFCalls = append(zzC19PRFCalls, zzC19PRFCall{zzC19Copy(secret), zzC19Copy(seed)})
	return zzsymUF("prf_"+zzC19Itoa(requestedLength), requestedLength, secret, seed), nil
}

// zzC19Keys is what a record cipher constructor was given.
type zzC19Keys struct {
	kind                            string
	tagLen                          int
	localKey, localIV, localMac     []byte
	remoteKey, remoteIV, remoteMac  []byte
}

var zzC19Ciphers []zzC19Keys

func zzC19NewGCM(localKey, localWriteIV, remoteKey, remoteWriteIV []byte) (*cryptosuite.GCM, error) {
	zzC19Ciphers = append(zzC19Ciphers, zzC19Keys{kind: "gcm", localKey: zzC19Copy(localKey), localIV: zzC19Copy(localWriteIV),
		remoteKey: zzC19Copy(remoteKey), remoteIV: zzC19Copy(remoteWriteIV)})
	return &cryptosuite.GCM{}, nil
}

func zzC19NewCCM(tagLen cryptosuite.CCMTagLen, localKey, localWriteIV, remoteKey, remoteWriteIV []byte) (*cryptosuite.CCM, error) {
	zzC19Ciphers = append(zzC19Ciphers, zzC19Keys{kind: "ccm", tagLen: int(tagLen), localKey: zzC19Copy(localKey), localIV: zzC19Copy(localWriteIV),
		remoteKey: zzC19Copy(remoteKey), remoteIV: zzC19Copy(remoteWriteIV)})
	return &cryptosuite.CCM{}, nil
}

func zzC19NewChaCha(localKey, localWriteIV, remoteKey, remoteWriteIV []byte) (*cryptosuite.ChaCha20Poly1305, error) {
	zzC19Ciphers = append(zzC19Ciphers, zzC19Keys{kind: "chacha", localKey: zzC19Copy(localKey), localIV: zzC19Copy(localWriteIV),
		remoteKey: zzC19Copy(remoteKey), remoteIV: zzC19Copy(remoteWriteIV)})
	return &cryptosuite.ChaCha20Poly1305{}, nil
}

func zzC19NewCBC(localKey, localWriteIV, localMac, remoteKey, remoteWriteIV, remoteMac []byte, h prf.HashFunc) (*cryptosuite.CBC, error) {
	zzC19Ciphers = append(zzC19Ciphers, zzC19Keys{kind: "cbc", localKey: zzC19Copy(localKey), localIV: zzC19Copy(localWriteIV), localMac: zzC19Copy(localMac),
		remoteKey: zzC19Copy(remoteKey), remoteIV: zzC19Copy(remoteWriteIV), remoteMac: zzC19Copy(remoteMac)})
	return &cryptosuite.CBC{}, nil
}

func zzC19SameKeys(a, b zzC19Keys) bool {
	ok := zzsymAnd(a.kind == b.kind, a.tagLen == b.tagLen)
	ok = zzsymAnd(ok, zzsymEqBytes(a.localKey, b.localKey))
	ok = zzsymAnd(ok, zzsymEqBytes(a.localIV, b.localIV))
	ok = zzsymAnd(ok, zzsymEqBytes(a.localMac, b.localMac))
	ok = zzsymAnd(ok, zzsymEqBytes(a.remoteKey, b.remoteKey))
	ok = zzsymAnd(ok, zzsymEqBytes(a.remoteIV, b.remoteIV))
	ok = zzsymAnd(ok, zzsymEqBytes(a.remoteMac, b.remoteMac))
	return ok
}

func zzC19Reset() {
	zzC19Wire = serializedState{}
	zzC19DecodeErr = false
	zzC19PRFCalls = nil
	zzC19Ciphers = nil
}

// All DTLS 1.2 suites of ciphersuite.ForID; one of each record-cipher family first (quick tier takes the first 4).
var zzC19Suites12 = []CipherSuiteID{
	TLS_ECDHE_ECDSA_WITH_AES_128_GCM_SHA256,
	TLS_ECDHE_ECDSA_WITH_AES_128_CCM,
	TLS_ECDHE_ECDSA_WITH_AES_256_CBC_SHA,
	TLS_ECDHE_ECDSA_WITH_CHACHA20_POLY1305_SHA256,
	TLS_PSK_WITH_AES_128_CCM_8,
	TLS_PSK_WITH_AES_128_CBC_SHA256,
	TLS_ECDHE_RSA_WITH_AES_256_GCM_SHA384,
	TLS_ECDHE_PSK_WITH_AES_128_CBC_SHA256,
	TLS_ECDHE_RSA_WITH_AES_128_GCM_SHA256,
	TLS_ECDHE_ECDSA_WITH_AES_256_GCM_SHA384,
	TLS_ECDHE_RSA_WITH_AES_256_CBC_SHA,
	TLS_ECDHE_ECDSA_WITH_AES_128_CCM_8,
	TLS_PSK_WITH_AES_128_CCM,
	TLS_PSK_WITH_AES_256_CCM_8,
	TLS_PSK_WITH_AES_128_GCM_SHA256,
	TLS_ECDHE_RSA_WITH_CHACHA20_POLY1305_SHA256,
	TLS_PSK_WITH_CHACHA20_POLY1305_SHA256,
}

func zzC19Random(name string) (r [32]byte) {
	copy(r[:], zzsymBytes(name, 32))
	return r
}

// ---------------------------------------------------------------------------------------------
// entries
// ---------------------------------------------------------------------------------------------

// Export then import of an established DTLS 1.2 connection state, through the real ConnectionState, MarshalBinary,
// UnmarshalBinary, generateInternalState and the resume branch of prepareHandshakeStart (gob = identity): the
// resumed connection's internal state has the same local/remote epoch, the same two randoms, master secret, both
// connection IDs, SRTP profile and peer MKI (as reported by the Conn accessors), ALPN protocol, role, RRC flag,
// peer certificates, identity hint, session id and cipher suite id, speaks DTLS 1.2, starts in the Finished
// handshake state (no new handshake), has an initialised cipher suite, and its next record sequence number in the
// local epoch is exactly the exporter's next unused number. ExportKeyingMaterial of the state taken from the resumed
// connection equals that of the exported state (PRF = uninterpreted function). Inputs: both roles, NSUITE cipher
// suites, local epoch 1..2, arbitrary remote epoch, counters, secrets, randoms, SRTP profile, RRC flag; CIDs, MKI,
// ALPN, hint, session id of length 0..2, 0..2 certificates.
//
//symgo:entry covers=client,server,srtp_on,srtp_off,cid_wrap,cid_none,ekm_equal
func zzC19ExportImportPreserves() {
	zzC19Reset()
	isClient := zzsymChoice("isClient", 2) == 1
	id := zzC19Suites12[zzsymChoice("suite", zzsymParam("NSUITE"))]
	base := zzsymChoice("len", 3)
	ln := func(k int) int { return (base + k) % 3 }
	lepoch := uint16(1 + zzsymChoice("lepoch", 2))

	st := &dtlsstate.State{Common: &dtlsstate.Common{IsClient: isClient, LocalVersion: protocol.Version1_2}}
	st.CipherSuite = ciphersuite.ForID(id, nil)
	lr, rr := zzC19Random("lrand"), zzC19Random("rrand")
	st.LocalRandom.UnmarshalFixed(lr)
	st.RemoteRandom.UnmarshalFixed(rr)
	st.MasterSecret = zzsymBytes("ms", 48)
	st.SetLocalEpoch(lepoch)
	st.SetRemoteEpoch(zzsymU16("repoch"))
	for e := 0; e <= int(lepoch); e++ {
		st.LocalSequenceNumber = append(st.LocalSequenceNumber, zzsymU64("ctr"))
	}
	st.SetSRTPProtectionProfile(SRTPProtectionProfile(zzsymU16("srtp")))
	st.RemoteSRTPMasterKeyIdentifier = zzsymBytes("mki", ln(0))
	st.SetLocalConnectionID(zzsymBytes("lcid", ln(1)))
	st.RemoteConnectionID = zzsymBytes("rcid", ln(2))
	st.RRCNegotiated = zzsymBool("rrc")
	st.NegotiatedProtocol = zzsymString("alpn", ln(3))
	st.IdentityHint = zzsymBytes("hint", ln(4))
	st.SessionID = zzsymBytes("sid", ln(5))
	for i := 0; i < ln(6); i++ {
		st.PeerCertificates = append(st.PeerCertificates, zzsymBytes("cert", 1+i))
	}
	nextSeq := st.LocalSequenceNumber[lepoch]

	// export
	c1 := &Conn{state: st}
	s1, ok := c1.ConnectionState()
	zzsymAssert(ok, "export_ok")
	raw, err := s1.MarshalBinary()
	zzsymAssert(err == nil, "marshal_ok")

	// import
	var s2 State
	zzsymAssert(s2.UnmarshalBinary(raw) == nil, "unmarshal_ok")
	st2, err := s2.generateInternalState()
	zzsymAssert(err == nil, "import_ok")
	c2 := &Conn{
		state:           dtlsstate.NewActive(st2.IsClient),
		handshakeConfig: &dtlsconfig.HandshakeConfig{ResumeState: st2, MinVersion: protocol.Version1_2, MaxVersion: protocol.Version1_2},
	}
	c2.setLocalEpoch(0) // as createConn does
	c2.setRemoteEpoch(0)
	start, err := c2.prepareHandshakeStart(context.Background())
	zzsymAssert(err == nil, "resume_start_ok")
	zzsymAssert(start.fsmState == dtlshandshake.StateFinished, "resume_starts_in_finished_state")
	r, err := dtlsstate.As12(c2.state)
	zzsymAssert(err == nil, "resumed_state_is_12")

	zzsymAssert(r.LocalVersion == protocol.Version1_2, "resumed_version_12")
	zzsymAssert(r.IsClient == isClient, "resumed_role")
	zzsymAssert(r.LocalEpoch() == lepoch, "resumed_local_epoch")
	zzsymAssert(r.RemoteEpoch() == st.RemoteEpoch(), "resumed_remote_epoch")
	lr2, rr2 := r.LocalRandom.MarshalFixed(), r.RemoteRandom.MarshalFixed()
	zzsymAssert(zzsymEqBytes(lr2[:], lr[:]), "resumed_local_random")
	zzsymAssert(zzsymEqBytes(rr2[:], rr[:]), "resumed_remote_random")
	zzsymAssert(zzsymEqBytes(r.MasterSecret, st.MasterSecret), "resumed_master_secret")
	zzsymAssert(zzsymEqBytes(r.LocalConnectionID(), st.LocalConnectionID()), "resumed_local_cid")
	zzsymAssert(zzsymEqBytes(r.RemoteConnectionID, st.RemoteConnectionID), "resumed_remote_cid")
	zzsymAssert(c2.state.ShouldWrapConnectionID() == c1.state.ShouldWrapConnectionID(), "resumed_cid_wrapping")
	zzsymAssert(r.RRCNegotiated == st.RRCNegotiated, "resumed_rrc")
	zzsymAssert(zzsymEqStr(r.NegotiatedProtocol, st.NegotiatedProtocol), "resumed_alpn")
	zzsymAssert(zzsymEqBytes(r.IdentityHint, st.IdentityHint), "resumed_identity_hint")
	zzsymAssert(zzsymEqBytes(r.SessionID, st.SessionID), "resumed_session_id")
	zzsymAssert(zzC19EqCerts(r.PeerCertificates, st.PeerCertificates), "resumed_peer_certificates")
	zzsymAssert(r.CipherSuite != nil, "resumed_suite_set")
	zzsymAssert(r.CipherSuite.ID() == id, "resumed_suite_id")
	zzsymAssert(r.CipherSuite.IsInitialized(), "resumed_suite_initialised")

	// negotiated SRTP parameters as the application sees them
	p1, pok1 := c1.SelectedSRTPProtectionProfile()
	p2, pok2 := c2.SelectedSRTPProtectionProfile()
	zzsymAssert(zzsymAnd(pok1 == pok2, p1 == p2), "resumed_srtp_profile")
	m1, mok1 := c1.RemoteSRTPMasterKeyIdentifier()
	m2, mok2 := c2.RemoteSRTPMasterKeyIdentifier()
	zzsymAssert(zzsymAnd(mok1 == mok2, zzsymEqBytes(m1, m2)), "resumed_srtp_mki")
	if pok1 {
		zzsymCover("srtp_on")
	} else {
		zzsymCover("srtp_off")
	}

	// next record number
	zzsymAssert(len(r.LocalSequenceNumber) > int(lepoch), "resumed_counter_exists")
	zzsymAssert(r.LocalSequenceNumber[lepoch] == nextSeq, "resumed_next_sequence_number")

	// exporter
	s3, ok := c2.ConnectionState()
	zzsymAssert(ok, "reexport_ok")
	e1, err1 := s1.ExportKeyingMaterial("EXTRACTOR-dtls_srtp", nil, 8)
	e3, err3 := s3.ExportKeyingMaterial("EXTRACTOR-dtls_srtp", nil, 8)
	zzsymAssert(zzsymAnd(err1 == nil, err3 == nil), "ekm_ok")
	zzsymAssert(zzsymEqBytes(e1, e3), "resumed_ekm_equal")
	zzsymCover("ekm_equal")

	if isClient {
		zzsymCover("client")
	} else {
		zzsymCover("server")
	}
	if c2.state.ShouldWrapConnectionID() {
		zzsymCover("cid_wrap")
	} else {
		zzsymCover("cid_none")
	}
}

// Key ordering after import equals the one before export. "Before export" is what the handshake did (flight4 /
// flight5 handlers): suite.Init(master_secret, client_random, server_random, isClient) with client_random the
// ClientHello random, i.e. the local random on a client and the remote random on a server. After import the suite is
// initialised by generateInternalState (-> State12.InitCipherSuite) and by UnmarshalBinary (-> initializedCipherSuite).
// For both, the record cipher constructor receives exactly the same local(write)/remote(read) key, IV and MAC key as
// before export, and every PRF call is PRF(master_secret, "key expansion" || server_random || client_random)
// (RFC 5246 section 6.3). Inputs: both roles, NSUITE suites, arbitrary master secret and randoms.
//
//symgo:entry covers=client,server,gcm,ccm,cbc,chacha
func zzC19InitOrderingAfterImport() {
	zzC19Reset()
	isClient := zzsymChoice("isClient", 2) == 1
	id := zzC19Suites12[zzsymChoice("suite", zzsymParam("NSUITE"))]
	ms := zzsymBytes("ms", 48)
	lr, rr := zzC19Random("lrand"), zzC19Random("rrand")
	cr, sr := lr, rr
	if !isClient {
		cr, sr = rr, lr
	}

	// before export
	ref := ciphersuite.ForID(id, nil)
	zzsymAssert(ref.Init(ms, cr[:], sr[:], isClient) == nil, "handshake_init_ok")
	zzsymAssert(len(zzC19Ciphers) == 1, "handshake_init_one_cipher")

	// after import
	s := &State{localEpoch: 1, remoteEpoch: 1, masterSecret: ms, isClient: isClient, version: protocol.Version1_2, CipherSuiteID: id}
	s.localRandom.UnmarshalFixed(lr)
	s.remoteRandom.UnmarshalFixed(rr)
	st, err := s.generateInternalState()
	zzsymAssert(err == nil, "import_ok")
	zzsymAssert(st.CipherSuite.IsInitialized(), "import_initialises_suite")
	zzsymAssert(len(zzC19Ciphers) == 2, "import_one_cipher")
	zzsymAssert(zzC19SameKeys(zzC19Ciphers[0], zzC19Ciphers[1]), "import_keys_same_order_as_handshake")

	suite, err := s.initializedCipherSuite()
	zzsymAssert(err == nil, "unmarshal_init_ok")
	zzsymAssert(suite.IsInitialized(), "unmarshal_initialises_suite")
	zzsymAssert(len(zzC19Ciphers) == 3, "unmarshal_one_cipher")
	zzsymAssert(zzC19SameKeys(zzC19Ciphers[0], zzC19Ciphers[2]), "unmarshal_keys_same_order_as_handshake")

	want := append(append([]byte("key expansion"), sr[:]...), cr[:]...)
	zzsymAssert(len(zzC19PRFCalls) == 3, "three_key_expansions")
	for _, call := range zzC19PRFCalls {
		zzsymAssert(zzsymEqBytes(call.secret, ms), "key_expansion_keyed_with_master_secret")
		zzsymAssert(zzsymEqBytes(call.seed, want), "key_expansion_seed_is_label_sr_cr")
	}
	zzsymCover(zzC19Ciphers[0].kind)
	if isClient {
		zzsymCover("client")
	} else {
		zzsymCover("server")
	}
}

// Whatever gob's decoder does with truncated or corrupted bytes - return an error, or produce ANY serializedState
// value - UnmarshalBinary and a following generateInternalState never panic; a decoder error is returned to the
// caller; a decoded value tagged DTLS 1.3 is refused with ErrStateSerializationUnsupported; an unknown or unset
// cipher suite id is refused by both; and whenever the import succeeds the resulting state has a cipher suite
// whose id is the decoded one. Inputs: every 16-bit cipher suite id (SYMSUITE=1, thorough tier; the quick tier
// takes id 0, an unassigned id, the DTLS 1.3 id 0x1301 and NSUITE DTLS 1.2 ids), every version tag, local epoch
// 0..NEPOCH-1 or 65535, both roles, arbitrary remaining scalars, master secret of 0, 24 or 48 bytes, other byte
// fields of length 0..2 (NLEN length combinations).
//
//symgo:entry covers=decode_error,v13_refused,unknown_suite_refused,import_ok,import_tls13_suite paths=20000
func zzC19DecodedAnything() {
	zzC19Reset()
	base := zzsymChoice("len", zzsymParam("NLEN"))
	ln := func(k int) int { return (base + k) % 3 }
	w := serializedState{
		RemoteEpoch:           zzsymU16("repoch"),
		LocalRandom:           zzC19Random("lrand"),
		RemoteRandom:          zzC19Random("rrand"),
		MasterSecret:          zzsymBytes("ms", 24*ln(0)),
		SequenceNumber:        zzsymU64("seq"),
		SRTPProtectionProfile: zzsymU16("srtp"),
		PeerSRTPMKI:           zzsymBytes("mki", ln(1)),
		IdentityHint:          zzsymBytes("hint", ln(2)),
		SessionID:             zzsymBytes("sid", ln(3)),
		LocalConnectionID:     zzsymBytes("lcid", ln(4)),
		RemoteConnectionID:    zzsymBytes("rcid", ln(5)),
		RRCNegotiated:         zzsymBool("rrc"),
		IsClient:              zzsymBool("isclient"),
		NegotiatedProtocol:    zzsymString("alpn", ln(6)),
	}
	for i := 0; i < ln(7); i++ {
		w.PeerCertificates = append(w.PeerCertificates, zzsymBytes("cert", i))
	}
	if zzsymParam("SYMSUITE") == 1 {
		w.CipherSuiteID = zzsymU16("suite")
	} else {
		ns := zzsymParam("NSUITE")
		switch k := zzsymChoice("suite", ns+3); k {
		case ns:
			w.CipherSuiteID = 0 // unset
		case ns + 1:
			w.CipherSuiteID = 0x1234 // unassigned
		case ns + 2:
			w.CipherSuiteID = 0x1301 // a DTLS 1.3 suite
		default:
			w.CipherSuiteID = uint16(zzC19Suites12[k])
		}
	}
	ne := zzsymParam("NEPOCH")
	if e := zzsymChoice("lepoch", ne+1); e == ne {
		w.LocalEpoch = 65535
	} else {
		w.LocalEpoch = uint16(e)
	}
	switch zzsymChoice("version", 3) {
	case 0:
		w.Version = protocol.Version1_2
	case 1:
		w.Version = protocol.Version1_3
	case 2:
		w.Version = protocol.Version{Major: zzsymU8("vmaj"), Minor: zzsymU8("vmin")}
	}
	zzC19Wire = w
	zzC19DecodeErr = zzsymChoice("decode_err", 2) == 1

	var s State
	err := s.UnmarshalBinary(nil)
	if zzC19DecodeErr {
		zzsymAssert(err != nil, "decode_error_returned")
		zzsymCover("decode_error")
		return
	}
	if w.Version.Equal(protocol.Version1_3) {
		zzsymAssert(errors.Is(err, ErrStateSerializationUnsupported), "v13_import_refused")
		zzsymCover("v13_refused")
		return
	}
	// the suites this library implements (17 for DTLS 1.2, 3 for DTLS 1.3), written out independently of ForID
	known := zzsymOr(w.CipherSuiteID == 0x1301, zzsymOr(w.CipherSuiteID == 0x1302, w.CipherSuiteID == 0x1303))
	for _, id := range zzC19Suites12 {
		known = zzsymOr(known, w.CipherSuiteID == uint16(id))
	}
	if !known {
		zzsymAssert(err != nil, "unknown_suite_unmarshal_refused")
	}
	st, ierr := s.generateInternalState()
	if !known {
		zzsymAssert(ierr != nil, "unknown_suite_import_refused")
		zzsymCover("unknown_suite_refused")
		return
	}
	if ierr != nil {
		return
	}
	zzsymAssert(st.CipherSuite != nil, "imported_suite_set")
	zzsymAssert(uint16(st.CipherSuite.ID()) == w.CipherSuiteID, "imported_suite_id")
	zzsymAssert(len(st.LocalSequenceNumber) > int(w.LocalEpoch), "imported_counter_exists")
	zzsymCover("import_ok")
	if !ciphersuite.IDSupportsVersion(st.CipherSuite.ID(), protocol.Version1_2) {
		zzsymCover("import_tls13_suite")
	}
}

// DTLS 1.3 state is refused at every step: generateState on an internal 1.2-typed state whose version is 1.3,
// MarshalBinary of the State that ConnectionState returns for a DTLS 1.3 connection, generateInternalState (the
// entry of Resume) on a State tagged 1.3, and UnmarshalBinary of a decoded value tagged 1.3 - each fails with
// ErrStateSerializationUnsupported and none panics. Both roles.
//
//symgo:entry covers=all_refused
func zzC19Refuse13() {
	zzC19Reset()
	isClient := zzsymChoice("isClient", 2) == 1

	st12 := &dtlsstate.State{Common: &dtlsstate.Common{IsClient: isClient, LocalVersion: protocol.Version1_3}}
	st12.CipherSuite = ciphersuite.ForID(TLS_ECDHE_ECDSA_WITH_AES_128_GCM_SHA256, nil)
	st12.LocalSequenceNumber = []uint64{0, 0}
	_, err := generateState(st12)
	zzsymAssert(errors.Is(err, ErrStateSerializationUnsupported), "generate_state_refuses_13")

	st13 := &dtlsstate.State13{Common: &dtlsstate.Common{IsClient: isClient, LocalVersion: protocol.Version1_3}}
	st13.CipherSuite = ciphersuite.ForID(TLS_AES_128_GCM_SHA256, nil)
	st13.SetLocalEpoch(3)
	st13.LocalSequenceNumber = []uint64{1, 0, 1, zzsymU64("ctr")}
	st13.KeySchedule.ExporterMasterSecret = zzsymBytes("ems", 32)
	c := &Conn{state: st13}
	s, ok := c.ConnectionState()
	zzsymAssert(ok, "connection_state_13_ok")
	_, err = s.MarshalBinary()
	zzsymAssert(errors.Is(err, ErrStateSerializationUnsupported), "marshal_refuses_13")
	_, err = s.generateInternalState()
	zzsymAssert(errors.Is(err, ErrStateSerializationUnsupported), "resume_refuses_13")

	w13 := serializedState{Version: protocol.Version1_3, CipherSuiteID: uint16(TLS_AES_128_GCM_SHA256), LocalEpoch: 3}
	zzC19Wire = w13 // (built in a local first: the engine mishandles a composite literal stored straight into a global)
	var t State
	zzsymAssert(errors.Is(t.UnmarshalBinary(nil), ErrStateSerializationUnsupported), "unmarshal_refuses_13")
	zzsymCover("all_refused")
}
