package dtls

//symgo:pkg github.com/pion/dtls/v3
//symgo:param NCID quick=2 thorough=4
//symgo:param NPAY quick=2 thorough=5
//symgo:stub DTLS 1.2 CipherSuite is a harness fake whose Encrypt is the identity (so the record that would be encrypted can be parsed from the wire) and which records the header handed to it
//symgo:stub DTLS 1.3 RecordProtection13 is a harness fake whose Seal returns header + plaintext || type || zero padding to 16 bytes and records the content type handed to it
//symgo:stub the transport (netctx.PacketConn) is a harness fake that records every datagram and its destination
//symgo:assume the connection-ID decision is the one committed by CommitNegotiatedExtensions (the real commit code runs in the harness); DTLS 1.3 NewConnectionID updates are not implemented in this tree
//symgo:outside handshake flights other than Finished (they are sent before record protection starts); real ciphers

import (
	"context"
	"hash"
	"io"
	"net"

	"github.com/pion/dtls/v3/internal/ciphersuite/types"
	"github.com/pion/dtls/v3/internal/closer"
	dtlsflight "github.com/pion/dtls/v3/internal/flight"
	dtlshandshake "github.com/pion/dtls/v3/internal/handshake"
	"github.com/pion/dtls/v3/internal/negotiation"
	dtlsstate "github.com/pion/dtls/v3/internal/state"
	"github.com/pion/dtls/v3/pkg/crypto/clientcertificate"
	"github.com/pion/dtls/v3/pkg/protocol"
	"github.com/pion/dtls/v3/pkg/protocol/alert"
	"github.com/pion/dtls/v3/pkg/protocol/handshake"
	"github.com/pion/dtls/v3/pkg/protocol/recordlayer"
)

// ---------------------------------------------------------------- fakes

// the handshake is complete in every scenario of this file (Establishment can only be marked from inside its package)
func zzEstablished(e *dtlshandshake.Establishment) bool { return true }

//symgo:replace (*github.com/pion/dtls/v3/internal/handshake.Establishment).Established zzEstablished

type zzTxSuite struct{ encrypts int }

func (s *zzTxSuite) String() string                          { return "zzTx" }
func (s *zzTxSuite) ID() CipherSuiteID                       { return TLS_ECDHE_ECDSA_WITH_AES_128_GCM_SHA256 }
func (s *zzTxSuite) CertificateType() clientcertificate.Type { return clientcertificate.ECDSASign }
func (s *zzTxSuite) HashFunc() func() hash.Hash              { return nil }
func (s *zzTxSuite) AuthenticationType() types.AuthenticationType {
	return types.AuthenticationTypeCertificate
}
func (s *zzTxSuite) KeyExchangeAlgorithm() types.KeyExchangeAlgorithm {
	return types.KeyExchangeAlgorithmEcdhe
}
func (s *zzTxSuite) ECC() bool                                   { return true }
func (s *zzTxSuite) Init(ms, cr, sr []byte, isClient bool) error { return nil }
func (s *zzTxSuite) IsInitialized() bool                         { return true }
func (s *zzTxSuite) Decrypt(h recordlayer.Header, in []byte) ([]byte, error) {
	return in, nil
}
func (s *zzTxSuite) Encrypt(pkt *recordlayer.RecordLayer, raw []byte) ([]byte, error) {
	s.encrypts++
	return raw, nil
}

type zzTxProt13 struct {
	seals    int
	lastType protocol.ContentType
	lastSeq  uint64
	openOK   bool // verdict of Open (receive side, used by switch.go)
}

func (p *zzTxProt13) Seal(h recordlayer.UnifiedHeader, seq uint64, ct protocol.ContentType, pt []byte) (recordlayer.CiphertextRecord13, error) {
	p.seals++
	p.lastType, p.lastSeq = ct, seq
	enc := append(append([]byte{}, pt...), byte(ct))
	for len(enc) < 16 {
		enc = append(enc, 0)
	}
	return recordlayer.CiphertextRecord13{Header: h, EncryptedRecord: enc}, nil
}

// Open is the inverse of Seal when the verdict flag is set: content || type || zeros.
func (p *zzTxProt13) Open(h recordlayer.UnifiedHeader, seq uint64, enc []byte) (recordlayer.InnerPlaintext, error) {
	if !p.openOK {
		return recordlayer.InnerPlaintext{}, io.ErrUnexpectedEOF
	}
	var ip recordlayer.InnerPlaintext
	if err := ip.Unmarshal(enc); err != nil {
		return recordlayer.InnerPlaintext{}, err
	}
	return ip, nil
}
func (p *zzTxProt13) UnmaskSequenceNumber(h recordlayer.UnifiedHeader, enc []byte) (recordlayer.UnifiedHeader, error) {
	return h, nil
}

type zzTxWrite struct {
	data []byte
	to   net.Addr
}

type zzTxPC struct{ writes []zzTxWrite }

func (p *zzTxPC) ReadFromContext(context.Context, []byte) (int, net.Addr, error) {
	return 0, nil, io.EOF
}
func (p *zzTxPC) WriteToContext(_ context.Context, b []byte, to net.Addr) (int, error) {
	p.writes = append(p.writes, zzTxWrite{data: append([]byte{}, b...), to: to})
	return len(b), nil
}
func (p *zzTxPC) Close() error         { return nil }
func (p *zzTxPC) LocalAddr() net.Addr  { return nil }
func (p *zzTxPC) Conn() net.PacketConn { return nil }

type zzTxLogger struct{}

func (zzTxLogger) Trace(string)          {}
func (zzTxLogger) Tracef(string, ...any) {}
func (zzTxLogger) Debug(string)          {}
func (zzTxLogger) Debugf(string, ...any) {}
func (zzTxLogger) Info(string)           {}
func (zzTxLogger) Infof(string, ...any)  {}
func (zzTxLogger) Warn(string)           {}
func (zzTxLogger) Warnf(string, ...any)  {}
func (zzTxLogger) Error(string)          {}
func (zzTxLogger) Errorf(string, ...any) {}

// zzTxConn builds an established connection (epoch 1 in both directions for DTLS 1.2, epoch 3 for 1.3) on
// which the CID decision (client CID length ncl, server CID length nsv, contents symbolic) has been
// committed by the real commit code. It returns the CID the peer asked us to put on records.
func zzTxConn(v13, isClient bool, ncl, nsv int, rrc bool) (*Conn, *zzTxPC, *zzTxSuite, *zzTxProt13, []byte) {
	pc, suite, prot := &zzTxPC{}, &zzTxSuite{}, &zzTxProt13{}
	c := &Conn{
		state:                   dtlsstate.NewActive(isClient),
		nextConn:                pc,
		handshakeCache:          dtlsflight.NewCache(),
		log:                     zzTxLogger{},
		closed:                  closer.NewCloser(),
		handshakeEstablished:    dtlshandshake.NewEstablishment(),
		maximumTransmissionUnit: 1200,
		paddingLengthGenerator:  func(uint) uint { return 0 },
		rAddr:                   &net.UDPAddr{Port: 1},
	}
	decision := &negotiation.ConnectionID{
		ClientCID:              zzsymBytes("client_cid", ncl),
		ServerCID:              zzsymBytes("server_cid", nsv),
		ReturnRoutabilityCheck: rrc,
	}
	peerCID := decision.ClientCID // what the peer wants to see on records we send
	if isClient {
		peerCID = decision.ServerCID
	}
	peerCID = append([]byte{}, peerCID...)
	common := dtlsstate.CommonState(c.state)
	common.CipherSuite = suite
	if v13 {
		st := dtlsstate.Activate13(c.state)
		c.state = st
		common.LocalVersion = protocol.Version1_3
		st.CommitNegotiatedExtensions(decision)
		st.TrafficKeys.Install(&dtlsstate.TrafficGeneration{Epoch: 3, Protection: prot}, nil)
		common.SetLocalEpoch(3)
		common.SetRemoteEpoch(3)
	} else {
		common.LocalVersion = protocol.Version1_2
		common.CommitNegotiatedExtensions(decision)
		common.SetLocalEpoch(1)
		common.SetRemoteEpoch(1)
	}
	return c, pc, suite, prot, peerCID
}

// zzCheckLegacyCIDRecord checks one DTLS 1.2 record against the RFC 9146 section 4 layout
//
//	tls12_cid(25) | version(2) | epoch(2) | seq(6) | cid | length(2) | content | real_type | zeros
//
// when the peer asked for a non-empty CID, and against the plain RFC 6347 layout otherwise.
func zzCheckLegacyCIDRecord(raw, peerCID []byte, realType protocol.ContentType, content []byte, epoch uint16) {
	n := len(peerCID)
	if n == 0 {
		zzsymAssert(len(raw) == 13+len(content), "plain_record_length")
		zzsymAssert(raw[0] == byte(realType), "plain_record_type")
		zzsymAssert(zzsymEqBytes(raw[13:], content), "plain_record_content")
		zzsymCover("tx_no_cid")
		return
	}
	zzsymAssert(len(raw) >= 13+n+len(content)+1, "cid_record_length")
	zzsymAssert(raw[0] == 25, "outer_type_is_tls12_cid")
	zzsymAssert(raw[1] == 0xfe && raw[2] == 0xfd, "record_version")
	zzsymAssert(uint16(raw[3])<<8|uint16(raw[4]) == epoch, "record_epoch")
	zzsymAssert(zzsymEqBytes(raw[11:11+n], peerCID), "record_carries_peer_cid")
	l := int(raw[11+n])<<8 | int(raw[12+n])
	zzsymAssert(l == len(raw)-13-n, "length_field_covers_inner_plaintext")
	inner := raw[13+n:]
	zzsymAssert(zzsymEqBytes(inner[:len(content)], content), "inner_content")
	zzsymAssert(inner[len(content)] == byte(realType), "inner_real_type")
	for _, z := range inner[len(content)+1:] {
		zzsymAssert(z == 0, "inner_padding_is_zero")
	}
	zzsymCover("tx_cid")
}

// ---------------------------------------------------------------- DTLS 1.2

// DTLS 1.2 send path after connection IDs were negotiated: both roles, every pair of client/server CID
// lengths 0..NCID (contents symbolic), RRC negotiated or not, and every kind of protected record the
// connection emits: application data (Conn.newApplicationDataPacket), alert (Conn.notify), Finished
// (processHandshakePacket as built by flights 5/5b/6), return-routability message (WriteRRC, only when
// negotiated). Proved: exactly one record reaches the wire per call, it goes to the current peer address,
// it is passed through the cipher, and its layout is RFC 9146 section 4 with the CID the peer supplied
// (the other side's CID, not our own), the real content type as inner type and zero padding; when the peer
// supplied an empty CID the plain 13-byte header is used.
//
//symgo:entry covers=tx_cid,tx_no_cid,kind_appdata,kind_alert,kind_finished,kind_rrc,rrc_refused_not_negotiated
func zzCidTx12() {
	isClient := zzsymChoice("is_client", 2) == 1
	ncl := zzsymChoice("client_cid_len", zzsymParam("NCID")+1)
	nsv := zzsymChoice("server_cid_len", zzsymParam("NCID")+1)
	rrcNeg := zzsymChoice("rrc", 2) == 1
	c, pc, suite, _, peerCID := zzTxConn(false, isClient, ncl, nsv, rrcNeg)
	ctx := context.Background()
	kind := zzsymChoice("kind", 4)
	var content []byte
	var realType protocol.ContentType
	switch kind {
	case 0:
		pay := zzsymBytes("pay", zzsymChoice("paylen", zzsymParam("NPAY")+1))
		err := c.writeApplicationData(ctx, []*dtlsflight.Packet{c.newApplicationDataPacket(pay)}) // what Conn.Write does
		zzsymAssert(err == nil, "write_ok")
		content, realType = pay, protocol.ContentTypeApplicationData
		zzsymCover("kind_appdata")
	case 1:
		lvl, desc := zzsymU8("alert_level"), zzsymU8("alert_desc")
		zzsymAssume(lvl != byte(alert.Fatal)) // fatal alerts additionally touch the session store (C14)
		err := c.notify(ctx, alert.Level(lvl), alert.Description(desc))
		zzsymAssert(err == nil, "write_ok")
		content, realType = []byte{lvl, desc}, protocol.ContentTypeAlert
		zzsymCover("kind_alert")
	case 2:
		vd := zzsymBytes("verify", 12)
		hs := &handshake.Handshake{Message: &handshake.MessageFinished{VerifyData: vd}}
		hs.Header.MessageSequence = zzsymU16("msgseq")
		pkt := &dtlsflight.Packet{
			Record: &recordlayer.RecordLayer{
				Header:  recordlayer.Header{Version: protocol.Version1_2, Epoch: 1},
				Content: hs,
			},
			ShouldWrapCID: c.state.ShouldWrapConnectionID(),
			ShouldEncrypt: true,
		}
		err := c.writePackets(ctx, []*dtlsflight.Packet{pkt})
		zzsymAssert(err == nil, "write_ok")
		// RFC 6347 4.2.2 handshake header: type 20, length 12, seq, fragment offset 0, fragment length 12
		ms := hs.Header.MessageSequence
		content = append([]byte{20, 0, 0, 12, byte(ms >> 8), byte(ms), 0, 0, 0, 0, 0, 12}, vd...)
		realType = protocol.ContentTypeHandshake
		zzsymCover("kind_finished")
	case 3:
		cookie := zzTxCookie()
		mt := zzsymU8("rrc_type")
		err := returnRoutabilityConn{conn: c}.WriteRRC(ctx, c.rAddr, protocol.ReturnRoutabilityCheckMessageType(mt), cookie)
		if !rrcNeg {
			zzsymAssert(err != nil, "rrc_not_sent_unless_negotiated")
			zzsymAssert(len(pc.writes) == 0, "rrc_not_sent_unless_negotiated_wire")
			zzsymCover("rrc_refused_not_negotiated")
			return
		}
		zzsymAssert(err == nil, "write_ok")
		content, realType = append([]byte{mt}, cookie[:]...), protocol.ContentTypeReturnRoutabilityCheck
		zzsymCover("kind_rrc")
	}
	zzsymAssert(len(pc.writes) == 1, "one_datagram")
	zzsymAssert(pc.writes[0].to == c.rAddr, "sent_to_current_peer_address")
	zzsymAssert(suite.encrypts == 1, "record_was_protected")
	zzCheckLegacyCIDRecord(pc.writes[0].data, peerCID, realType, content, 1)
}

func zzTxCookie() [protocol.ReturnRoutabilityCheckCookieLength]byte {
	var c [protocol.ReturnRoutabilityCheckCookieLength]byte
	copy(c[:], zzsymBytes("cookie", len(c)))
	return c
}

// ---------------------------------------------------------------- DTLS 1.3

// DTLS 1.3 send path (sealRecordContent) after connection IDs were negotiated: both roles, every pair of CID
// lengths 0..NCID, record kinds application data, alert, ACK-less handshake fragment (Finished body) and
// return-routability message. Proved: the unified header (RFC 9147 section 4) of every protected record
// has the C bit set and carries exactly the peer's CID right after the first byte iff the peer supplied a
// non-empty CID, the 16-bit sequence and length fields are present, the low epoch bits are those of the
// sending epoch, and the content type handed to the AEAD as inner type is the real type of the content.
//
//symgo:entry covers=tx13_cid,tx13_no_cid,kind13_appdata,kind13_alert,kind13_handshake,kind13_rrc
func zzCidTx13() {
	isClient := zzsymChoice("is_client", 2) == 1
	ncl := zzsymChoice("client_cid_len", zzsymParam("NCID")+1)
	nsv := zzsymChoice("server_cid_len", zzsymParam("NCID")+1)
	c, pc, _, prot, peerCID := zzTxConn(true, isClient, ncl, nsv, true)
	ctx := context.Background()
	kind := zzsymChoice("kind", 4)
	var content []byte
	var realType protocol.ContentType
	switch kind {
	case 0:
		pay := zzsymBytes("pay", zzsymChoice("paylen", zzsymParam("NPAY")+1))
		pkt := c.newApplicationDataPacket(pay)
		pkt.Record.Header.Epoch = 3 // set by the DTLS 1.3 FSM's WriteApplicationData (current write epoch)
		err := c.writePackets(ctx, []*dtlsflight.Packet{pkt})
		zzsymAssert(err == nil, "write_ok")
		content, realType = pay, protocol.ContentTypeApplicationData
		zzsymCover("kind13_appdata")
	case 1:
		lvl, desc := zzsymU8("alert_level"), zzsymU8("alert_desc")
		zzsymAssume(lvl != byte(alert.Fatal))
		err := c.notify(ctx, alert.Level(lvl), alert.Description(desc))
		zzsymAssert(err == nil, "write_ok")
		content, realType = []byte{lvl, desc}, protocol.ContentTypeAlert
		zzsymCover("kind13_alert")
	case 2:
		frag := zzsymBytes("hsfrag", 12)
		raw, err := c.sealRecordContent(3, zzTxNextSeq(c, 3), protocol.ContentTypeHandshake, frag)
		zzsymAssert(err == nil, "write_ok")
		pc.writes = append(pc.writes, zzTxWrite{data: raw, to: c.rAddr})
		content, realType = frag, protocol.ContentTypeHandshake
		zzsymCover("kind13_handshake")
	case 3:
		cookie := zzTxCookie()
		mt := zzsymU8("rrc_type")
		err := returnRoutabilityConn{conn: c}.WriteRRC(ctx, c.rAddr, protocol.ReturnRoutabilityCheckMessageType(mt), cookie)
		zzsymAssert(err == nil, "write_ok")
		content, realType = append([]byte{mt}, cookie[:]...), protocol.ContentTypeReturnRoutabilityCheck
		zzsymCover("kind13_rrc")
	}
	zzsymAssert(len(pc.writes) == 1, "one_datagram")
	zzsymAssert(pc.writes[0].to == c.rAddr, "sent_to_current_peer_address")
	zzsymAssert(prot.seals == 1, "record_was_protected")
	zzsymAssert(prot.lastType == realType, "inner_type_is_real_type")
	raw := pc.writes[0].data
	n := len(peerCID)
	// 0 0 1 C S L E E
	zzsymAssert(raw[0]&0xe0 == 0x20, "unified_header_fixed_bits")
	zzsymAssert(raw[0]&0x0c == 0x0c, "seq16_and_length_present")
	zzsymAssert(raw[0]&0x03 == 3, "epoch_low_bits")
	if n > 0 {
		zzsymAssert(raw[0]&0x10 != 0, "c_bit_set_when_peer_cid_nonempty")
		zzsymAssert(zzsymEqBytes(raw[1:1+n], peerCID), "record_carries_peer_cid")
		zzsymCover("tx13_cid")
	} else {
		zzsymAssert(raw[0]&0x10 == 0, "c_bit_clear_when_peer_cid_empty")
		zzsymCover("tx13_no_cid")
	}
	l := int(raw[3+n])<<8 | int(raw[4+n])
	zzsymAssert(l == len(raw)-5-n, "length_field_covers_ciphertext")
	zzsymAssert(zzsymEqBytes(raw[5+n:5+n+len(content)], content), "sealed_plaintext_is_content")
}

func zzTxNextSeq(c *Conn, epoch uint16) uint64 {
	seq, err := c.nextLocalSequenceNumber(epoch)
	zzsymAssert(err == nil, "seq_ok")
	return seq
}
