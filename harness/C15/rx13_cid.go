package dtls

// GENERATED from harness/C05/rx_13.go (entry kept: zzRx13OneRecord). C15: a DTLS 1.3 record is accepted only with exactly the
// negotiated connection ID, and receiving a record never changes the endpoint's own connection ID.

//symgo:pkg github.com/pion/dtls/v3
//symgo:stub RecordProtection13 is a harness fake: UnmaskSequenceNumber is the identity, Open succeeds iff the symbolic per-generation flag is set and then returns content = record bytes minus the last one, inner type = last byte

import (
	"context"
	"net"

	dtlsstate "github.com/pion/dtls/v3/internal/state"
	"github.com/pion/dtls/v3/pkg/protocol"
	"github.com/pion/dtls/v3/pkg/protocol/recordlayer"
)

type zzProt13 struct {
	authOK bool
	opens  *int
	id     int
	used   *int
	seen   *[]recordlayer.UnifiedHeader // headers handed to Open (they become the AEAD additional data)
	seenN  *[]int                       // length of the ciphertext handed to Open
}

func (p *zzProt13) Seal(h recordlayer.UnifiedHeader, seq uint64, ct protocol.ContentType, pt []byte) (recordlayer.CiphertextRecord13, error) {
	return recordlayer.CiphertextRecord13{}, zzErrAuth
}

func (p *zzProt13) UnmaskSequenceNumber(h recordlayer.UnifiedHeader, enc []byte) (recordlayer.UnifiedHeader, error) {
	return h, nil
}

func (p *zzProt13) Open(h recordlayer.UnifiedHeader, seq uint64, enc []byte) (recordlayer.InnerPlaintext, error) {
	*p.opens++
	*p.seen = append(*p.seen, h)
	*p.seenN = append(*p.seenN, len(enc))
	if !p.authOK || len(enc) == 0 {
		return recordlayer.InnerPlaintext{}, zzErrAuth
	}
	*p.used = p.id
	return recordlayer.InnerPlaintext{Content: enc[:len(enc)-1], RealType: protocol.ContentType(enc[len(enc)-1])}, nil
}

// A DTLS 1.3 ciphertext record with arbitrary unified-header bits, sequence bytes, optional CID and body arrives
// while generations for epochs 2 (retained), 3 (current, authorised) and optionally 4 (installed but not yet
// authorised: remote epoch is still 3) exist. Proved: a payload is delivered only if a generation whose epoch is
// at most the authorised remote epoch and whose low bits match opened it, the CID policy is met, the inner type is
// application_data and the bytes are the opened content; if no eligible generation authenticates the record nothing
// is delivered, and no alert or error results.
//
//symgo:entry covers=delivered13,dropped13,unauthorised_epoch_not_used
func zzRx13OneRecord() {
	opens, used := 0, -1
	var seen []recordlayer.UnifiedHeader
	var seenN []int
	c := zzRxConn(&zzRxSuite{}, false)
	common := dtlsstate.CommonState(c.state)
	st := dtlsstate.Activate13(c.state)
	c.state = st
	common.LocalVersion = protocol.Version1_3
	gen := func(epoch uint16, id int) *dtlsstate.TrafficGeneration {
		return &dtlsstate.TrafficGeneration{Epoch: epoch, Protection: &zzProt13{authOK: zzsymBool("authOK"), opens: &opens, id: id, used: &used, seen: &seen, seenN: &seenN}}
	}
	st.TrafficKeys.Install(nil, gen(2, 2))
	st.TrafficKeys.Install(nil, gen(3, 3))
	future := zzsymChoice("future_installed", 2) == 1
	common.SetRemoteEpoch(3)
	if future {
		st.TrafficKeys.Install(nil, gen(4, 4)) // installed ahead of authorisation: remote epoch stays 3
	}
	cidLen := 2 * zzsymChoice("cidlen", 2)
	var localCID []byte
	if cidLen > 0 {
		localCID = zzsymBytes("lcid", cidLen)
		common.SetLocalConnectionID(append([]byte{}, localCID...)) // the state's copy: must come out of the call unchanged
		st.CID = dtlsstate.CIDState{Negotiated: true, Receive: dtlsstate.CIDReceiveState{Expected: true, Length: cidLen}}
	}
	// header layout bits chosen concretely (S: 16-bit sequence number, L: length present); ciphertext is at least 16 bytes
	sbit, lbit := zzsymChoice("S", 2), zzsymChoice("L", 2)
	n := 1 + cidLen + 1 + sbit + 2*lbit + 16 + zzsymChoice("extra", 2)
	rec := zzsymBytes("rec", n)
	zzsymAssume(rec[0]&0xe0 == 0x20) // unified header fixed bits (routed here only then)
	zzsymAssume((rec[0]&0x08 != 0) == (sbit == 1))
	zzsymAssume((rec[0]&0x04 != 0) == (lbit == 1))
	addr0 := c.rAddr
	// the per-epoch "highest authenticated record number" that later records are reconstructed against
	// (arbitrary values: records have been received before) and the replay windows' existence
	common.RemoteSequenceNumber = []uint64{0, 0, zzsymU64("highest2"), zzsymU64("highest3"), zzsymU64("highest4")}
	highest0 := append([]uint64{}, common.RemoteSequenceNumber...)
	outcome, err := c.handleIncomingPacket(context.Background(), rec, &net.UDPAddr{Port: 2}, nil)
	// the endpoint's own connection ID is configuration, not something a received record may write to
	zzsymAssert(len(common.LocalConnectionID()) == cidLen && zzsymEqBytes(common.LocalConnectionID(), localCID), "received_record_never_changes_the_local_cid")
	// what is authenticated is the header AS IT WAS ON THE WIRE: every header handed to the AEAD carries the
	// wire's C/S/L bits, epoch bits, CID bytes, sequence-number bits and (if present) length field
	hdr := 1 + cidLen + 1 + sbit + 2*lbit
	for i := range seen {
		h := seen[i]
		zzsymAssert(h.SeqBit == (sbit == 1), "aad_header_seq_bit_as_on_wire")
		zzsymAssert(h.LengthBit == (lbit == 1), "aad_header_length_bit_as_on_wire")
		zzsymAssert(h.EpochLow == rec[0]&3, "aad_header_epoch_bits_as_on_wire")
		zzsymAssert(len(h.ConnectionID) == 0 || zzsymEqBytes(h.ConnectionID, rec[1:1+cidLen]), "aad_header_cid_as_on_wire")
		if lbit == 1 {
			wireLen := uint16(rec[hdr-2])<<8 | uint16(rec[hdr-1])
			zzsymAssert(h.Length == wireLen, "aad_header_length_as_on_wire")
		}
		zzsymAssert(seenN[i] == n-hdr, "aead_gets_whole_record_body")
	}
	if len(c.decrypted) == 1 {
		zzsymCover("delivered13")
		zzsymAssert(used >= 2, "delivered_only_after_open")
		zzsymAssert(used <= 3, "generation_not_beyond_authorised_epoch")
		zzsymAssert(byte(used)&3 == rec[0]&3, "generation_low_bits_match")
		hasCID := rec[0]&0x10 != 0
		if cidLen > 0 {
			zzsymAssert(hasCID, "cid_expected_requires_cid_bit")
			zzsymAssert(zzsymEqBytes(rec[1:1+cidLen], localCID), "cid_bytes_must_match")
		} else {
			zzsymAssert(!hasCID, "cid_bit_refused_without_negotiation")
		}
		zzsymAssert(err == nil, "delivery_without_error")
		return
	}
	if used < 0 {
		zzsymCover("dropped13")
		zzsymAssert(err == nil, "drop_no_error")
		zzsymAssert(outcome.responseAlert == nil, "drop_no_alert")
		zzsymAssert(c.rAddr == addr0, "drop_keeps_peer_address")
		zzsymAssert(!outcome.containsHandshake && outcome.receivedACK == nil, "drop_no_effect")
		// "discarded without effect": the reconstruction anchor of no epoch moved, so the genuine records that
		// follow are still expanded to their own numbers (a forged 16-bit number half a window ahead would
		// otherwise push the next genuine records into the wrong 2^16 block and lose them)
		zzsymAssert(len(common.RemoteSequenceNumber) == len(highest0), "drop_keeps_sequence_anchor_table")
		for i := range highest0 {
			zzsymAssert(common.RemoteSequenceNumber[i] == highest0[i], "drop_keeps_highest_authenticated_record_number")
		}
	}
	if future && rec[0]&3 == 0 {
		zzsymCover("unauthorised_epoch_not_used")
		zzsymAssert(used != 4, "unauthorised_generation_never_opens")
	}
}

// A record in the DTLS 1.2 framing (13-byte DTLSPlaintext header) that CLAIMS protection - non-zero epoch, every
// content type but change_cipher_spec - arrives on an established DTLS 1.3 connection whose cipher suite is one of
// the three REAL DTLS 1.3 suites (defaultCipherSuites13; their legacy Decrypt entry point is the only thing between
// such a record and the code that acts on alerts, handshake messages and ACKs). DTLS 1.3 protects records only in
// the unified-header framing, so nothing can authenticate this one: it is discarded without effect - nothing is
// delivered, no alert is produced, no error ends the read loop, no ACK or handshake message reaches the state
// machines, the peer address is unchanged. Arbitrary version bytes, 48-bit sequence number and body.
//
func zzRx13LegacyFramedRecordDropped() {
	c := zzRxConn(&zzRxSuite{}, zzsymChoice("client", 2) == 1)
	common := dtlsstate.CommonState(c.state)
	st := dtlsstate.Activate13(c.state)
	c.state = st
	common.LocalVersion = protocol.Version1_3
	common.CipherSuite = defaultCipherSuites13()[zzsymChoice("suite13", 3)]
	opens, used := 0, -1
	var seen []recordlayer.UnifiedHeader
	var seenN []int
	st.TrafficKeys.Install(nil, &dtlsstate.TrafficGeneration{Epoch: 3, Protection: &zzProt13{authOK: true, opens: &opens, id: 3, used: &used, seen: &seen, seenN: &seenN}})
	common.SetRemoteEpoch(3)
	types := []protocol.ContentType{protocol.ContentTypeAlert, protocol.ContentTypeHandshake, protocol.ContentTypeApplicationData, protocol.ContentTypeACK, protocol.ContentType(24)}
	ct := types[zzsymChoice("content_type", len(types))]
	epoch := uint16(1 + zzsymChoice("epoch", 3))
	seq := zzsymU64("seq")
	zzsymAssume(seq <= recordlayer.MaxSequenceNumber)
	// bodies: an alert (2 bytes: level, description - close_notify and every fatal alert included), an ACK with no /
	// one record number, a 12-byte handshake header with arbitrary fields
	body := zzsymBytes("body", []int{2, 18, 12}[zzsymChoice("body_len", 3)])
	h := recordlayer.Header{ContentType: ct, Version: protocol.Version1_2, Epoch: epoch, SequenceNumber: seq, ContentLen: uint16(len(body))}
	raw, herr := h.Marshal()
	zzsymAssert(herr == nil, "harness_header")
	raw[1], raw[2] = zzsymU8("version_major"), zzsymU8("version_minor")
	addr0 := c.rAddr
	out, err := c.handleIncomingPacket(context.Background(), append(raw, body...), &net.UDPAddr{Port: 2}, nil)
	zzsymAssert(err == nil, "legacy_framed_drop_no_error")
	zzsymAssert(out.responseAlert == nil, "legacy_framed_drop_no_alert")
	zzsymAssert(!out.containsHandshake && out.receivedACK == nil, "legacy_framed_drop_no_effect")
	zzsymAssert(len(c.decrypted) == 0, "legacy_framed_nothing_delivered")
	zzsymAssert(c.rAddr == addr0, "legacy_framed_drop_keeps_peer_address")
	zzsymAssert(opens == 0, "legacy_framed_never_reaches_record_protection")
	zzsymCover("legacy_framed_claiming_protection_dropped")
}
