package udp

//symgo:pkg github.com/pion/dtls/v3/internal/net/udp
//symgo:param NID quick=2 thorough=4
//symgo:stub the listener's DatagramRouter / ConnectionIdentifier callbacks are harness stubs returning an arbitrary (symbolic) key and flag; the real callbacks (cidDatagramRouter, cidConnIdentifier) are proved separately in route.go to return the CID carried by the datagram / the ServerHello
//symgo:stub (*net.UDPConn).WriteTo is replaced by a recorder (no socket)
//symgo:outside concurrent readLoop / WriteTo / Close on the same listener (serialised by connLock); accept-queue overflow

import (
	"net"
)

type zzUAddr struct{ s string }

func (a zzUAddr) Network() string { return "udp" }
func (a zzUAddr) String() string  { return a.s }

var zzSock []net.Addr // destinations handed to the socket

func zzUDPWriteTo(c *net.UDPConn, b []byte, addr net.Addr) (int, error) {
	zzSock = append(zzSock, addr)
	return len(b), nil
}

//symgo:replace (*net.UDPConn).WriteTo zzUDPWriteTo

func zzListener(router func([]byte) (string, bool), ident func([]byte) (string, bool), accept bool) *listener {
	l := &listener{
		acceptCh:       make(chan *PacketConn, 4),
		conns:          make(map[string]*PacketConn),
		doneCh:         make(chan struct{}),
		readDoneCh:     make(chan struct{}),
		datagramRouter: router,
		connIdentifier: ident,
		acceptFilter:   func([]byte) bool { return accept },
	}
	l.accepting.Store(true)
	return l
}

// getConn with two accepted connections A and B, each filed under its first remote address and (after its
// ServerHello) under its connection ID (keys of 1..NID symbolic bytes, distinct); a datagram arrives from
// A's address, B's address or an address never seen, and the router reports an arbitrary key (or none).
// Proved: when the router reports A's ID the datagram goes to A, when it reports B's ID it goes to B -
// whatever the source address, including the other connection's own address; the source address is used
// only when the datagram carries no ID or an ID no connection owns; no new connection is created for a
// datagram that carries an owned ID.
//
//symgo:entry covers=by_id_same_addr,by_id_foreign_addr,by_id_other_conns_addr,by_addr_no_id,by_addr_unknown_id,unknown_addr_new_conn,unknown_addr_filtered
func zzGetConnRoutesByID() {
	n := 1 + zzsymChoice("id_len", zzsymParam("NID"))
	idA, idB := zzsymString("idA", n), zzsymString("idB", n)
	zzsymAssume(!zzsymEqStr(idA, idB))
	rid, rok := zzsymString("rid", n), zzsymBool("router_ok")
	accept := zzsymChoice("accept", 2) == 1
	l := zzListener(func([]byte) (string, bool) { return rid, rok }, nil, accept)
	addrA, addrB, addrC := zzUAddr{"10.0.0.1:1000"}, zzUAddr{"10.0.0.2:2000"}, zzUAddr{"10.0.0.3:3000"}
	connA, connB := l.newPacketConn(addrA), l.newPacketConn(addrB)
	l.conns[addrA.String()], l.conns[addrB.String()] = connA, connB
	l.conns[idA], l.conns[idB] = connA, connB
	connA.id.Store(idA)
	connB.id.Store(idB)

	from := zzsymChoice("from", 3)
	var src net.Addr
	switch from {
	case 0:
		src = addrA
	case 1:
		src = addrB
	default:
		src = addrC
	}
	nconn0 := len(l.conns)
	got, ok, err := l.getConn(src, zzsymBytes("datagram", 3))

	isA, isB := zzsymAnd(rok, zzsymEqStr(rid, idA)), zzsymAnd(rok, zzsymEqStr(rid, idB))
	if isA {
		zzsymAssert(err == nil && ok && got == connA, "owned_id_routes_to_owner")
		zzsymAssert(len(l.conns) == nconn0 && len(l.acceptCh) == 0, "owned_id_creates_no_connection")
		switch from {
		case 0:
			zzsymCover("by_id_same_addr")
		case 1:
			zzsymCover("by_id_other_conns_addr")
		default:
			zzsymCover("by_id_foreign_addr")
		}
		return
	}
	if isB {
		zzsymAssert(err == nil && ok && got == connB, "owned_id_routes_to_owner")
		zzsymAssert(len(l.conns) == nconn0 && len(l.acceptCh) == 0, "owned_id_creates_no_connection")
		return
	}
	// no owned ID: fall back to the source address
	switch from {
	case 0:
		zzsymAssert(err == nil && ok && got == connA, "no_id_routes_by_address")
	case 1:
		zzsymAssert(err == nil && ok && got == connB, "no_id_routes_by_address")
	default:
		zzsymAssert(got != connA && got != connB, "unknown_address_not_attributed_to_existing_connection")
		if accept {
			zzsymAssert(err == nil && ok && got != nil, "unknown_address_creates_connection")
			zzsymAssert(l.conns[addrC.String()] == got && len(l.acceptCh) == 1, "new_connection_filed_under_address")
			zzsymCover("unknown_addr_new_conn")
		} else {
			zzsymAssert(!ok && got == nil, "filtered_datagram_dropped")
			zzsymCover("unknown_addr_filtered")
		}
	}
	if from < 2 {
		if rok {
			zzsymCover("by_addr_unknown_id")
		} else {
			zzsymCover("by_addr_no_id")
		}
	}
}

// Ownership life cycle through PacketConn.WriteTo: a connection accepted from address A writes a packet for
// which the identifier callback reports a key (its ServerHello) and later writes to a new address (the peer
// migrated). Proved: after the first write every datagram whose router key equals the registered key is
// delivered to this connection from any source address; the key is registered once (a later packet
// reporting a different key does not re-file the connection); after the connection has written to another
// address its original address entry is released but the ID entry keeps routing to it; every write is
// handed to the socket with the destination the caller asked for.
//
//symgo:entry covers=registered,second_key_ignored,old_addr_released,routed_after_migration
func zzWriteToRegistersID() {
	n := 1 + zzsymChoice("id_len", zzsymParam("NID"))
	id1, id2 := zzsymString("id1", n), zzsymString("id2", n)
	var next string
	rid := zzsymString("rid", n)
	l := zzListener(
		func([]byte) (string, bool) { return rid, true },
		func([]byte) (string, bool) { return next, true },
		false,
	)
	addrA, addrB, addrC := zzUAddr{"10.0.0.1:1000"}, zzUAddr{"10.0.0.2:2000"}, zzUAddr{"10.0.0.3:3000"}
	c := l.newPacketConn(addrA)
	l.conns[addrA.String()] = c

	next = id1
	_, err := c.WriteTo(zzsymBytes("server_hello", 3), addrA)
	zzsymAssert(err == nil, "write_ok")
	zzsymAssert(l.conns[id1] == c, "connection_filed_under_reported_id")
	zzsymCover("registered")

	next = id2
	migrate := zzsymChoice("migrate", 2) == 1
	dst := net.Addr(addrA)
	if migrate {
		dst = addrB
	}
	_, err = c.WriteTo(zzsymBytes("later", 3), dst)
	zzsymAssert(err == nil, "write_ok")
	zzsymAssert(len(zzSock) == 2 && zzSock[0] == net.Addr(addrA) && zzSock[1] == dst, "socket_destination_is_callers")
	if !zzsymEqStr(id1, id2) {
		zzsymAssert(l.conns[id2] == nil, "id_registered_once")
		zzsymCover("second_key_ignored")
	}
	if migrate {
		zzsymAssert(l.conns[addrA.String()] == nil, "original_address_released_after_migration")
		zzsymCover("old_addr_released")
	} else {
		zzsymAssert(l.conns[addrA.String()] == c, "original_address_kept")
	}
	// a datagram carrying the registered ID from a third address
	got, ok, err := l.getConn(addrC, zzsymBytes("datagram", 3))
	if zzsymEqStr(rid, id1) {
		zzsymAssert(err == nil && ok && got == c, "owned_id_routes_to_owner")
		if migrate {
			zzsymCover("routed_after_migration")
		}
	} else {
		zzsymAssert(got != c, "foreign_id_not_attributed")
	}
}
