package dtls

// GENERATED from harness/C05/rx_legacy.go (helpers for rx13_cid.go; no entries).

//symgo:pkg github.com/pion/dtls/v3
//symgo:param NBODY quick=4 thorough=8
//symgo:stub CipherSuite is a harness fake: Decrypt returns the record unchanged iff the symbolic flag authOK is set, else an error (AEAD/MAC unforgeability: an altered or foreign record never authenticates)
//symgo:stub logger is a no-op fake
//symgo:assume authentication failure of the real primitives for every altered/foreign record is assumed (modelled by the arbitrary flag authOK); what is checked is what the receive path does with that verdict
//symgo:outside real ciphers on a live connection; payloads larger than NBODY bytes; goroutine interleavings of Read/Close with the receive path

import (
	"context"
	"errors"
	"hash"
	"net"

	dtlsflight "github.com/pion/dtls/v3/internal/flight"
	dtlsfragmentbuffer "github.com/pion/dtls/v3/internal/fragmentbuffer"
	"github.com/pion/dtls/v3/internal/ciphersuite/types"
	"github.com/pion/dtls/v3/internal/closer"
	dtlsstate "github.com/pion/dtls/v3/internal/state"
	"github.com/pion/dtls/v3/pkg/crypto/clientcertificate"
	"github.com/pion/dtls/v3/pkg/protocol"
	"github.com/pion/dtls/v3/pkg/protocol/recordlayer"
)

var zzErrAuth = errors.New("zz: authentication failed")

type zzRxSuite struct {
	authOK   []bool // verdict per Decrypt call
	calls    int
	initDone bool
}

func (s *zzRxSuite) String() string                               { return "zzRx" }
func (s *zzRxSuite) ID() CipherSuiteID                            { return TLS_ECDHE_ECDSA_WITH_AES_128_GCM_SHA256 }
func (s *zzRxSuite) CertificateType() clientcertificate.Type      { return clientcertificate.ECDSASign }
func (s *zzRxSuite) HashFunc() func() hash.Hash                   { return nil }
func (s *zzRxSuite) AuthenticationType() types.AuthenticationType { return types.AuthenticationTypeCertificate }
func (s *zzRxSuite) KeyExchangeAlgorithm() types.KeyExchangeAlgorithm {
	return types.KeyExchangeAlgorithmEcdhe
}
func (s *zzRxSuite) ECC() bool                                   { return true }
func (s *zzRxSuite) Init(ms, cr, sr []byte, isClient bool) error { return nil }
func (s *zzRxSuite) IsInitialized() bool                         { return s.initDone }
func (s *zzRxSuite) Encrypt(pkt *recordlayer.RecordLayer, raw []byte) ([]byte, error) {
	return raw, nil
}
func (s *zzRxSuite) Decrypt(h recordlayer.Header, in []byte) ([]byte, error) {
	ok := s.authOK[s.calls]
	s.calls++
	if !ok {
		return nil, zzErrAuth
	}
	return in, nil
}

type zzNopLogger struct{}

func (zzNopLogger) Trace(string)          {}
func (zzNopLogger) Tracef(string, ...any) {}
func (zzNopLogger) Debug(string)          {}
func (zzNopLogger) Debugf(string, ...any) {}
func (zzNopLogger) Info(string)           {}
func (zzNopLogger) Infof(string, ...any)  {}
func (zzNopLogger) Warn(string)           {}
func (zzNopLogger) Warnf(string, ...any)  {}
func (zzNopLogger) Error(string)          {}
func (zzNopLogger) Errorf(string, ...any) {}

func zzRxConn(suite *zzRxSuite, isClient bool) *Conn {
	c := &Conn{
		state:                  dtlsstate.NewActive(isClient),
		fragmentBuffer:         dtlsfragmentbuffer.New(),
		handshakeCache:         dtlsflight.NewCache(),
		decrypted:              make(chan any, 1),
		log:                    zzNopLogger{},
		closed:                 closer.NewCloser(),
		replayProtectionWindow: 64,
		rAddr:                  &net.UDPAddr{Port: 1},
	}
	common := dtlsstate.CommonState(c.state)
	common.CipherSuite = suite
	common.LocalVersion = protocol.Version1_2
	return c
}

// zzRecord builds header||body with every header field symbolic (type, version, epoch, seq, length, CID bytes).
func zzRecord(cidLen, nbody int) []byte {
	return zzsymBytes("rec", 13+cidLen+nbody)
}

// One protected (or claiming-to-be-protected) DTLS 1.2 record with arbitrary header and body bytes arrives on an
// established connection (remote epoch 1, cipher suite initialised, local CID of length 0 or 2). The cipher's verdict
// is an arbitrary flag. Proved: a payload reaches Read's queue only if the record authenticated, carries a non-zero
// epoch, has the negotiated CID layout and bytes, and the delivered bytes are exactly the record body; when
// authentication fails nothing is delivered, no alert and no error is produced, the peer address is unchanged, and the
// genuine record with the same sequence number is still accepted afterwards.
//
func zzRxLegacyOneRecord() {
	suite := &zzRxSuite{authOK: []bool{zzsymBool("authOK"), true}, initDone: true}
	c := zzRxConn(suite, false)
	common := dtlsstate.CommonState(c.state)
	common.SetRemoteEpoch(1)
	cidLen := 2 * zzsymChoice("cidlen", 2)
	var localCID []byte
	if cidLen > 0 {
		localCID = zzsymBytes("lcid", cidLen)
		common.SetLocalConnectionID(localCID)
	}
	nbody := zzsymChoice("nbody", zzsymParam("NBODY")+1)
	rec := zzRecord(cidLen, nbody)
	isCIDType := rec[0] == byte(protocol.ContentTypeConnectionID)
	// when the record is not of tls12_cid type the header has no CID bytes: use the 13-byte layout
	if !isCIDType && cidLen > 0 {
		rec = rec[:13+nbody]
	}
	epoch := uint16(rec[3])<<8 | uint16(rec[4])
	addr0 := c.rAddr
	from := &net.UDPAddr{Port: 2}

	outcome, err := c.handleIncomingPacket(context.Background(), rec, from, nil)

	delivered := len(c.decrypted) == 1
	authOK := suite.authOK[0]
	if delivered {
		zzsymCover("delivered")
		zzsymAssert(suite.calls >= 1, "delivered_only_after_decrypt")
		zzsymAssert(authOK, "delivered_only_if_authentic")
		zzsymAssert(epoch != 0, "delivered_only_with_nonzero_epoch")
		if cidLen > 0 {
			zzsymAssert(isCIDType, "cid_negotiated_requires_cid_record")
			zzsymAssert(zzsymEqBytes(rec[11:11+cidLen], localCID), "cid_bytes_must_match")
		} else {
			zzsymAssert(!isCIDType || true, "no_cid_layout")
		}
		got, _ := (<-c.decrypted).([]byte)
		hdr := 13
		if isCIDType {
			hdr += cidLen
		}
		if !isCIDType {
			zzsymAssert(rec[0] == byte(protocol.ContentTypeApplicationData), "delivered_only_appdata")
			zzsymAssert(zzsymEqBytes(got, rec[hdr:]), "delivered_bytes_are_record_body")
		}
		zzsymAssert(err == nil, "delivery_without_error")
		return
	}
	if suite.calls >= 1 && !authOK {
		zzsymCover("auth_failed_dropped")
		zzsymAssert(err == nil, "forgery_no_error")
		zzsymAssert(outcome.responseAlert == nil, "forgery_no_alert")
		zzsymAssert(!outcome.containsHandshake && outcome.receivedACK == nil, "forgery_no_effect_on_outcome")
		zzsymAssert(c.rAddr == addr0, "forgery_keeps_peer_address")
		zzsymAssert(len(c.encryptedPackets) == 0, "forgery_not_queued")
		// the genuine record bearing the same header is still accepted afterwards (also in the tls12_cid layout:
		// right CID bytes, inner plaintext = content || application_data, no padding)
		if isCIDType && cidLen > 0 && nbody >= 1 {
			zzsymAssume(zzsymEqBytes(rec[11:11+cidLen], localCID))
			zzsymAssume(rec[len(rec)-1] == byte(protocol.ContentTypeApplicationData))
			_, err2 := c.handleIncomingPacket(context.Background(), rec, from, nil)
			zzsymAssert(err2 == nil, "genuine_cid_record_after_forgery_no_error")
			zzsymAssert(len(c.decrypted) == 1, "genuine_cid_record_after_forgery_delivered")
			zzsymCover("genuine_cid_after_forgery")
		}
		if rec[0] == byte(protocol.ContentTypeApplicationData) {
			_, err2 := c.handleIncomingPacket(context.Background(), rec, from, nil)
			zzsymAssert(err2 == nil, "genuine_after_forgery_no_error")
			zzsymAssert(len(c.decrypted) == 1, "genuine_after_forgery_delivered")
			zzsymCover("genuine_after_forgery")
		}
		return
	}
	if suite.calls >= 1 && authOK && cidLen > 0 && isCIDType {
		if !c.validateLegacyCID(&recordlayer.Header{ConnectionID: rec[11 : 11+cidLen]}) {
			zzsymCover("cid_mismatch_dropped")
			zzsymAssert(err == nil && outcome.responseAlert == nil, "wrong_cid_silently_dropped")
		}
	}
	if epoch == 0 && rec[0] == byte(protocol.ContentTypeApplicationData) && err != nil {
		zzsymCover("epoch0_appdata_rejected")
		zzsymAssert(suite.calls == 0, "epoch0_not_decrypted")
	}
}

// The same authentic application-data record (same epoch and sequence number) presented twice is delivered once;
// a second record with a different sequence number inside the window is delivered too.
//
func zzRxLegacyTwice() {
	suite := &zzRxSuite{authOK: []bool{true, true, true}, initDone: true}
	c := zzRxConn(suite, true)
	common := dtlsstate.CommonState(c.state)
	common.SetRemoteEpoch(1)
	mk := func(seq uint64, pay []byte) []byte {
		h := recordlayer.Header{ContentType: protocol.ContentTypeApplicationData, Version: protocol.Version1_2,
			Epoch: 1, SequenceNumber: seq, ContentLen: uint16(len(pay))}
		raw, _ := h.Marshal()
		return append(raw, pay...)
	}
	s1, s2 := zzsymU64("seq1"), zzsymU64("seq2")
	zzsymAssume(s1 <= recordlayer.MaxSequenceNumber)
	zzsymAssume(s2 <= recordlayer.MaxSequenceNumber)
	p1, p2 := zzsymBytes("p1", 2), zzsymBytes("p2", 2)
	from := &net.UDPAddr{Port: 1}
	_, err := c.handleIncomingPacket(context.Background(), mk(s1, p1), from, nil)
	zzsymAssert(err == nil, "first_ok")
	zzsymAssert(len(c.decrypted) == 1, "first_delivered")
	got1, _ := (<-c.decrypted).([]byte)
	zzsymAssert(zzsymEqBytes(got1, p1), "first_payload")
	_, err = c.handleIncomingPacket(context.Background(), mk(s2, p2), from, nil)
	zzsymAssert(err == nil, "second_ok")
	if s1 == s2 {
		zzsymAssert(len(c.decrypted) == 0, "replayed_record_not_delivered")
		zzsymCover("second_dropped")
		return
	}
	// inside the window (fewer than 64 behind) or newer: delivered exactly once
	fresh := zzsymOr(s2 > s1, s1-s2 < 64)
	if fresh {
		zzsymAssert(len(c.decrypted) == 1, "fresh_record_delivered")
		got2, _ := (<-c.decrypted).([]byte)
		zzsymAssert(zzsymEqBytes(got2, p2), "second_payload")
		zzsymCover("second_delivered")
	} else {
		zzsymAssert(len(c.decrypted) == 0, "too_old_not_delivered")
	}
}

type zzPC5 struct{ net.PacketConn }

// The same "forgeries vanish" claim on a connection RESTORED from exported state, built the way ResumeWithOptions
// builds it (createConn with a resume state, then prepareHandshakeStart adopts it): the restored connection has not
// seen any record of epoch 1 yet. The first thing to arrive is a record of epoch 1 with an ARBITRARY 48-bit sequence
// number that FAILS authentication (a forgery far ahead of the peer's real numbers, say); then the peer's genuine
// record with an arbitrary sequence number arrives. Proved: the forgery delivers nothing and the genuine record is
// delivered - the replay state of the restored epoch is not positioned by unauthenticated input.
//
func zzRxRestoredConnForgeryThenGenuine() {
	isClient := zzsymChoice("is_client", 2) == 1
	suite := &zzRxSuite{authOK: []bool{false, true}, initDone: true}
	st := &dtlsstate.State12{Common: &dtlsstate.Common{IsClient: isClient, LocalVersion: protocol.Version1_2}}
	st.CipherSuite = suite
	st.SetLocalEpoch(1)
	st.SetRemoteEpoch(1)
	st.LocalSequenceNumber = []uint64{0, 7}
	cfg := &dtlsConfig{}
	cfg.ReplayProtectionWindow = 64
	c, err := createConn(zzPC5{}, &net.UDPAddr{Port: 1}, cfg, isClient, st)
	zzsymAssert(err == nil && c != nil, "restored_conn_created")
	c.log = zzNopLogger{}
	_, err = c.prepareHandshakeStart(context.Background())
	zzsymAssert(err == nil, "restored_state_adopted")
	mk := func(seq uint64) []byte {
		h := recordlayer.Header{ContentType: protocol.ContentTypeApplicationData, Version: protocol.Version1_2, Epoch: 1, SequenceNumber: seq, ContentLen: 1}
		raw, _ := h.Marshal()
		return append(raw, 0x55)
	}
	forged, genuine := zzsymU64("forged_seq"), zzsymU64("genuine_seq")
	zzsymAssume(forged <= recordlayer.MaxSequenceNumber)
	zzsymAssume(genuine <= recordlayer.MaxSequenceNumber)
	from := &net.UDPAddr{Port: 1}
	out, err := c.handleIncomingPacket(context.Background(), mk(forged), from, nil)
	zzsymAssert(err == nil && out.responseAlert == nil && len(c.decrypted) == 0, "forgery_on_restored_connection_vanishes")
	_, err = c.handleIncomingPacket(context.Background(), mk(genuine), from, nil)
	zzsymAssert(err == nil, "genuine_no_error")
	zzsymAssert(len(c.decrypted) == 1, "genuine_record_delivered_after_forgery_on_restored_connection")
	zzsymCover("genuine_after_forgery_on_restored_connection")
}
