package rrc

//symgo:pkg github.com/pion/dtls/v3/internal/rrc
//symgo:param NOPS quick=3 thorough=4
//symgo:param NOPS2 quick=2 thorough=3
//symgo:stub time.Now is replaced by a harness clock: every call returns a fresh symbolic instant that is >= the previous one (arbitrary non-decreasing clock, 0 <= sec < 2^40)
//symgo:stub time.AfterFunc / Timer.Stop / Timer.Reset are replaced: the callback is recorded and may be fired by the harness at any point between operations (spurious firing allowed)
//symgo:stub crypto/rand.Read is replaced by a reader that returns fresh symbolic bytes (and records them)
//symgo:assume sizes of single datagrams are <= 65535 bytes in the trace entry (UDP limit) so that the ghost totals do not wrap
//symgo:outside two goroutines inside Manager at the same time (Manager.mu serialises them); timer callbacks racing with a call are modelled as firing before or after it

import (
	"net"
	"time"

	"github.com/pion/dtls/v3/pkg/protocol"
)

// ---------------------------------------------------------------- stubs

type zzAddr struct{ s string }

func (a zzAddr) Network() string { return "udp" }
func (a zzAddr) String() string  { return a.s }

// the three addresses used by the harnesses: 0 = currently validated (active) address, 1 and 2 = candidates
func zzAddrOf(i int) net.Addr {
	switch i {
	case 0:
		return zzAddr{"10.0.0.1:1000"}
	case 1:
		return zzAddr{"10.0.0.2:2000"}
	}
	return zzAddr{"10.0.0.3:3000"}
}

var (
	zzClockSec, zzClockNs int64 // last instant handed out by the clock
	zzClockFixed          bool  // when set the clock does not advance on its own
	zzTimerFns            []func()
	zzRandLog             [][]byte
)

// zzLexLess is (s1,n1) < (s2,n2) for normalised (sec, nsec) pairs.
func zzLexLess(s1, n1, s2, n2 int64) bool {
	return zzsymOr(s1 < s2, zzsymAnd(s1 == s2, n1 < n2))
}

func zzNow() time.Time {
	if !zzClockFixed {
		s, n := zzsymI64("now_sec"), zzsymI64("now_ns")
		zzsymAssume(zzsymAnd(s >= 0, s < 1<<40))
		zzsymAssume(zzsymAnd(n >= 0, n < 1000000000))
		zzsymAssume(zzsymNot(zzLexLess(s, n, zzClockSec, zzClockNs))) // non-decreasing
		zzClockSec, zzClockNs = s, n
	}
	return time.Unix(zzClockSec, zzClockNs)
}

func zzAfterFunc(d time.Duration, f func()) *time.Timer {
	zzTimerFns = append(zzTimerFns, f)
	return &time.Timer{}
}
func zzTimerStop(t *time.Timer) bool                   { return true }
func zzTimerReset(t *time.Timer, d time.Duration) bool { return true }

func zzRandRead(b []byte) (int, error) {
	r := zzsymBytes("rand", len(b))
	copy(b, r)
	zzRandLog = append(zzRandLog, r)
	return len(b), nil
}

//symgo:replace time.Now zzNow
//symgo:replace time.AfterFunc zzAfterFunc
//symgo:replace (*time.Timer).Stop zzTimerStop
//symgo:replace (*time.Timer).Reset zzTimerReset
//symgo:replace crypto/rand.Read zzRandRead

// ---------------------------------------------------------------- oracle helpers

// zzWithin3x is the mathematical statement sent <= 3*received over the integers (no 64-bit wrap):
// received+received+received is formed with explicit carries; if it exceeds 64 bits it exceeds any sent.
func zzWithin3x(sent, received uint64) bool {
	s1 := received + received
	c1 := s1 < received
	s2 := s1 + received
	c2 := s2 < s1
	return zzsymOr(zzsymOr(c1, c2), sent <= s2)
}

func zzSymCookie(name string) [protocol.ReturnRoutabilityCheckCookieLength]byte {
	var c [protocol.ReturnRoutabilityCheckCookieLength]byte
	copy(c[:], zzsymBytes(name, len(c)))
	return c
}

// zzArbitraryPath is a candidate-path record in an arbitrary state; expiry (sec, ns) is returned for the oracle.
func zzArbitraryPath(tag string) (*path, int64, int64) {
	es, en := zzsymI64("exp_sec"), zzsymI64("exp_ns")
	zzsymAssume(zzsymAnd(es >= 0, es < 1<<40))
	zzsymAssume(zzsymAnd(en >= 0, en < 1000000000))
	p := &path{
		receivedBytes:    zzsymU64("received"),
		sentBytes:        zzsymU64("sent"),
		cookie:           zzSymCookie("cookie"),
		challengePending: zzsymBool("pending"),
		expiresAt:        time.Unix(es, en),
	}
	return p, es, en
}

// ---------------------------------------------------------------- amplification: one step of Reserve

// Anti-amplification, inductive step for Manager.Reserve. Pre-state: a candidate path with arbitrary 64-bit
// counters satisfying sent <= 3*received (as integers), arbitrary expiry, arbitrary clock; or no path at all.
// One Reserve(addr, active, n) for every int n. Proved: Reserve to the validated address is never limited
// and touches nothing; for a candidate address success implies the path exists, is unexpired, n >= 0 is
// added exactly once without wrap-around and sent <= 3*received still holds; failure leaves the counters
// untouched; an address nothing was received from is refused. Negative sizes are refused whenever
// 3*received < 2^63 (received beyond 2^61 bytes is physically unreachable).
//
//symgo:entry covers=active_unlimited,granted,granted_exact_fill,refused_budget,refused_expired,refused_unknown,refused_negative,saturated_limit
func zzAmpReserveStep() {
	m := &Manager{}
	cand, active := zzAddrOf(1), zzAddrOf(0)
	havePath := zzsymChoice("have_path", 2) == 1
	var p *path
	var es, en int64
	if havePath {
		p, es, en = zzArbitraryPath("p")
		zzsymAssume(zzWithin3x(p.sentBytes, p.receivedBytes)) // induction hypothesis
		m.paths = map[string]*path{pathKey(cand): p}
	}
	n := zzsymInt("wire")
	toActive := zzsymChoice("to_active", 2) == 1
	var sent0, recv0 uint64
	if havePath {
		sent0, recv0 = p.sentBytes, p.receivedBytes
	}

	if toActive {
		err := m.Reserve(active, active, n)
		zzsymAssert(err == nil, "validated_address_not_limited")
		if havePath {
			zzsymAssert(zzsymAnd(p.sentBytes == sent0, p.receivedBytes == recv0), "validated_address_touches_no_candidate")
		}
		zzsymCover("active_unlimited")
		return
	}

	err := m.Reserve(cand, active, n)
	if !havePath {
		zzsymAssert(err != nil, "unknown_address_refused")
		zzsymCover("refused_unknown")
		return
	}
	unexpired := zzLexLess(zzClockSec, zzClockNs, es, en)
	zzsymAssert(p.receivedBytes == recv0, "reserve_keeps_received")
	if err != nil {
		zzsymAssert(p.sentBytes == sent0, "refusal_keeps_sent")
		if !unexpired {
			zzsymCover("refused_expired")
		} else if n < 0 {
			zzsymCover("refused_negative")
		} else {
			zzsymCover("refused_budget")
		}
		return
	}
	// granted
	zzsymAssert(unexpired, "granted_only_before_expiry")
	if recv0 < 1<<61 {
		zzsymAssert(n >= 0, "negative_size_refused")
	}
	if n >= 0 {
		zzsymAssert(p.sentBytes == sent0+uint64(n), "granted_size_accounted_once")
		zzsymAssert(p.sentBytes >= sent0, "sent_counter_does_not_wrap")
	}
	zzsymAssert(zzWithin3x(p.sentBytes, p.receivedBytes), "sent_le_3x_received")
	zzsymCover("granted")
	if zzsymAnd(recv0 <= ^uint64(0)/3, p.sentBytes == 3*recv0) {
		zzsymCover("granted_exact_fill")
	}
	if recv0 > ^uint64(0)/3 {
		zzsymCover("saturated_limit")
	}
}

// Anti-amplification, inductive step for Manager.recordReceived (the only place that grants budget).
// Pre-state as above. Proved: the received counter of a candidate grows by exactly n for n > 0 (saturating
// at 2^64-1, never wrapping), n <= 0 and records from the validated address grant nothing, sent is
// unchanged unless an expired record is replaced by a fresh all-zero one, and sent <= 3*received holds
// afterwards.
//
//symgo:entry covers=credited,saturated,nonpositive_ignored,active_ignored,expired_restarted,created
func zzAmpReceivedStep() {
	m := &Manager{}
	cand, active := zzAddrOf(1), zzAddrOf(0)
	havePath := zzsymChoice("have_path", 2) == 1
	var p *path
	var es, en int64
	if havePath {
		p, es, en = zzArbitraryPath("p")
		zzsymAssume(zzWithin3x(p.sentBytes, p.receivedBytes))
		m.paths = map[string]*path{pathKey(cand): p}
	}
	n := zzsymInt("wire")
	fromActive := zzsymChoice("from_active", 2) == 1
	var sent0, recv0 uint64
	if havePath {
		sent0, recv0 = p.sentBytes, p.receivedBytes
	}
	src := cand
	if fromActive {
		src = active
	}
	m.recordReceived(src, active, n)
	q := m.paths[pathKey(cand)]
	if fromActive || n <= 0 {
		// nothing may change
		if havePath {
			zzsymAssert(q == p, "ignored_keeps_path")
			zzsymAssert(zzsymAnd(p.sentBytes == sent0, p.receivedBytes == recv0), "ignored_keeps_counters")
		} else {
			zzsymAssert(q == nil, "ignored_creates_nothing")
		}
		if fromActive {
			zzsymCover("active_ignored")
		} else {
			zzsymCover("nonpositive_ignored")
		}
		return
	}
	zzsymAssert(q != nil, "candidate_has_path_after_receive")
	zzsymAssert(zzWithin3x(q.sentBytes, q.receivedBytes), "sent_le_3x_received")
	if q != p {
		// fresh record (none before, or the old one had expired): starts from zero
		zzsymAssert(zzsymAnd(q.sentBytes == 0, q.receivedBytes == uint64(n)), "fresh_path_starts_at_zero")
		zzsymAssert(!q.challengePending, "fresh_path_has_no_challenge")
		if havePath {
			zzsymCover("expired_restarted")
		} else {
			zzsymCover("created")
		}
		_ = es
		_ = en
		return
	}
	zzsymAssert(q.sentBytes == sent0, "receive_keeps_sent")
	zzsymAssert(q.receivedBytes >= recv0, "received_never_decreases")
	if recv0 <= ^uint64(0)-uint64(n) {
		zzsymAssert(q.receivedBytes == recv0+uint64(n), "received_adds_size")
		zzsymCover("credited")
	} else {
		zzsymAssert(q.receivedBytes == ^uint64(0), "received_saturates")
		zzsymCover("saturated")
	}
}

// ---------------------------------------------------------------- path_response

// HandleResponse from an arbitrary Manager state: up to two candidate paths (addresses 1 and 2), each with
// arbitrary pending flag, cookie and expiry; response (address 0/1/2, arbitrary cookie) at an arbitrary
// instant. Proved: the result is true exactly when the responding address has a path with a pending
// challenge, the cookie is byte-for-byte the outstanding one and now < expiry; a successful response
// consumes every outstanding challenge (the same response again is refused, so is any other candidate's),
// a stale response removes the path, a wrong one changes nothing.
//
//symgo:entry covers=accepted,no_path,not_pending,wrong_cookie,late,other_candidate_dropped
func zzPathResponse() {
	m := &Manager{paths: map[string]*path{}}
	var ps [3]*path
	var es, en [3]int64
	for i := 1; i <= 2; i++ {
		if zzsymChoice("have_path", 2) == 1 {
			ps[i], es[i], en[i] = zzArbitraryPath("p")
			m.paths[pathKey(zzAddrOf(i))] = ps[i]
		}
	}
	from := zzsymChoice("from", 3)
	cookie := zzSymCookie("resp_cookie")
	p := ps[from]
	var pend, same bool
	if p != nil {
		pend = p.challengePending
		same = zzsymEqBytes(p.cookie[:], cookie[:])
	}

	_ = zzNow() // arbitrary current instant
	got := m.HandleResponse(zzAddrOf(from), cookie)

	inTime := zzLexLess(zzClockSec, zzClockNs, es[from], en[from])
	want := p != nil && zzsymAnd(zzsymAnd(pend, same), inTime)
	zzsymAssert(got == want, "response_accepted_iff_pending_cookie_in_time")
	if got {
		zzsymCover("accepted")
		zzsymAssert(len(m.paths) == 0, "success_consumes_all_challenges")
		zzsymAssert(!m.HandleResponse(zzAddrOf(from), cookie), "response_not_replayable")
		other := 3 - from
		if ps[other] != nil {
			zzsymAssert(!m.HandleResponse(zzAddrOf(other), ps[other].cookie), "losing_candidate_cannot_validate_with_old_challenge")
			zzsymCover("other_candidate_dropped")
		}
		return
	}
	switch {
	case p == nil:
		zzsymCover("no_path")
	case !pend:
		zzsymCover("not_pending")
	case !same:
		zzsymCover("wrong_cookie")
	default:
		zzsymCover("late")
		zzsymAssert(m.paths[pathKey(zzAddrOf(from))] == nil, "late_response_drops_path")
	}
}

// Start issues a fresh challenge: arbitrary pre-state for the candidate (no path / arbitrary path), enabled
// flag, candidate equal or different from the active address. Proved: a challenge is issued only when
// enabled, the address differs from the validated one and no challenge is outstanding on an unexpired
// path; the cookie is exactly 8 bytes taken from the random source at this call (never a stored or constant
// value), it becomes the outstanding cookie, and it can be answered only before start + 1 s (checked by
// answering at an arbitrary later instant).
//
//symgo:entry covers=issued,disabled,same_address,already_pending,answered_in_time,answered_late
func zzChallengeStart() {
	m := &Manager{}
	cand, active := zzAddrOf(1), zzAddrOf(0)
	havePath := zzsymChoice("have_path", 2) == 1
	var p *path
	var es, en int64
	if havePath {
		p, es, en = zzArbitraryPath("p")
		m.paths = map[string]*path{pathKey(cand): p}
	}
	enabled := zzsymChoice("enabled", 2) == 1
	same := zzsymChoice("same_addr", 2) == 1
	addr := cand
	if same {
		addr = active
	}
	var pend0 bool
	if havePath {
		pend0 = p.challengePending
	}
	zzClockFixed = false
	cookie, ok, err := m.Start(enabled, addr, active)
	zzsymAssert(err == nil, "start_no_error")
	ss, sn := zzClockSec, zzClockNs // last clock reading taken by Start
	if !enabled {
		zzsymAssert(!ok, "disabled_never_starts")
		zzsymAssert(len(zzRandLog) == 0, "disabled_draws_no_cookie")
		zzsymCover("disabled")
		return
	}
	if same {
		zzsymAssert(!ok, "validated_address_not_challenged")
		zzsymCover("same_address")
		return
	}
	if !ok {
		// only legitimate reason: an unexpired path already has an outstanding challenge
		zzsymAssert(havePath && pend0, "refused_only_when_challenge_outstanding")
		zzsymCover("already_pending")
		return
	}
	zzsymCover("issued")
	zzsymAssert(len(zzRandLog) == 1 && zzsymEqBytes(zzRandLog[0], cookie[:]), "cookie_is_fresh_randomness")
	q := m.paths[pathKey(cand)]
	zzsymAssert(q != nil && q.challengePending, "challenge_outstanding_after_start")
	zzsymAssert(zzsymEqBytes(q.cookie[:], cookie[:]), "outstanding_cookie_is_issued_cookie")
	if havePath && q == p {
		// the old path was reused: it had no outstanding challenge
		zzsymAssert(!pend0, "no_second_challenge_while_pending")
	}
	_ = es
	_ = en
	// answer with the right cookie at an arbitrary later instant (the harness lets time pass itself, so the
	// verdict does not depend on HandleResponse reading the clock)
	_ = zzNow()
	got := m.HandleResponse(cand, cookie)
	rs, rn := zzClockSec, zzClockNs
	inTime := zzLexLess(rs, rn, ss+1, sn)
	zzsymAssert(got == inTime, "answer_accepted_iff_within_one_second_of_start")
	if got {
		zzsymCover("answered_in_time")
	} else {
		zzsymCover("answered_late")
	}
}

// ---------------------------------------------------------------- bounded traces

// Anti-amplification over whole histories: from a fresh Manager, every sequence of NOPS operations drawn from
// {record of n bytes received from the candidate address or the validated address, Reserve of n bytes towards
// the candidate, Start(candidate), path response from the candidate with the outstanding or an arbitrary
// cookie, fire any armed timer, Cancel}, sizes 0 <= n <= 65535 symbolic, clock advancing arbitrarily
// (non-decreasing) at every reading. Ghost totals kept by the harness (independent of Manager's counters,
// which are reset on expiry and on validation) prove: for every address that is not validated, total bytes
// granted by Reserve <= 3 * total bytes recorded as received from it; and a response is accepted only for a
// cookie issued by Start for that address, not answered before, and earlier than one second after that Start.
//
//symgo:entry covers=trace_granted,trace_refused,trace_validated,trace_timer_fired
func zzAmpTrace() {
	zzAmpTraceRun(zzsymParam("NOPS"), 1)
}

// The same history model with two candidate addresses racing (operations may target either), NOPS2 operations:
// same claims; in addition a cookie issued to one candidate never validates the other, and validating one
// candidate consumes the other's challenge.
//
//symgo:entry covers=trace_granted,trace_refused,trace_validated,trace_timer_fired
func zzAmpTraceTwoCandidates() {
	zzAmpTraceRun(zzsymParam("NOPS2"), 2)
}

func zzAmpTraceRun(nops, ncand int) {
	m := &Manager{}
	active := 0
	var recv, sent [3]uint64
	// outstanding challenge per address (ghost): issued cookie and Start time
	var chPending [3]bool
	var chCookie [3][protocol.ReturnRoutabilityCheckCookieLength]byte
	var chSec, chNs [3]int64
	for step := 0; step < nops; step++ {
		op := zzsymChoice("op", 6)
		switch op {
		case 0: // a record arrives
			from := zzsymChoice("from", ncand+1)
			n := zzsymInt("n")
			zzsymAssume(zzsymAnd(n >= 0, n <= 65535))
			m.recordReceived(zzAddrOf(from), zzAddrOf(active), n)
			if from != active {
				recv[from] += uint64(n)
			}
		case 1: // the endpoint wants to send n bytes to a candidate
			to := 1 + zzsymChoice("to", ncand)
			n := zzsymInt("n")
			zzsymAssume(zzsymAnd(n >= 0, n <= 65535))
			err := m.Reserve(zzAddrOf(to), zzAddrOf(active), n)
			if to == active {
				break
			}
			if err == nil {
				sent[to] += uint64(n)
				zzsymCover("trace_granted")
			} else {
				zzsymCover("trace_refused")
			}
			zzsymAssert(sent[to] <= 3*recv[to], "total_sent_le_3x_total_received")
		case 2: // start a challenge
			to := 1 + zzsymChoice("to", ncand)
			nrand := len(zzRandLog)
			cookie, ok, err := m.Start(true, zzAddrOf(to), zzAddrOf(active))
			zzsymAssert(err == nil, "start_no_error")
			if ok {
				zzsymAssert(to != active, "validated_address_not_challenged")
				zzsymAssert(len(zzRandLog) == nrand+1 && zzsymEqBytes(zzRandLog[nrand], cookie[:]), "cookie_is_fresh_randomness")
				chPending[to], chCookie[to] = true, cookie
				chSec[to], chNs[to] = zzClockSec, zzClockNs
			}
		case 3: // a path response arrives
			from := 1 + zzsymChoice("from", ncand)
			cookie := chCookie[from] // the cookie last issued to this address (zero if none)
			switch zzsymChoice("cookie_kind", 1+ncand) {
			case 1:
				cookie = zzSymCookie("forged_cookie")
			case 2:
				cookie = chCookie[3-from] // the cookie issued to the other candidate
			}
			got := m.HandleResponse(zzAddrOf(from), cookie)
			if got {
				zzsymAssert(chPending[from], "accepted_response_has_outstanding_challenge")
				zzsymAssert(zzsymEqBytes(cookie[:], chCookie[from][:]), "accepted_response_echoes_issued_cookie")
				zzsymAssert(zzLexLess(zzClockSec, zzClockNs, chSec[from]+1, chNs[from]), "accepted_response_within_one_second")
				zzsymAssert(from != active, "validated_address_is_not_revalidated")
				// the connection switches to this address; every challenge is consumed
				active = from
				recv[from], sent[from] = 0, 0
				chPending = [3]bool{}
				zzsymCover("trace_validated")
			}
		case 4: // an armed timer fires
			if len(zzTimerFns) > 0 {
				i := zzsymChoice("timer", len(zzTimerFns))
				before := len(m.paths)
				zzTimerFns[i]()
				if len(m.paths) < before {
					zzsymCover("trace_timer_fired")
				}
			}
		case 5: // Cancel of the outstanding challenge (failed challenge write)
			to := 1 + zzsymChoice("to", ncand)
			if chPending[to] {
				m.Cancel(zzAddrOf(to), chCookie[to])
				chPending[to] = false
			}
		}
	}
	for a := 0; a < 3; a++ {
		if a != active {
			zzsymAssert(sent[a] <= 3*recv[a], "total_sent_le_3x_total_received")
		}
	}
}
