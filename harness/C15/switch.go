package dtls

//symgo:pkg github.com/pion/dtls/v3
//symgo:param NLCID quick=2 thorough=3
//symgo:param ALLDIMS quick=0 thorough=1
//symgo:stub DTLS 1.2 CipherSuite is a harness fake: Decrypt returns the record unchanged iff the symbolic flag auth_ok is set, else an error (authentication of the real AEAD/MAC is assumed; the flag is arbitrary); Encrypt is the identity so emitted records can be parsed
//symgo:stub time.Now is replaced by an arbitrary non-decreasing symbolic clock; time.AfterFunc/Timer.Stop/Timer.Reset by no-op timers; crypto/rand.Read by fresh symbolic bytes (recorded)
//symgo:stub the transport is a harness fake that records every datagram with its destination
//symgo:stub zzMigrationScenario13: RecordProtection13 is a harness fake (Seal: content || type || zero padding to 16; Open: the inverse iff the symbolic verdict flag is set; UnmaskSequenceNumber: identity)
//symgo:assume pre-state of the replay window: a fresh window in which at most one earlier sequence number `prev` (symbolic) has been accepted, and the arriving number stands in one of eight enumerated relations to it (general windows are covered by C06); pre-state of the path manager for the candidate address: none, or the state its own API produces after r bytes were received from the candidate (0 < r < 2^16), w bytes were granted towards it (0 <= w < 2^18, within budget), optionally a challenge was started, at arbitrary instants
//symgo:assume zzMigrationScenario: the two random 64-bit cookies issued to the two candidate addresses differ
//symgo:outside two candidate paths racing inside one step (see zzMigrationScenario for sequences), timers firing concurrently with the receive path, the single-record entries use the DTLS 1.2 receive path only (DTLS 1.3 is exercised by zzMigrationScenario13; its CID/replay front end belongs to C05)

import (
	"context"
	"errors"
	"net"
	"time"

	dtlsfragmentbuffer "github.com/pion/dtls/v3/internal/fragmentbuffer"
	dtlsstate "github.com/pion/dtls/v3/internal/state"
	"github.com/pion/dtls/v3/pkg/protocol"
	"github.com/pion/dtls/v3/pkg/protocol/recordlayer"
	"github.com/pion/transport/v4/replaydetector"
)

// ---------------------------------------------------------------- stubs

var (
	zzSwSec         int64 // last clock reading (seconds)
	zzSwFirstSec    int64 // first clock reading of the step under test
	zzSwHaveFirst   bool
	zzSwTickPending = true
	zzSwFineClock   bool // every reading may advance (thorough tier, selected entries)
	zzSwRand        [][]byte
	zzSwErrAuth     = errors.New("zz: authentication failed")
)

func zzSwNow() time.Time {
	// whole seconds only in this file (nanosecond readings are exercised in rrc.go); arbitrary, non-decreasing.
	// Normally the clock moves only when the harness calls zzSwTick (between the phases of a scenario); in the
	// thorough tier zzAddrSwitchRRCRecord and zzMigrationScenario let every single reading be later than the
	// previous one (zzSwFineClock).
	if zzSwFineClock || zzSwTickPending {
		s := zzsymI64("now_sec")
		zzsymAssume(zzsymAnd(s >= zzSwSec, s < 1<<40))
		zzSwSec = s
		zzSwTickPending = false
	}
	if !zzSwHaveFirst {
		zzSwHaveFirst, zzSwFirstSec = true, zzSwSec
	}
	return time.Unix(zzSwSec, 0)
}

// zzSwTick lets an arbitrary amount of time pass before the next clock reading.
func zzSwTick() { zzSwTickPending = true }

func zzSwAfterFunc(d time.Duration, f func()) *time.Timer { return &time.Timer{} }
func zzSwTimerStop(t *time.Timer) bool                    { return true }
func zzSwTimerReset(t *time.Timer, d time.Duration) bool  { return true }
func zzSwRandRead(b []byte) (int, error) {
	r := zzsymBytes("rand", len(b))
	copy(b, r)
	zzSwRand = append(zzSwRand, r)
	return len(b), nil
}

//symgo:replace time.Now zzSwNow
//symgo:replace time.AfterFunc zzSwAfterFunc
//symgo:replace (*time.Timer).Stop zzSwTimerStop
//symgo:replace (*time.Timer).Reset zzSwTimerReset
//symgo:replace crypto/rand.Read zzSwRandRead
//symgo:replace (*github.com/pion/dtls/v3/internal/handshake.Establishment).Established zzEstablished

type zzSwSuite struct {
	zzTxSuite
	authOK   bool
	decrypts int
}

func (s *zzSwSuite) Decrypt(h recordlayer.Header, in []byte) ([]byte, error) {
	s.decrypts++
	if !s.authOK {
		return nil, zzSwErrAuth
	}
	return in, nil
}

type zzSwAddr struct{ s string }

func (a zzSwAddr) Network() string { return "udp" }
func (a zzSwAddr) String() string  { return a.s }

var (
	zzSwAddrA net.Addr = zzSwAddr{"10.0.0.1:1000"} // validated address at the start
	zzSwAddrB net.Addr = zzSwAddr{"10.0.0.2:2000"}
	zzSwAddrC net.Addr = zzSwAddr{"10.0.0.3:3000"}
)

// zzSwConn: established DTLS 1.2 server connection (epoch 1), CID decision committed by the real code.
func zzSwConn(nLocal, nRemote int, rrcNeg bool) (*Conn, *zzTxPC, *zzSwSuite, []byte) {
	c, pc, _, _, _ := zzTxConn(false, false, nRemote, nLocal, rrcNeg)
	suite := &zzSwSuite{authOK: zzsymBool("auth_ok")}
	common := dtlsstate.CommonState(c.state)
	common.CipherSuite = suite
	c.fragmentBuffer = dtlsfragmentbuffer.New()
	c.decrypted = make(chan any, 1)
	c.replayProtectionWindow = 64
	c.rAddr = zzSwAddrA
	common.ReplayDetector = []replaydetector.ReplayDetector{
		replaydetector.New(64, recordlayer.MaxSequenceNumber),
		replaydetector.New(64, recordlayer.MaxSequenceNumber),
	}
	return c, pc, suite, common.LocalConnectionID()
}

// zzSwConn13: established DTLS 1.3 server connection (epoch 3 both ways), RRC negotiated.
func zzSwConn13(nLocal, nRemote int) (*Conn, *zzTxPC, *zzTxProt13, []byte) {
	c, pc, _, prot, _ := zzTxConn(true, false, nRemote, nLocal, true)
	st := c.state.(*dtlsstate.State13)
	st.TrafficKeys.Install(nil, &dtlsstate.TrafficGeneration{Epoch: 3, Protection: prot})
	c.fragmentBuffer = dtlsfragmentbuffer.New()
	c.decrypted = make(chan any, 1)
	c.replayProtectionWindow = 64
	c.rAddr = zzSwAddrA
	return c, pc, prot, dtlsstate.CommonState(c.state).LocalConnectionID()
}

func zzSwSeq48(name string) (uint64, []byte) {
	b := zzsymBytes(name, 6)
	var v uint64
	for _, x := range b {
		v = v<<8 | uint64(x)
	}
	return v, b
}

// zzSwRecord lays out one DTLS 1.2 record. cid == nil: plain RFC 6347 record of type realType; otherwise the
// RFC 9146 tls12_cid layout with the given CID bytes and realType as inner type.
func zzSwRecord(cid []byte, useCID bool, epoch uint16, seq []byte, realType byte, content []byte) []byte {
	r := []byte{realType, 0xfe, 0xfd, byte(epoch >> 8), byte(epoch)}
	r = append(r, seq...)
	if useCID {
		r[0] = 25
		r = append(r, cid...)
		n := len(content) + 1
		r = append(r, byte(n>>8), byte(n))
		r = append(r, content...)
		return append(r, realType)
	}
	r = append(r, byte(len(content)>>8), byte(len(content)))
	return append(r, content...)
}

// zzSwContent returns symbolic content bytes for a record kind.
// kinds: 0 application data, 1 return-routability message, 2 alert, 3 handshake fragment, 4 change_cipher_spec, 5 ACK
func zzSwContent(kind int) (byte, []byte) {
	switch kind {
	case 0:
		return 23, zzsymBytes("app", 3)
	case 1:
		return 27, zzsymBytes("rrc", 9) // msg_type(1) cookie(8)
	case 2:
		b := zzsymBytes("alert", 2)
		zzsymAssume(b[0] == 1) // warning level (fatal alerts tear the connection down, C19)
		zzsymAssume(b[1] != 0) // close_notify answers with an alert and ends the connection
		return 21, b
	case 3:
		t, ms, body := zzsymU8("hs_type"), zzsymBytes("hs_msgseq", 2), zzsymU8("hs_body")
		return 22, []byte{t, 0, 0, 1, ms[0], ms[1], 0, 0, 0, 0, 0, 1, body}
	case 4:
		return 20, []byte{1}
	default:
		return 26, []byte{0, 0} // empty ACK record list
	}
}

type zzSwSent struct {
	to      net.Addr
	size    int
	isRRC   bool
	msgType byte
	cookie  []byte
}

// zzSwParseSent decodes what the connection put on the wire (identity cipher): RFC 9146 layout when the peer
// supplied a CID of nRemote > 0 bytes, plain layout otherwise.
func zzSwParseSent(w zzTxWrite, nRemote int) zzSwSent {
	s := zzSwSent{to: w.to, size: len(w.data)}
	d := w.data
	var typ byte
	var content []byte
	if d[0] == 25 {
		content = d[13+nRemote : len(d)-1]
		typ = d[len(d)-1]
	} else {
		typ, content = d[0], d[13:]
	}
	if typ == 27 && len(content) == 9 {
		s.isRRC, s.msgType, s.cookie = true, content[0], content[1:]
	}
	return s
}

// ---------------------------------------------------------------- one arriving record, arbitrary pre-state

// zzSwStep drives one record through Conn.processIncomingPacket and checks every clause of the address
// rule. kinds lists the record kinds to enumerate, rrcChoice fixes (0/1) or enumerates (2) the RRC flag.
func zzSwStep(kinds []int, rrcNeg bool, epoch uint16, fromActive bool, bothLocal bool) {
	nLocal := zzsymParam("NLCID")
	if bothLocal || zzsymParam("ALLDIMS") == 1 {
		// local CID length 0 as well (quick tier: only in the entries that say so)
		if zzsymChoice("local_cid", 2) == 0 {
			nLocal = 0
		}
	}
	nRemote := 1
	if zzsymParam("ALLDIMS") == 1 {
		nRemote = zzsymChoice("remote_cid_len", 2)
	}
	c, pc, suite, localCID := zzSwConn(nLocal, nRemote, rrcNeg)
	common := dtlsstate.CommonState(c.state)

	// replay window pre-state and the sequence number of the arriving record, as a relation to the one
	// number `prev` accepted earlier (prev symbolic; the relation is enumerated so that the window code
	// does not fork over all 64 bit positions):
	//   0 prev+1 (newest)   1 prev+100 (newest, beyond the window)   2 prev (replay)
	//   3 prev-1 (stale, in window)   4 prev-63 (stale, last in window)   5 prev-64 (too old)
	//   6 number 0 after prev=5 (stale, in window)   7 empty window, any number
	rels := []int{0, 2, 3, 6, 7} // quick tier; the thorough tier enumerates all eight
	if zzsymParam("ALLDIMS") == 1 {
		rels = []int{0, 1, 2, 3, 4, 5, 6, 7}
	}
	rel := rels[zzsymChoice("seq_relation", len(rels))]
	havePrev := rel != 7
	var prev, seq uint64
	switch rel {
	case 6:
		prev, seq = 5, 0
	case 7:
		seq, _ = zzSwSeq48("seq")
	default:
		prev, _ = zzSwSeq48("prev")
		zzsymAssume(zzsymAnd(prev >= 64, prev <= recordlayer.MaxSequenceNumber-100))
		seq = prev + []uint64{1, 100, 0, ^uint64(0), ^uint64(62), ^uint64(63)}[rel]
	}
	if havePrev {
		accept, ok := common.ReplayDetector[epoch].Check(prev)
		zzsymAssert(ok, "pre_state_ok")
		accept()
	}
	seqBytes := []byte{byte(seq >> 40), byte(seq >> 32), byte(seq >> 24), byte(seq >> 16), byte(seq >> 8), byte(seq)}

	// path manager pre-state for the candidate B, produced by the manager's own API from symbolic inputs:
	// r bytes were received from B earlier, w bytes were granted towards it, a challenge may be outstanding
	havePath := rrcNeg && zzsymChoice("have_path", 2) == 1
	var pend0 bool
	var cookie0 [protocol.ReturnRoutabilityCheckCookieLength]byte
	var es int64
	var recv0, sent0 uint64
	if havePath {
		r, w := zzsymInt("received"), zzsymInt("sent")
		zzsymAssume(zzsymAnd(r > 0, r < 1<<16))
		zzsymAssume(zzsymAnd(w >= 0, w < 1<<18))
		active := func() net.Addr { return zzSwAddrA }
		zzSwTick()
		c.rrc.WrapReplayMarker(func() bool { return true }, zzSwAddrB, r, active, true)()
		es = zzSwSec + 1 // expiry of an unchallenged path: last receive + 1 s
		zzsymAssume(c.rrc.Reserve(zzSwAddrB, zzSwAddrA, w) == nil)
		recv0, sent0 = uint64(r), uint64(w)
		if zzsymChoice("pending", 2) == 1 {
			zzSwTick()
			ck, ok, err := c.rrc.Start(true, zzSwAddrB, zzSwAddrA)
			zzsymAssume(ok && err == nil)
			pend0, cookie0 = true, ck
			es = zzSwSec + 1 // expiry of a challenged path: Start + 1 s
		}
	}
	nrand0 := len(zzSwRand)

	// the arriving record
	from := zzSwAddrB
	if fromActive {
		from = zzSwAddrA
	}
	kind := kinds[zzsymChoice("kind", len(kinds))]
	realType, content := zzSwContent(kind)
	useCID := zzsymChoice("wire_cid", 2) == 1
	wireCID := zzsymBytes("wire_cid_bytes", nLocal)
	rec := zzSwRecord(wireCID, useCID, epoch, seqBytes, realType, content)

	zzSwHaveFirst = false
	zzSwTick()
	_, _ = c.processIncomingPacket(context.Background(), rec, from, nil)

	// ---- facts about the record, from the RFCs
	authentic := zzsymAnd(epoch != 0, suite.authOK)
	cidOK := zzsymOr(zzsymAnd(useCID, zzsymEqBytes(wireCID, localCID)), zzsymAnd(!useCID, nLocal == 0))
	notReplay := zzsymOr(!havePrev, zzsymOr(seq > prev, zzsymAnd(seq < prev, prev-seq < 64)))
	newest := zzsymOr(!havePrev, seq > prev)
	acceptable := zzsymAnd(zzsymAnd(authentic, cidOK), notReplay)

	var sent []zzSwSent
	toB, challenges := 0, 0
	for _, w := range pc.writes {
		s := zzSwParseSent(w, nRemote)
		sent = append(sent, s)
		zzsymAssert(s.to == zzSwAddrA || s.to == from, "datagrams_go_to_validated_or_source_address")
		if s.to == zzSwAddrB {
			toB += s.size
			if zzsymAnd(s.isRRC, s.msgType == 0) {
				challenges++
				zzsymCover("challenge_sent")
				zzsymAssert(len(zzSwRand) == nrand0+1 && zzsymEqBytes(zzSwRand[nrand0], s.cookie), "challenge_cookie_is_fresh_randomness")
			}
		}
	}

	// ---- (1) the address the endpoint sends to
	if c.rAddr != zzSwAddrA {
		zzsymCover("address_switched")
		zzsymAssert(c.rAddr == zzSwAddrB && !fromActive, "switches_only_to_the_responding_address")
		zzsymAssert(rrcNeg, "address_never_changes_without_rrc")
		zzsymAssert(acceptable, "switch_needs_authentic_fresh_record_with_own_cid")
		zzsymAssert(zzsymAnd(realType == 27, content[0] == 1), "switch_only_on_path_response")
		zzsymAssert(havePath && pend0, "switch_needs_outstanding_challenge")
		zzsymAssert(zzsymEqBytes(content[1:], cookie0[:]), "switch_needs_matching_cookie")
		zzsymAssert(zzSwFirstSec < es, "switch_needs_response_before_expiry")
		zzsymAssert(challenges == 0, "no_new_challenge_after_switch")
	} else {
		zzsymCover("address_kept")
	}
	if !rrcNeg {
		zzsymAssert(toB == 0 || fromActive, "nothing_sent_to_unvalidated_address_without_rrc")
		zzsymAssert(len(zzSwRand) == nrand0, "no_challenge_without_rrc")
	}

	// ---- (2) when a path challenge is started
	zzsymAssert(challenges <= 1, "at_most_one_challenge_per_record")
	if challenges == 1 {
		zzsymAssert(rrcNeg, "challenge_needs_rrc")
		zzsymAssert(!fromActive, "challenge_only_to_new_address")
		zzsymAssert(zzsymAnd(authentic, notReplay), "challenge_needs_authentic_fresh_record")
		zzsymAssert(zzsymAnd(useCID, zzsymEqBytes(wireCID, localCID)), "challenge_needs_record_with_own_cid")
		if rel == 6 {
			// KNOWN DEFECT (own label): a delayed record with sequence number 0 is reported as "latest" by
			// replaydetector.acceptSeq (`latest := seq == 0`) although a higher number was accepted before
			zzsymAssert(newest, "stale_record_with_sequence_number_zero_is_not_newest")
		} else {
			zzsymAssert(newest, "challenge_only_for_newest_record")
		}
	}

	// ---- (3) amplification towards the unvalidated address within this step
	if c.rAddr == zzSwAddrA && !fromActive {
		credit := recv0
		if acceptable {
			credit += uint64(len(rec))
		}
		zzsymAssert(sent0+uint64(toB) <= 3*credit, "bytes_to_candidate_le_3x_bytes_from_candidate")
		if !acceptable {
			zzsymAssert(toB == 0, "rejected_record_triggers_nothing_towards_its_source")
		}
	}
	if toB > 0 && !fromActive {
		zzsymCover("sent_to_candidate")
	}
	if !acceptable {
		zzsymCover("record_rejected")
	}
	if zzsymAnd(acceptable, !newest) {
		zzsymCover("stale_accepted")
	}
}

// ---------------------------------------------------------------- entries
//
// Common arrival model of the entries below: an established DTLS 1.2 server connection whose CID decision
// was committed by the real code (local CID length NLCID, and also 0 in zzAddrSwitchRRCRecord,
// zzAddrNeverSwitchesWithoutRRC and everywhere in the thorough tier; peer CID length 1, thorough tier also 0),
// validated peer address A. One record arrives: its sequence number is newer than, equal to, just below, at the edge of or beyond
// the 64-wide replay window around one arbitrary earlier accepted number (or the window is empty), plain or tls12_cid
// layout with arbitrary CID bytes, authentication verdict arbitrary, clock arbitrary (non-decreasing whole
// seconds; time passes between the phases of a scenario; thorough tier of zzAddrSwitchRRCRecord and
// zzMigrationScenario: between any two readings). For the new address B the path manager is either empty or in the state its own API produces
// after r bytes from B, w bytes granted to B and optionally a started challenge.

// A return-routability record (msg_type and cookie arbitrary) arrives from the new address B in epoch 1, RRC
// negotiated. Proved: Conn.rAddr changes only to B and only for an authentic, non-replayed path_response
// carrying our CID that echoes the outstanding cookie before its expiry; a path challenge is sent only for
// an authentic, newest, CID-carrying record and carries fresh randomness; bytes sent to B stay within 3x the
// bytes received from B; a rejected record triggers nothing towards its source.
//
//symgo:entry covers=address_switched,address_kept,challenge_sent,sent_to_candidate,record_rejected,stale_accepted
func zzAddrSwitchRRCRecord() {
	zzSwFineClock = zzsymParam("ALLDIMS") == 1
	zzSwStep([]int{1}, true, 1, false, true)
}

// Every other record type (application data, alert, handshake fragment, change_cipher_spec, ACK) from the
// new address B in epoch 1, RRC negotiated. Proved: the address never changes on such a record; a path
// challenge is sent only for an authentic, newest, CID-carrying record; amplification bound as above.
//
//symgo:entry covers=address_kept,challenge_sent,sent_to_candidate,record_rejected,stale_accepted
func zzAddrSwitchOtherRecords() {
	kinds := []int{0, 2, 3} // quick tier: application data, alert, handshake; thorough adds change_cipher_spec, ACK
	if zzsymParam("ALLDIMS") == 1 {
		kinds = []int{0, 2, 3, 4, 5}
	}
	zzSwStep(kinds, true, 1, false, false)
}

// All record types including return-routability messages from the new address B, RRC NOT negotiated.
// Proved: the address never changes, no challenge is created, not a single byte is sent to B.
//
//symgo:entry covers=address_kept,record_rejected,stale_accepted
func zzAddrNeverSwitchesWithoutRRC() {
	zzSwStep([]int{0, 1, 2, 3, 4, 5}, false, 1, false, true)
}

// Unprotected (epoch 0) records of all types from the new address B, RRC negotiated: never authentic, so
// no address change, no challenge, nothing sent to B.
//
//symgo:entry covers=address_kept,record_rejected
func zzAddrSwitchEpoch0() {
	zzSwStep([]int{0, 1, 2, 3, 4, 5}, true, 0, false, false)
}

// All record types from the already validated address A, RRC negotiated (a path challenge from the peer is
// answered to A): the address stays A, no challenge is started towards A, and B's path state is irrelevant.
//
//symgo:entry covers=address_kept,record_rejected
func zzAddrRecordFromValidated() {
	zzSwStep([]int{0, 1, 2, 3, 4, 5}, true, 1, true, false)
}

// ---------------------------------------------------------------- scripted migration scenario

func zzSwSeqBytes(seq uint64) []byte {
	return []byte{byte(seq >> 40), byte(seq >> 32), byte(seq >> 24), byte(seq >> 16), byte(seq >> 8), byte(seq)}
}

// zzSwChallengeTo returns the cookie of the single path_challenge written to addr since write index i0
// (found = false if there is none) and the number of bytes written to addr since i0.
func zzSwChallengeTo(pc *zzTxPC, i0 int, addr net.Addr, parse func(zzTxWrite) zzSwSent) (cookie []byte, found bool, bytes int) {
	for _, w := range pc.writes[i0:] {
		s := parse(w)
		if s.to != addr {
			continue
		}
		bytes += s.size
		if s.isRRC && s.msgType == 0 {
			zzsymAssert(!found, "at_most_one_challenge_per_record")
			cookie, found = s.cookie, true
		}
	}
	return
}

// zzSwRecord13 lays out one DTLS 1.3 ciphertext record for the harness AEAD (RFC 9147 section 4 unified
// header with C, S and L bits, epoch low bits 3; "ciphertext" = content || type || zero padding to 16 bytes).
func zzSwRecord13(cid []byte, seq uint64, realType byte, content []byte) []byte {
	enc := append(append([]byte{}, content...), realType)
	for len(enc) < 16 {
		enc = append(enc, 0)
	}
	r := []byte{0x20 | 0x10 | 0x08 | 0x04 | 3}
	r = append(r, cid...)
	r = append(r, byte(seq>>8), byte(seq), byte(len(enc)>>8), byte(len(enc)))
	return append(r, enc...)
}

// zzSwParseSent13 decodes a DTLS 1.3 record sealed by the harness AEAD (peer CID of nRemote bytes).
func zzSwParseSent13(w zzTxWrite, nRemote int) zzSwSent {
	s := zzSwSent{to: w.to, size: len(w.data)}
	enc := w.data[5+nRemote:]
	i := len(enc) - 1
	for i > 0 && enc[i] == 0 {
		i--
	}
	if enc[i] == 27 && i == 9 {
		s.isRRC, s.msgType, s.cookie = true, enc[0], enc[1:9]
	}
	return s
}

// Migration with spoofing, replay and racing paths, end to end through Conn.processIncomingPacket (DTLS 1.2
// server, RRC negotiated, local CID NLCID bytes, validated address A):
//  1. the newest authentic CID record (application data, arbitrary sequence number s) arrives from a new
//     address B: exactly one path challenge goes to B, with fresh randomness, nothing else, address still A;
//  2. optionally the next record (s+1) arrives from a third address C: C gets its own challenge;
//  3. arbitrary time passes;
//  4. a path response arrives: from A, B or C; echoing B's cookie, C's cookie or an arbitrary one; sequence
//     number newer, equal to (replay) or older than what was seen; authentication verdict arbitrary.
//     Proved: the address changes only to the address the response came from, only if that address was sent
//     exactly this cookie, the record is authentic and not a replay, and less than one second passed since
//     the challenge was sent; the honest case (B, B's cookie, in time) does switch;
//  5. after a switch to B an attacker at C re-sends the very same response datagram (replay with rewritten
//     source) or a fresh authentic response that echoes B's cookie: the address stays B.
//
// Throughout, the bytes sent to an unvalidated address never exceed 3x the authentic bytes received from it.
// Named assumption: the two random cookies differ.
//
//symgo:entry covers=mig_switched_b,mig_switched_c,mig_wrong_source,mig_wrong_cookie,mig_replayed,mig_forged,mig_late,mig_replay_after_switch_refused,mig_stolen_cookie_refused
func zzMigrationScenario() {
	zzMigrationRun(false)
}

// The same migration scenario on a DTLS 1.3 server connection (epoch 3, unified header with the local CID,
// records opened and sealed by a harness AEAD whose verdict is an arbitrary flag; sequence number s in 1..100
// so that the 16-bit wire value reconstructs to s): same five steps, same claims.
//
//symgo:entry covers=mig_switched_b,mig_switched_c,mig_wrong_source,mig_wrong_cookie,mig_replayed,mig_forged,mig_late,mig_replay_after_switch_refused,mig_stolen_cookie_refused
func zzMigrationScenario13() {
	zzMigrationRun(true)
}

func zzMigrationRun(v13 bool) {
	zzSwFineClock = zzsymParam("ALLDIMS") == 1
	nLocal, nRemote := zzsymParam("NLCID"), 1
	var c *Conn
	var pc *zzTxPC
	var mk func(seq uint64, realType byte, content []byte) []byte
	var parse func(zzTxWrite) zzSwSent
	var setAuth func(bool)
	if v13 {
		var prot *zzTxProt13
		var localCID []byte
		c, pc, prot, localCID = zzSwConn13(nLocal, nRemote)
		mk = func(seq uint64, t byte, content []byte) []byte { return zzSwRecord13(localCID, seq, t, content) }
		parse = func(w zzTxWrite) zzSwSent { return zzSwParseSent13(w, nRemote) }
		setAuth = func(ok bool) { prot.openOK = ok }
	} else {
		var suite *zzSwSuite
		var localCID []byte
		c, pc, suite, localCID = zzSwConn(nLocal, nRemote, true)
		mk = func(seq uint64, t byte, content []byte) []byte {
			return zzSwRecord(localCID, true, 1, zzSwSeqBytes(seq), t, content)
		}
		parse = func(w zzTxWrite) zzSwSent { return zzSwParseSent(w, nRemote) }
		setAuth = func(ok bool) { suite.authOK = ok }
	}
	setAuth(true)
	ctx := context.Background()
	s1, _ := zzSwSeq48("s")
	zzsymAssume(zzsymAnd(s1 >= 1, s1 <= recordlayer.MaxSequenceNumber-10))
	if v13 {
		zzsymAssume(s1 <= 100)
	}
	var fromB, fromC, toB, toC int

	// 1. newest authentic record from B
	rec1 := mk(s1, 23, zzsymBytes("app1", 3))
	zzSwTick()
	_, err := c.processIncomingPacket(ctx, rec1, zzSwAddrB, nil)
	zzsymAssert(err == nil, "record_accepted")
	<-c.decrypted
	fromB += len(rec1)
	chB, okB, n := zzSwChallengeTo(pc, 0, zzSwAddrB, parse)
	toB += n
	tB := zzSwSec
	if !zzSwFineClock {
		zzsymAssert(okB, "newest_cid_record_from_new_address_is_challenged")
	} else if !okB {
		return // thorough tier: a second may pass between creating and sending the challenge; then none is sent
	}
	zzsymAssert(len(zzSwRand) == 1 && zzsymEqBytes(zzSwRand[0], chB), "challenge_cookie_is_fresh_randomness")
	zzsymAssert(len(pc.writes) == 1, "only_the_challenge_is_sent")
	zzsymAssert(c.rAddr == zzSwAddrA, "address_unchanged_before_validation")
	zzsymAssert(toB <= 3*fromB, "bytes_to_candidate_le_3x_bytes_from_candidate")

	// 2. optionally a record from C
	var chC []byte
	var tC int64
	raceC := zzsymChoice("third_address", 2) == 1
	if raceC {
		w0 := len(pc.writes)
		rec2 := mk(s1+1, 23, zzsymBytes("app2", 3))
		zzSwTick()
		_, err = c.processIncomingPacket(ctx, rec2, zzSwAddrC, nil)
		zzsymAssert(err == nil, "record_accepted")
		<-c.decrypted
		fromC += len(rec2)
		var okC bool
		chC, okC, n = zzSwChallengeTo(pc, w0, zzSwAddrC, parse)
		toC += n
		tC = zzSwSec
		if !zzSwFineClock {
			zzsymAssert(okC, "newest_cid_record_from_new_address_is_challenged")
		} else if !okC {
			return
		}
		zzsymAssert(len(zzSwRand) == 2 && zzsymEqBytes(zzSwRand[1], chC), "challenge_cookie_is_fresh_randomness")
		zzsymAssume(!zzsymEqBytes(chB, chC)) // named assumption: no 64-bit cookie collision
		zzsymAssert(c.rAddr == zzSwAddrA, "address_unchanged_before_validation")
		zzsymAssert(toC <= 3*fromC, "bytes_to_candidate_le_3x_bytes_from_candidate")
	}

	// 3./4. time passes, a path response arrives
	src := []net.Addr{zzSwAddrA, zzSwAddrB, zzSwAddrC}[zzsymChoice("resp_from", 3)]
	var cookie []byte
	switch zzsymChoice("resp_cookie", 3) {
	case 0:
		cookie = chB
	case 1:
		if !raceC {
			return
		}
		cookie = chC
	default:
		cookie = zzsymBytes("forged", 8)
	}
	seqRel := zzsymChoice("resp_seq", 3)
	respSeq := s1 + 5
	switch seqRel {
	case 1:
		respSeq = s1 // replay of an accepted number
	case 2:
		respSeq = s1 - 1 // older, still inside the window
	}
	respAuth := zzsymBool("resp_auth_ok")
	setAuth(respAuth)
	resp := mk(respSeq, 27, append([]byte{1}, cookie...))
	w0 := len(pc.writes)
	zzSwTick()
	zzSwHaveFirst = false
	_, _ = c.processIncomingPacket(ctx, resp, src, nil)
	tResp := zzSwFirstSec // first clock reading taken while handling the response (if any)
	if zzsymAnd(respAuth, seqRel != 1) {
		switch src {
		case zzSwAddrB:
			fromB += len(resp)
		case zzSwAddrC:
			fromC += len(resp)
		}
	}
	for _, w := range pc.writes[w0:] {
		if c.rAddr != w.to {
			if w.to == zzSwAddrB {
				toB += len(w.data)
			} else if w.to == zzSwAddrC {
				toC += len(w.data)
			}
		}
	}
	if c.rAddr != zzSwAddrB {
		zzsymAssert(toB <= 3*fromB, "bytes_to_candidate_le_3x_bytes_from_candidate")
	}
	if c.rAddr != zzSwAddrC {
		zzsymAssert(toC <= 3*fromC, "bytes_to_candidate_le_3x_bytes_from_candidate")
	}

	sameB, sameC := zzsymEqBytes(cookie, chB), raceC && zzsymEqBytes(cookie, chC)
	honestB := zzsymAnd(zzsymAnd(respAuth, seqRel != 1), zzsymAnd(src == zzSwAddrB, sameB))
	switch c.rAddr {
	case zzSwAddrA:
		// not switched: say why (coverage of the refusals)
		switch {
		case !respAuth:
			zzsymCover("mig_forged")
		case seqRel == 1:
			zzsymCover("mig_replayed")
		case src == zzSwAddrB && sameB, src == zzSwAddrC && sameC:
			// the only remaining reason is lateness (exact only with the phase clock of the quick tier, where
			// the whole step sees one instant)
			if !zzSwFineClock {
				if src == zzSwAddrB {
					zzsymAssert(zzSwHaveFirst && tResp >= tB+1, "honest_response_in_time_switches")
				} else {
					zzsymAssert(zzSwHaveFirst && tResp >= tC+1, "honest_response_in_time_switches")
				}
			}
			zzsymCover("mig_late")
		case sameB || sameC:
			zzsymCover("mig_wrong_source")
		default:
			zzsymCover("mig_wrong_cookie")
		}
		return
	case zzSwAddrB:
		zzsymAssert(honestB, "switch_only_for_authentic_fresh_response_from_challenged_address_with_its_cookie")
		zzsymAssert(tResp < tB+1, "switch_only_within_one_second_of_challenge")
		zzsymCover("mig_switched_b")
	case zzSwAddrC:
		zzsymAssert(zzsymAnd(zzsymAnd(respAuth, seqRel != 1), zzsymAnd(src == zzSwAddrC, sameC)),
			"switch_only_for_authentic_fresh_response_from_challenged_address_with_its_cookie")
		zzsymAssert(tResp < tC+1, "switch_only_within_one_second_of_challenge")
		zzsymCover("mig_switched_c")
		return
	default:
		zzsymFail("address_is_one_of_the_three")
	}

	// 5. the connection now talks to B; an attacker at C tries to take it over
	setAuth(true)
	switch zzsymChoice("attack", 2) {
	case 0: // same datagram again, source rewritten
		_, _ = c.processIncomingPacket(ctx, resp, zzSwAddrC, nil)
		zzsymAssert(c.rAddr == zzSwAddrB, "replayed_response_from_other_address_does_not_move_the_connection")
		zzsymCover("mig_replay_after_switch_refused")
	case 1: // a fresh authentic response that echoes the cookie that was issued to B
		stolen := mk(s1+6, 27, append([]byte{1}, chB...))
		zzSwTick()
		_, _ = c.processIncomingPacket(ctx, stolen, zzSwAddrC, nil)
		zzsymAssert(c.rAddr == zzSwAddrB, "cookie_issued_to_one_address_does_not_validate_another")
		zzsymCover("mig_stolen_cookie_refused")
	}
}

// The anti-amplification budget is checked BEFORE a return-routability message leaves: an established DTLS 1.2
// server with RRC negotiated (own connection ID of 1 byte, peer connection ID of 0, 2 or 8 bytes - the message to
// send carries the PEER's id, so its size is not the size of what was received) has received R bytes (arbitrary,
// 0..400) in authentic records from the unvalidated address B and sent it nothing yet. WriteRRC(B, path_challenge)
// is called twice. Proved: the total number of bytes handed to the network for B never exceeds 3*R at any point;
// a call that would exceed it writes NOTHING and reports the limit; a call within the budget writes exactly one
// record.
//
//symgo:entry covers=within_budget_written,over_budget_nothing_written
func zzWriteRRCWithinBudget() {
	nRemote := []int{0, 2, 8}[zzsymChoice("peer_cid_len", 3)]
	c, pc, suite, _ := zzSwConn(1, nRemote, true)
	suite.authOK = true
	received := zzsymInt("received_from_candidate")
	zzsymAssume(received >= 0 && received <= 400)
	active := func() net.Addr { return zzSwAddrA }
	c.rrc.WrapReplayMarker(func() bool { return true }, zzSwAddrB, received, active, true)()
	var cookie [protocol.ReturnRoutabilityCheckCookieLength]byte
	copy(cookie[:], zzsymBytes("cookie", protocol.ReturnRoutabilityCheckCookieLength))
	sent := 0
	for k := 0; k < 2; k++ {
		before := len(pc.writes)
		err := returnRoutabilityConn{conn: c}.WriteRRC(context.Background(), zzSwAddrB, protocol.ReturnRoutabilityCheckPathChallenge, cookie)
		wrote := pc.writes[before:]
		for _, w := range wrote {
			zzsymAssert(w.to == zzSwAddrB, "rrc_message_goes_to_the_candidate")
			sent += len(w.data)
		}
		zzsymAssert(sent <= 3*received, "bytes_to_unvalidated_address_within_three_times_received")
		if err != nil {
			zzsymAssert(len(wrote) == 0, "refused_rrc_message_is_not_written")
			zzsymCover("over_budget_nothing_written")
		} else {
			zzsymAssert(len(wrote) == 1, "accepted_rrc_message_is_one_record")
			zzsymCover("within_budget_written")
		}
	}
}

// "Only the newest record may start a path validation", per content type and protocol version: on a DTLS 1.2 or 1.3
// server connection with RRC negotiated, an authentic record with sequence number s+5 arrives from the validated
// address A, then an authentic, not yet seen but OLDER record (s+2; application data, alert warning, ACK - DTLS 1.3 -
// or a return-routability message of unknown type) carrying our CID arrives from a new address B. Being overtaken
// makes a record stale whatever its type: nothing is sent to B (no path challenge), no challenge cookie is drawn, the
// peer address stays A.
//
//symgo:entry covers=stale12,stale13,stale_ack13
func zzStaleRecordNeverStartsValidation() {
	v13 := zzsymChoice("dtls13", 2) == 1
	nLocal, nRemote := zzsymParam("NLCID"), 1
	var c *Conn
	var pc *zzTxPC
	var mk func(seq uint64, realType byte, content []byte) []byte
	if v13 {
		var prot *zzTxProt13
		var localCID []byte
		c, pc, prot, localCID = zzSwConn13(nLocal, nRemote)
		mk = func(seq uint64, t byte, content []byte) []byte { return zzSwRecord13(localCID, seq, t, content) }
		prot.openOK = true
	} else {
		var suite *zzSwSuite
		var localCID []byte
		c, pc, suite, localCID = zzSwConn(nLocal, nRemote, true)
		mk = func(seq uint64, t byte, content []byte) []byte {
			return zzSwRecord(localCID, true, 1, zzSwSeqBytes(seq), t, content)
		}
		suite.authOK = true
	}
	ctx := context.Background()
	s, _ := zzSwSeq48("s")
	zzsymAssume(zzsymAnd(s >= 1, s <= 90))
	zzSwTick()
	_, err := c.processIncomingPacket(ctx, mk(s+5, 23, zzsymBytes("app_newest", 2)), zzSwAddrA, nil)
	zzsymAssert(err == nil, "record_accepted")
	<-c.decrypted
	w0, r0 := len(pc.writes), len(zzSwRand)
	var stale []byte
	switch kind := zzsymChoice("stale_kind", 4); {
	case kind == 0:
		stale = mk(s+2, 23, zzsymBytes("app_stale", 2))
	case kind == 1:
		stale = mk(s+2, 21, []byte{1, zzsymU8("alert_description")})
	case kind == 2 && v13:
		stale = mk(s+2, 26, []byte{0, 0}) // ACK naming no records
		zzsymCover("stale_ack13")
	default:
		stale = mk(s+2, 27, append([]byte{9}, zzsymBytes("rrc_unknown_type", 8)...))
	}
	zzSwTick()
	_, _ = c.processIncomingPacket(ctx, stale, zzSwAddrB, nil)
	for len(c.decrypted) > 0 {
		<-c.decrypted
	}
	for _, w := range pc.writes[w0:] {
		zzsymAssert(w.to != zzSwAddrB, "stale_record_sends_nothing_to_its_source")
	}
	zzsymAssert(len(zzSwRand) == r0, "stale_record_draws_no_challenge_cookie")
	zzsymAssert(c.rAddr == zzSwAddrA, "stale_record_keeps_peer_address")
	if v13 {
		zzsymCover("stale13")
	} else {
		zzsymCover("stale12")
	}
}
