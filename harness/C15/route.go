package dtls

//symgo:pkg github.com/pion/dtls/v3
//symgo:param NCID quick=2 thorough=4
//symgo:param NREC quick=3 thorough=4
//symgo:param NARB quick=8 thorough=14
//symgo:param NARB13 quick=2 thorough=10
//symgo:outside datagrams longer than the stated bounds; DTLS 1.3 datagrams that start with a plaintext record followed by a CID-carrying ciphertext record (no endpoint produces them towards a listener)

import (
	"github.com/pion/dtls/v3/pkg/protocol"
	"github.com/pion/dtls/v3/pkg/protocol/extension"
	"github.com/pion/dtls/v3/pkg/protocol/handshake"
	"github.com/pion/dtls/v3/pkg/protocol/recordlayer"
)

// zzRefRoute12 is the reference for DTLS 1.2 datagram routing, written from RFC 6347 4.1 / RFC 9146 4:
// records are type(1) version(2) epoch(2) seq(6) [cid(size) iff type==25] length(2) body(length);
// the routing key is the CID of the first record of type tls12_cid(25) whose version is a DTLS version.
// The walk stops (nothing found) at the first record that does not fit in the datagram.
func zzRefRoute12(d []byte, size int) ([]byte, bool) {
	o := 0
	for o < len(d) {
		hdr := 13
		isCID := d[o] == 25
		if isCID {
			hdr += size
		}
		if len(d)-o < hdr {
			return nil, false
		}
		l := int(d[o+hdr-2])<<8 | int(d[o+hdr-1])
		if o+hdr+l > len(d) {
			return nil, false
		}
		okVersion := d[o+1] == 0xfe && (d[o+2] == 0xfd || d[o+2] == 0xff)
		if isCID && okVersion {
			return d[o+11 : o+11+size], true
		}
		o += hdr + l
	}
	return nil, false
}

// Listener routing key, DTLS 1.2, well-formed datagrams: 1..NREC records, each either an ordinary record
// (any type other than 25 and other than a DTLS 1.3 ciphertext pattern in first position) or a tls12_cid
// record, bodies of 1..2 bytes, every other byte symbolic, CID size 1..NCID. Proved: cidDatagramRouter(size)
// returns exactly the CID bytes of the first tls12_cid record, wherever it is in the datagram (e.g. the
// Finished of a client flight that follows plaintext handshake records), and reports "no key" iff the
// datagram has no such record.
//
//symgo:entry covers=routed_first_record,routed_later_record,no_cid_record
func zzRouteLegacyWellFormed() {
	size := 1 + zzsymChoice("cid_size", zzsymParam("NCID"))
	nrec := 1 + zzsymChoice("nrec", zzsymParam("NREC"))
	var d []byte
	firstCID := -1
	var want []byte
	for i := 0; i < nrec; i++ {
		isCID := zzsymChoice("is_cid", 2) == 1
		nbody := 1 + zzsymChoice("nbody", 2)
		hdr := 13
		if isCID {
			hdr += size
		}
		rec := zzsymBytes("rec", hdr+nbody)
		if isCID {
			zzsymAssume(rec[0] == 25)
			if firstCID < 0 {
				firstCID = i
				want = rec[11 : 11+size]
			}
		} else {
			zzsymAssume(rec[0] != 25)
			if i == 0 {
				zzsymAssume(rec[0]&0xe0 != 0x20) // a DTLS 1.2 datagram does not start with a unified header
			}
		}
		zzsymAssume(zzsymAnd(rec[1] == 0xfe, zzsymOr(rec[2] == 0xfd, rec[2] == 0xff)))
		zzsymAssume(zzsymAnd(rec[hdr-2] == 0, rec[hdr-1] == byte(nbody)))
		d = append(d, rec...)
	}
	id, ok := cidDatagramRouter(size)(d)
	if firstCID < 0 {
		zzsymAssert(!ok, "no_cid_record_no_key")
		zzsymCover("no_cid_record")
		return
	}
	zzsymAssert(ok, "cid_record_gives_key")
	zzsymAssert(zzsymEqStr(id, string(want)), "key_is_cid_of_first_cid_record")
	if firstCID == 0 {
		zzsymCover("routed_first_record")
	} else {
		zzsymCover("routed_later_record")
	}
}

// Listener routing key, DTLS 1.2, arbitrary bytes: every datagram of 0..13+NCID+NARB bytes that does not start
// with a DTLS 1.3 unified header, CID size 0..NCID. Proved: the router never panics, and whenever it returns
// a key that key is the CID of the first tls12_cid record according to the independent RFC reference walk
// (so a datagram is never attributed to an ID it does not carry).
//
//symgo:entry covers=arb_key,arb_nokey,arb_empty
func zzRouteLegacyArbitrary() {
	size := zzsymChoice("cid_size", zzsymParam("NCID")+1)
	n := zzsymChoice("len", 13+zzsymParam("NCID")+zzsymParam("NARB")+1)
	d := zzsymBytes("d", n)
	if n > 0 {
		zzsymAssume(d[0]&0xe0 != 0x20)
	}
	id, ok := cidDatagramRouter(size)(d)
	if n == 0 {
		zzsymAssert(!ok, "empty_no_key")
		zzsymCover("arb_empty")
		return
	}
	if !ok {
		zzsymCover("arb_nokey")
		return
	}
	want, found := zzRefRoute12(d, size)
	zzsymAssert(found, "key_only_if_reference_finds_cid_record")
	zzsymAssert(zzsymEqStr(id, string(want)), "key_is_cid_of_first_cid_record")
	zzsymCover("arb_key")
}

// Listener routing key, DTLS 1.3, well-formed datagrams that start with a ciphertext record (RFC 9147
// section 4 unified header 001CSLEE): first record carries the CID (C bit), S and L bits and epoch bits
// arbitrary, 16..17 ciphertext bytes; optionally followed by a second ciphertext record that repeats the
// same CID or omits it (RFC 9147 allows omitting it on all but the first record). CID size 1..NCID.
// Proved: cidDatagramRouter(size) returns exactly the CID bytes that follow the first header byte.
//
//symgo:entry covers=routed13_single,routed13_second_same_cid,routed13_second_without_cid
func zzRoute13WellFormed() {
	size := 1 + zzsymChoice("cid_size", zzsymParam("NCID"))
	sbit := zzsymChoice("s_bit", 2) == 1
	second := zzsymChoice("second", 3) // 0 none, 1 same CID, 2 CID omitted
	lbit := second != 0 || zzsymChoice("l_bit", 2) == 1
	nenc := 16 + zzsymChoice("nenc", 2)
	cid := zzsymBytes("cid", size)
	build := func(withCID, s, l bool, nenc int) []byte {
		b0 := zzsymU8("flags")&0x03 | 0x20
		var r []byte
		if withCID {
			b0 |= 0x10
		}
		if s {
			b0 |= 0x08
		}
		if l {
			b0 |= 0x04
		}
		r = append(r, b0)
		if withCID {
			r = append(r, cid...)
		}
		r = append(r, zzsymU8("seq"))
		if s {
			r = append(r, zzsymU8("seq"))
		}
		if l {
			r = append(r, byte(nenc>>8), byte(nenc))
		}
		return append(r, zzsymBytes("enc", nenc)...)
	}
	d := build(true, sbit, lbit, nenc)
	switch second {
	case 1:
		d = append(d, build(true, zzsymChoice("s_bit2", 2) == 1, true, 16)...)
	case 2:
		d = append(d, build(false, zzsymChoice("s_bit2", 2) == 1, true, 16)...)
	}
	id, ok := cidDatagramRouter(size)(d)
	zzsymAssert(ok, "cid_record_gives_key")
	zzsymAssert(zzsymEqStr(id, string(cid)), "key_is_cid_of_first_record")
	switch second {
	case 0:
		zzsymCover("routed13_single")
	case 1:
		zzsymCover("routed13_second_same_cid")
	case 2:
		zzsymCover("routed13_second_without_cid")
	}
}

// Listener routing key, DTLS 1.3, arbitrary bytes after a unified-header first byte: datagrams of
// 1..4+NCID+16+NARB13 bytes, CID size 0..NCID. Proved: no panic; a returned key has exactly `size` bytes and,
// when the first record has the C bit, equals the bytes that follow the first header byte (a datagram is
// never attributed to an ID it does not carry); without a configured CID size no DTLS 1.3 record yields a key.
//
//symgo:entry covers=arb13_key,arb13_nokey
func zzRoute13Arbitrary() {
	size := zzsymChoice("cid_size", zzsymParam("NCID")+1)
	n := 1 + zzsymChoice("len", 4+zzsymParam("NCID")+16+zzsymParam("NARB13"))
	d := zzsymBytes("d", n)
	zzsymAssume(d[0]&0xe0 == 0x20)
	id, ok := cidDatagramRouter(size)(d)
	if !ok {
		zzsymCover("arb13_nokey")
		return
	}
	zzsymCover("arb13_key")
	zzsymAssert(size > 0, "no_key_without_cid_size")
	zzsymAssert(len(id) == size, "key_has_cid_size")
	if d[0]&0x10 != 0 {
		zzsymAssert(zzsymEqStr(id, string(d[1:1+size])), "key_is_cid_of_first_record")
	}
}

// Ownership registration: cidConnIdentifier on an outgoing ServerHello record that carries a connection_id
// extension (CID length 0..NCID, symbolic bytes, symbolic random / session id) yields exactly that CID, so the
// listener files the connection under the very key cidDatagramRouter later extracts from tls12_cid records;
// a ServerHello without the extension and a non-handshake record yield no key.
//
//symgo:entry covers=ident_cid,ident_no_ext,ident_not_handshake
func zzConnIdentifier() {
	ncid := zzsymChoice("cid_len", zzsymParam("NCID")+1)
	cid := zzsymBytes("cid", ncid)
	variant := zzsymChoice("variant", 3)
	sh := &handshake.MessageServerHello{Version: protocol.Version1_2}
	copy(sh.Random.RandomBytes[:], zzsymBytes("random", 4))
	sh.SessionID = zzsymBytes("sid", zzsymChoice("sid_len", 2))
	id := uint16(TLS_ECDHE_ECDSA_WITH_AES_128_GCM_SHA256)
	sh.CipherSuiteID = &id
	sh.CompressionMethod = &protocol.CompressionMethod{}
	if variant != 1 {
		sh.Extensions = append(sh.Extensions, &extension.ConnectionID{CID: cid})
	}
	var content protocol.Content = &handshake.Handshake{Message: sh}
	if variant == 2 {
		content = &protocol.ApplicationData{Data: zzsymBytes("app", 3)}
	}
	rec := &recordlayer.RecordLayer{Header: recordlayer.Header{Version: protocol.Version1_2}, Content: content}
	raw, err := rec.Marshal()
	zzsymAssert(err == nil, "marshal_ok")
	got, ok := cidConnIdentifier()(raw)
	switch variant {
	case 0:
		zzsymAssert(ok, "server_hello_with_cid_gives_key")
		zzsymAssert(zzsymEqStr(got, string(cid)), "key_is_server_cid")
		zzsymCover("ident_cid")
	case 1:
		zzsymAssert(!ok, "no_extension_no_key")
		zzsymCover("ident_no_ext")
	case 2:
		zzsymAssert(!ok, "not_handshake_no_key")
		zzsymCover("ident_not_handshake")
	}
}
