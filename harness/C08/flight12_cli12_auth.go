package flight12

// GENERATED copy of harness/C03/cli12_auth.go: the DTLS 1.2 flight parsers / generators driven over every sub-sequence of the
// peer's flight messages with arbitrary contents and verdicts. C08 reuses it for 'no sequence of datagrams from an
// unauthenticated sender, in any handshake state, makes an endpoint panic': a Go panic escaping any of these paths is
// reported as a violation by the engine (the authentication assertions of C03 stay in; they hold on the same paths).

//symgo:pkg github.com/pion/dtls/v3/internal/flight/flight12
//symgo:param CLICERTS quick=3 thorough=4
//symgo:param CLICURVES quick=2 thorough=4
//symgo:replace github.com/pion/dtls/v3/internal/handshakecrypto.VerifyKeySignature zzCliVerifyKeySignature
//symgo:replace github.com/pion/dtls/v3/internal/handshakecrypto.VerifyServerCert zzCliVerifyServerCert
//symgo:replace github.com/pion/dtls/v3/pkg/crypto/elliptic.GenerateKeypair zzCliGenerateKeypair
//symgo:replace github.com/pion/dtls/v3/pkg/crypto/prf.PreMasterSecret zzCliECDH
//symgo:replace github.com/pion/dtls/v3/pkg/crypto/prf.MasterSecret zzCliMasterSecret
//symgo:replace github.com/pion/dtls/v3/pkg/crypto/prf.ExtendedMasterSecret zzCliExtMasterSecret
//symgo:replace github.com/pion/dtls/v3/pkg/crypto/prf.VerifyDataClient zzCliVerifyDataClient
//symgo:replace github.com/pion/dtls/v3/pkg/crypto/prf.VerifyDataServer zzCliVerifyDataServer
//symgo:stub handshakecrypto.VerifyKeySignature (X.509 leaf parsing + signature verification) and handshakecrypto.VerifyServerCert (x509 chain building against RootCAs with the DNS name) are recorders returning an ARBITRARY verdict, except that an empty certificate list is always refused - which is what the real wrappers do first (proved by zzHcVerifySignature / zzHcVerifyChain in crypto_wrappers.go); their arguments are recorded and asserted on
//symgo:stub elliptic.GenerateKeypair returns a fixed key pair; prf.PreMasterSecret (ECDH) is an uninterpreted function; prf.MasterSecret / ExtendedMasterSecret record the pre-master secret and return a marker; prf.VerifyDataServer is an uninterpreted function of (master secret, transcript) and records the master secret it is keyed with; prf.VerifyDataClient returns a constant; cipher suites are harness fakes registered through cfg.CustomCipherSuites whose Init records the authentication facts established so far
//symgo:assume server messages reach the client's flight handlers through the handshake cache as complete, unfragmented messages whose header agrees with the cache metadata; a cache item at epoch 1 was decrypted with the keys installed by CipherSuite.Init (C05)
//symgo:assume a client that configures no PSK callback has no PSK cipher suite in LocalCipherSuites (parseCipherSuitesForVersions drops them - proved in C11 zzSuiteParse), so a PSK suite is only ever negotiated by a client that holds a PSK
//symgo:outside CertificateRequest / client certificate selection in flight5Generate (not part of authenticating the server); session resumption (no certificate exchange; C04 checks its Finished); which messages the Finished transcript covers (C04)

import (
	"context"
	"crypto/x509"
	"errors"
	"hash"
	"time"

	"github.com/pion/dtls/v3/internal/ciphersuite"
	dtlsconfig "github.com/pion/dtls/v3/internal/config"
	dtlsflight "github.com/pion/dtls/v3/internal/flight"
	dtlsstate "github.com/pion/dtls/v3/internal/state"
	"github.com/pion/dtls/v3/pkg/crypto/clientcertificate"
	"github.com/pion/dtls/v3/pkg/crypto/elliptic"
	dtlshash "github.com/pion/dtls/v3/pkg/crypto/hash"
	"github.com/pion/dtls/v3/pkg/crypto/prf"
	"github.com/pion/dtls/v3/pkg/crypto/signature"
	"github.com/pion/dtls/v3/pkg/crypto/signaturehash"
	"github.com/pion/dtls/v3/pkg/protocol"
	"github.com/pion/dtls/v3/pkg/protocol/alert"
	"github.com/pion/dtls/v3/pkg/protocol/handshake"
	"github.com/pion/dtls/v3/pkg/protocol/recordlayer"
)

type zzCliRec struct {
	sigCalls               int
	sigOK                  bool
	sigMsg, sigSig         []byte
	sigHash                dtlshash.Algorithm
	sigAlg                 signature.Algorithm
	sigCerts               [][]byte
	chainCalls             int
	chainOK                bool
	chainCerts             [][]byte
	chainRoots             *x509.CertPool
	chainName              string
	vpcCalls               int
	vpcOK                  bool
	vpcCerts               [][]byte
	vpcGotChain            bool
	vconnCalls             int
	vconnOK                bool
	pskCalls               int
	pskOK                  bool
	pskHint, psk           []byte
	preMaster              []byte
	msCalls                int
	vdsCalls               int
	vdsMaster, vdsExpected []byte
	initCalls              int
	initMaster             []byte
	initSigOK              bool
	initSigCalls           int
	initChainOK            bool
	initChainCalls         int
	initVPCOK, initVConnOK bool
	initVPCCalls           int
	initVConnCalls         int
}

var zzCli zzCliRec

var zzCliErr = errors.New("zz: verification failed")

var zzCliLeaf = new(x509.Certificate)

var zzCliMasterMarker = []byte{0xc3, 0x3c, 0x11}

func zzCliVerifyKeySignature(msg, sig []byte, h dtlshash.Algorithm, s signature.Algorithm, certs [][]byte) error {
	zzCli.sigCalls++
	zzCli.sigMsg, zzCli.sigSig, zzCli.sigHash, zzCli.sigAlg, zzCli.sigCerts = msg, sig, h, s, certs
	zzCli.sigOK = false
	if len(certs) == 0 {
		return zzCliErr // verifyCertificateSignature: ErrLengthMismatch
	}
	zzCli.sigOK = zzsymBool("ske_signature_ok")
	if !zzCli.sigOK {
		return zzCliErr
	}

	return nil
}

func zzCliVerifyServerCert(certs [][]byte, roots *x509.CertPool, name string, _ []signaturehash.Algorithm) ([][]*x509.Certificate, error) {
	zzCli.chainCalls++
	zzCli.chainCerts, zzCli.chainRoots, zzCli.chainName = certs, roots, name
	zzCli.chainOK = false
	if len(certs) == 0 {
		return nil, zzCliErr // loadCerts: ErrLengthMismatch
	}
	zzCli.chainOK = zzsymBool("chain_ok")
	if !zzCli.chainOK {
		return nil, zzCliErr
	}

	return [][]*x509.Certificate{{zzCliLeaf}}, nil
}

func zzCliGenerateKeypair(c elliptic.Curve) (*elliptic.Keypair, error) {
	return &elliptic.Keypair{Curve: c, PublicKey: []byte{4, 1}, PrivateKey: []byte{9, 9}}, nil
}

func zzCliCurveBytes(c elliptic.Curve) []byte { return []byte{byte(c >> 8), byte(c)} }

func zzCliECDH(pub, priv []byte, c elliptic.Curve) ([]byte, error) {
	return zzsymUF("ECDH", 4, pub, priv, zzCliCurveBytes(c)), nil
}

func zzCliMasterSecret(pre, _, _ []byte, _ prf.HashFunc) ([]byte, error) {
	zzCli.msCalls++
	zzCli.preMaster = pre

	return zzCliMasterMarker, nil
}

func zzCliExtMasterSecret(pre, _ []byte, _ prf.HashFunc) ([]byte, error) {
	zzCli.msCalls++
	zzCli.preMaster = pre

	return zzCliMasterMarker, nil
}

func zzCliVerifyDataClient(_, _ []byte, _ prf.HashFunc) ([]byte, error) {
	return make([]byte, 12), nil
}

func zzCliVerifyDataServer(master, transcript []byte, _ prf.HashFunc) ([]byte, error) {
	zzCli.vdsCalls++
	zzCli.vdsMaster = master
	zzCli.vdsExpected = zzsymUF("VerifyDataServer", 12, master, transcript)

	return zzCli.vdsExpected, nil
}

// zzCliSuite: cipher suite without cryptography, private-use id, registered via cfg.CustomCipherSuites.
type zzCliSuite struct {
	id          ciphersuite.ID
	auth        ciphersuite.AuthenticationType
	kx          ciphersuite.KeyExchangeAlgorithm
	initialized bool
}

func (s *zzCliSuite) String() string                          { return "zzCliSuite" }
func (s *zzCliSuite) ID() ciphersuite.ID                      { return s.id }
func (s *zzCliSuite) CertificateType() clientcertificate.Type { return clientcertificate.ECDSASign }
func (s *zzCliSuite) HashFunc() func() hash.Hash              { return nil }
func (s *zzCliSuite) AuthenticationType() ciphersuite.AuthenticationType {
	return s.auth
}
func (s *zzCliSuite) KeyExchangeAlgorithm() ciphersuite.KeyExchangeAlgorithm { return s.kx }
func (s *zzCliSuite) ECC() bool                                              { return true }
func (s *zzCliSuite) Init(master, _, _ []byte, _ bool) error {
	zzCli.initCalls++
	zzCli.initMaster = master
	zzCli.initSigOK, zzCli.initSigCalls = zzCli.sigOK, zzCli.sigCalls
	zzCli.initChainOK, zzCli.initChainCalls = zzCli.chainOK, zzCli.chainCalls
	zzCli.initVPCOK, zzCli.initVPCCalls = zzCli.vpcOK, zzCli.vpcCalls
	zzCli.initVConnOK, zzCli.initVConnCalls = zzCli.vconnOK, zzCli.vconnCalls
	s.initialized = true

	return nil
}
func (s *zzCliSuite) IsInitialized() bool                                    { return s.initialized }
func (s *zzCliSuite) Decrypt(_ recordlayer.Header, in []byte) ([]byte, error) { return in, nil }
func (s *zzCliSuite) Encrypt(_ *recordlayer.RecordLayer, raw []byte) ([]byte, error) {
	return raw, nil
}

type zzCliLog struct{}

func (zzCliLog) Trace(string)          {}
func (zzCliLog) Tracef(string, ...any) {}
func (zzCliLog) Debug(string)          {}
func (zzCliLog) Debugf(string, ...any) {}
func (zzCliLog) Info(string)           {}
func (zzCliLog) Infof(string, ...any)  {}
func (zzCliLog) Warn(string)           {}
func (zzCliLog) Warnf(string, ...any)  {}
func (zzCliLog) Error(string)          {}
func (zzCliLog) Errorf(string, ...any) {}

type zzCliConn struct{}

func (zzCliConn) HandleQueuedPackets(context.Context) error { return nil }
func (zzCliConn) SessionKey() []byte                        { return nil }

const (
	zzCliIDCert  = ciphersuite.ID(0xff01)
	zzCliIDPSK   = ciphersuite.ID(0xff02)
	zzCliIDECPSK = ciphersuite.ID(0xff03)

	zzCliSKENone        = 0 // no ServerKeyExchange
	zzCliSKESigned      = 1 // ECDHE parameters signed with a scheme of the client's list
	zzCliSKEUnlisted    = 2 // ... signed with a scheme the client did not configure
	zzCliSKEUnsigned    = 3 // ECDHE parameters without signature (the anonymous layout)
	zzCliFinNone        = 0
	zzCliFinEpoch1      = 1
	zzCliFinEpoch0      = 2
	zzCliCertNone       = 0
	zzCliCertEmpty      = 1
	zzCliCertOne        = 2
	zzCliCertTwo        = 3
)

func zzCliMsg(typ handshake.Type, seq int, body []byte) []byte {
	n := len(body)
	hdr := []byte{byte(typ), byte(n >> 16), byte(n >> 8), byte(n), byte(seq >> 8), byte(seq), 0, 0, 0, byte(n >> 16), byte(n >> 8), byte(n)}

	return append(hdr, body...)
}

func zzCliCertBody(certs [][]byte) []byte {
	list := []byte{}
	for _, c := range certs {
		list = append(list, 0, 0, byte(len(c)))
		list = append(list, c...)
	}

	return append([]byte{0, 0, byte(len(list))}, list...)
}

func zzCliEqCerts(a, b [][]byte) bool {
	if len(a) != len(b) {
		return false
	}
	ok := true
	for i := range a {
		ok = zzsymAnd(ok, zzsymEqBytes(a[i], b[i]))
	}

	return ok
}

func zzCliCurve(i int) elliptic.Curve {
	switch i {
	case 0:
		return elliptic.X25519
	case 1:
		return elliptic.P256
	case 2:
		return elliptic.P384
	}

	return elliptic.X25519MLKEM768
}

type zzCliScenario struct {
	cfg          *dtlsconfig.HandshakeConfig
	state        *dtlsstate.State12
	cache        *dtlsflight.Cache
	suiteID      ciphersuite.ID
	clientRandom []byte // as sent in the ClientHello: gmt_unix_time(4) random_bytes(28)
	serverRandom []byte // bytes 2..34 of the ServerHello body
	certMsg      bool
	certs        [][]byte
	skeKind      int
	skeHint      []byte
	curve        elliptic.Curve
	serverPub    []byte
	skeSig       []byte
	skeHash      byte
	skeAlg       byte
	finished     int
	verifyData   []byte
	skipVerify   bool
	hasVPC       bool
	hasVConn     bool
	hasPSK       bool
	serverName   string
}

// zzCliBuild: a DTLS 1.2 client after flight3Generate (second ClientHello sent) and the server's answer in the
// cache: HelloVerifyRequest (seq 0, already consumed), ServerHello (seq 1) choosing suiteID, then as enumerated
// Certificate, ServerKeyExchange, ServerHelloDone and the server's Finished.
func zzCliBuild(suiteID ciphersuite.ID, certShape, skeKind, curveIdx, finished int, skipVerify, callbacks, psk bool) *zzCliScenario {
	sc := &zzCliScenario{suiteID: suiteID, skeKind: skeKind, finished: finished, skipVerify: skipVerify, hasPSK: psk}
	sc.serverName = zzsymString("server_name", 3)
	suites := []dtlsconfig.CipherSuite{
		&zzCliSuite{id: zzCliIDCert, auth: ciphersuite.AuthenticationTypeCertificate, kx: ciphersuite.KeyExchangeAlgorithmEcdhe},
		&zzCliSuite{id: zzCliIDPSK, auth: ciphersuite.AuthenticationTypePreSharedKey, kx: ciphersuite.KeyExchangeAlgorithmPsk},
		&zzCliSuite{
			id: zzCliIDECPSK, auth: ciphersuite.AuthenticationTypePreSharedKey,
			kx: ciphersuite.KeyExchangeAlgorithmPsk | ciphersuite.KeyExchangeAlgorithmEcdhe,
		},
	}
	sc.cfg = &dtlsconfig.HandshakeConfig{
		LocalCipherSuites:  suites,
		CustomCipherSuites: func() []dtlsconfig.CipherSuite { return suites },
		LocalSignatureSchemes: []signaturehash.Algorithm{
			{Hash: dtlshash.SHA256, Signature: signature.ECDSA},
			{Hash: dtlshash.Ed25519, Signature: signature.Ed25519},
		},
		InsecureSkipVerify:   skipVerify,
		RootCAs:              new(x509.CertPool),
		ServerName:           sc.serverName,
		LocalPSKIdentityHint: []byte{0x1d},
		Log:                  zzCliLog{},
	}
	if callbacks {
		sc.hasVPC, sc.hasVConn = true, true
		sc.cfg.VerifyPeerCertificate = func(raw [][]byte, chains [][]*x509.Certificate) error {
			zzCli.vpcCalls++
			zzCli.vpcCerts = raw
			zzCli.vpcGotChain = len(chains) == 1 && len(chains[0]) == 1 && chains[0][0] == zzCliLeaf
			zzCli.vpcOK = zzsymBool("vpc_ok")
			if !zzCli.vpcOK {
				return zzCliErr
			}

			return nil
		}
		sc.cfg.VerifyConnection = func(dtlsstate.Active) error {
			zzCli.vconnCalls++
			zzCli.vconnOK = zzsymBool("vconn_ok")
			if !zzCli.vconnOK {
				return zzCliErr
			}

			return nil
		}
	}
	if psk {
		sc.cfg.LocalPSKCallback = func(hint []byte) ([]byte, error) {
			zzCli.pskCalls++
			zzCli.pskHint = hint
			zzCli.psk = zzsymBytes("psk", 2)
			zzCli.pskOK = zzsymBool("psk_known")
			if !zzCli.pskOK {
				return nil, zzCliErr
			}

			return zzCli.psk, nil
		}
	}

	gmt := zzsymU32("client_gmt")
	rnd := zzsymBytes("client_random", 28)
	sc.clientRandom = append([]byte{byte(gmt >> 24), byte(gmt >> 16), byte(gmt >> 8), byte(gmt)}, rnd...)
	sc.state = &dtlsstate.State12{
		Common:                &dtlsstate.Common{IsClient: true, LocalVersion: protocol.Version1_2},
		HandshakeRecvSequence: 1,
		HasHelloVerifyRequest: true,
	}
	sc.state.LocalRandom.GMTUnixTime = time.Unix(int64(gmt), 0)
	copy(sc.state.LocalRandom.RandomBytes[:], rnd)

	sc.cache = dtlsflight.NewCache()
	sc.cache.Push(zzCliMsg(handshake.TypeHelloVerifyRequest, 0, []byte{0xfe, 0xfd, 1, 0x77}), 0, 0, handshake.TypeHelloVerifyRequest, false)

	// ServerHello (RFC 5246 7.4.1.3): server_version random session_id<0..32> cipher_suite compression_method
	sc.serverRandom = zzsymBytes("server_random", 32)
	sh := append([]byte{0xfe, 0xfd}, sc.serverRandom...)
	sh = append(sh, 0, byte(suiteID>>8), byte(suiteID), 0)
	seq := 1
	sc.cache.Push(zzCliMsg(handshake.TypeServerHello, seq, sh), 0, uint16(seq), handshake.TypeServerHello, false)
	seq++

	if certShape != zzCliCertNone {
		sc.certMsg = true
		switch certShape {
		case zzCliCertOne:
			sc.certs = [][]byte{zzsymBytes("cert0", 2)}
		case zzCliCertTwo:
			sc.certs = [][]byte{zzsymBytes("cert0", 2), zzsymBytes("cert1", 1)}
		}
		sc.cache.Push(zzCliMsg(handshake.TypeCertificate, seq, zzCliCertBody(sc.certs)), 0, uint16(seq), handshake.TypeCertificate, false)
		seq++
	}

	if skeKind != zzCliSKENone {
		var ske []byte
		if suiteID != zzCliIDCert {
			// RFC 4279 / RFC 5489: opaque psk_identity_hint<0..2^16-1>
			sc.skeHint = zzsymBytes("psk_hint", 1)
			ske = append([]byte{0, byte(len(sc.skeHint))}, sc.skeHint...)
		}
		if suiteID != zzCliIDPSK {
			// RFC 8422 5.4 ServerECDHParams: curve_type(1)=named_curve(3) namedcurve(2) opaque point<1..2^8-1>
			sc.curve = zzCliCurve(curveIdx)
			sc.serverPub = zzsymBytes("server_pub", 2)
			ske = append(ske, 3, byte(sc.curve>>8), byte(sc.curve), byte(len(sc.serverPub)))
			ske = append(ske, sc.serverPub...)
			if skeKind == zzCliSKESigned || skeKind == zzCliSKEUnlisted {
				// SignatureAndHashAlgorithm + opaque signature<0..2^16-1>
				sc.skeHash, sc.skeAlg = 4, 3 // ecdsa_secp256r1_sha256
				if skeKind == zzCliSKEUnlisted {
					sc.skeHash, sc.skeAlg = 5, 1 // rsa_pkcs1_sha384
				}
				sc.skeSig = zzsymBytes("ske_signature", 2)
				ske = append(ske, sc.skeHash, sc.skeAlg, 0, byte(len(sc.skeSig)))
				ske = append(ske, sc.skeSig...)
			}
		}
		sc.cache.Push(zzCliMsg(handshake.TypeServerKeyExchange, seq, ske), 0, uint16(seq), handshake.TypeServerKeyExchange, false)
		seq++
	}
	sc.cache.Push(zzCliMsg(handshake.TypeServerHelloDone, seq, nil), 0, uint16(seq), handshake.TypeServerHelloDone, false)
	seq++

	sc.verifyData = zzsymBytes("server_verify_data", 12)
	fin := zzCliMsg(handshake.TypeFinished, seq, sc.verifyData)
	switch finished {
	case zzCliFinEpoch1:
		sc.cache.Push(fin, 1, uint16(seq), handshake.TypeFinished, false)
	case zzCliFinEpoch0:
		sc.cache.Push(fin, 0, uint16(seq), handshake.TypeFinished, false)
	}

	return sc
}

// zzCliRun drives the client the way handshakeFSM12 does: flight3Parse on the server's flight, then
// flight5Generate (which derives and installs the keys in initializeCipherSuite), then flight5Parse on the
// server's Finished. It returns true when flight5Parse ends the handshake successfully. noCertAlert reports
// that flight3Parse stopped with a fatal no_certificate alert.
func zzCliRun(sc *zzCliScenario) (accepted bool, noCertAlert bool) {
	ctx := context.Background()
	next, a, err := flight3Parse(ctx, zzCliConn{}, sc.state, sc.cache, sc.cfg)
	if next != Flight5 {
		zzsymAssert(next == 0, "cli12_no_other_flight")
		if a == nil && err != nil {
			errors.As(err, &a)
		}

		return false, a != nil && a.Level == alert.Fatal && a.Description == alert.NoCertificate
	}
	zzsymAssert(zzsymAnd(a == nil, err == nil), "cli12_flight5_without_alert")
	zzsymAssert(zzCli.initCalls == 0, "cli12_no_keys_in_flight3")
	pkts, a, err := flight5Generate(zzCliConn{}, sc.state, sc.cache, sc.cfg)
	if a != nil || err != nil {
		zzsymAssert(zzCli.initCalls == 0, "cli12_no_keys_when_flight5_refused")

		return false, false
	}
	zzsymAssert(len(pkts) >= 3, "cli12_flight5_has_cke_ccs_finished")
	next, a, err = flight5Parse(ctx, zzCliConn{}, sc.state, sc.cache, sc.cfg)
	if next == Flight5 {
		zzsymAssert(zzsymAnd(a == nil, err == nil), "cli12_done_without_alert")

		return true, false
	}
	zzsymAssert(next == 0, "cli12_no_other_flight")

	return false, false
}

// zzCliRefSignedParams: RFC 8422 section 5.4, the content covered by the ServerKeyExchange signature:
// client_random(32) server_random(32) ServerECDHParams{curve_type=3, namedcurve(2), point length(1), point}.
func zzCliRefSignedParams(sc *zzCliScenario) []byte {
	out := append([]byte{}, sc.clientRandom...)
	out = append(out, sc.serverRandom...)
	out = append(out, 3, byte(sc.curve>>8), byte(sc.curve), byte(len(sc.serverPub)))

	return append(out, sc.serverPub...)
}

// zzCliCheckKeys: CipherSuite.Init on a certificate suite is reached only after the signature over this
// handshake's key-exchange parameters verified with the presented leaf, the chain verified (unless
// InsecureSkipVerify) and the callbacks returned OK.
func zzCliCheckKeys(sc *zzCliScenario) {
	if zzCli.initCalls == 0 {
		return
	}
	zzsymAssert(zzCli.initCalls == 1, "cli12_keys_installed_once")
	if sc.suiteID == zzCliIDCert {
		zzsymAssert(zzsymAnd(zzCli.initSigCalls == 1, zzCli.initSigOK), "cli12_no_keys_before_key_signature_ok")
		if !sc.skipVerify {
			zzsymAssert(zzsymAnd(zzCli.initChainCalls == 1, zzCli.initChainOK), "cli12_no_keys_before_chain_ok")
		}
		if sc.hasVPC {
			zzsymAssert(zzsymAnd(zzCli.initVPCCalls == 1, zzCli.initVPCOK), "cli12_no_keys_before_peer_certificate_callback_ok")
		}
	}
	if sc.hasVConn {
		zzsymAssert(zzsymAnd(zzCli.initVConnCalls == 1, zzCli.initVConnOK), "cli12_no_keys_before_verify_connection_ok")
	}
}

func zzCliCheckFinished(sc *zzCliScenario) {
	zzsymAssert(sc.finished == zzCliFinEpoch1, "cli12_accept_needs_protected_finished")
	zzsymAssert(zzCli.initCalls == 1, "cli12_accept_needs_keys")
	zzsymAssert(zzsymEqBytes(zzCli.initMaster, zzCliMasterMarker), "cli12_keys_from_derived_master_secret")
	zzsymAssert(zzCli.vdsCalls == 1, "cli12_server_finished_checked")
	zzsymAssert(zzsymEqBytes(zzCli.vdsMaster, zzCliMasterMarker), "cli12_server_finished_keyed_with_master_secret")
	zzsymAssert(zzsymEqBytes(sc.verifyData, zzCli.vdsExpected), "cli12_server_finished_matches")
}

// DTLS 1.2 client, certificate cipher suite. flight3Parse + flight5Generate (initializeCipherSuite) +
// flight5Parse on every server flight ServerHello, {no Certificate, empty Certificate, Certificate with one
// (thorough: two) arbitrary certificates}, {no ServerKeyExchange, ECDHE parameters signed with a configured
// scheme, signed with a scheme the client did not configure, unsigned}, ServerHelloDone, Finished {absent,
// epoch 1, in the clear}; curve X25519 / P-256 (thorough: P-384, X25519MLKEM768), arbitrary 2-byte server
// public key and signature, arbitrary randoms on both sides, arbitrary 3-byte cfg.ServerName, InsecureSkipVerify
// on/off, VerifyPeerCertificate + VerifyConnection configured or not, a PSK callback configured or not,
// arbitrary verdicts of signature verification, chain verification and callbacks, arbitrary verify_data.
// Proved: (a) a server flight without Certificate message is answered with a fatal no_certificate alert and no
// next flight; (b) CipherSuite.Init (key installation) is reached only after VerifyKeySignature returned OK,
// VerifyServerCert returned OK unless InsecureSkipVerify, and the configured callbacks returned OK; (c) the
// handshake completes only if additionally: a non-empty certificate list was presented; the signature was
// verified over exactly client_random | server_random | 03 | named curve | length | public point (RFC 8422
// 5.4) built from THIS handshake's ClientHello random, ServerHello random and ServerKeyExchange parameters,
// with the wire signature and scheme and the presented certificate list; VerifyServerCert saw the presented
// list, cfg.RootCAs and cfg.ServerName; state.PeerCertificates is the presented list; the server's Finished
// was read at epoch 1 and equals VerifyDataServer keyed with the derived master secret.
//
//symgo:entry covers=accepted_verified,accepted_skip_verify,no_certificate_alert,rejected_empty_certificate,rejected_bad_signature,rejected_unsigned,rejected_unlisted_scheme,rejected_bad_chain,rejected_callback,rejected_bad_finished,rejected_cleartext_finished,rejected_no_ske,rejected_psk_config
func zzCli12AuthCert() {
	zzCli = zzCliRec{}
	certShape := zzsymChoice("cert_shape", zzsymParam("CLICERTS"))
	skeKind := zzsymChoice("ske", 4)
	curveIdx := 0
	if skeKind != zzCliSKENone {
		curveIdx = zzsymChoice("curve", zzsymParam("CLICURVES"))
	}
	finished := zzsymChoice("finished", 3)
	skipVerify := zzsymChoice("skip_verify", 2) == 1
	callbacks := zzsymChoice("callbacks", 2) == 1
	psk := zzsymChoice("psk_callback", 2) == 1
	sc := zzCliBuild(zzCliIDCert, certShape, skeKind, curveIdx, finished, skipVerify, callbacks, psk)

	accepted, noCertAlert := zzCliRun(sc)
	zzCliCheckKeys(sc)
	if !sc.certMsg && !psk && skeKind != zzCliSKENone {
		// well-formed flight of a certificate suite that merely lacks the Certificate message (a ServerHello
		// whose random is the HelloRetryRequest magic value is refused earlier as not being a DTLS 1.2 ServerHello)
		isHRR := zzsymEqBytes(sc.serverRandom, handshake.HelloRetryRequestRandom())
		zzsymAssert(zzsymOr(isHRR, noCertAlert), "cli12_missing_certificate_alerts_no_certificate")
		if noCertAlert {
			zzsymCover("no_certificate_alert")
		}
	}
	if !sc.certMsg || len(sc.certs) == 0 {
		zzsymAssert(zzCli.initCalls == 0, "cli12_no_keys_without_certificate")
	}
	if !accepted {
		switch {
		case psk:
			zzsymCover("rejected_psk_config")
		case !sc.certMsg:
		case len(sc.certs) == 0:
			zzsymCover("rejected_empty_certificate")
		case skeKind == zzCliSKENone:
			zzsymCover("rejected_no_ske")
		case skeKind == zzCliSKEUnsigned:
			zzsymCover("rejected_unsigned")
		case skeKind == zzCliSKEUnlisted:
			zzsymCover("rejected_unlisted_scheme")
		case zzCli.sigCalls > 0 && !zzCli.sigOK:
			zzsymCover("rejected_bad_signature")
		case zzCli.chainCalls > 0 && !zzCli.chainOK:
			zzsymCover("rejected_bad_chain")
		case zzCli.vpcCalls > 0 && !zzCli.vpcOK, zzCli.vconnCalls > 0 && !zzCli.vconnOK:
			zzsymCover("rejected_callback")
		case finished == zzCliFinEpoch0:
			zzsymCover("rejected_cleartext_finished")
		case finished == zzCliFinEpoch1 && zzCli.vdsCalls > 0:
			zzsymCover("rejected_bad_finished")
		}

		return
	}

	zzsymAssert(len(sc.certs) != 0, "cli12_accept_needs_certificate")
	zzsymAssert(skeKind == zzCliSKESigned, "cli12_accept_needs_signed_key_exchange")
	zzsymAssert(zzsymAnd(zzCli.sigCalls == 1, zzCli.sigOK), "cli12_key_signature_ok")
	zzsymAssert(zzsymEqBytes(zzCli.sigMsg, zzCliRefSignedParams(sc)), "cli12_signature_covers_randoms_and_ecdh_params")
	zzsymAssert(zzsymEqBytes(zzCli.sigSig, sc.skeSig), "cli12_signature_is_wire_signature")
	zzsymAssert(zzsymAnd(byte(zzCli.sigHash) == sc.skeHash, byte(zzCli.sigAlg) == sc.skeAlg), "cli12_signature_scheme_is_wire_scheme")
	zzsymAssert(zzCliEqCerts(zzCli.sigCerts, sc.certs), "cli12_signature_checked_with_presented_certificate")
	zzsymAssert(zzCliEqCerts(sc.state.PeerCertificates, sc.certs), "cli12_reported_certificate_is_presented_one")
	if !skipVerify {
		zzsymAssert(zzsymAnd(zzCli.chainCalls == 1, zzCli.chainOK), "cli12_chain_verified")
		zzsymAssert(zzCliEqCerts(zzCli.chainCerts, sc.certs), "cli12_chain_of_presented_certificate")
		zzsymAssert(zzCli.chainRoots == sc.cfg.RootCAs, "cli12_chain_against_root_cas")
		zzsymAssert(zzsymEqStr(zzCli.chainName, sc.serverName), "cli12_chain_for_configured_server_name")
	} else {
		zzsymAssert(zzCli.chainCalls == 0, "cli12_skip_verify_skips_only_chain")
	}
	if sc.hasVPC {
		zzsymAssert(zzsymAnd(zzCli.vpcCalls == 1, zzCli.vpcOK), "cli12_peer_certificate_callback_ok")
		zzsymAssert(zzCliEqCerts(zzCli.vpcCerts, sc.certs), "cli12_peer_certificate_callback_sees_presented_certificate")
		if !skipVerify {
			zzsymAssert(zzCli.vpcGotChain, "cli12_peer_certificate_callback_sees_verified_chain")
		}
	}
	if sc.hasVConn {
		zzsymAssert(zzsymAnd(zzCli.vconnCalls == 1, zzCli.vconnOK), "cli12_verify_connection_ok")
	}
	zzCliCheckFinished(sc)
	if skipVerify {
		zzsymCover("accepted_skip_verify")
	} else {
		zzsymCover("accepted_verified")
	}
}

// RFC 4279 section 2 / RFC 5489 section 2 pre-master secret layouts (see srv12_policy.go).
func zzCliRefPSKPreMaster(other, psk []byte) []byte {
	out := []byte{byte(len(other) >> 8), byte(len(other))}
	out = append(out, other...)
	out = append(out, byte(len(psk)>>8), byte(len(psk)))

	return append(out, psk...)
}

// DTLS 1.2 client holding a PSK, server selects the plain PSK or the ECDHE_PSK suite. Server flight:
// ServerHello, ServerKeyExchange {absent (plain PSK only), present with an arbitrary 1-byte identity hint and,
// for ECDHE_PSK, an arbitrary 2-byte share on X25519 / P-256}, ServerHelloDone, Finished {absent, epoch 1 with
// arbitrary verify_data, in the clear}; the client's PSK callback fails or returns an arbitrary 2-byte key.
// Proved: the handshake completes only if the PSK callback succeeded for the hint on the wire, the pre-master
// secret is the RFC 4279 (N, N zeros, N, PSK) resp. RFC 5489 (len Z, Z = ECDH(server share, own private key),
// len PSK, PSK) layout of the client's key, the installed keys come from the master secret derived from it,
// and the server's Finished - read at epoch 1 - equals VerifyDataServer keyed with that master secret: a server
// that does not know the PSK cannot produce it. No certificate checks are involved and no key is installed
// when the callback fails.
//
//symgo:entry covers=accepted_psk,accepted_psk_no_ske,accepted_ecdhe_psk,rejected_unknown_hint,rejected_bad_finished,rejected_cleartext_finished
func zzCli12AuthPSK() {
	zzCli = zzCliRec{}
	ecdhe := zzsymChoice("ecdhe", 2) == 1
	suiteID := zzCliIDPSK
	skeKind := zzCliSKEUnsigned
	curveIdx := 0
	if ecdhe {
		suiteID = zzCliIDECPSK
		curveIdx = zzsymChoice("curve", 2)
	} else if zzsymChoice("ske_absent", 2) == 1 {
		skeKind = zzCliSKENone
	}
	finished := zzsymChoice("finished", 3)
	callbacks := zzsymChoice("callbacks", 2) == 1
	sc := zzCliBuild(suiteID, zzCliCertNone, skeKind, curveIdx, finished, false, callbacks, true)

	accepted, _ := zzCliRun(sc)
	zzCliCheckKeys(sc)
	if zzCli.initCalls > 0 {
		zzsymAssert(zzsymAnd(zzCli.pskCalls == 1, zzCli.pskOK), "cli12_no_keys_without_psk")
	}
	if !accepted {
		switch {
		case zzCli.pskCalls > 0 && !zzCli.pskOK:
			zzsymCover("rejected_unknown_hint")
		case finished == zzCliFinEpoch0:
			zzsymCover("rejected_cleartext_finished")
		case finished == zzCliFinEpoch1 && zzCli.vdsCalls > 0:
			zzsymCover("rejected_bad_finished")
		}

		return
	}
	zzsymAssert(zzsymAnd(zzCli.pskCalls == 1, zzCli.pskOK), "cli12_psk_known")
	zzsymAssert(zzsymEqBytes(zzCli.pskHint, sc.skeHint), "cli12_psk_looked_up_for_wire_hint")
	var want []byte
	if ecdhe {
		z := zzsymUF("ECDH", 4, sc.serverPub, []byte{9, 9}, zzCliCurveBytes(sc.curve))
		want = zzCliRefPSKPreMaster(z, zzCli.psk)
	} else {
		want = zzCliRefPSKPreMaster(make([]byte, len(zzCli.psk)), zzCli.psk)
	}
	zzsymAssert(zzCli.msCalls == 1, "cli12_master_secret_derived_once")
	zzsymAssert(zzsymEqBytes(zzCli.preMaster, want), "cli12_premaster_built_from_own_psk")
	zzsymAssert(zzsymAnd(zzCli.sigCalls == 0, zzCli.chainCalls == 0), "cli12_psk_suite_has_no_certificate_checks")
	if sc.hasVConn {
		zzsymAssert(zzsymAnd(zzCli.vconnCalls == 1, zzCli.vconnOK), "cli12_verify_connection_ok")
	}
	zzCliCheckFinished(sc)
	switch {
	case ecdhe:
		zzsymCover("accepted_ecdhe_psk")
	case skeKind == zzCliSKENone:
		zzsymCover("accepted_psk_no_ske")
	default:
		zzsymCover("accepted_psk")
	}
}
