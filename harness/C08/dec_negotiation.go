package negotiation

//symgo:pkg github.com/pion/dtls/v3/internal/negotiation
//symgo:param NWIRE quick=11 thorough=15
//symgo:param NWIRE2 quick=8 thorough=11
//symgo:outside ClientHello bodies with more than NWIRE variable bytes after the 34-byte fixed part
//symgo:assume version and random of the ClientHello body are fixed (zero): RecordWire never reads them

import (
	"github.com/pion/dtls/v3/pkg/protocol/extension"
	"github.com/pion/dtls/v3/pkg/protocol/handshake"
)

// zzDecNegWire builds handshake header (12 arbitrary bytes) + fixed part (34 bytes) + nv arbitrary bytes.
func zzDecNegWire(tag string, nv int) []byte {
	raw := append([]byte{}, zzsymBytes(tag+"hdr", handshake.HeaderLength)...)
	raw = append(raw, make([]byte, 2+handshake.RandomLength)...)
	return append(raw, zzsymBytes(tag+"var", nv)...)
}

// ClientHelloSnapshots.RecordWire on an arbitrary unfragmented handshake message: every length 0..12+34 (header
// or fixed part truncated; all rejected) and header + fixed part + 0..NWIRE arbitrary variable bytes (session id,
// cookie, cipher suites, compression, extension list, walked by RecordWire's own length-prefix parser): no panic,
// loops end; a snapshot is only kept for a well-framed ClientHello and holds exactly the body that was given.
//
//symgo:entry covers=wire_ok,wire_ok_ext,wire_rejected,wire_short
func zzDecNegRecordWireNoPanic() {
	s := &ClientHelloSnapshots{}
	if zzsymChoice("short", 2) == 1 {
		n := zzsymChoice("len", handshake.HeaderLength+2+handshake.RandomLength+1)
		raw := zzsymBytes("d", n)
		err := s.RecordWire(raw)
		if n < handshake.HeaderLength+2+handshake.RandomLength+5 {
			zzsymAssert(err != nil, "truncated_client_hello_rejected")
		}
		zzsymAssert(!s.Current().Valid(), "no_snapshot_from_truncated_hello")
		zzsymCover("wire_short")
		return
	}
	nv := zzsymChoice("varlen", zzsymParam("NWIRE")+1)
	raw := zzDecNegWire("a", nv)
	if err := s.RecordWire(raw); err != nil {
		zzsymAssert(!s.Current().Valid(), "no_snapshot_after_error")
		zzsymCover("wire_rejected")
		return
	}
	zzsymAssert(raw[0] == byte(handshake.TypeClientHello), "only_client_hello_recorded")
	zzsymAssert(len(s.Current().body) == len(raw)-handshake.HeaderLength, "snapshot_is_the_body")
	zzsymAssert(s.Current().extensionOffset <= len(s.Current().body)-2, "extension_offset_inside_body")
	if len(s.Current().extensions) > 0 {
		zzsymCover("wire_ok_ext")
	}
	zzsymCover("wire_ok")
}

// Two RecordWire calls in a row (initial ClientHello, then the retried one after HelloVerifyRequest /
// HelloRetryRequest). Both have an arbitrary handshake header, minimal fixed framing (empty session id, cookie,
// cipher suites and compression list) and an arbitrary extension list of 0..NWIRE2 bytes each (room for
// one extension with payload), so the connection_id comparison between the two snapshots runs on hostile extension data:
// no panic; the first snapshot is never replaced; a well-formed second hello is refused only for a changed CID.
//
//symgo:entry covers=wire2_ok,wire2_ok_cid,wire2_cid_changed,wire2_rejected
func zzDecNegRecordWireTwice() {
	s := &ClientHelloSnapshots{}
	mk := func(tag string) []byte {
		ne := zzsymChoice(tag+"extlen", zzsymParam("NWIRE2")+1)
		raw := append([]byte{}, zzsymBytes(tag+"hdr", handshake.HeaderLength)...)
		raw = append(raw, make([]byte, 2+handshake.RandomLength+5)...) // + sid, cookie, suites(2), compression: all empty
		return append(raw, zzsymBytes(tag+"ext", ne)...)
	}
	first := mk("a")
	if err := s.RecordWire(first); err != nil {
		return
	}
	initialLen := len(s.Initial().body)
	second := mk("b")
	err := s.RecordWire(second)
	zzsymAssert(len(s.Initial().body) == initialLen, "initial_snapshot_kept")
	alone := (&ClientHelloSnapshots{}).RecordWire(second) == nil
	if err != nil {
		if alone {
			a, aok := s.Initial().Extension(extension.TypeConnectionID)
			var t ClientHelloSnapshots
			_ = t.RecordWire(second)
			b, bok := t.Current().Extension(extension.TypeConnectionID)
			zzsymAssert(zzsymOr(aok != bok, zzsymNot(zzsymEqBytes(a.Data, b.Data))), "well_formed_retry_refused_only_for_changed_cid")
			zzsymCover("wire2_cid_changed")
		}
		zzsymCover("wire2_rejected")
		return
	}
	zzsymAssert(alone, "accepted_retry_is_well_formed")
	if s.Current().Offered(extension.TypeConnectionID) {
		zzsymCover("wire2_ok_cid")
	}
	zzsymCover("wire2_ok")
}
