package fragmentbuffer

//symgo:pkg github.com/pion/dtls/v3/internal/fragmentbuffer
//symgo:param FRAG_K quick=2 thorough=3
//symgo:param FRAG_NBODY1 quick=2 thorough=4
//symgo:param FRAG_NBODY quick=1 thorough=1
//symgo:outside sequences of more than FRAG_K records (covered by the induction steps in frag_limits.go), fragment bodies above FRAG_NBODY1 / FRAG_NBODY bytes, records that carry more than two fragments

// zzFragRecordLen maps a choice index to the byte length of one pushed record. The table contains
// every length that reaches a distinct parsing situation of Push/pushHandshakeFragments:
// too short for a record header (0, 12), header only (13), truncated handshake header (14, 24),
// exactly one fragment with 0..nbody body bytes (25..25+nbody) and room for two fragments
// (37..37+nbody; how the bytes are split between the two is decided by the symbolic length fields).
func zzFragRecordLen(i, nbody int) int {
	short := []int{0, 12, 13, 14, 24}
	if i < len(short) {
		return short[i]
	}
	i -= len(short)
	if i <= nbody {
		return 25 + i
	}
	i -= nbody + 1
	return 37 + i
}

func zzFragRecordChoices(nbody int) int { return 5 + 2*(nbody+1) }

// zzFragRecount recomputes the accounting from the fragments that are actually stored.
func zzFragRecount(f *FragmentBuffer) (size, count int) {
	for _, fr := range f.cache {
		for _, g := range fr.fragmentByOffset {
			size += len(g.data)
			count++
		}
	}
	return size, count
}

// zzFragPopAll pops until nil. Every successful pop removes at least one stored fragment, so the loop must end
// after at most `stored` successful pops; the counters must match the stored fragments after every pop.
func zzFragPopAll(f *FragmentBuffer, stored int) {
	for i := 0; ; i++ {
		content, _ := f.Pop()
		size, count := zzFragRecount(f)
		zzsymAssert(f.totalBufferSize == size, "pop_size_counter_equals_stored_bytes")
		zzsymAssert(f.totalFragmentCount == count, "pop_count_counter_equals_stored_fragments")
		if content == nil {
			if i == 0 {
				zzsymCover("nothing_to_pop")
			}
			return
		}
		zzsymCover("popped")
		zzsymAssert(len(content) >= 12, "popped_message_has_header")
		zzsymAssert(i < stored, "pop_loop_terminates")
	}
}

// One hostile record against the empty FragmentBuffer: the record is a fully symbolic byte string (record
// header, handshake header(s) and up to FRAG_NBODY1 body bytes; nothing is assumed honest: content type, version,
// lengths, offsets and sequence numbers are arbitrary) of every length in the table of zzFragRecordLen
// (0, 12, 13, 14, 24, 25..25+FRAG_NBODY1, 37..37+FRAG_NBODY1). Push, then Pop until nil. Proved: no call panics;
// a record that is not a handshake record leaves the buffer empty; the pop loop ends after at most one pop per
// stored fragment; a popped message is at least a handshake header long; the byte and fragment counters equal
// what is really stored (recomputed by walking the cache) and are below the fixed caps. The crash F1 (message
// of Length 0 whose only fragment is zero-length at an offset other than 0: nil dereference in Pop) is inside
// these bounds and was reported by this entry as panic:...@Pop before its fix.
//
//symgo:entry covers=pushed,rejected,rejected_after_partial_store,not_handshake,popped,two_in_one_record,nothing_to_pop nonterm=violation
func zzFragPushOneNoPanic() {
	nbody := zzsymParam("FRAG_NBODY1")
	f := New()
	n := zzFragRecordLen(zzsymChoice("reclen", zzFragRecordChoices(nbody)), nbody)
	buf := zzsymBytes("rec", n)
	isHandshake, _, err := f.Push(buf)
	size, count := zzFragRecount(f)
	zzsymAssert(f.totalBufferSize == size, "push_size_counter_equals_stored_bytes")
	zzsymAssert(f.totalFragmentCount == count, "push_count_counter_equals_stored_fragments")
	zzsymAssert(size < fragmentBufferMaxSize, "push_size_below_cap")
	zzsymAssert(count <= fragmentBufferMaxCount, "push_count_within_cap")
	switch {
	case err != nil:
		zzsymCover("rejected")
		if count > 0 {
			zzsymCover("rejected_after_partial_store")
		}
	case !isHandshake:
		zzsymCover("not_handshake")
		zzsymAssert(count == 0, "non_handshake_record_stores_nothing")
	default:
		zzsymCover("pushed")
		if count == 2 {
			zzsymCover("two_in_one_record")
		}
	}
	zzFragPopAll(f, count)
}

// zzFragSeq pushes k hostile handshake records into an empty buffer, popping until nil after each, then calls
// AdvanceTo. Records carry one fragment with 0..nbody body bytes; if two is set the last record has room for a
// second fragment (12 more bytes).
func zzFragSeq(k, nbody int, two bool) {
	f := New()
	for r := 0; r < k; r++ {
		n := 25 + zzsymChoice("reclen", nbody+1)
		if two && r == k-1 {
			n += 12
		}
		buf := zzsymBytes("rec", n)
		// the gate at the top of Push: handshake content type, DTLS 1.2
		zzsymAssume(buf[0] == 22)
		zzsymAssume(buf[1] == 0xfe)
		zzsymAssume(buf[2] == 0xfd)
		_, before := zzFragRecount(f)
		nmsg := len(f.cache)
		_, isRetransmit, err := f.Push(buf)
		size, count := zzFragRecount(f)
		zzsymAssert(f.totalBufferSize == size, "push_size_counter_equals_stored_bytes")
		zzsymAssert(f.totalFragmentCount == count, "push_count_counter_equals_stored_fragments")
		zzsymAssert(size < fragmentBufferMaxSize, "push_size_below_cap")
		zzsymAssert(count <= fragmentBufferMaxCount, "push_count_within_cap")
		if err != nil {
			zzsymCover("rejected")
		} else {
			zzsymCover("pushed")
			if before > 0 && count > before && len(f.cache) == nmsg {
				zzsymCover("same_message_twice")
			}
			if n < 37 && count == before && !isRetransmit {
				zzsymCover("duplicate_offset")
			}
			if count == before+2 {
				zzsymCover("two_in_one_record")
			}
		}
		if isRetransmit {
			zzsymCover("retransmit")
		}
		zzFragPopAll(f, count)
	}
	_, before := zzFragRecount(f)
	f.AdvanceTo(zzsymU16("advance"))
	size, count := zzFragRecount(f)
	zzsymAssert(f.totalBufferSize == size, "advance_size_counter_equals_stored_bytes")
	zzsymAssert(f.totalFragmentCount == count, "advance_count_counter_equals_stored_fragments")
	if count < before {
		zzsymCover("advance_dropped")
	}
}

// A sequence of FRAG_K hostile handshake records against the FragmentBuffer, starting empty. Each record has a
// record header that passes the gate at the top of Push (content type handshake, version DTLS 1.2; epoch and
// sequence number symbolic; records failing the gate never touch the buffer, see zzFragPushOneNoPanic) and a fully
// symbolic payload: one handshake fragment with 0..FRAG_NBODY body bytes (25..25+FRAG_NBODY bytes in total);
// message sequence, Length, FragmentOffset and FragmentLength are arbitrary and may contradict each other and
// earlier records. After every push Pop is called until nil; at the end AdvanceTo is called with an arbitrary
// sequence number. Proved: no call panics, the pop loops terminate, and after every call the counters equal
// what is stored and are within the fixed caps.
//
//symgo:entry covers=pushed,rejected,popped,retransmit,same_message_twice,duplicate_offset,nothing_to_pop,advance_dropped paths=60000 nonterm=violation
func zzFragSeqNoPanic() {
	zzFragSeq(zzsymParam("FRAG_K"), zzsymParam("FRAG_NBODY"), false)
}

// As zzFragSeqNoPanic with two records, where the second record has room for two handshake fragments
// (37..37+FRAG_NBODY bytes; how the bytes are split is decided by the symbolic length fields).
//
//symgo:entry tier=thorough covers=pushed,rejected,popped,retransmit,same_message_twice,two_in_one_record,nothing_to_pop,advance_dropped paths=60000 nonterm=violation
func zzFragSeqTwoNoPanic() {
	zzFragSeq(2, zzsymParam("FRAG_NBODY"), true)
}
