package handshake

//symgo:pkg github.com/pion/dtls/v3/pkg/protocol/handshake
//symgo:param NHELLOVAR quick=8 thorough=12
//symgo:param NSHVAR quick=12 thorough=16
//symgo:param NEXTLIST quick=10 thorough=13
//symgo:outside ClientHello/ServerHello bodies with more variable bytes after the 34-byte fixed part than NHELLOVAR/NSHVAR; extension lists longer than NEXTLIST bytes except in the fixed-shape dependency entries
//symgo:assume ClientHello cipher_suites length field < 128 in the symbolic entries (engine enumerates at most 80 allocation sizes; the decoder allocates the declared count before validating it); larger values are run concretely in zzDecHsCipherSuiteIDsLargeCount
//symgo:assume the 32 random bytes of ClientHello are fixed to zero in zzDecHsClientHelloNoPanic (they are only copied, no branch reads them); ServerHello keeps them symbolic because the HelloRetryRequest magic value is compared

import (
	"errors"

	dtlserrors "github.com/pion/dtls/v3/internal/errors"
	"github.com/pion/dtls/v3/pkg/protocol"
	"github.com/pion/dtls/v3/pkg/protocol/extension"
	extension13 "github.com/pion/dtls/v3/pkg/protocol/extension/dtls13"
)

// zzDecHsAssumeSmallCipherSuiteCount restricts the cipher_suites length field (found after session id and
// cookie, RFC 6347 §4.2.1 layout) to values below 128: decodeCipherSuiteIDs allocates count entries before it
// checks them against the buffer, and the engine enumerates at most 80 allocation sizes. Larger declared counts
// are exercised with concrete values in zzDecHsCipherSuiteIDsLargeCount.
func zzDecHsAssumeSmallCipherSuiteCount(v []byte) {
	if len(v) < 1 {
		return
	}
	sl := int(v[0])
	if sl+1 >= len(v) {
		return
	}
	cl := int(v[1+sl])
	q := 2 + sl + cl
	if q+1 >= len(v) {
		return
	}
	zzsymAssume(zzsymAnd(v[q] == 0, v[q+1] < 128))
}

// ClientHello.Unmarshal called directly on an arbitrary body: every length 0..34 (all rejected), and the 34-byte
// fixed part followed by 0..NHELLOVAR arbitrary bytes (session id, cookie, cipher suites, compression methods,
// extension list): no panic, loops end; retained session id, cookie and cipher suites fit in the variable part.
//
//symgo:entry covers=ch_ok,ch_rejected,ch_short
func zzDecHsClientHelloNoPanic() {
	var data []byte
	if zzsymChoice("short", 2) == 1 {
		n := zzsymChoice("len", handshakeMessageClientHelloVariableWidthStart+1)
		data = zzsymBytes("d", n)
		m := MessageClientHello{}
		zzsymAssert(m.Unmarshal(data) != nil, "short_client_hello_rejected")
		zzsymCover("ch_short")
		return
	}
	nv := zzsymChoice("varlen", zzsymParam("NHELLOVAR")+1)
	data = make([]byte, handshakeMessageClientHelloVariableWidthStart+nv)
	ver := zzsymBytes("ver", 2)
	copy(data, ver)
	v := zzsymBytes("v", nv)
	copy(data[handshakeMessageClientHelloVariableWidthStart:], v)
	zzDecHsAssumeSmallCipherSuiteCount(v)
	m := MessageClientHello{}
	if err := m.Unmarshal(data); err != nil {
		zzsymCover("ch_rejected")
		return
	}
	zzsymAssert(len(m.SessionID)+len(m.Cookie)+2*len(m.CipherSuiteIDs)+len(m.CompressionMethods) <= nv, "decoded_message_not_larger_than_body")
	zzsymCover("ch_ok")
}

// ClientHello.Unmarshal on a body whose framing up to the extension list is minimal and fixed (empty session id,
// empty cookie, one arbitrary cipher suite, one arbitrary compression method) followed by an arbitrary extension
// list of every length 0..NEXTLIST: the offsets computed by ClientHello.Unmarshal feed the ClientHello extension
// context: no panic; accepted hellos with decoded extensions are reached.
//
//symgo:entry covers=che_ok,che_ok_ext,che_rejected
func zzDecHsClientHelloExtNoPanic() {
	n := zzsymChoice("extlen", zzsymParam("NEXTLIST")+1)
	data := make([]byte, handshakeMessageClientHelloVariableWidthStart)
	data[0], data[1] = 0xfe, 0xfd
	data = append(data, 0, 0, 0, 2)
	data = append(data, zzsymBytes("suite", 2)...)
	data = append(data, 1)
	data = append(data, zzsymBytes("comp", 1)...)
	data = append(data, zzsymBytes("ext", n)...)
	m := MessageClientHello{}
	if err := m.Unmarshal(data); err != nil {
		zzsymCover("che_rejected")
		return
	}
	zzsymAssert(len(m.CipherSuiteIDs) == 1, "one_cipher_suite_decoded")
	if len(m.Extensions) > 0 {
		zzsymCover("che_ok_ext")
	}
	zzsymCover("che_ok")
}

// ServerHello.Unmarshal called directly on the 34-byte fixed part (version + random, all arbitrary, so both the
// ordinary and the HelloRetryRequest random are possible; the accepting HelloRetryRequest side is in
// zzDecHsHelloRetryRequestNoPanic) followed by 0..NSHVAR arbitrary bytes (session id,
// cipher suite, compression method, optional extension list): no panic.
//
//symgo:entry covers=sh_ok,sh_ok_noext,sh_ok_ext,sh_rejected
func zzDecHsServerHelloNoPanic() {
	nv := zzsymChoice("varlen", zzsymParam("NSHVAR")+1)
	data := zzsymBytes("d", messageServerHelloVariableWidthStart+nv)
	m := MessageServerHello{}
	if err := m.Unmarshal(data); err != nil {
		zzsymCover("sh_rejected")
		return
	}
	zzsymAssert(len(m.SessionID) <= nv, "decoded_message_not_larger_than_body")
	if len(m.Extensions) == 0 {
		zzsymCover("sh_ok_noext")
	} else {
		zzsymCover("sh_ok_ext")
	}
	zzsymCover("sh_ok")
}

// ServerHello.Unmarshal with the HelloRetryRequest random (RFC 8446 §4.1.3) fixed and 0..NSHVAR+4 arbitrary
// bytes after it: the HelloRetryRequest extension context (supported_versions, cookie, key_share) is decoded
// and its dependency check runs: no panic.
//
//symgo:entry covers=hrr_ok,hrr_rejected
func zzDecHsHelloRetryRequestNoPanic() {
	nv := zzsymChoice("varlen", zzsymParam("NSHVAR")+5)
	data := make([]byte, messageServerHelloVariableWidthStart+nv)
	copy(data, zzsymBytes("ver", 2))
	copy(data[2:], HelloRetryRequestRandom())
	copy(data[messageServerHelloVariableWidthStart:], zzsymBytes("v", nv))
	m := MessageServerHello{}
	if err := m.Unmarshal(data); err != nil {
		zzsymCover("hrr_rejected")
		return
	}
	zzsymCover("hrr_ok")
}

// EncryptedExtensions.Unmarshal called directly on every length 0..NEXTLIST: no panic.
//
//symgo:entry covers=ee_ok,ee_rejected
func zzDecHsEncryptedExtensionsNoPanic() {
	n := zzsymChoice("len", zzsymParam("NEXTLIST")+1)
	data := zzsymBytes("d", n)
	m := MessageEncryptedExtensions{}
	if err := m.Unmarshal(data); err != nil {
		zzsymCover("ee_rejected")
		return
	}
	zzsymCover("ee_ok")
}

// decodeExtensionList on an arbitrary extension list of every length 0..NEXTLIST under every extension context
// (ClientHello, ServerHello 1.2/1.3, HelloRetryRequest, EncryptedExtensions, CertificateRequest,
// CertificateEntry, NewSessionTicket): framing, duplicate check, context check, payload decoder and dependency
// check all run on hostile bytes: no panic, loops end; at most one value per 4 list bytes is returned.
//
//symgo:entry covers=ctx_ok_0,ctx_ok_1,ctx_ok_2,ctx_ok_3,ctx_ok_4,ctx_ok_5,ctx_ok_6,ctx_ok_7,ctx_rej_0,ctx_rej_1,ctx_rej_2,ctx_rej_3,ctx_rej_4,ctx_rej_5,ctx_rej_6,ctx_rej_7,ctx_known_decoded
func zzDecHsExtensionContextNoPanic() {
	ctx := zzsymChoice("ctx", 8)
	n := zzsymChoice("len", zzsymParam("NEXTLIST")+1)
	data := zzsymBytes("d", n)
	vals, err := decodeExtensionList(data, extensionContext(ctx))
	tag := string(rune('0' + ctx))
	if err != nil {
		zzsymCover("ctx_rej_" + tag)
		return
	}
	zzsymAssert(4*len(vals) <= n-2, "extension_count_bounded_by_length")
	for _, v := range vals {
		if _, raw := v.(extension.Raw); !raw {
			zzsymCover("ctx_known_decoded")
		}
	}
	zzsymCover("ctx_ok_" + tag)
}

// zzDecHsExt frames one extension (RFC 8446 §4.2: type, length, data).
func zzDecHsExt(list []byte, typ extension.Type, payload []byte) []byte {
	list = append(list, byte(typ>>8), byte(typ), byte(len(payload)>>8), byte(len(payload)))
	return append(list, payload...)
}

// ClientHello extension block made of well-framed extensions whose presence is chosen freely (supported_versions
// with one version, supported_groups with two groups, key_share with two 1-byte shares, signature_algorithms,
// connection_id, return_routability_check, psk_key_exchange_modes, early_data, and a pre_shared_key placed first
// or last) and whose payload values (version, groups, share groups, keys, scheme, mode) are arbitrary: the
// cross-extension dependency checks of decodeExtensionList (duplicate groups, key_share order against
// supported_groups, DTLS 1.3 mandatory sets, rrc-needs-cid, early_data/psk rules, psk-last) run on hostile
// values: no panic, loops end; each rejection class and the accepting DTLS 1.3 offer are reached.
//
//symgo:entry covers=dep_ok,dep_ok_13,dep_keyshare_not_offered,dep_dup_group,dep_psk_not_last,dep_missing_13_ext,dep_groups_without_keyshare,dep_keyshare_without_groups,dep_rrc_without_cid,dep_early_data_without_psk,dep_psk_without_modes
func zzDecHsClientHelloDependencies() {
	var list []byte
	pskPos := zzsymChoice("psk", 3) // absent, first, last
	// smallest well-formed offer: one 1-byte identity, obfuscated age, one 32-byte binder (RFC 8446 §4.2.11)
	pskPayload := append([]byte{0, 7, 0, 1, 0x41, 0, 0, 0, 0, 0, 33, 32}, make([]byte, 32)...)
	if pskPos == 1 {
		list = zzDecHsExt(list, extension.TypePreSharedKey, pskPayload)
	}
	hasVersions := zzsymChoice("versions", 2) == 1
	if hasVersions {
		v := zzsymBytes("version", 2)
		list = zzDecHsExt(list, extension.TypeSupportedVersions, []byte{2, v[0], v[1]})
	}
	if zzsymChoice("groups", 2) == 1 {
		g := zzsymBytes("groups", 4)
		list = zzDecHsExt(list, extension.TypeSupportedGroups, []byte{0, 4, g[0], g[1], g[2], g[3]})
	}
	if zzsymChoice("keyshare", 2) == 1 {
		k := zzsymBytes("shares", 6)
		list = zzDecHsExt(list, extension.TypeKeyShare, []byte{0, 10, k[0], k[1], 0, 1, k[2], k[3], k[4], 0, 1, k[5]})
	}
	if zzsymChoice("sigalgs", 2) == 1 {
		sa := zzsymBytes("scheme", 2)
		list = zzDecHsExt(list, extension.TypeSignatureAlgorithms, []byte{0, 2, sa[0], sa[1]})
	}
	if zzsymChoice("cid", 2) == 1 {
		list = zzDecHsExt(list, extension.TypeConnectionID, []byte{0})
	}
	if zzsymChoice("rrc", 2) == 1 {
		list = zzDecHsExt(list, extension.TypeReturnRoutabilityCheck, nil)
	}
	if zzsymChoice("pskmodes", 2) == 1 {
		list = zzDecHsExt(list, extension.TypePSKKeyExchangeModes, []byte{1, zzsymU8("mode")})
	}
	if zzsymChoice("earlydata", 2) == 1 {
		list = zzDecHsExt(list, extension.TypeEarlyData, nil)
	}
	if pskPos == 2 {
		list = zzDecHsExt(list, extension.TypePreSharedKey, pskPayload)
	}
	data := append([]byte{byte(len(list) >> 8), byte(len(list))}, list...)
	vals, err := decodeExtensionList(data, extensionContextClientHello)
	if err == nil {
		zzsymAssert(4*len(vals) <= len(list), "extension_count_bounded_by_length")
		for _, v := range vals {
			if ov, ok := v.(*extension13.OfferedVersions); ok {
				if ov.Versions[0] == protocol.Version1_3 {
					zzsymCover("dep_ok_13")
				}
			}
		}
		zzsymCover("dep_ok")
		return
	}
	for _, c := range []struct {
		err   error
		label string
	}{
		{dtlserrors.ErrKeyShareGroupNotOffered, "dep_keyshare_not_offered"},
		{dtlserrors.ErrDuplicateSupportedGroup, "dep_dup_group"},
		{dtlserrors.ErrPreSharedKeyNotLast, "dep_psk_not_last"},
		{dtlserrors.ErrMissingClientHelloExtension, "dep_missing_13_ext"},
		{dtlserrors.ErrSupportedGroupsWithoutKeyShare, "dep_groups_without_keyshare"},
		{dtlserrors.ErrKeyShareWithoutSupportedGroups, "dep_keyshare_without_groups"},
		{dtlserrors.ErrMissingConnectionIDExtension, "dep_rrc_without_cid"},
		{dtlserrors.ErrEarlyDataWithoutPreSharedKey, "dep_early_data_without_psk"},
		{dtlserrors.ErrMissingPSKKeyExchangeModesExtension, "dep_psk_without_modes"},
	} {
		if errors.Is(err, c.err) {
			zzsymCover(c.label)
		}
	}
}
