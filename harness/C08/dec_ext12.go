package dtls12

//symgo:pkg github.com/pion/dtls/v3/pkg/protocol/extension/dtls12
//symgo:param NEXT quick=10 thorough=13
//symgo:outside extension payloads longer than NEXT bytes

import "github.com/pion/dtls/v3/pkg/protocol/extension"

// The DTLS 1.2-only extension payload decoders (extended_master_secret, renegotiation_info,
// ec_point_formats) called directly on an arbitrary payload of every length 0..NEXT: no panic, loops end,
// decoded value not larger than the payload.
//
//symgo:entry covers=ok_ems,ok_reneg,ok_point_formats,rej_ems,rej_reneg,rej_point_formats
func zzDecExt12PayloadNoPanic() {
	var v extension.PayloadUnmarshaller
	name := ""
	switch zzsymChoice("codec", 3) {
	case 0:
		v, name = &ExtendedMasterSecret{}, "ems"
	case 1:
		v, name = &RenegotiationInfo{}, "reneg"
	case 2:
		v, name = &SupportedPointFormats{}, "point_formats"
	}
	n := zzsymChoice("len", zzsymParam("NEXT")+1)
	data := zzsymBytes("d", n)
	if err := v.UnmarshalData(data); err != nil {
		zzsymCover("rej_" + name)
		return
	}
	if pf, ok := v.(*SupportedPointFormats); ok {
		zzsymAssert(len(pf.PointFormats) <= n-1, "point_formats_bounded")
	}
	zzsymCover("ok_" + name)
}
