package udp

//symgo:pkg github.com/pion/dtls/v3/internal/net/udp
//symgo:outside concurrent readLoop / WriteTo / Close on the same listener (serialised by connLock)

import "net"

type zzCAddr struct{ s string }

func (a zzCAddr) Network() string { return "udp" }
func (a zzCAddr) String() string  { return a.s }

// "Holds no memory beyond its buffering limits and keeps serving": closing a listener connection removes EVERY
// routing entry that points to it - the one under its remote address (unless a migration already released it) and the
// one under its connection identifier, if it established one - and leaves the entries of other connections alone.
// A stale entry keeps the dead connection (and its buffer) referenced for the life of the listener, and every later
// datagram from that address, a valid new ClientHello included, is written into the closed buffer and lost.
// Connection with / without an identifier (arbitrary 2-byte key), migrated away from its first address or not;
// another live connection B is registered under its own address and identifier.
//
//symgo:entry covers=closed_with_id,closed_without_id,closed_after_migration
func zzCloseRemovesEveryRoutingEntry() {
	l := &listener{
		acceptCh:   make(chan *PacketConn, 4),
		conns:      make(map[string]*PacketConn),
		doneCh:     make(chan struct{}),
		readDoneCh: make(chan struct{}),
	}
	l.accepting.Store(true)
	addrA, addrB := zzCAddr{"10.0.0.1:1000"}, zzCAddr{"10.0.0.2:2000"}
	var _ net.Addr = addrA
	a, b := l.newPacketConn(addrA), l.newPacketConn(addrB)
	l.connWG.Add(2)
	l.conns[addrA.String()], l.conns[addrB.String()] = a, b
	idB := "idB"
	l.conns[idB] = b
	b.id.Store(idB)
	hasID := zzsymChoice("has_identifier", 2) == 1
	migrated := hasID && zzsymChoice("migrated", 2) == 1
	if hasID {
		idA := zzsymString("idA", 2)
		zzsymAssume(!zzsymEqStr(idA, "id"))
		l.conns["A:"+idA] = a
		a.id.Store("A:" + idA)
	}
	if migrated {
		delete(l.conns, addrA.String())
		a.rmraddr.Store(true)
		zzsymCover("closed_after_migration")
	} else if hasID {
		zzsymCover("closed_with_id")
	} else {
		zzsymCover("closed_without_id")
	}
	_ = a.Close()
	for _, c := range l.conns {
		zzsymAssert(c != a, "closed_connection_has_no_routing_entry_left")
	}
	zzsymAssert(len(l.conns) == 2 && l.conns[addrB.String()] == b && l.conns[idB] == b, "other_connections_entries_untouched")
}
