package extension

//symgo:pkg github.com/pion/dtls/v3/pkg/protocol/extension
//symgo:param NEXT quick=12 thorough=20
//symgo:param NLIST quick=16 thorough=24
//symgo:outside extension payloads longer than NEXT bytes, extension lists longer than NLIST bytes

// zzDecExtNew returns a fresh decoder for the i-th payload codec of this package (offer and selection/ack forms).
func zzDecExtNew(i int) (PayloadUnmarshaller, string) {
	switch i {
	case 0:
		return &ServerNameOffer{}, "server_name_offer"
	case 1:
		return &ServerNameAck{}, "server_name_ack"
	case 2:
		return &ALPNOffer{}, "alpn_offer"
	case 3:
		return &ALPNSelection{}, "alpn_selection"
	case 4:
		return &SRTPOffer{}, "srtp_offer"
	case 5:
		return &SRTPSelection{}, "srtp_selection"
	case 6:
		return &SupportedGroups{}, "supported_groups"
	case 7:
		return &SignatureAlgorithms{}, "signature_algorithms"
	case 8:
		return &CertificateSignatureAlgorithms{}, "signature_algorithms_cert"
	case 9:
		return &ConnectionID{}, "connection_id"
	case 10:
		return &ReturnRoutabilityCheck{}, "rrc"
	}
	return &Raw{}, "raw"
}

// zzDecExtSize is the number of payload bytes a decoded value retains; an honest decoder can never retain more
// than it was given (no amplification of a hostile extension into memory).
func zzDecExtSize(v PayloadUnmarshaller) int {
	switch t := v.(type) {
	case *ServerNameOffer:
		return len(t.ServerName)
	case *ALPNOffer:
		n := 0
		for _, p := range t.Protocols {
			n += len(p)
		}
		return n
	case *ALPNSelection:
		return len(t.Protocol)
	case *SRTPOffer:
		return 2*len(t.ProtectionProfiles) + len(t.MasterKeyIdentifier)
	case *SRTPSelection:
		return 2 + len(t.MasterKeyIdentifier)
	case *SupportedGroups:
		return 2 * len(t.Groups)
	case *SignatureAlgorithms:
		return 2 * len(t.Schemes)
	case *CertificateSignatureAlgorithms:
		return 2 * len(t.Schemes)
	case *ConnectionID:
		return len(t.CID)
	case *Raw:
		return len(t.Data)
	}
	return 0
}

// Every extension payload decoder of pkg/protocol/extension (server_name offer/ack, ALPN offer/selection,
// use_srtp offer/selection, supported_groups, signature_algorithms, signature_algorithms_cert, connection_id,
// return_routability_check, raw) called directly on an arbitrary payload of every length 0..NEXT: no panic,
// loops end, and the decoded value never retains more bytes than the payload had.
//
//symgo:entry covers=ok_server_name_offer,ok_server_name_ack,ok_alpn_offer,ok_alpn_selection,ok_srtp_offer,ok_srtp_selection,ok_supported_groups,ok_signature_algorithms,ok_signature_algorithms_cert,ok_connection_id,ok_rrc,ok_raw,rej_server_name_offer,rej_server_name_ack,rej_alpn_offer,rej_alpn_selection,rej_srtp_offer,rej_srtp_selection,rej_supported_groups,rej_signature_algorithms,rej_signature_algorithms_cert,rej_connection_id,rej_rrc
func zzDecExtPayloadNoPanic() {
	v, name := zzDecExtNew(zzsymChoice("codec", 12))
	n := zzsymChoice("len", zzsymParam("NEXT")+1)
	data := zzsymBytes("d", n)
	if err := v.UnmarshalData(data); err != nil {
		zzsymCover("rej_" + name)
		return
	}
	zzsymAssert(zzDecExtSize(v) <= n, "decoded_extension_not_larger_than_payload")
	zzsymCover("ok_" + name)
}

// ParseList (RFC 8446 §4.2 `Extension extensions<..2^16-1>` framing) on an arbitrary byte string of every length
// 0..NLIST: no panic, the loop ends; an accepted list has a correct outer length and its entries (4-byte header
// + data) tile the list exactly, so at most (len-2)/4 entries and no more data bytes than were received.
//
//symgo:entry covers=list_empty,list_one,list_two,list_rejected
func zzDecExtParseListNoPanic() {
	n := zzsymChoice("len", zzsymParam("NLIST")+1)
	buf := zzsymBytes("d", n)
	raws, err := ParseList(buf)
	if n < 2 {
		zzsymAssert(err != nil, "list_without_length_rejected")
	}
	if err != nil {
		zzsymCover("list_rejected")
		return
	}
	zzsymAssert(int(buf[0])<<8|int(buf[1]) == n-2, "list_outer_length_exact")
	total := 0
	for _, r := range raws {
		total += 4 + len(r.Data)
	}
	zzsymAssert(total == n-2, "list_entries_tile_list")
	switch len(raws) {
	case 0:
		zzsymCover("list_empty")
	case 1:
		zzsymCover("list_one")
	case 2:
		zzsymCover("list_two")
	}
}
