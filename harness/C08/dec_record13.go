package recordlayer

//symgo:pkg github.com/pion/dtls/v3/pkg/protocol/recordlayer
//symgo:param NDGRAM13 quick=20 thorough=30
//symgo:param NCIDS quick=2 thorough=4
//symgo:param NMULTI quick=1 thorough=2
//symgo:outside datagrams longer than the stated byte counts

import "github.com/pion/dtls/v3/pkg/protocol"

// zzDec13CID lists the connection-ID lengths tried (the first NCIDS of them).
func zzDec13CID(i int) int {
	return []int{0, 2, 1, 3, 8}[i]
}

// zzDec13Check states the DTLS 1.3 datagram layout for what an unpacker returns: non-empty records inside the
// datagram; ciphertext records only when unified headers are enabled; plaintext records carry a full 13-byte header.
func zzDec13Check(buf []byte, recs [][]byte, en bool) (plain, cipher int) {
	total := 0
	for _, r := range recs {
		zzsymAssert(len(r) >= 2, "record13_nonempty")
		total += len(r)
		if protocol.IsDTLS13Ciphertext(protocol.ContentType(r[0])) {
			zzsymAssert(en, "ciphertext_only_when_enabled")
			cipher++
		} else {
			zzsymAssert(len(r) >= FixedHeaderSize, "plaintext13_has_full_header")
			plain++
		}
	}
	zzsymAssert(total <= len(buf), "records13_within_datagram")
	return plain, cipher
}

// UnpackDatagram13 on an arbitrary datagram of every length 0..NDGRAM13 under every decoding context (CID length
// 0,2 (thorough: 0,1,2,3,8), CID required or not, ciphertext headers enabled or not): no panic, terminates,
// returned records lie inside the datagram and are non-empty.
//
//symgo:entry covers=u13_ok,u13_rejected,u13_cipher,u13_plain
func zzDec13UnpackDatagramNoPanic() {
	n := zzsymChoice("len", zzsymParam("NDGRAM13")+1)
	ncid := zzDec13CID(zzsymChoice("cidlen", zzsymParam("NCIDS")))
	req := false
	if ncid > 0 { // cidRequired is only consulted when a CID length is configured
		req = zzsymChoice("cidreq", 2) == 1
	}
	en := true
	if ncid == 0 { // with ciphertext headers disabled the CID settings are never consulted
		en = zzsymChoice("cipherhdr", 2) == 1
	}
	buf := zzsymBytes("d", n)
	recs, err := UnpackDatagram13(buf, ncid, req, en)
	if err != nil {
		zzsymCover("u13_rejected")
		return
	}
	plain, cipher := zzDec13Check(buf, recs, en)
	if cipher > 0 {
		zzsymCover("u13_cipher")
	}
	if plain > 0 {
		zzsymCover("u13_plain")
	}
	zzsymCover("u13_ok")
}

// UnpackDatagram13 on 40-byte datagrams (thorough: also 48) that hold several records. To reach the second
// record without enumerating every first one, the framing bytes of the first record are fixed to one of three
// shapes (plaintext handshake header with length 1; ciphertext header with length field 16, without and with a
// 1-byte CID); its other bytes and the whole rest of the datagram are arbitrary. Plaintext+ciphertext mixes, two
// ciphertext records and the CID-mismatch cut-off are reached; no panic, same layout obligations.
//
//symgo:entry covers=m13_mixed,m13_twocipher,m13_rejected,m13_cidcut
func zzDec13UnpackDatagramMulti() {
	n := []int{40, 48}[zzsymChoice("len", zzsymParam("NMULTI"))]
	buf := zzsymBytes("d", n)
	ncid := 0
	switch zzsymChoice("first", 3) {
	case 0: // DTLSPlaintext, handshake, length 1
		zzsymAssume(buf[0] == 22)
		zzsymAssume(zzsymAnd(buf[11] == 0, buf[12] == 1))
	case 1: // DTLSCiphertext 001 C=0 S=0 L=1 ee, seq(1), length(2)=16
		zzsymAssume(buf[0]&0xfc == 0x24)
		zzsymAssume(zzsymAnd(buf[2] == 0, buf[3] == 16))
	case 2: // DTLSCiphertext 001 C=1 S=0 L=1 ee, cid(1), seq(1), length(2)=16
		ncid = 1
		zzsymAssume(buf[0]&0xfc == 0x34)
		zzsymAssume(zzsymAnd(buf[3] == 0, buf[4] == 16))
	}
	recs, err := UnpackDatagram13(buf, ncid, false, true)
	if err != nil {
		zzsymCover("m13_rejected")
		return
	}
	plain, cipher := zzDec13Check(buf, recs, true)
	if plain > 0 {
		if cipher > 0 {
			zzsymCover("m13_mixed")
		}
	}
	if cipher > 1 {
		zzsymCover("m13_twocipher")
	}
	if ncid == 1 {
		if len(recs) == 1 {
			zzsymCover("m13_cidcut") // second record present but dropped: other CID, or first was the last
		}
	}
}

