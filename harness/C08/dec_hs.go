package handshake

//symgo:pkg github.com/pion/dtls/v3/pkg/protocol/handshake
//symgo:param NMSGBODY quick=10 thorough=16
//symgo:param NKX quick=10 thorough=11
//symgo:param NCERT quick=10 thorough=14
//symgo:param NCREQ quick=6 thorough=8
//symgo:param NCREQ13 quick=9 thorough=10
//symgo:param NCA quick=7 thorough=10
//symgo:param NHELLO quick=9 thorough=16
//symgo:param NTICKET quick=6 thorough=10
//symgo:outside message bodies longer than the per-decoder byte bound stated at each entry; handshake bodies of 64 KiB and more except for the ServerKeyExchange identity-hint length check (zzDecHsServerKeyExchangeHuge)

import (
	"github.com/pion/dtls/v3/internal/ciphersuite/types"
)

// zzDecHsSimple returns a fresh decoder for the i-th fixed-layout handshake message.
func zzDecHsSimple(i int) (Message, string) {
	switch i {
	case 0:
		return &MessageHelloVerifyRequest{}, "hvr"
	case 1:
		return &MessageFinished{}, "finished"
	case 2:
		return &MessageServerHelloDone{}, "shd"
	case 3:
		return &MessageKeyUpdate{}, "key_update"
	case 4:
		return &MessageRequestConnectionID{}, "request_cid"
	case 5:
		return &MessageNewConnectionID{}, "new_cid"
	}
	return &MessageCertificateVerify{}, "cert_verify"
}

// HelloVerifyRequest, Finished, ServerHelloDone, KeyUpdate, RequestConnectionID, NewConnectionID and
// CertificateVerify Unmarshal called directly on an arbitrary body of every length 0..NMSGBODY: no panic, loops
// end; what is retained (cookie, verify data, CIDs, signature) is never longer than the body.
//
//symgo:entry covers=ok_hvr,ok_finished,ok_shd,ok_key_update,ok_request_cid,ok_new_cid,ok_cert_verify,rej_hvr,rej_key_update,rej_request_cid,rej_new_cid,rej_cert_verify
func zzDecHsSimpleNoPanic() {
	m, name := zzDecHsSimple(zzsymChoice("msg", 7))
	n := zzsymChoice("len", zzsymParam("NMSGBODY")+1)
	data := zzsymBytes("d", n)
	if err := m.Unmarshal(data); err != nil {
		zzsymCover("rej_" + name)
		return
	}
	kept := 0
	switch t := m.(type) {
	case *MessageHelloVerifyRequest:
		kept = len(t.Cookie)
	case *MessageFinished:
		kept = len(t.VerifyData)
	case *MessageNewConnectionID:
		for _, c := range t.CIDs {
			kept += len(c) + 1
		}
	case *MessageCertificateVerify:
		kept = len(t.Signature)
	}
	zzsymAssert(kept <= n, "decoded_message_not_larger_than_body")
	zzsymCover("ok_" + name)
}

// ServerKeyExchange.Unmarshal called directly under every key-exchange context (none, PSK, ECDHE, ECDHE+PSK) on
// an arbitrary body of every length 0..NKX: no panic.
//
//symgo:entry covers=ske_ok_psk,ske_ok_ecdhe,ske_ok_ecdhe_psk,ske_ok_signed,ske_rejected,ske_unset
func zzDecHsServerKeyExchangeNoPanic() {
	kx := types.KeyExchangeAlgorithm(2 * zzsymChoice("kx", 4)) // None, Psk, Ecdhe, Psk|Ecdhe
	n := zzsymChoice("len", zzsymParam("NKX")+1)
	data := zzsymBytes("d", n)
	m := MessageServerKeyExchange{KeyExchangeAlgorithm: kx}
	if err := m.Unmarshal(data); err != nil {
		if kx == types.KeyExchangeAlgorithmNone {
			zzsymCover("ske_unset")
		}
		zzsymCover("ske_rejected")
		return
	}
	zzsymAssert(len(m.IdentityHint)+len(m.PublicKey)+len(m.Signature) <= n, "decoded_message_not_larger_than_body")
	switch kx {
	case types.KeyExchangeAlgorithmPsk:
		zzsymCover("ske_ok_psk")
	case types.KeyExchangeAlgorithmEcdhe:
		zzsymCover("ske_ok_ecdhe")
	default:
		zzsymCover("ske_ok_ecdhe_psk")
	}
	if len(m.Signature) > 0 {
		zzsymCover("ske_ok_signed")
	}
}

// ServerKeyExchange.Unmarshal for PSK suites on a reassembled body of 65 538 bytes (the fragment buffer admits
// handshake messages up to 2 MB): the two identity-hint length bytes are arbitrary, the rest is zero. The hint
// length is checked as an int but the slice bound `2+hintLength` is computed in uint16, so the claim "no panic"
// covers the wrap-around of that sum. Label of a failure: panic:...MessageServerKeyExchange).Unmarshal.
//
//symgo:entry covers=skeh_done
func zzDecHsServerKeyExchangeHuge() {
	kx := types.KeyExchangeAlgorithm(2 * (1 + 2*zzsymChoice("kx", 2))) // Psk, Psk|Ecdhe
	data := make([]byte, 65538)
	hint := zzsymBytes("hintlen", 2)
	// only the top of the range is explored (keeps the enumeration of slice bounds small)
	zzsymAssume(zzsymAnd(hint[0] == 0xff, hint[1] >= 0xf8))
	copy(data, hint)
	m := MessageServerKeyExchange{KeyExchangeAlgorithm: kx}
	_ = m.Unmarshal(data)
	zzsymCover("skeh_done")
}

// ClientKeyExchange.Unmarshal called directly under every key-exchange context on an arbitrary body of every
// length 0..NKX: no panic; identity and public key are never longer than the body.
//
//symgo:entry covers=cke_ok_psk,cke_ok_ecdhe,cke_ok_ecdhe_psk,cke_rejected
func zzDecHsClientKeyExchangeNoPanic() {
	kx := types.KeyExchangeAlgorithm(2 * zzsymChoice("kx", 4))
	n := zzsymChoice("len", zzsymParam("NKX")+1)
	data := zzsymBytes("d", n)
	m := MessageClientKeyExchange{KeyExchangeAlgorithm: kx}
	if err := m.Unmarshal(data); err != nil {
		zzsymCover("cke_rejected")
		return
	}
	zzsymAssert(len(m.IdentityHint)+len(m.PublicKey) <= n, "decoded_message_not_larger_than_body")
	switch kx {
	case types.KeyExchangeAlgorithmPsk:
		zzsymCover("cke_ok_psk")
	case types.KeyExchangeAlgorithmEcdhe:
		zzsymCover("cke_ok_ecdhe")
	default:
		zzsymCover("cke_ok_ecdhe_psk")
	}
}

// Certificate (DTLS 1.2) and Certificate (DTLS 1.3, with per-entry extensions) Unmarshal called directly on an
// arbitrary body of every length 0..NCERT: no panic, loops end; retained certificate bytes never exceed the body.
//
//symgo:entry covers=cert12_ok,cert12_empty,cert12_rejected,cert13_ok,cert13_empty,cert13_rejected
func zzDecHsCertificateNoPanic() {
	n := zzsymChoice("len", zzsymParam("NCERT")+1)
	data := zzsymBytes("d", n)
	if zzsymChoice("v13", 2) == 0 {
		m := MessageCertificate{}
		if err := m.Unmarshal(data); err != nil {
			zzsymCover("cert12_rejected")
			return
		}
		kept := 0
		for _, c := range m.Certificate {
			kept += 3 + len(c)
		}
		zzsymAssert(kept == n-3, "cert12_entries_tile_body")
		if len(m.Certificate) == 0 {
			zzsymCover("cert12_empty")
		} else {
			zzsymCover("cert12_ok")
		}
		return
	}
	m := MessageCertificate13{}
	if err := m.Unmarshal(data); err != nil {
		zzsymCover("cert13_rejected")
		return
	}
	kept := len(m.CertificateRequestContext)
	for _, c := range m.CertificateList {
		kept += len(c.CertificateData)
	}
	zzsymAssert(kept <= n, "decoded_message_not_larger_than_body")
	if len(m.CertificateList) == 0 {
		zzsymCover("cert13_empty")
	} else {
		zzsymCover("cert13_ok")
	}
}

// CertificateRequest (DTLS 1.2) Unmarshal called directly on an arbitrary body of every length 0..NCREQ:
// no panic, loops end.
//
//symgo:entry covers=creq12_ok,creq12_rejected
func zzDecHsCertificateRequest12NoPanic() {
	n := zzsymChoice("len", zzsymParam("NCREQ")+1)
	data := zzsymBytes("d", n)
	m := MessageCertificateRequest{}
	if err := m.Unmarshal(data); err != nil {
		zzsymCover("creq12_rejected")
		return
	}
	kept := len(m.CertificateTypes) + 2*len(m.SignatureHashAlgorithms)
	for _, ca := range m.CertificateAuthoritiesNames {
		kept += len(ca)
	}
	zzsymAssert(kept <= n, "decoded_message_not_larger_than_body")
	zzsymCover("creq12_ok")
}

// CertificateRequest (DTLS 1.2) Unmarshal with empty certificate_types and signature-algorithm lists followed by
// an arbitrary certificate_authorities block (length field + 0..NCA bytes): the DistinguishedName loop runs on
// hostile lengths: no panic, loop ends, names never exceed the block.
//
//symgo:entry covers=creqca_ok,creqca_two,creqca_rejected
func zzDecHsCertificateRequest12CANoPanic() {
	n := zzsymChoice("calen", zzsymParam("NCA")+1)
	data := append([]byte{0, 0, 0}, zzsymBytes("ca", 2+n)...)
	m := MessageCertificateRequest{}
	if err := m.Unmarshal(data); err != nil {
		zzsymCover("creqca_rejected")
		return
	}
	kept := 0
	for _, ca := range m.CertificateAuthoritiesNames {
		kept += 2 + len(ca)
	}
	zzsymAssert(kept <= n, "ca_names_inside_block")
	if len(m.CertificateAuthoritiesNames) > 1 {
		zzsymCover("creqca_two")
	}
	zzsymCover("creqca_ok")
}

// CertificateRequest (DTLS 1.3) Unmarshal called directly on an arbitrary body of every length 0..NCREQ+2
// (context + extension list, CertificateRequest extension context): no panic.
//
//symgo:entry covers=creq13_ok,creq13_rejected
func zzDecHsCertificateRequest13NoPanic() {
	n := zzsymChoice("len", zzsymParam("NCREQ13")+3)
	data := zzsymBytes("d", n)
	m := MessageCertificateRequest13{}
	if err := m.Unmarshal(data); err != nil {
		zzsymCover("creq13_rejected")
		return
	}
	zzsymCover("creq13_ok")
}

// NewSessionTicket Unmarshal called directly on an arbitrary body of every length 0..13+NTICKET (13 is the
// smallest accepted body; nonce, ticket and extension list share the NTICKET variable bytes): no panic.
//
//symgo:entry covers=nst_ok,nst_rejected,nst_short
func zzDecHsNewSessionTicketNoPanic() {
	n := zzsymChoice("len", newSessionTicketMinLength+zzsymParam("NTICKET")+1)
	data := zzsymBytes("d", n)
	m := MessageNewSessionTicket{}
	err := m.Unmarshal(data)
	if n < newSessionTicketMinLength {
		zzsymAssert(err != nil, "short_ticket_rejected")
		zzsymCover("nst_short")
		return
	}
	if err != nil {
		zzsymCover("nst_rejected")
		return
	}
	zzsymAssert(len(m.TicketNonce)+len(m.Ticket) <= n-13+1, "decoded_message_not_larger_than_body")
	zzsymCover("nst_ok")
}

// decodeCipherSuiteIDs (ClientHello cipher_suites<2..2^16-2>) on every length 0..NMSGBODY with a declared length
// below 128: no panic, terminates; every returned id was present in the buffer.
//
//symgo:entry covers=cs_ok,cs_rejected
func zzDecHsCipherSuiteIDsNoPanic() {
	n := zzsymChoice("len", zzsymParam("NMSGBODY")+1)
	data := zzsymBytes("d", n)
	if n >= 2 {
		// the decoder allocates the declared count before validating it; the engine enumerates <= 80 sizes
		zzsymAssume(zzsymAnd(data[0] == 0, data[1] < 128))
	}
	ids, err := decodeCipherSuiteIDs(data)
	if err != nil {
		zzsymCover("cs_rejected")
		return
	}
	zzsymAssert(2*len(ids)+2 <= n, "cipher_suites_within_buffer")
	zzsymCover("cs_ok")
}

// decodeCipherSuiteIDs with a large declared length (128, 256, 0x7fff, 0xfffe, 0xffff: concrete, because the
// decoder allocates the declared count up front) in a buffer of every length 2..NMSGBODY whose other bytes are
// arbitrary: no panic, always rejected, so the up-to-64 KiB allocation is transient.
//
//symgo:entry covers=csl_rejected
func zzDecHsCipherSuiteIDsLargeCount() {
	n := 2 + zzsymChoice("len", zzsymParam("NMSGBODY")-1)
	decl := []int{128, 256, 0x7fff, 0xfffe, 0xffff}[zzsymChoice("declared", 5)]
	data := make([]byte, n)
	copy(data[2:], zzsymBytes("d", n-2))
	data[0], data[1] = byte(decl>>8), byte(decl)
	_, err := decodeCipherSuiteIDs(data)
	zzsymAssert(err != nil, "oversized_cipher_suite_list_rejected")
	zzsymCover("csl_rejected")
}
