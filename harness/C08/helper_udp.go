package udp

//symgo:pkg github.com/pion/dtls/v3/internal/net/udp

// ZZReceiveMTU exposes the size of the listener's socket read buffer (the largest datagram it can queue for a
// connection) to harnesses in other packages.
func ZZReceiveMTU() int { return receiveMTU }
