package dtlshandshake

//symgo:pkg github.com/pion/dtls/v3/internal/handshake
//symgo:param NPHBODY quick=2 thorough=6
//symgo:replace github.com/pion/dtls/v3/pkg/crypto/keyschedule.HkdfExpandLabel zz8HkdfExpandLabel
//symgo:stub keyschedule.HkdfExpandLabel is an uninterpreted function of its inputs (only reached by a well-formed KeyUpdate)
//symgo:stub the cipher suite and record protection are harness fakes (hash length 32); the handshake Conn is a harness fake whose Notify SUCCEEDS (returns nil, as the real Conn.notify does when the alert record was written) and logs the alert, WritePackets succeeds and logs, HandleQueuedPackets is a no-op
//symgo:assume the handshake cache holds exactly one complete message from the peer at the expected post-handshake message sequence, with an honest handshake header (bufferHandshakeRecord only pushes reassembled messages whose header parsed); its record was authenticated under a retained read generation
//symgo:outside several cached post-handshake messages at once; fragment reassembly (frag_* entries); the goroutine composition around fsm13.finish

import (
	"context"
	"hash"

	dtlsciphersuite "github.com/pion/dtls/v3/internal/ciphersuite"
	dtlsconfig "github.com/pion/dtls/v3/internal/config"
	dtlserrors "github.com/pion/dtls/v3/internal/errors"
	dtlsflight "github.com/pion/dtls/v3/internal/flight"
	dtlsstate "github.com/pion/dtls/v3/internal/state"
	"github.com/pion/dtls/v3/pkg/protocol"
	"github.com/pion/dtls/v3/pkg/protocol/alert"
	"github.com/pion/dtls/v3/pkg/protocol/handshake"
	"github.com/pion/dtls/v3/pkg/protocol/recordlayer"
)

// ---------------------------------------------------------------------------------------------
// fakes (copies of the C20 ones under zz8 names)
// ---------------------------------------------------------------------------------------------

func zz8HkdfExpandLabel(h func() hash.Hash, secret []byte, label string, context []byte, length int) ([]byte, error) {
	if h == nil {
		return nil, dtlserrors.ErrKeyScheduleMissingHashFunction
	}

	return zzsymUF("hkdf_expand_label", length, secret, []byte(label), context), nil
}

type zz8Hash struct{ size int }

func (h *zz8Hash) Write(p []byte) (int, error) { return len(p), nil }
func (h *zz8Hash) Sum(b []byte) []byte         { return append(b, make([]byte, h.size)...) }
func (h *zz8Hash) Reset()                      {}
func (h *zz8Hash) Size() int                   { return h.size }
func (h *zz8Hash) BlockSize() int              { return 64 }

type zz8Prot struct{}

func (p *zz8Prot) Seal(
	h recordlayer.UnifiedHeader, _ uint64, _ protocol.ContentType, _ []byte,
) (recordlayer.CiphertextRecord13, error) {
	return recordlayer.CiphertextRecord13{Header: h}, nil
}

func (p *zz8Prot) Open(recordlayer.UnifiedHeader, uint64, []byte) (recordlayer.InnerPlaintext, error) {
	return recordlayer.InnerPlaintext{}, dtlserrors.ErrDecryptPacket
}

func (p *zz8Prot) UnmaskSequenceNumber(h recordlayer.UnifiedHeader, _ []byte) (recordlayer.UnifiedHeader, error) {
	return h, nil
}

type zz8Suite struct {
	dtlsciphersuite.TLS13CipherSuite
}

func (s *zz8Suite) String() string         { return "zz8Suite" }
func (s *zz8Suite) ID() dtlsciphersuite.ID { return dtlsciphersuite.TLS_AES_128_GCM_SHA256 }
func (s *zz8Suite) HashFunc() func() hash.Hash {
	return func() hash.Hash { return &zz8Hash{size: 32} }
}

func (s *zz8Suite) NewRecordProtection([]byte) (dtlsciphersuite.RecordProtection13, error) {
	return &zz8Prot{}, nil
}

// zz8Conn is the handshake Conn: every operation succeeds.
type zz8Conn struct {
	alerts     []alert.Description
	writes     int
	recv       chan RecvHandshakeState
	alertLimit int // > 0: the alerts_per_event_bounded obligation is checked as soon as it is exceeded
}

func (c *zz8Conn) HandleQueuedPackets(context.Context) error { return nil }
func (c *zz8Conn) SessionKey() []byte                        { return nil }
func (c *zz8Conn) RecvHandshake() <-chan RecvHandshakeState  { return c.recv }
func (c *zz8Conn) SetLocalEpoch(uint16)                      {}
func (c *zz8Conn) TakePendingACKs() []protocol.RecordNumber  { return nil }
func (c *zz8Conn) CommitLocalKeyUpdate(*dtlsstate.TrafficGeneration) error {
	return nil
}

func (c *zz8Conn) Notify(_ context.Context, _ alert.Level, desc alert.Description) error {
	c.alerts = append(c.alerts, desc)
	if c.alertLimit > 0 {
		// checked here as well as at the end of the event, so that a path that keeps alerting is cut short
		zzsymAssert(len(c.alerts) <= c.alertLimit, "alerts_per_event_bounded")
	}

	return nil
}

func (c *zz8Conn) WritePackets(context.Context, []*dtlsflight.Packet) (*WriteResult, error) {
	c.writes++

	return &WriteResult{}, nil
}

// zz8Types lists every handshake type the decoder knows, HelloRequest, message_hash and an unassigned value.
var zz8Types = []handshake.Type{
	handshake.TypeKeyUpdate, handshake.TypeNewSessionTicket, handshake.TypeFinished, handshake.TypeServerHelloDone,
	handshake.TypeCertificate, handshake.TypeClientHello, handshake.TypeServerHello, handshake.TypeHelloVerifyRequest,
	handshake.TypeEncryptedExtensions, handshake.TypeRequestConnectionID, handshake.TypeNewConnectionID,
	handshake.TypeServerKeyExchange, handshake.TypeCertificateRequest, handshake.TypeCertificateVerify,
	handshake.TypeClientKeyExchange, handshake.TypeHelloRequest, handshake.TypeMessageHash, handshake.Type(99),
}

// zz8ConcreteEpochs makes zz8Setup use read epoch 3 (and record epoch 4 when it differs): the termination entry
// must spend its budget on instructions, not on one solver decision per loop iteration.
var zz8ConcreteEpochs bool

// zz8Setup builds an established DTLS 1.3 endpoint in the post-handshake state with read/write keys for an
// arbitrary epoch, and pushes one peer message (type typ, n symbolic body bytes, honest header) into the
// handshake cache at the expected message sequence, as Conn.bufferHandshakeRecord does. sameEpoch selects
// whether the carrying record's epoch is the current read epoch or an arbitrary other one.
func zz8Setup(typ handshake.Type, n int, sameEpoch bool) (*postHandshake, *dtlsstate.State13, *zz8Conn) {
	st := dtlsstate.NewState13(zzsymChoice("client", 2) == 1)
	st.CipherSuite = &zz8Suite{}
	cur := zzsymU16("read_epoch")
	zzsymAssume(cur >= 3)
	if zz8ConcreteEpochs {
		cur = 3
	}
	st.TrafficKeys.Install(
		&dtlsstate.TrafficGeneration{Epoch: cur, Secret: zzsymBytes("wsecret", 32), Protection: &zz8Prot{}},
		&dtlsstate.TrafficGeneration{Epoch: cur, Secret: zzsymBytes("rsecret", 32), Protection: &zz8Prot{}},
	)
	st.SetRemoteEpoch(cur)
	st.SetLocalEpoch(cur)
	recvSeq := uint16(2)
	if !zz8ConcreteEpochs {
		recvSeq += uint16(zzsymChoice("recv_seq", 2))
	}
	st.HandshakeRecvSequence = int(recvSeq)
	st.HandshakeSendSequence = 2
	cache := dtlsflight.NewCache()
	p := newPostHandshake(handshakeContext{
		state: &st,
		cache: cache,
		cfg:   &dtlsconfig.HandshakeConfig{InitialRetransmitInterval: 1000},
	})
	p.initialized = true

	msgEpoch := cur
	if !sameEpoch {
		msgEpoch = zzsymU16("msg_epoch")
		zzsymAssume(msgEpoch != cur)
		if zz8ConcreteEpochs {
			msgEpoch = 4
		}
	}
	body := zzsymBytes("body", n)
	hdr := handshake.Header{
		Type: typ, Length: uint32(n), MessageSequence: recvSeq, FragmentOffset: 0, FragmentLength: uint32(n),
	}
	raw, err := hdr.Marshal()
	zzsymAssert(err == nil, "harness_header_marshals")
	cache.Push(append(raw, body...), msgEpoch, recvSeq, typ, !st.IsClient)

	return p, &st, &zz8Conn{}
}

// One protected post-handshake handshake message from the authenticated peer, delivered to the real
// handlePostHandshakeReceive -> processPostHandshakeMessages -> handlePostHandshakeMessage of an established
// DTLS 1.3 client or server (arbitrary read epoch >= 3): the message type is any of the 18 values in zz8Types
// (all decodable types incl. Finished, Certificate, ClientHello, KeyUpdate, NewSessionTicket; HelloRequest,
// message_hash and the unassigned 99), the body is 0..NPHBODY arbitrary bytes with an honest header, the record
// epoch is the current read epoch or any other, and the alert/ACK writes of the connection succeed.
// Obligations: no Go panic; the call returns (per-path budget 3 000 000 SSA instructions, exceeded =>
// nontermination violation - but see zzPostHandshakeRxTerminates for the uncut run); at most one alert is emitted
// for the one received datagram (alerts_per_event_bounded, checked the moment a second alert is sent so the path
// is cut short); and a message that was not consumed does not leave the state machine running as if nothing
// happened: either the receive sequence advanced or an error is returned to fsm13.Run (no_silent_wedge).
//
//symgo:entry covers=ph_keyupdate_ok,ph_decode_error,ph_returned_error,ph_alert_sent nonterm=violation steps=3000000
func zzPostHandshakeRxMessage() {
	typ := zz8Types[zzsymChoice("type", len(zz8Types))]
	n := zzsymChoice("bodylen", zzsymParam("NPHBODY")+1)
	p, st, conn := zz8Setup(typ, n, zzsymChoice("same_epoch", 2) == 1)
	conn.alertLimit = 1
	seq0 := st.HandshakeRecvSequence

	err := p.handlePostHandshakeReceive(context.Background(), conn, RecvHandshakeState{
		HasHandshake: true,
		RecordsToACK: []protocol.RecordNumber{{Epoch: uint64(st.RemoteEpoch()), SequenceNumber: zzsymU64("rec_seq")}},
	})

	zzsymAssert(len(conn.alerts) <= 1, "alerts_per_event_bounded")
	zzsymAssert(err != nil || st.HandshakeRecvSequence > seq0, "no_silent_wedge")
	if len(conn.alerts) == 1 {
		zzsymCover("ph_alert_sent")
		if conn.alerts[0] == alert.DecodeError {
			zzsymCover("ph_decode_error")
		}
	}
	if err != nil {
		zzsymCover("ph_returned_error")

		return
	}
	if typ == handshake.TypeKeyUpdate {
		zzsymCover("ph_keyupdate_ok")
	}
	if typ == handshake.TypeNewSessionTicket {
		zzsymCover("ph_ticket_ok")
	}
}

// Termination of the same receive path without the early cut: a well-formed message of a type that is legal on
// the wire but not after the handshake (Finished with an empty or 1-byte body, ServerHelloDone), or a KeyUpdate
// whose record epoch is not the current read epoch, is delivered once to handlePostHandshakeReceive of a client
// or server (read epoch 3, the stray KeyUpdate under epoch 4) whose alert writes succeed. Obligation: the call returns within 3 000 000 SSA instructions
// (a correct implementation needs a few thousand), without panic, having emitted at most one alert.
//
//symgo:entry covers=ph_term_returned nonterm=violation steps=3000000
func zzPostHandshakeRxTerminates() {
	var (
		typ       handshake.Type
		n         int
		sameEpoch = true
	)
	switch zzsymChoice("case", 4) {
	case 0:
		typ, n = handshake.TypeFinished, 0
	case 1:
		typ, n = handshake.TypeFinished, 1
	case 2:
		typ, n = handshake.TypeServerHelloDone, 0
	default:
		typ, n, sameEpoch = handshake.TypeKeyUpdate, 1, false
	}
	zz8ConcreteEpochs = true
	p, _, conn := zz8Setup(typ, n, sameEpoch)
	if typ == handshake.TypeKeyUpdate {
		// a decodable KeyUpdate body (request_update 0 or 1)
		item, _ := p.cache.PullExact(uint16(p.state.HandshakeRecvSequence), !p.state.IsClient)
		zzsymAssume(item.Data[handshake.HeaderLength] <= 1)
	}
	_ = p.handlePostHandshakeReceive(context.Background(), conn, RecvHandshakeState{HasHandshake: true})
	zzsymAssert(len(conn.alerts) <= 1, "alerts_per_event_bounded")
	zzsymCover("ph_term_returned")
}

// The same event through the real fsm13.finish step (StateFinished): the connection's RecvHandshake channel holds
// one event announcing a handshake record, the cache holds the message (Finished with 0..1 body bytes, a
// KeyUpdate with a 1-byte body, or a NewSessionTicket with an arbitrary 14-byte body - the shortest that can
// decode, any lifetime), no command and no timer is pending. Obligations as above: no
// panic, finish returns, at most one alert for the datagram, and an unconsumed message makes finish report an
// error instead of staying in StateFinished with the message still at the head of the cache.
//
//symgo:entry covers=ph_finish_returned,ph_finish_ticket_ok nonterm=violation steps=3000000 allow_blocked=1
func zzPostHandshakeRxViaFinish() {
	var typ handshake.Type
	n := 1
	switch zzsymChoice("case", 4) {
	case 0:
		typ, n = handshake.TypeFinished, 0
	case 1:
		typ = handshake.TypeFinished
	case 2:
		typ = handshake.TypeKeyUpdate
	default:
		typ, n = handshake.TypeNewSessionTicket, 14 // shortest body that can decode (1-byte ticket, no extensions)
	}
	p, st, conn := zz8Setup(typ, n, zzsymChoice("same_epoch", 2) == 1)
	conn.alertLimit = 1
	conn.recv = make(chan RecvHandshakeState, 1)
	conn.recv <- RecvHandshakeState{Done: make(chan struct{}), HasHandshake: true}
	fsm := &fsm13{
		handshakeContext: p.handshakeContext,
		closed:           make(chan struct{}),
		postHandshake:    p,
	}
	seq0 := st.HandshakeRecvSequence
	next, err := fsm.finish(context.Background(), conn)
	zzsymAssert(len(conn.alerts) <= 1, "alerts_per_event_bounded")
	zzsymAssert(err != nil || st.HandshakeRecvSequence > seq0, "no_silent_wedge")
	if err == nil {
		zzsymAssert(next == StateFinished, "stays_finished_on_success")
		if typ == handshake.TypeNewSessionTicket {
			zzsymCover("ph_finish_ticket_ok")
		}
	}
	zzsymCover("ph_finish_returned")
}
