package ciphersuite

//symgo:pkg github.com/pion/dtls/v3/pkg/crypto/ciphersuite
//symgo:param AEAD_N quick=40 thorough=48
//symgo:param AEAD_CID quick=2 thorough=3
//symgo:stub the AEAD primitive (AES-GCM, AES-CCM, ChaCha20-Poly1305) is a harness fake with the contract of crypto/cipher.AEAD: Open fails on input shorter than the tag; otherwise it either fails (authentication) or returns dst followed by an arbitrary plaintext of len(ciphertext)-tag bytes; a nonce of the wrong length or a dst that overlaps the ciphertext at a different start address (both panic in the real primitives) are reported as assertion failures
//symgo:outside records above AEAD_N bytes, connection ids above AEAD_CID bytes; the arithmetic inside the real GCM/CCM/Poly1305 code

import (
	"errors"

	"github.com/pion/dtls/v3/pkg/protocol"
	"github.com/pion/dtls/v3/pkg/protocol/recordlayer"
)

var errZZAEADOpen = errors.New("zz: message authentication failed")

// zzAEADFake models one direction of an AEAD with the given tag length.
type zzAEADFake struct {
	tag    int
	opened *int    // number of successful Open calls
	plain  *[]byte // plaintext returned by the last successful Open
	ad     *[]byte // additional data of the last Open
	ctLen  *int    // ciphertext length of the last Open
}

func (a zzAEADFake) NonceSize() int { return 12 }
func (a zzAEADFake) Overhead() int  { return a.tag }
func (a zzAEADFake) Seal(dst, nonce, plaintext, additionalData []byte) []byte {
	zzsymFail("aead_seal_not_expected_on_receive_path")
	return nil
}

func (a zzAEADFake) Open(dst, nonce, ciphertext, additionalData []byte) ([]byte, error) {
	zzsymAssert(len(nonce) == 12, "aead_open_nonce_length")
	if cap(dst) > 0 && len(ciphertext) > 0 {
		// in-place use is only legal when output and input start at the same address
		zzsymAssert(&dst[:1][0] == &ciphertext[0], "aead_open_no_inexact_overlap")
	}
	*a.ad = append([]byte{}, additionalData...)
	*a.ctLen = len(ciphertext)
	if len(ciphertext) < a.tag {
		return nil, errZZAEADOpen
	}
	if !zzsymBool("auth_ok") {
		return nil, errZZAEADOpen
	}
	p := zzsymBytes("plain", len(ciphertext)-a.tag)
	*a.plain = p
	*a.opened++
	return append(dst, p...), nil
}

// zzAEADRecord returns a symbolic record of every length 0..AEAD_N and the header value the caller
// (Conn.decryptLegacyRecord) passes along: connection id pre-sized only for tls12_cid records.
func zzAEADRecord() (in []byte, h recordlayer.Header, ncid int) {
	ncid = zzsymChoice("cidlen", zzsymParam("AEAD_CID")+1)
	n := zzsymChoice("len", zzsymParam("AEAD_N")+1)
	in = zzsymBytes("rec", n)
	if ncid > 0 {
		zzsymAssume(n > 0)
		zzsymAssume(in[0] == byte(protocol.ContentTypeConnectionID))
		h.ConnectionID = make([]byte, ncid)
	}
	return in, h, ncid
}

// zzAEADCheck is the shared oracle for the DTLS 1.2 AEAD record formats. explicitNonce is 8 for GCM/CCM
// (RFC 5288 / RFC 6655: record body = explicit nonce || ciphertext || tag) and 0 for ChaCha20-Poly1305 (RFC 7905).
func zzAEADCheck(orig, out []byte, err error, ncid, explicitNonce, tag int, opened int, plain, ad []byte, ctLen int) {
	n := len(orig)
	if err != nil {
		switch {
		case n < 13 || (orig[0] == byte(protocol.ContentTypeConnectionID) && n < 13+ncid):
			zzsymCover("rejected_header")
		case ctLen < 0:
			zzsymCover("rejected_before_open")
		case ctLen < tag:
			zzsymCover("rejected_short_for_tag")
		default:
			zzsymCover("rejected_auth")
		}
		zzsymAssert(opened == 0, "rejected_record_was_not_opened")
		return
	}
	if orig[0] == byte(protocol.ContentTypeChangeCipherSpec) {
		zzsymAssert(zzsymEqBytes(out, orig), "ccs_returned_unchanged")
		zzsymCover("ccs_passthrough")
		return
	}
	hs := 13
	if orig[0] == byte(protocol.ContentTypeConnectionID) {
		hs += ncid
		zzsymCover("accepted_cid")
	}
	zzsymAssert(opened == 1, "accepted_only_after_authentication")
	zzsymAssert(n >= hs+explicitNonce+tag, "accepted_record_has_nonce_and_tag")
	zzsymAssert(ctLen == n-hs-explicitNonce, "whole_body_after_nonce_is_authenticated")
	zzsymAssert(len(out) == hs+len(plain), "accepted_output_length")
	zzsymAssert(zzsymEqBytes(out[:hs], orig[:hs]), "accepted_output_keeps_header")
	zzsymAssert(zzsymEqBytes(out[hs:], plain), "accepted_output_is_plaintext")
	// the additional data ends with the plaintext length (RFC 5246 6.2.3.3 / RFC 9146 5.3)
	pl := n - hs - explicitNonce - tag
	zzsymAssert(len(ad) >= 13 && ad[len(ad)-2] == byte(pl>>8) && ad[len(ad)-1] == byte(pl), "additional_data_carries_plaintext_length")
	zzsymCover("accepted")
	if len(plain) == 0 {
		zzsymCover("accepted_empty")
	}
}

// aead.decrypt - the receive path shared by the AES-GCM and AES-CCM suites (GCM.Decrypt and CCM.Decrypt only
// forward to it) - on a record of every length 0..AEAD_N with fully symbolic contents, tag length 16 (GCM, CCM)
// or 8 (CCM_8), with and without a connection id (0..AEAD_CID bytes). The AEAD primitive is the fake described
// in the stub line. Proved: no panic; the primitive is called within its contract (12-byte nonce, no inexact
// overlap); a protected record is accepted only after Open succeeded on everything that follows the 8-byte
// explicit nonce; the result is the record header followed by exactly the opened plaintext.
//
//symgo:entry covers=accepted,accepted_cid,accepted_empty,rejected_auth,rejected_short_for_tag,rejected_before_open,rejected_header,ccs_passthrough
func zzAEADDecryptNoPanic() {
	tag := 16 - 8*zzsymChoice("tag8", 2)
	opened, ctLen := 0, -1
	var plain, ad []byte
	fake := zzAEADFake{tag: tag, opened: &opened, plain: &plain, ad: &ad, ctLen: &ctLen}
	a := newAEAD(fake, zzsymBytes("liv", 4), fake, zzsymBytes("riv", 4), 12, tag)
	in, h, ncid := zzAEADRecord()
	orig := append([]byte{}, in...)
	var out []byte
	var err error
	switch zzsymChoice("wrapper", 3) {
	case 0:
		out, err = a.decrypt(h, in)
	case 1:
		out, err = (&GCM{aead: a}).Decrypt(h, in)
	default:
		out, err = (&CCM{aead: a}).Decrypt(h, in)
	}
	zzAEADCheck(orig, out, err, ncid, 8, tag, opened, plain, ad, ctLen)
}

// ChaCha20Poly1305.Decrypt (RFC 7905: no explicit nonce in the record) on a record of every length 0..AEAD_N with
// fully symbolic contents, with and without a connection id (0..AEAD_CID bytes); write IV of 12 bytes as produced
// by the key derivation. Same fake primitive and same claims as zzAEADDecryptNoPanic.
//
//symgo:entry covers=accepted,accepted_cid,accepted_empty,rejected_auth,rejected_short_for_tag,rejected_header,ccs_passthrough
func zzChaChaDecryptNoPanic() {
	opened, ctLen := 0, -1
	var plain, ad []byte
	fake := zzAEADFake{tag: 16, opened: &opened, plain: &plain, ad: &ad, ctLen: &ctLen}
	c := &ChaCha20Poly1305{localCipher: fake, remoteCipher: fake, localWriteIV: zzsymBytes("liv", 12), remoteWriteIV: zzsymBytes("riv", 12)}
	in, h, ncid := zzAEADRecord()
	orig := append([]byte{}, in...)
	out, err := c.Decrypt(h, in)
	zzAEADCheck(orig, out, err, ncid, 0, 16, opened, plain, ad, ctLen)
}
