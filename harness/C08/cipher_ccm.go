package ccm

//symgo:pkg github.com/pion/dtls/v3/pkg/crypto/ccm
//symgo:param CCM_N quick=34 thorough=48
//symgo:stub the 128-bit block cipher under CCM is a harness fake whose Encrypt output is arbitrary; crypto/cipher.NewCTR returns a fake stream whose key stream is arbitrary (XORKeyStream requires len(dst) >= len(src) as the real one does)
//symgo:outside ciphertexts above CCM_N bytes; additional data lengths other than 13 (DTLS 1.2 record), 23 and 25 bytes (RFC 9146 record with a 0- or 2-byte connection id)

import (
	"crypto/cipher"
)

//symgo:replace crypto/cipher.NewCTR zzCCMFakeCTR

type zzCCMFakeBlock struct{}

func (zzCCMFakeBlock) BlockSize() int { return 16 }
func (zzCCMFakeBlock) Encrypt(dst, src []byte) {
	zzsymAssert(zzsymAnd(len(src) >= 16, len(dst) >= 16), "block_input_is_a_full_block")
	copy(dst, zzsymBytes("blk", 16))
}
func (zzCCMFakeBlock) Decrypt(dst, src []byte) { zzsymFail("block_decrypt_not_expected") }

type zzCCMFakeStream struct{}

func (zzCCMFakeStream) XORKeyStream(dst, src []byte) {
	zzsymAssert(len(dst) >= len(src), "ctr_output_not_shorter_than_input")
	copy(dst, zzsymBytes("ks", len(src)))
}

func zzCCMFakeCTR(b cipher.Block, iv []byte) cipher.Stream {
	zzsymAssert(len(iv) == b.BlockSize(), "ctr_iv_is_one_block")
	return zzCCMFakeStream{}
}

// ccm.Open - pion's own CCM implementation behind the AES-CCM and AES-CCM-8 suites, reached with attacker-chosen
// bytes from aead.decrypt - with tag length 16 or 8, the 12-byte nonce DTLS uses, additional data of 13, 23 or
// 25 bytes (plain record / RFC 9146 record with a 0- or 2-byte connection id) and a ciphertext of every length
// 0..CCM_N with symbolic contents. Block cipher and CTR stream are the fakes of the stub line. Proved: no
// panic; input shorter than the tag is refused; an accepted input yields dst followed by len(ciphertext)-tag bytes.
//
//symgo:entry covers=accepted,rejected_short,rejected_tag
func zzCCMOpenNoPanic() {
	tag := 16 - 8*zzsymChoice("tag8", 2)
	c, err := NewCCM(zzCCMFakeBlock{}, tag, 12)
	zzsymAssert(err == nil, "ccm_constructed")
	n := zzsymChoice("len", zzsymParam("CCM_N")+1)
	ct := zzsymBytes("ct", n)
	nonce := zzsymBytes("nonce", 12)
	adLens := []int{13, 23, 25}
	ad := zzsymBytes("ad", adLens[zzsymChoice("adlen", 3)])
	dst := zzsymBytes("dst", zzsymChoice("dstlen", 2))
	out, err := c.Open(dst, nonce, ct, ad)
	if err != nil {
		if n < tag {
			zzsymCover("rejected_short")
		} else {
			zzsymCover("rejected_tag")
		}
		return
	}
	zzsymAssert(n >= tag, "accepted_input_has_tag")
	zzsymAssert(len(out) == len(dst)+n-tag, "accepted_output_length")
	zzsymAssert(zzsymEqBytes(out[:len(dst)], dst), "accepted_output_keeps_dst")
	zzsymCover("accepted")
}
