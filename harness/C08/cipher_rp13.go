package ciphersuite

//symgo:pkg github.com/pion/dtls/v3/internal/ciphersuite
//symgo:param RP13_N quick=24 thorough=40
//symgo:param RP13_CID quick=1 thorough=2
//symgo:stub the record AEAD (AES-GCM or ChaCha20-Poly1305) is a harness fake with the contract of crypto/cipher.AEAD: Open fails on input shorter than the 16-byte tag; otherwise it either fails (authentication) or returns an arbitrary plaintext of len(ciphertext)-16 bytes; a nonce that is not 12 bytes (panic in the real primitives) is reported as an assertion failure
//symgo:stub crypto/aes.NewCipher returns a fake block cipher (key sizes 16/24/32 accepted as by the real one) whose Encrypt output is arbitrary; chacha20.NewUnauthenticatedCipher (32-byte key, 12-byte nonce accepted as by the real one), SetCounter and XORKeyStream are replaced so that the key stream is arbitrary: the sequence-number mask is any byte string
//symgo:outside encrypted records above RP13_N bytes, connection ids above RP13_CID bytes, the arithmetic inside the real AES/GCM/ChaCha20/Poly1305 code

import (
	"crypto/aes"
	"crypto/cipher"
	"errors"

	dtlserrors "github.com/pion/dtls/v3/internal/errors"
	"github.com/pion/dtls/v3/pkg/protocol/recordlayer"
	"golang.org/x/crypto/chacha20"
)

//symgo:replace crypto/aes.NewCipher zzRP13FakeAESNew
//symgo:replace golang.org/x/crypto/chacha20.NewUnauthenticatedCipher zzRP13FakeChaChaNew
//symgo:replace (*golang.org/x/crypto/chacha20.Cipher).SetCounter zzRP13FakeChaChaSetCounter
//symgo:replace (*golang.org/x/crypto/chacha20.Cipher).XORKeyStream zzRP13FakeChaChaXOR

var errZZRP13 = errors.New("zz: fake primitive refused")

type zzRP13FakeBlock struct{}

func (zzRP13FakeBlock) BlockSize() int { return 16 }
func (zzRP13FakeBlock) Encrypt(dst, src []byte) {
	zzsymAssert(zzsymAnd(len(src) >= 16, len(dst) >= 16), "aes_block_input_is_a_full_block")
	copy(dst, zzsymBytes("aesmask", 16))
}
func (zzRP13FakeBlock) Decrypt(dst, src []byte) { zzsymFail("aes_decrypt_not_expected") }

func zzRP13FakeAESNew(key []byte) (cipher.Block, error) {
	switch len(key) {
	case 16, 24, 32:
		return zzRP13FakeBlock{}, nil
	}
	return nil, aes.KeySizeError(len(key))
}

func zzRP13FakeChaChaNew(key, nonce []byte) (*chacha20.Cipher, error) {
	if len(key) != 32 || len(nonce) != 12 {
		return nil, errZZRP13
	}
	return &chacha20.Cipher{}, nil
}

func zzRP13FakeChaChaSetCounter(c *chacha20.Cipher, counter uint32) {}

func zzRP13FakeChaChaXOR(c *chacha20.Cipher, dst, src []byte) {
	zzsymAssert(len(dst) >= len(src), "chacha_output_not_shorter_than_input")
	copy(dst, zzsymBytes("chachamask", len(src)))
}

// zzRP13AEAD models the record AEAD of one traffic generation.
type zzRP13AEAD struct {
	opened *int
	plain  *[]byte
}

func (a zzRP13AEAD) NonceSize() int { return 12 }
func (a zzRP13AEAD) Overhead() int  { return 16 }
func (a zzRP13AEAD) Seal(dst, nonce, plaintext, additionalData []byte) []byte {
	zzsymFail("aead_seal_not_expected_on_receive_path")
	return nil
}

func (a zzRP13AEAD) Open(dst, nonce, ciphertext, additionalData []byte) ([]byte, error) {
	zzsymAssert(len(nonce) == 12, "aead_open_nonce_length")
	if len(ciphertext) < 16 {
		return nil, errZZRP13
	}
	if !zzsymBool("auth_ok") {
		return nil, errZZRP13
	}
	p := zzsymBytes("plain", len(ciphertext)-16)
	*a.plain = p
	*a.opened++
	return append(dst, p...), nil
}

// zzRP13Protection builds the receive-side protection of one traffic generation the way
// newAESGCMRecordTrafficProtection13 / newChaCha20Poly1305RecordTrafficProtection13 do (12-byte IV, 16- or 32-byte
// sequence-number key), with the primitives replaced by the fakes above.
func zzRP13Protection(opened *int, plain *[]byte) *recordTrafficProtection13 {
	r := &recordTrafficProtection13{
		aead: zzRP13AEAD{opened: opened, plain: plain},
		iv:   zzsymBytes("iv", tls13AEADWriteIVLen),
	}
	switch zzsymChoice("suite", 3) {
	case 0:
		r.sequenceNumberKey = zzsymBytes("snkey", tls13AES128GCMKeyLen)
		r.sequenceNumberMaskFn = recordSequenceNumberMaskAES13
	case 1:
		r.sequenceNumberKey = zzsymBytes("snkey", tls13AES256GCMKeyLen)
		r.sequenceNumberMaskFn = recordSequenceNumberMaskAES13
	default:
		r.sequenceNumberKey = zzsymBytes("snkey", tls13ChaCha20Poly1305KeyLen)
		r.sequenceNumberMaskFn = recordSequenceNumberMaskChaCha20Poly1305TLS13
	}
	return r
}

// zzRP13CheckAccepted: an accepted record was authenticated, is long enough for the mask sample and the tag
// (RFC 9147 4.2.3), and the returned DTLSInnerPlaintext is content || type || zeros of the opened plaintext with
// a non-zero type (RFC 9147 4).
func zzRP13CheckAccepted(ip recordlayer.InnerPlaintext, encLen, opened int, plain []byte) {
	zzsymAssert(opened == 1, "accepted_only_after_authentication")
	zzsymAssert(encLen >= 16, "accepted_record_has_sample_and_tag")
	zzsymAssert(len(plain) == encLen-16, "whole_record_is_authenticated")
	nc := len(ip.Content)
	zzsymAssert(nc+1+int(ip.Zeros) == len(plain), "inner_plaintext_length")
	zzsymAssert(zzsymEqBytes(ip.Content, plain[:nc]), "inner_plaintext_content")
	zzsymAssert(zzsymAnd(plain[nc] == byte(ip.RealType), ip.RealType != 0), "inner_plaintext_type")
	zeros := true
	for i := nc + 1; i < len(plain); i++ {
		zeros = zzsymAnd(zeros, plain[i] == 0)
	}
	zzsymAssert(zeros, "inner_plaintext_padding_is_zero")
	zzsymCover("accepted")
	if ip.Zeros > 0 {
		zzsymCover("accepted_padded")
	}
}

// recordTrafficProtection13.UnmaskSequenceNumber and Open (DTLS 1.3 receive path for protected records, both
// AES-GCM key sizes and ChaCha20-Poly1305) called directly with an arbitrary unified header (every combination of
// the S and L bits, symbolic sequence number, length and epoch bits, connection id of 0..RP13_CID bytes), an
// arbitrary 64-bit reconstructed sequence number and an encrypted record of every length 0..RP13_N with symbolic
// contents. Primitives are the fakes of the stub lines. Proved: no panic; the primitives are used within their
// contract; records shorter than the 16-byte mask sample are refused; a record is accepted only after the AEAD
// opened all of it, and the result is the well-formed inner plaintext of what was opened.
//
//symgo:entry covers=accepted,accepted_padded,rejected_short_sample,rejected_seq_bits,rejected_auth,rejected_all_zero_plaintext,unmasked
func zzRP13OpenNoPanic() {
	opened := 0
	var plain []byte
	r := zzRP13Protection(&opened, &plain)
	h := recordlayer.UnifiedHeader{
		SequenceNumber: zzsymU16("hseq"),
		SeqBit:         zzsymChoice("sbit", 2) == 1,
		Length:         zzsymU16("hlen"),
		LengthBit:      zzsymChoice("lbit", 2) == 1,
		EpochLow:       zzsymU8("epochlow"),
	}
	if ncid := zzsymChoice("cidlen", zzsymParam("RP13_CID")+1); ncid > 0 {
		h.ConnectionID = zzsymBytes("cid", ncid)
	}
	n := zzsymChoice("len", zzsymParam("RP13_N")+1)
	enc := zzsymBytes("enc", n)
	seq := zzsymU64("seq")

	clear, uerr := r.UnmaskSequenceNumber(h, enc)
	if uerr != nil {
		zzsymAssert(n < tls13SequenceNumberMaskSampleLen, "unmask_refuses_only_short_records")
	} else {
		zzsymAssert(n >= tls13SequenceNumberMaskSampleLen, "unmask_needs_16_byte_sample")
		zzsymAssert(zzsymAnd(clear.SeqBit == h.SeqBit, clear.LengthBit == h.LengthBit), "unmask_keeps_header_shape")
		zzsymCover("unmasked")
	}

	ip, err := r.Open(h, seq, enc)
	if err != nil {
		switch {
		case n < tls13SequenceNumberMaskSampleLen:
			zzsymCover("rejected_short_sample")
		case opened == 1:
			zzsymCover("rejected_all_zero_plaintext")
		default:
			// either the unmasked low bits disagree with the expected sequence number or the AEAD refused
			if errors.Is(err, dtlserrors.ErrDecryptPacket) {
				zzsymCover("rejected_auth")
			} else {
				zzsymCover("rejected_seq_bits")
			}
		}
		return
	}
	zzRP13CheckAccepted(ip, n, opened, plain)
}

// The same receive path fed from the wire: a symbolic datagram of every length 0..RP13_N is decoded with
// CiphertextRecord13.Unmarshal (connection id pre-sized to 0..RP13_CID bytes when the C bit is set, as
// Conn.unmarshalCiphertextRecord does), then UnmaskSequenceNumber and Open are called as
// Conn.openCiphertextWithGeneration does, with an arbitrary reconstructed sequence number. Proved: no panic in
// decoder, unmasking or opening; accepted only after authentication with a well-formed inner plaintext.
//
//symgo:entry covers=accepted,undecodable,rejected_unmask_or_open
func zzRP13WireOpenNoPanic() {
	opened := 0
	var plain []byte
	r := zzRP13Protection(&opened, &plain)
	n := zzsymChoice("len", zzsymParam("RP13_N")+1)
	data := zzsymBytes("dgram", n)
	ncid := zzsymChoice("cidlen", zzsymParam("RP13_CID")+1)
	rec := recordlayer.CiphertextRecord13{}
	if ncid > 0 {
		zzsymAssume(n > 0)
		zzsymAssume(data[0]&recordlayer.UnifiedHeaderCIDBit != 0)
		rec.Header.ConnectionID = make([]byte, ncid)
	}
	if err := rec.Unmarshal(data); err != nil {
		zzsymCover("undecodable")
		return
	}
	if _, err := r.UnmaskSequenceNumber(rec.Header, rec.EncryptedRecord); err != nil {
		zzsymCover("rejected_unmask_or_open")
		return
	}
	ip, err := r.Open(rec.Header, zzsymU64("seq"), rec.EncryptedRecord)
	if err != nil {
		zzsymCover("rejected_unmask_or_open")
		return
	}
	zzRP13CheckAccepted(ip, len(rec.EncryptedRecord), opened, plain)
}
