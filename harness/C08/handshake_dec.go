package handshake

//symgo:pkg github.com/pion/dtls/v3/pkg/protocol/handshake
//symgo:param NBODY quick=5 thorough=8

import "github.com/pion/dtls/v3/internal/ciphersuite/types"

// Handshake.Unmarshal on an arbitrary byte string (header honest about lengths or not), every
// message type and key-exchange context, body length 0..NBODY: no panic.
//
//symgo:entry covers=decoded,rejected
func zzHandshakeUnmarshalNoPanic() {
	n := zzsymChoice("bodylen", zzsymParam("NBODY")+1)
	data := zzsymBytes("d", HeaderLength+n)
	kx := 2 * zzsymChoice("kx", 4) // None, Psk, Ecdhe, Psk|Ecdhe
	h := &Handshake{KeyExchangeAlgorithm: types.KeyExchangeAlgorithm(kx)}
	if err := h.Unmarshal(data); err != nil {
		zzsymCover("rejected")
		return
	}
	zzsymCover("decoded")
}

// Truncated header: every length below the header size is rejected without panic.
//
//symgo:entry
func zzHandshakeShortNoPanic() {
	n := zzsymChoice("len", HeaderLength)
	data := zzsymBytes("d", n)
	h := &Handshake{}
	err := h.Unmarshal(data)
	zzsymAssert(err != nil, "short_rejected")
}
