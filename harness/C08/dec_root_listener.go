package dtls

//symgo:pkg github.com/pion/dtls/v3
//symgo:param NFILTER quick=28 thorough=40
//symgo:replace (*github.com/pion/dtls/v3/internal/net/udp.ListenConfig).Listen zzDecLsnCaptureListen
//symgo:stub udp.ListenConfig.Listen (opens a socket, starts the read loop) is replaced by a function that only records the ListenConfig built by listenWithConfig, so the real AcceptFilter / DatagramRouter / ConnectionIdentifier closures can be called directly
//symgo:outside datagrams longer than NFILTER bytes; the udp read loop that calls the filter (goroutines, sockets)

import (
	"errors"
	"net"

	"github.com/pion/dtls/v3/internal/net/udp"
	dtlsnet "github.com/pion/dtls/v3/pkg/net"
	"github.com/pion/dtls/v3/pkg/protocol"
	"github.com/pion/dtls/v3/pkg/protocol/recordlayer"
)

var zzDecLsnCaptured *udp.ListenConfig

var zzDecLsnErr = errors.New("zz: listen captured")

func zzDecLsnCaptureListen(lc *udp.ListenConfig, network string, laddr *net.UDPAddr) (dtlsnet.PacketListener, error) {
	zzDecLsnCaptured = lc
	return nil, zzDecLsnErr
}

// The listener AcceptFilter installed by listenWithConfig (decides for every datagram from an unknown address
// whether a new connection is created) on an arbitrary datagram of every length 0..NFILTER: no panic; a datagram
// is admitted only if it is a well-framed sequence of records whose first record is a DTLS 1.0/1.2 handshake
// record (RFC 6347 §4.1); with a CID generator configured the router and identifier closures are installed too.
//
//symgo:entry covers=filter_accept,filter_reject,filter_with_cid
func zzDecLsnAcceptFilter() {
	cfg := &dtlsConfig{}
	withCID := zzsymChoice("cid", 2) == 1
	if withCID {
		cfg.ConnectionIDGenerator = func() []byte { return make([]byte, 2) }
	}
	l, err := listenWithConfig("udp", nil, cfg)
	zzsymAssert(l == nil, "capture_stub_returns_no_listener")
	zzsymAssert(err == zzDecLsnErr, "capture_stub_error")
	lc := zzDecLsnCaptured
	zzsymAssert(lc != nil, "listen_config_captured")
	zzsymAssert(lc.AcceptFilter != nil, "accept_filter_installed")
	if withCID {
		zzsymAssert(lc.DatagramRouter != nil, "router_installed_with_cid")
		zzsymAssert(lc.ConnectionIdentifier != nil, "identifier_installed_with_cid")
		zzsymCover("filter_with_cid")
	}
	n := zzsymChoice("len", zzsymParam("NFILTER")+1)
	pkt := zzsymBytes("d", n)
	if !lc.AcceptFilter(pkt) {
		zzsymCover("filter_reject")
		return
	}
	zzsymAssert(n > recordlayer.FixedHeaderSize, "admitted_datagram_has_a_record")
	zzsymAssert(pkt[0] == byte(protocol.ContentTypeHandshake), "admitted_first_record_is_handshake")
	zzsymAssert(pkt[1] == 0xfe, "admitted_version_major")
	zzsymAssert(zzsymOr(pkt[2] == 0xff, pkt[2] == 0xfd), "admitted_version_minor")
	zzsymAssert(recordlayer.FixedHeaderSize+(int(pkt[11])<<8|int(pkt[12])) <= n, "admitted_first_record_inside_datagram")
	zzsymCover("filter_accept")
}
