package protocol

//symgo:pkg github.com/pion/dtls/v3/pkg/protocol
//symgo:param NMSG quick=20 thorough=40
//symgo:param NCM quick=7 thorough=10
//symgo:outside content bodies longer than NMSG bytes (ACK: more than two record numbers in quick, four in thorough)

// ACK.Unmarshal (RFC 9147 §7: uint16-length-prefixed list of 16-byte record numbers) on an arbitrary byte string
// of every length 0..NMSG: no panic, the loop ends; accepted exactly when the prefix equals the remaining length
// and that length is a multiple of 16; the decoded list cannot be larger than the input.
//
//symgo:entry covers=ack_ok,ack_empty,ack_rejected
func zzDecACKNoPanic() {
	n := zzsymChoice("len", zzsymParam("NMSG")+1)
	data := zzsymBytes("d", n)
	a := ACK{}
	err := a.Unmarshal(data)
	wellFormed := false
	if n >= 2 {
		declared := int(data[0])<<8 | int(data[1])
		wellFormed = zzsymAnd(declared == n-2, (n-2)%16 == 0)
	}
	if err != nil {
		zzsymAssert(zzsymNot(wellFormed), "ack_rejected_only_if_malformed")
		zzsymCover("ack_rejected")
		return
	}
	zzsymAssert(wellFormed, "ack_accepted_only_if_well_formed")
	zzsymAssert(len(a.Records)*16 == n-2, "ack_record_count")
	if len(a.Records) == 0 {
		zzsymCover("ack_empty")
	} else {
		zzsymCover("ack_ok")
	}
}

// ReturnRoutabilityCheck.Unmarshal (RFC 9853: type byte + 8-byte cookie) on every length 0..NMSG: no panic;
// a known message type is accepted only with exactly 9 bytes.
//
//symgo:entry covers=rrc_ok,rrc_unknown_type,rrc_rejected
func zzDecRRCNoPanic() {
	n := zzsymChoice("len", zzsymParam("NMSG")+1)
	data := zzsymBytes("d", n)
	r := ReturnRoutabilityCheck{}
	err := r.Unmarshal(data)
	if n == 0 {
		zzsymAssert(err != nil, "rrc_empty_rejected")
	}
	if err != nil {
		zzsymCover("rrc_rejected")
		return
	}
	if r.MessageType <= ReturnRoutabilityCheckPathDrop {
		zzsymAssert(n == 1+ReturnRoutabilityCheckCookieLength, "rrc_known_type_needs_cookie")
		zzsymCover("rrc_ok")
	} else {
		zzsymCover("rrc_unknown_type")
	}
}

// ChangeCipherSpec.Unmarshal and ApplicationData.Unmarshal on every length 0..NMSG: no panic; CCS accepts only
// the single byte 0x01; application data is copied, never aliased or grown.
//
//symgo:entry covers=ccs_ok,ccs_rejected
func zzDecCCSAppDataNoPanic() {
	n := zzsymChoice("len", zzsymParam("NMSG")+1)
	data := zzsymBytes("d", n)
	c := ChangeCipherSpec{}
	if err := c.Unmarshal(data); err != nil {
		zzsymCover("ccs_rejected")
	} else {
		zzsymAssert(n == 1, "ccs_len_one")
		zzsymAssert(data[0] == 1, "ccs_value_one")
		zzsymCover("ccs_ok")
	}
	a := ApplicationData{}
	zzsymAssert(a.Unmarshal(data) == nil, "appdata_never_fails")
	zzsymAssert(len(a.Data) == n, "appdata_same_len")
}

// DecodeCompressionMethods (ClientHello compression_methods<1..2^8-1>) on every length 0..NCM (each
// method byte forks on the known-method lookup): no panic, terminates; accepted only if the count byte fits the buffer; at most count methods are returned.
//
//symgo:entry covers=cm_ok,cm_rejected,cm_null
func zzDecCompressionMethodsNoPanic() {
	n := zzsymChoice("len", zzsymParam("NCM")+1)
	data := zzsymBytes("d", n)
	ms, err := DecodeCompressionMethods(data)
	if err != nil {
		zzsymCover("cm_rejected")
		return
	}
	zzsymAssert(n >= 1, "cm_needs_count")
	zzsymAssert(int(data[0]) <= n-1, "cm_count_fits")
	zzsymAssert(len(ms) <= int(data[0]), "cm_result_bounded")
	if len(ms) > 0 {
		zzsymCover("cm_null")
	}
	zzsymCover("cm_ok")
}
