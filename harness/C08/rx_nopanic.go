package dtls

//symgo:pkg github.com/pion/dtls/v3
//symgo:param NDGRAM quick=20 thorough=26
//symgo:param NJUNK quick=16 thorough=24
//symgo:stub crypto/rand.Reader is a fake returning fresh symbolic bytes; nextConn is a fake that accepts every write
//symgo:stub CipherSuite / RecordProtection13 are harness fakes returning an arbitrary verdict and (for an authenticated peer) the record bytes as plaintext, so malformed-but-authentic content reaches the content parsers
//symgo:outside deadlocks across goroutines, heap growth measured at run time; datagrams longer than NDGRAM bytes

import (
	"context"
	"crypto/rand"
	"errors"
	"hash"
	"net"

	"github.com/pion/dtls/v3/internal/ciphersuite/types"
	"github.com/pion/dtls/v3/internal/closer"
	dtlsflight "github.com/pion/dtls/v3/internal/flight"
	dtlsfragmentbuffer "github.com/pion/dtls/v3/internal/fragmentbuffer"
	dtlshandshake "github.com/pion/dtls/v3/internal/handshake"
	dtlsstate "github.com/pion/dtls/v3/internal/state"
	"github.com/pion/dtls/v3/pkg/crypto/clientcertificate"
	"github.com/pion/dtls/v3/pkg/protocol"
	"github.com/pion/dtls/v3/pkg/protocol/recordlayer"
)

var zzErrAuth8 = errors.New("zz: authentication failed")

type zzSuite8 struct {
	init   bool
	reject bool // every record fails authentication
}

func (s *zzSuite8) String() string                               { return "zz8" }
func (s *zzSuite8) ID() CipherSuiteID                            { return TLS_ECDHE_ECDSA_WITH_AES_128_GCM_SHA256 }
func (s *zzSuite8) CertificateType() clientcertificate.Type      { return clientcertificate.ECDSASign }
func (s *zzSuite8) HashFunc() func() hash.Hash                   { return nil }
func (s *zzSuite8) AuthenticationType() types.AuthenticationType { return types.AuthenticationTypeCertificate }
func (s *zzSuite8) KeyExchangeAlgorithm() types.KeyExchangeAlgorithm {
	return types.KeyExchangeAlgorithmEcdhe
}
func (s *zzSuite8) ECC() bool                                   { return true }
func (s *zzSuite8) Init(ms, cr, sr []byte, isClient bool) error { return nil }
func (s *zzSuite8) IsInitialized() bool                         { return s.init }
func (s *zzSuite8) Encrypt(pkt *recordlayer.RecordLayer, raw []byte) ([]byte, error) {
	return raw, nil
}
func (s *zzSuite8) Decrypt(h recordlayer.Header, in []byte) ([]byte, error) {
	if s.reject || !zzsymBool("authOK") {
		return nil, zzErrAuth8
	}
	return in, nil
}

type zzProt8 struct{}

func (p *zzProt8) Seal(h recordlayer.UnifiedHeader, seq uint64, ct protocol.ContentType, pt []byte) (recordlayer.CiphertextRecord13, error) {
	return recordlayer.CiphertextRecord13{}, zzErrAuth8
}
func (p *zzProt8) UnmaskSequenceNumber(h recordlayer.UnifiedHeader, enc []byte) (recordlayer.UnifiedHeader, error) {
	return h, nil
}
func (p *zzProt8) Open(h recordlayer.UnifiedHeader, seq uint64, enc []byte) (recordlayer.InnerPlaintext, error) {
	if !zzsymBool("authOK13") || len(enc) == 0 {
		return recordlayer.InnerPlaintext{}, zzErrAuth8
	}
	return recordlayer.InnerPlaintext{Content: enc[:len(enc)-1], RealType: protocol.ContentType(enc[len(enc)-1])}, nil
}

type zzRand8 struct{}

func (zzRand8) Read(p []byte) (int, error) {
	copy(p, zzsymBytes("rand", len(p)))
	return len(p), nil
}

type zzNet8 struct {
	writes   int
	incoming []byte
}

func (n *zzNet8) ReadFromContext(_ context.Context, b []byte) (int, net.Addr, error) {
	if n.incoming == nil {
		return 0, nil, zzErrAuth8
	}
	return copy(b, n.incoming), &net.UDPAddr{Port: 2}, nil
}
func (n *zzNet8) WriteToContext(_ context.Context, b []byte, _ net.Addr) (int, error) {
	n.writes++
	return len(b), nil
}
func (n *zzNet8) Close() error         { return nil }
func (n *zzNet8) LocalAddr() net.Addr  { return nil }
func (n *zzNet8) Conn() net.PacketConn { return nil }

type zzLog8 struct{}

func (zzLog8) Trace(string)          {}
func (zzLog8) Tracef(string, ...any) {}
func (zzLog8) Debug(string)          {}
func (zzLog8) Debugf(string, ...any) {}
func (zzLog8) Info(string)           {}
func (zzLog8) Infof(string, ...any)  {}
func (zzLog8) Warn(string)           {}
func (zzLog8) Warnf(string, ...any)  {}
func (zzLog8) Error(string)          {}
func (zzLog8) Errorf(string, ...any) {}

func zzConn8(suite *zzSuite8, isClient bool) *Conn {
	rand.Reader = zzRand8{}
	c := &Conn{
		state:                  dtlsstate.NewActive(isClient),
		nextConn:               &zzNet8{},
		paddingLengthGenerator: func(uint) uint { return 0 },
		fragmentBuffer:         dtlsfragmentbuffer.New(),
		handshakeCache:         dtlsflight.NewCache(),
		decrypted:              make(chan any, 4),
		log:                    zzLog8{},
		closed:                 closer.NewCloser(),
		replayProtectionWindow: 64,
		rAddr:                  &net.UDPAddr{Port: 1},
	}
	common := dtlsstate.CommonState(c.state)
	if suite != nil {
		common.CipherSuite = suite
	}
	return c
}

// An arbitrary datagram of every length 0..NDGRAM is split into records and each record is run through the whole
// receive path (header parse, replay check, decrypt verdict arbitrary, CID unwrap, fragment buffer, content parsers,
// handlers) in five endpoint states: before any cipher suite exists (client and server), DTLS 1.2 established with and
// without a connection ID, and DTLS 1.3 established. No Go panic may escape; queued-packet storage stays within its cap.
//
//symgo:entry covers=state_pre,state_12,state_12cid,state_13,parsed_some_record
func zzRxDatagramNoPanic() {
	state := zzsymChoice("state", 5)
	var c *Conn
	lease := true
	switch state {
	case 0, 1:
		c = zzConn8(nil, state == 0)
		zzsymCover("state_pre")
	case 2:
		c = zzConn8(&zzSuite8{init: true}, false)
		dtlsstate.CommonState(c.state).LocalVersion = protocol.Version1_2
		dtlsstate.CommonState(c.state).SetRemoteEpoch(1)
		zzsymCover("state_12")
	case 3:
		c = zzConn8(&zzSuite8{init: true}, true)
		common := dtlsstate.CommonState(c.state)
		common.LocalVersion = protocol.Version1_2
		common.SetRemoteEpoch(1)
		common.SetLocalConnectionID(zzsymBytes("lcid", 2))
		common.RRCNegotiated = zzsymChoice("rrc", 2) == 1
		zzsymCover("state_12cid")
	case 4:
		c = zzConn8(&zzSuite8{}, false)
		st := dtlsstate.Activate13(c.state)
		c.state = st
		st.LocalVersion = protocol.Version1_3
		st.TrafficKeys.Install(nil, &dtlsstate.TrafficGeneration{Epoch: 2, Protection: &zzProt8{}})
		st.TrafficKeys.Install(nil, &dtlsstate.TrafficGeneration{Epoch: 3, Protection: &zzProt8{}})
		st.SetRemoteEpoch(3)
		zzsymCover("state_13")
	}
	n := zzsymChoice("len", zzsymParam("NDGRAM")+1)
	dgram := zzsymBytes("dg", n)
	pkts, err := c.unpackDatagram(dgram)
	if err != nil {
		return
	}
	var bl *readBufferLease
	if lease {
		buf := make([]byte, 0)
		bl = &readBufferLease{conn: c, recyclableReadBuffer: &buf}
	}
	for _, p := range pkts {
		zzsymCover("parsed_some_record")
		_, _ = c.handleIncomingPacket(context.Background(), p, &net.UDPAddr{Port: 2}, bl)
		for len(c.decrypted) > 0 {
			<-c.decrypted
		}
	}
	zzsymAssert(len(c.encryptedPackets) <= maxAppDataPacketQueueSize, "queue_within_cap")
}

// The drain of the early-packet queue re-processes parked datagrams WITHOUT a read-buffer lease (handleQueuedPackets
// passes nil): a parked DTLS 1.3 ciphertext record whose epoch bits match no installed read generation - forged before
// the victim had any keys, or simply one epoch ahead - is still "future" at that moment. Endpoint with read keys of epoch
// 2 only (just installed) or of epochs 2 and 3; one unified-header record with arbitrary first byte (epoch bits, C/S/L
// bits), sequence number and length bytes and a 17-byte body; lease present or nil. No panic; nothing delivered without a
// matching generation.
//
//symgo:entry covers=future_ciphertext_with_lease,future_ciphertext_at_drain
func zzRxFutureCiphertextNoPanic() {
	c := zzConn8(&zzSuite8{}, zzsymChoice("client", 2) == 1)
	st := dtlsstate.Activate13(c.state)
	c.state = st
	st.LocalVersion = protocol.Version1_3
	st.TrafficKeys.Install(nil, &dtlsstate.TrafficGeneration{Epoch: 2, Protection: &zzProt8{}})
	st.SetRemoteEpoch(2)
	if zzsymChoice("application_keys", 2) == 1 {
		st.TrafficKeys.Install(nil, &dtlsstate.TrafficGeneration{Epoch: 3, Protection: &zzProt8{}})
		st.SetRemoteEpoch(3)
	}
	rec := append(zzsymBytes("rec_header", 5), make([]byte, 17)...) // what the body holds is zzRxDatagramNoPanic's subject
	zzsymAssume(rec[0]&0xe0 == 0x20)
	var bl *readBufferLease
	if zzsymChoice("lease", 2) == 1 {
		buf := make([]byte, 0)
		bl = &readBufferLease{conn: c, recyclableReadBuffer: &buf}
		zzsymCover("future_ciphertext_with_lease")
	} else {
		zzsymCover("future_ciphertext_at_drain")
	}
	_, _ = c.handleIncomingPacket(context.Background(), rec, &net.UDPAddr{Port: 2}, bl)
	zzsymAssert(len(c.encryptedPackets) <= maxAppDataPacketQueueSize, "queue_within_cap")
}

// "Datagrams that cannot be parsed as DTLS records are dropped, and the endpoint keeps serving": an arbitrary
// datagram of every length 1..NJUNK that Conn.unpackDatagram rejects must be classified by the read loop as "discard
// and continue" in every endpoint state (before the handshake has completed the alternative is that the read loop stops
// and the handshake dies; afterwards that an error is handed to the application's Read) - for the legacy and the DTLS
// 1.3 splitters alike.
//
//symgo:entry covers=junk_rejected,junk_pre_handshake,junk_established
func zzRxJunkDatagramDropped() {
	state := zzsymChoice("state", 5)
	var c *Conn
	switch state {
	case 0, 1:
		c = zzConn8(nil, state == 0)
	case 2:
		c = zzConn8(&zzSuite8{init: true}, false)
		dtlsstate.CommonState(c.state).LocalVersion = protocol.Version1_2
	case 3:
		c = zzConn8(&zzSuite8{init: true}, true)
		common := dtlsstate.CommonState(c.state)
		common.LocalVersion = protocol.Version1_2
		common.SetLocalConnectionID(zzsymBytes("lcid", 2))
	case 4:
		c = zzConn8(&zzSuite8{}, false)
		st := dtlsstate.Activate13(c.state)
		c.state = st
		st.LocalVersion = protocol.Version1_3
	}
	c.handshakeEstablished = dtlshandshake.NewEstablishment()
	established := zzsymChoice("established", 2) == 1
	if established {
		dtlshandshake.ZZMarkEstablished(c.handshakeEstablished)
		zzsymCover("junk_established")
	} else {
		zzsymCover("junk_pre_handshake")
	}
	n := 1 + zzsymChoice("len", zzsymParam("NJUNK"))
	dgram := zzsymBytes("dg", n)
	_, uerr := c.unpackDatagram(append([]byte{}, dgram...))
	if uerr == nil {
		return
	}
	zzsymCover("junk_rejected")
	// the read loop's step on that datagram: either nothing is reported, or what is reported makes the loop continue
	c.nextConn.(*zzNet8).incoming = dgram
	_, err := c.readAndProcessDatagram(context.Background())
	zzsymAssert(err == nil || c.classifyReadLoopError(err) == readLoopContinue, "unparseable_datagram_is_silently_discarded")
	zzsymAssert(len(c.decrypted) == 0 && c.nextConn.(*zzNet8).writes == 0, "unparseable_datagram_has_no_effect")
}

// A datagram that FILLS the receive buffer (inboundBufferSize bytes or more arrive; the socket hands over the first
// inboundBufferSize) is one more datagram: a single DTLS 1.2-framed record with arbitrary type, version and sequence
// number that claims the current epoch, spans the whole buffer and fails authentication, on an established DTLS 1.2
// connection with and without a local CID and on a DTLS 1.3 one. Nothing is written - no alert -, nothing is
// delivered, no error stops the read loop or reaches Read. The size of the datagram alone must not matter.
//
//symgo:entry covers=buffer_filling_datagram_dropped
func zzRxBufferFillingDatagramDropped() {
	state := 2 + zzsymChoice("state", 3)
	var c *Conn
	switch state {
	case 2:
		c = zzConn8(&zzSuite8{init: true, reject: true}, false)
		dtlsstate.CommonState(c.state).LocalVersion = protocol.Version1_2
	case 3:
		c = zzConn8(&zzSuite8{init: true, reject: true}, true)
		common := dtlsstate.CommonState(c.state)
		common.LocalVersion = protocol.Version1_2
		common.SetLocalConnectionID(zzsymBytes("lcid", 2))
	case 4:
		c = zzConn8(&zzSuite8{reject: true}, false)
		st := dtlsstate.Activate13(c.state)
		c.state = st
		st.LocalVersion = protocol.Version1_3
	}
	c.handshakeEstablished = dtlshandshake.NewEstablishment()
	dtlshandshake.ZZMarkEstablished(c.handshakeEstablished)
	dtlsstate.CommonState(c.state).SetRemoteEpoch(1)
	size := inboundBufferSize + 100*zzsymChoice("beyond_buffer", 2)
	dgram := make([]byte, size)
	hdr := zzsymBytes("hdr", 11)
	copy(dgram, hdr)
	zzsymAssume(hdr[0] != byte(protocol.ContentTypeChangeCipherSpec) && hdr[0] != byte(protocol.ContentTypeHandshake) && hdr[0]&0xe0 != 0x20)
	zzsymAssume(hdr[3] == 0 && hdr[4] == 1) // claims the current protected epoch; the cipher refuses it (forgery)
	body := inboundBufferSize - 13
	dgram[11], dgram[12] = byte(body>>8), byte(body)
	c.nextConn.(*zzNet8).incoming = dgram
	_, err := c.readAndProcessDatagram(context.Background())
	if len(c.decrypted) > 0 {
		return // an authentic application record of that size is simply delivered
	}
	zzsymAssert(c.nextConn.(*zzNet8).writes == 0, "buffer_filling_datagram_answered_with_nothing")
	zzsymAssert(err == nil || c.classifyReadLoopError(err) == readLoopContinue, "buffer_filling_datagram_does_not_stop_the_read_loop")
	zzsymCover("buffer_filling_datagram_dropped")
}

// "Datagrams that cannot be parsed as DTLS records are dropped, and the endpoint keeps serving", second half: a
// datagram that splits into ONE well-framed unprotected record (legacy header, epoch 0, arbitrary content type,
// version bytes and sequence number, body of 0..NBADREC arbitrary bytes) whose CONTENT does not decode
// (recordlayer.RecordLayer.Unmarshal refuses it: unknown content type, truncated alert, malformed ACK,
// change_cipher_spec with a wrong byte, ...), in the same five endpoint states, handshake completed or not. Proved for
// the read loop's step on it: nothing is written (no alert goes out - sending a fatal alert closes the connection), no
// error stops the loop or reaches Read, nothing is delivered. Handshake records are excluded: their fragments go to the
// reassembly buffer and are decoded by the flight parsers (a malformed handshake message fails the handshake it
// belongs to, which no endpoint can avoid before Finished). On the tree before the repair this FAILED: one such
// datagram from anybody closed an established DTLS 1.2 or 1.3 connection (confirmed with live connections).
//
//symgo:param NBADREC quick=4 thorough=8
//symgo:entry covers=bad_record_established,bad_record_pre_handshake,bad_record_12,bad_record_13
func zzRxUndecodableCleartextRecordDropped() {
	state := zzsymChoice("state", 5)
	var c *Conn
	switch state {
	case 0, 1:
		c = zzConn8(nil, state == 0)
	case 2:
		c = zzConn8(&zzSuite8{init: true}, false)
		dtlsstate.CommonState(c.state).LocalVersion = protocol.Version1_2
		zzsymCover("bad_record_12")
	case 3:
		c = zzConn8(&zzSuite8{init: true}, true)
		common := dtlsstate.CommonState(c.state)
		common.LocalVersion = protocol.Version1_2
		common.SetLocalConnectionID(zzsymBytes("lcid", 2))
	case 4:
		c = zzConn8(&zzSuite8{}, false)
		st := dtlsstate.Activate13(c.state)
		c.state = st
		st.LocalVersion = protocol.Version1_3
		zzsymCover("bad_record_13")
	}
	c.handshakeEstablished = dtlshandshake.NewEstablishment()
	if zzsymChoice("established", 2) == 1 {
		dtlshandshake.ZZMarkEstablished(c.handshakeEstablished)
		zzsymCover("bad_record_established")
	} else {
		zzsymCover("bad_record_pre_handshake")
	}
	n := zzsymChoice("bodylen", zzsymParam("NBADREC")+1)
	body := zzsymBytes("body", n)
	ct := zzsymU8("content_type")
	zzsymAssume(ct != byte(protocol.ContentTypeHandshake))
	seq := zzsymBytes("seq", 6)
	rec := []byte{ct, zzsymU8("vmaj"), zzsymU8("vmin"), 0, 0}
	rec = append(rec, seq...)
	rec = append(rec, byte(n>>8), byte(n))
	rec = append(rec, body...)
	pkts, uerr := c.unpackDatagram(append([]byte{}, rec...))
	if uerr != nil || len(pkts) != 1 {
		return // not one well-framed record for this state's splitter (zzRxJunkDatagramDropped)
	}
	if (&recordlayer.RecordLayer{}).Unmarshal(append([]byte{}, rec...)) == nil {
		return // decodes: what each content kind then does is not this entry's subject
	}
	c.nextConn.(*zzNet8).incoming = rec
	_, err := c.readAndProcessDatagram(context.Background())
	zzsymAssert(err == nil || c.classifyReadLoopError(err) == readLoopContinue, "undecodable_cleartext_record_is_silently_discarded")
	zzsymAssert(c.nextConn.(*zzNet8).writes == 0, "undecodable_cleartext_record_elicits_nothing")
	zzsymAssert(len(c.decrypted) == 0, "undecodable_cleartext_record_delivers_nothing")
}
