package recordlayer

//symgo:pkg github.com/pion/dtls/v3/pkg/protocol/recordlayer
//symgo:param NHDR quick=20 thorough=24
//symgo:param NDGRAM quick=28 thorough=40
//symgo:param NDGRAM13 quick=24 thorough=40
//symgo:param NREC quick=6 thorough=12
//symgo:param NRECHS quick=3 thorough=8
//symgo:param NCIDS quick=2 thorough=5
//symgo:outside record bodies longer than the stated byte counts (decoders are length-generic; every length 0..N is enumerated)

import (
	"encoding/binary"

	"github.com/pion/dtls/v3/pkg/protocol"
)

// zzDecCID lists the connection-ID lengths tried (the first NCIDS of them).
func zzDecCID(i int) int {
	return []int{0, 2, 1, 3, 8}[i]
}

// zzDecTiles is the RFC 6347 §4.1 datagram layout written out: the records returned by an unpacker
// are back-to-back sub-slices of the datagram, each at least as long as its header, that cover it completely.
func zzDecTiles(buf []byte, recs [][]byte, minLen int) {
	total := 0
	for _, r := range recs {
		zzsymAssert(len(r) >= minLen, "unpacked_record_has_full_header")
		total += len(r)
	}
	zzsymAssert(total == len(buf), "unpacked_records_tile_datagram")
}

// DTLS 1.2 record header Unmarshal on an arbitrary byte string of every length 0..NHDR with the receiver
// configured for connection-ID lengths 0,2 (thorough: 0,1,2,3,8): no panic; anything shorter than 13(+CID) bytes is rejected.
//
//symgo:entry covers=hdr_ok,hdr_rejected,hdr_cid
func zzDecHeaderNoPanic() {
	n := zzsymChoice("len", zzsymParam("NHDR")+1)
	ncid := zzDecCID(zzsymChoice("cidlen", zzsymParam("NCIDS")))
	data := zzsymBytes("d", n)
	h := Header{ConnectionID: make([]byte, ncid)}
	err := h.Unmarshal(data)
	if n < FixedHeaderSize {
		zzsymAssert(err != nil, "short_header_rejected")
	}
	if err != nil {
		zzsymCover("hdr_rejected")
		return
	}
	zzsymCover("hdr_ok")
	if h.ContentType == protocol.ContentTypeConnectionID {
		zzsymAssert(n >= FixedHeaderSize+ncid, "cid_header_fits")
		zzsymAssert(len(h.ConnectionID) == ncid, "cid_len_kept")
		zzsymCover("hdr_cid")
	}
}

// RecordLayer.Unmarshal (header + content dispatch to ChangeCipherSpec, Alert, Handshake, ApplicationData,
// ACK, RRC decoders; content types 20..27, receiver CID length 0 or 2) on an arbitrary record of every length
// 0..13+NREC: no panic.
//
//symgo:entry covers=rec_ok,rec_rejected
func zzDecRecordLayerNoPanic() {
	n := zzsymChoice("len", FixedHeaderSize+zzsymParam("NREC")+1)
	ct := zzsymChoice("ct", 8) // 20..27 (CCS, alert, handshake, appdata, 24, CID, ACK, RRC)
	data := zzsymBytes("d", n)
	if n > 0 {
		zzsymAssume(data[0] == byte(20+ct))
	}
	ncid := zzsymChoice("cidlen", 2) * 2
	r := RecordLayer{Header: Header{ConnectionID: make([]byte, ncid)}}
	if err := r.Unmarshal(data); err != nil {
		zzsymCover("rec_rejected")
		return
	}
	zzsymCover("rec_ok")
}

// RecordLayer.Unmarshal with a handshake content type: the 12-byte handshake header plus 0..NRECHS body bytes
// are arbitrary, so every handshake message decoder is reached through the record layer: no panic.
//
//symgo:entry covers=rechs_ok,rechs_rejected
func zzDecRecordLayerHandshakeNoPanic() {
	n := zzsymChoice("bodylen", zzsymParam("NRECHS")+1)
	data := zzsymBytes("d", FixedHeaderSize+12+n)
	zzsymAssume(data[0] == byte(protocol.ContentTypeHandshake))
	r := RecordLayer{}
	if err := r.Unmarshal(data); err != nil {
		zzsymCover("rechs_rejected")
		return
	}
	zzsymCover("rechs_ok")
}

// UnpackDatagram (and the listener AcceptFilter built on it, see dec_root_listener.go) on an arbitrary datagram of every
// length 0..NDGRAM: no panic, the loop ends, and an accepted datagram is an exact tiling by records that
// each carry a full 13-byte header.
//
//symgo:entry covers=dg_empty,dg_one,dg_two,dg_rejected
func zzDecUnpackDatagramNoPanic() {
	n := zzsymChoice("len", zzsymParam("NDGRAM")+1)
	buf := zzsymBytes("d", n)
	recs, err := UnpackDatagram(buf)
	if err != nil {
		zzsymCover("dg_rejected")
		return
	}
	zzDecTiles(buf, recs, FixedHeaderSize)
	zzsymAssert(len(recs) <= n/FixedHeaderSize, "record_count_bounded_by_length")
	switch len(recs) {
	case 0:
		zzsymAssert(n == 0, "no_records_only_for_empty")
		zzsymCover("dg_empty")
	case 1:
		zzsymCover("dg_one")
	case 2:
		zzsymCover("dg_two")
	}
}

// ContentAwareUnpackDatagram with CID lengths 0,2 (thorough: 0,1,2,3,8) on an arbitrary datagram 0..NDGRAM bytes: no panic,
// terminates, accepted datagrams are tiled by records whose length field sits after the CID for tls12_cid records.
//
//symgo:entry covers=cdg_ok,cdg_rejected,cdg_cidrec
func zzDecContentAwareUnpackNoPanic() {
	n := zzsymChoice("len", zzsymParam("NDGRAM")+1)
	ncid := zzDecCID(zzsymChoice("cidlen", zzsymParam("NCIDS")))
	buf := zzsymBytes("d", n)
	recs, err := ContentAwareUnpackDatagram(buf, ncid)
	if err != nil {
		zzsymCover("cdg_rejected")
		return
	}
	zzDecTiles(buf, recs, FixedHeaderSize)
	for _, r := range recs {
		if r[0] == byte(protocol.ContentTypeConnectionID) {
			zzsymAssert(len(r) >= FixedHeaderSize+ncid, "cid_record_has_full_header")
			zzsymAssert(len(r) == FixedHeaderSize+ncid+int(binary.BigEndian.Uint16(r[11+ncid:])), "cid_record_len_field")
			zzsymCover("cdg_cidrec")
		} else {
			zzsymAssert(len(r) == FixedHeaderSize+int(binary.BigEndian.Uint16(r[11:])), "record_len_field")
		}
	}
	zzsymCover("cdg_ok")
}

// DTLS 1.3 unified header Unmarshal, every length 0..8 and receiver CID length 0,2 (thorough: 0,1,2,3,8): no panic; the decoded
// size never exceeds the input.
//
//symgo:entry covers=uh_ok,uh_rejected,uh_cid,uh_len
func zzDecUnifiedHeaderNoPanic() {
	n := zzsymChoice("len", 9)
	ncid := zzDecCID(zzsymChoice("cidlen", zzsymParam("NCIDS")))
	data := zzsymBytes("d", n)
	u := UnifiedHeader{ConnectionID: make([]byte, ncid)}
	if err := u.Unmarshal(data); err != nil {
		zzsymCover("uh_rejected")
		return
	}
	zzsymAssert(u.Size() <= n, "unified_header_within_input")
	if len(u.ConnectionID) > 0 {
		zzsymCover("uh_cid")
	}
	if u.LengthBit {
		zzsymCover("uh_len")
	}
	zzsymCover("uh_ok")
}

// DTLSPlaintext (1.3 epoch 0) record Unmarshal on arbitrary bytes, lengths 0..13+NREC for alert/ACK and
// 13+12+0..NRECHS for handshake: no panic.
//
//symgo:entry covers=p13_ok,p13_rejected
func zzDecPlaintext13NoPanic() {
	hs := zzsymChoice("hs", 2)
	var data []byte
	if hs == 1 {
		data = zzsymBytes("d", FixedHeaderSize+12+zzsymChoice("bodylen", zzsymParam("NRECHS")+1))
		zzsymAssume(data[0] == byte(protocol.ContentTypeHandshake))
	} else {
		data = zzsymBytes("d", zzsymChoice("len", FixedHeaderSize+zzsymParam("NREC")+1))
	}
	r := PlaintextRecord13{}
	if err := r.Unmarshal(data); err != nil {
		zzsymCover("p13_rejected")
		return
	}
	zzsymCover("p13_ok")
}

// DTLSCiphertext record Unmarshal on arbitrary bytes of every length 0..NDGRAM13, receiver CID length 0,2 (thorough: 0,1,2,3,8):
// no panic; an accepted record keeps exactly the bytes after the header and at least 16 of them.
//
//symgo:entry covers=c13_ok,c13_rejected
func zzDecCiphertext13NoPanic() {
	n := zzsymChoice("len", zzsymParam("NDGRAM13")+1)
	ncid := zzDecCID(zzsymChoice("cidlen", zzsymParam("NCIDS")))
	data := zzsymBytes("d", n)
	r := CiphertextRecord13{Header: UnifiedHeader{ConnectionID: make([]byte, ncid)}}
	if err := r.Unmarshal(data); err != nil {
		zzsymCover("c13_rejected")
		return
	}
	zzsymAssert(len(r.EncryptedRecord) >= 16, "ciphertext_min_len")
	zzsymAssert(r.Header.Size()+len(r.EncryptedRecord) == n, "ciphertext_is_rest_of_record")
	zzsymCover("c13_ok")
}

// DTLSInnerPlaintext Unmarshal (strip zero padding, take the real content type), every length 0..NHDR:
// no panic, terminates; content+type+padding account for every input byte; all-zero input is rejected.
//
//symgo:entry covers=ip_ok,ip_rejected,ip_padded
func zzDecInnerPlaintextNoPanic() {
	n := zzsymChoice("len", zzsymParam("NHDR")+1)
	data := zzsymBytes("d", n)
	p := InnerPlaintext{}
	if err := p.Unmarshal(data); err != nil {
		zzsymCover("ip_rejected")
		return
	}
	zzsymAssert(len(p.Content)+1+int(p.Zeros) == n, "inner_plaintext_accounts_for_all_bytes")
	zzsymAssert(p.RealType != 0, "inner_type_nonzero")
	if p.Zeros > 0 {
		zzsymCover("ip_padded")
	}
	zzsymCover("ip_ok")
}
