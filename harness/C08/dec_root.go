package dtls

//symgo:pkg github.com/pion/dtls/v3
//symgo:param NROUTE quick=22 thorough=34
//symgo:param NROUTE13 quick=22 thorough=34
//symgo:param NIDENT quick=11 thorough=15
//symgo:param NCIDS quick=2 thorough=4
//symgo:outside datagrams longer than NROUTE / NROUTE13 bytes; ServerHello bodies with more than NIDENT variable bytes

import (
	"github.com/pion/dtls/v3/pkg/protocol"
	"github.com/pion/dtls/v3/pkg/protocol/handshake"
	"github.com/pion/dtls/v3/pkg/protocol/recordlayer"
)

// zzDecRootCID lists the connection-ID lengths tried (the first NCIDS of them).
func zzDecRootCID(i int) int {
	return []int{2, 0, 1, 8}[i]
}

// cidDatagramRouter (the listener's per-datagram routing function, run on every datagram from any sender) with
// a configured CID length of 2 or 0 (thorough: also 1, 8) on an arbitrary datagram of every length 0..NROUTE whose
// first byte is not a DTLS 1.3 unified header: no panic, loops end; a CID is reported only for a tls12_cid record
// and is exactly the configured number of bytes taken from that record.
//
//symgo:entry covers=route_cid,route_none
func zzDecRootDatagramRouter12() {
	size := zzDecRootCID(zzsymChoice("cidlen", zzsymParam("NCIDS")))
	n := zzsymChoice("len", zzsymParam("NROUTE")+1)
	pkt := zzsymBytes("d", n)
	if n > 0 {
		zzsymAssume(zzsymNot(protocol.IsDTLS13Ciphertext(protocol.ContentType(pkt[0]))))
	}
	cid, ok := cidDatagramRouter(size)(pkt)
	if !ok {
		zzsymAssert(cid == "", "no_cid_without_match")
		zzsymCover("route_none")
		return
	}
	zzsymAssert(len(cid) == size, "routed_cid_has_configured_length")
	zzsymAssert(n >= recordlayer.FixedHeaderSize+size, "routed_datagram_holds_cid_header")
	zzsymCover("route_cid")
}

// cidDatagramRouter on a datagram that starts with a DTLS 1.3 unified header (first byte 001xxxxx), every length
// 1..NROUTE13, configured CID length 2 or 0 (thorough: also 1, 8): no panic, loops end; a CID is reported only
// when the C bit is set and has the configured length.
//
//symgo:entry covers=route13_cid,route13_none
func zzDecRootDatagramRouter13() {
	size := zzDecRootCID(zzsymChoice("cidlen", zzsymParam("NCIDS")))
	n := 1 + zzsymChoice("len", zzsymParam("NROUTE13"))
	pkt := zzsymBytes("d", n)
	zzsymAssume(protocol.IsDTLS13Ciphertext(protocol.ContentType(pkt[0])))
	cid, ok := cidDatagramRouter(size)(pkt)
	if !ok {
		zzsymCover("route13_none")
		return
	}
	zzsymAssert(len(cid) == size, "routed_cid_has_configured_length")
	zzsymAssert(size > 0, "no_cid_when_none_configured")
	zzsymCover("route13_cid")
}

// cidConnIdentifier (run by the listener on every outgoing first-flight datagram to learn the CID the server
// assigned; the bytes come from the local handshake, but the function must hold for any input): record header
// (13) + handshake header (12) + ServerHello fixed part (34) + variable bytes, all arbitrary: 0..NIDENT variable
// bytes when the record length field spans the datagram, 0..3 when it is arbitrary too; plus every shorter
// length 0..59 with arbitrary content and a record length field that spans the datagram: no panic.
//
//symgo:entry covers=ident_cid,ident_none,ident_short
func zzDecRootConnIdentifier() {
	fixed := recordlayer.FixedHeaderSize + handshake.HeaderLength + 2 + handshake.RandomLength
	if zzsymChoice("short", 2) == 1 {
		n := zzsymChoice("len", fixed+1)
		pkt := zzsymBytes("d", n)
		if n >= recordlayer.FixedHeaderSize {
			// record length field consistent with the datagram (arbitrary values are in the other branch)
			rl := n - recordlayer.FixedHeaderSize
			zzsymAssume(zzsymAnd(pkt[11] == byte(rl>>8), pkt[12] == byte(rl)))
		}
		_, ok := cidConnIdentifier()(pkt)
		if n < fixed {
			zzsymAssert(!ok, "truncated_server_hello_has_no_cid")
		}
		zzsymCover("ident_short")
		return
	}
	var pkt []byte
	nv := 0
	if zzsymChoice("reclen", 2) == 1 {
		// record length field says "the whole datagram": the ServerHello decoder sees all variable bytes
		nv = zzsymChoice("varlen", zzsymParam("NIDENT")+1)
		pkt = zzsymBytes("d", fixed+nv)
		rl := len(pkt) - recordlayer.FixedHeaderSize
		zzsymAssume(zzsymAnd(pkt[11] == byte(rl>>8), pkt[12] == byte(rl)))
	} else {
		// arbitrary record length field (truncates the first record anywhere), few variable bytes
		nv = zzsymChoice("varlen", 4)
		pkt = zzsymBytes("d", fixed+nv)
	}
	cid, ok := cidConnIdentifier()(pkt)
	if !ok {
		zzsymCover("ident_none")
		return
	}
	zzsymAssert(pkt[0] == byte(protocol.ContentTypeHandshake), "cid_only_from_handshake_record")
	zzsymAssert(len(cid) <= nv, "identified_cid_inside_datagram")
	zzsymCover("ident_cid")
}
