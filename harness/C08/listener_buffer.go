package dtls

//symgo:pkg github.com/pion/dtls/v3
//symgo:outside PacketConns other than the library's own UDP listener (their datagram sizes are the application's business)

import (
	dtlsnet "github.com/pion/dtls/v3/internal/net"
	"github.com/pion/dtls/v3/internal/net/udp"
)

// "Holds no memory beyond its buffering limits and keeps serving": the per-connection queue of the UDP listener hands
// a datagram to Conn's read loop only if the caller's buffer can take it - otherwise ReadFrom returns io.ErrShortBuffer
// and LEAVES the datagram at the head of the queue, so nothing behind it is ever read. Proved here for the real queue:
// for a datagram of every length 1..receiveMTU (the most the listener reads from the socket; arbitrary first and last
// byte) a read with the read loop's buffer (inboundBufferSize) succeeds, returns the whole datagram and empties the
// queue; and receiveMTU <= inboundBufferSize, so no queued datagram can exceed the reader. A datagram of
// inboundBufferSize+1 bytes is the witness of what would happen otherwise (short buffer, still queued).
//
//symgo:entry covers=queued_datagram_read,oversized_witness
func zzListenerQueueFitsReadBuffer() {
	zzsymAssert(udp.ZZReceiveMTU() <= inboundBufferSize, "listener_never_queues_more_than_the_read_buffer_takes")
	n := []int{1, 13, 1200, udp.ZZReceiveMTU() - 1, udp.ZZReceiveMTU(), inboundBufferSize + 1}[zzsymChoice("datagram_len", 6)]
	q := dtlsnet.NewPacketBuffer()
	d := make([]byte, n)
	d[0], d[n-1] = zzsymU8("dg_byte"), zzsymU8("dg_byte")
	_, err := q.WriteTo(d, nil)
	zzsymAssert(err == nil, "queue_accepts_datagram")
	buf := make([]byte, inboundBufferSize)
	m, _, err := q.ReadFrom(buf)
	if n > inboundBufferSize {
		zzsymAssert(err != nil, "oversized_datagram_is_not_truncated_silently")
		zzsymCover("oversized_witness")
		return
	}
	zzsymAssert(err == nil && m == n, "queued_datagram_is_read_whole")
	zzsymAssert(buf[0] == d[0] && buf[n-1] == d[n-1], "queued_datagram_bytes")
	zzsymCover("queued_datagram_read")
}
