package dtls13

//symgo:pkg github.com/pion/dtls/v3/pkg/protocol/extension/dtls13
//symgo:param NEXT quick=12 thorough=18
//symgo:param NPSK quick=0 thorough=3
//symgo:outside extension payloads longer than NEXT bytes; pre_shared_key offers longer than 44+NPSK bytes

import "github.com/pion/dtls/v3/pkg/protocol/extension"

// zzDecExt13New returns a fresh decoder for the i-th DTLS 1.3 payload codec (every message-context form).
func zzDecExt13New(i int) (extension.PayloadUnmarshaller, string) {
	switch i {
	case 0:
		return &CertificateAuthorities{}, "cert_authorities"
	case 1:
		return &Cookie{}, "cookie"
	case 2:
		return &EarlyData{}, "early_data"
	case 3:
		return &MaxEarlyData{}, "max_early_data"
	case 4:
		return &ClientKeyShare{}, "key_share_ch"
	case 5:
		return &ServerKeyShare{}, "key_share_sh"
	case 6:
		return &RetryKeyShare{}, "key_share_hrr"
	case 7:
		return &OIDFilters{}, "oid_filters"
	case 8:
		return &PostHandshakeAuth{}, "post_handshake_auth"
	case 9:
		return &OfferedPSKs{}, "psk_offer"
	case 10:
		return &SelectedPSK{}, "psk_selected"
	case 11:
		return &PSKKeyExchangeModes{}, "psk_modes"
	case 12:
		return &OfferedVersions{}, "versions_offer"
	}
	return &SelectedVersion{}, "version_selected"
}

// zzDecExt13Size is the number of payload bytes a decoded value retains.
func zzDecExt13Size(v extension.PayloadUnmarshaller) int {
	n := 0
	switch t := v.(type) {
	case *CertificateAuthorities:
		for _, a := range t.Authorities {
			n += len(a)
		}
	case *Cookie:
		n = len(t.Cookie)
	case *ClientKeyShare:
		for _, s := range t.Shares {
			n += 2 + len(s.KeyExchange)
		}
	case *ServerKeyShare:
		n = 2 + len(t.Share.KeyExchange)
	case *OIDFilters:
		for _, f := range t.Filters {
			n += len(f.OID) + len(f.Values)
		}
	case *OfferedPSKs:
		for _, id := range t.Identities {
			n += len(id.Identity) + 4
		}
		for _, b := range t.Binders {
			n += len(b)
		}
	case *PSKKeyExchangeModes:
		n = len(t.Modes)
	case *OfferedVersions:
		n = 2 * len(t.Versions)
	}
	return n
}

// Every DTLS 1.3 extension payload decoder (certificate_authorities, cookie, early_data and its
// NewSessionTicket form, key_share in ClientHello/ServerHello/HelloRetryRequest form, oid_filters,
// post_handshake_auth, pre_shared_key offer/selection, psk_key_exchange_modes, supported_versions
// offer/selection) called directly on an arbitrary payload of every length 0..NEXT: no panic, loops end,
// decoded value never retains more bytes than the payload had. (A pre_shared_key offer cannot be valid below
// 44 bytes; see zzDecExt13PSKOfferLong for the accepting side.)
//
//symgo:entry covers=ok_cert_authorities,ok_cookie,ok_early_data,ok_max_early_data,ok_key_share_ch,ok_key_share_sh,ok_key_share_hrr,ok_oid_filters,ok_post_handshake_auth,ok_psk_selected,ok_psk_modes,ok_versions_offer,ok_version_selected,rej_cert_authorities,rej_cookie,rej_early_data,rej_max_early_data,rej_key_share_ch,rej_key_share_sh,rej_key_share_hrr,rej_oid_filters,rej_post_handshake_auth,rej_psk_offer,rej_psk_selected,rej_psk_modes,rej_versions_offer,rej_version_selected
func zzDecExt13PayloadNoPanic() {
	v, name := zzDecExt13New(zzsymChoice("codec", 14))
	n := zzsymChoice("len", zzsymParam("NEXT")+1)
	data := zzsymBytes("d", n)
	if err := v.UnmarshalData(data); err != nil {
		zzsymCover("rej_" + name)
		return
	}
	zzsymAssert(zzDecExt13Size(v) <= n, "decoded_extension_not_larger_than_payload")
	zzsymCover("ok_" + name)
}

// pre_shared_key offer (RFC 8446 §4.2.11) at the sizes where it can be accepted: identities<7..> with one
// identity of 1+k bytes and one 32-byte binder, total 44+k bytes, k = 0..NPSK, every byte arbitrary (the 32
// binder content bytes are fixed to zero to keep the formula small; they are only copied): no panic, both the
// accepting path and the binder/identity mismatch rejections are reached.
//
//symgo:entry covers=pskl_ok,pskl_rejected
func zzDecExt13PSKOfferLong() {
	k := zzsymChoice("extra", zzsymParam("NPSK")+1)
	n := 44 + k
	data := make([]byte, n)
	copy(data, zzsymBytes("d", n-32)) // everything except the last 32 bytes is symbolic
	v := &OfferedPSKs{}
	if err := v.UnmarshalData(data); err != nil {
		zzsymCover("pskl_rejected")
		return
	}
	zzsymAssert(len(v.Identities) == len(v.Binders), "psk_identities_match_binders")
	zzsymAssert(zzDecExt13Size(v) <= n, "decoded_extension_not_larger_than_payload")
	zzsymCover("pskl_ok")
}
