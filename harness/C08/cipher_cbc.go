package ciphersuite

//symgo:pkg github.com/pion/dtls/v3/pkg/crypto/ciphersuite
//symgo:param CBC_BLOCKS quick=2 thorough=3
//symgo:param CBC_CID quick=2 thorough=2
//symgo:stub the block cipher (cbcMode) is a harness fake: BlockSize 16, CryptBlocks overwrites the buffer with arbitrary (symbolic) bytes - a peer that holds the keys can make the decrypted body anything
//symgo:stub crypto/hmac.New returns a fake hash whose Sum is an arbitrary (symbolic) value of the MAC size (20 as for SHA-1, or 32 as for SHA-256); crypto/hmac.Equal is plain byte equality and records its verdict
//symgo:outside bodies above CBC_BLOCKS blocks after the IV (a 32-byte MAC needs 3 blocks to be accepted: with CBC_BLOCKS=2 only the 20-byte MAC reaches the accept path), connection ids above CBC_CID bytes

import (
	"hash"

	"github.com/pion/dtls/v3/pkg/protocol"
	"github.com/pion/dtls/v3/pkg/protocol/recordlayer"
)

//symgo:replace crypto/hmac.New zzCBCFakeHMACNew
//symgo:replace crypto/hmac.Equal zzCBCFakeHMACEqual

// zzCBCFakeMode stands for the AES-CBC decrypter: what it "decrypts" to is arbitrary.
type zzCBCFakeMode struct{ plain *[]byte }

func (m zzCBCFakeMode) BlockSize() int { return 16 }
func (m zzCBCFakeMode) SetIV(iv []byte) {}
func (m zzCBCFakeMode) CryptBlocks(dst, src []byte) {
	p := zzsymBytes("plain", len(src))
	copy(dst, p)
	*m.plain = p
}

// zzCBCFakeHash stands for the record MAC: any value of the right size.
type zzCBCFakeHash struct{ size int }

func (h zzCBCFakeHash) Write(p []byte) (int, error) { return len(p), nil }
func (h zzCBCFakeHash) Sum(b []byte) []byte         { return append(b, zzsymBytes("mac", h.size)...) }
func (h zzCBCFakeHash) Reset()                      {}
func (h zzCBCFakeHash) Size() int                   { return h.size }
func (h zzCBCFakeHash) BlockSize() int              { return 64 }

var (
	zzCBCMacSize    int
	zzCBCMacCompare int // number of MAC comparisons
	zzCBCMacMatched bool
)

func zzCBCFakeHMACNew(h func() hash.Hash, key []byte) hash.Hash { return zzCBCFakeHash{size: zzCBCMacSize} }

func zzCBCFakeHMACEqual(a, b []byte) bool {
	zzCBCMacCompare++
	zzCBCMacMatched = zzsymEqBytes(a, b)
	return zzCBCMacMatched
}

// CBC.Decrypt (DTLS 1.2 MAC-then-encrypt suites) on a record of every length from 0 to
// 13 + cid + 16 + 16*CBC_BLOCKS bytes with fully symbolic contents, where the block cipher is stubbed so that the
// decrypted body (content, MAC, padding, padding length) is arbitrary, for MAC sizes 20 and 32, with and without a
// connection id (0..CBC_CID bytes pre-sized by the caller as Conn.decryptLegacyRecord does). Proved: no panic; a
// protected record is accepted only after its MAC compared equal, with padding that is valid per RFC 5246
// 6.2.3.2 and leaves room for the MAC; the result is the record header followed by exactly the bytes before the
// MAC. The crash F2 (valid padding longer than body minus MAC: negative slice index) is inside these bounds and
// was reported by this entry as panic:slice bounds out of range@(*CBC).Decrypt before its fix.
//
//symgo:entry covers=accepted,accepted_cid,accepted_empty_content,rejected_mac,rejected_padding,rejected_short,rejected_header,ccs_passthrough paths=30000
func zzCBCDecryptNoPanic() {
	blocks := zzsymParam("CBC_BLOCKS")
	zzCBCMacSize = 20 + 12*zzsymChoice("macsize", 2)
	ncid := zzsymChoice("cidlen", zzsymParam("CBC_CID")+1)
	var plain []byte
	c := &CBC{
		readCBC: zzCBCFakeMode{plain: &plain},
		readMac: zzsymBytes("key", 4),
		h:       func() hash.Hash { return zzCBCFakeHash{size: zzCBCMacSize} },
	}
	n := zzsymChoice("len", 13+ncid+16+16*blocks+1)
	in := zzsymBytes("rec", n)
	var h recordlayer.Header
	if ncid > 0 {
		// Conn.decryptLegacyRecord pre-sizes the connection id only for tls12_cid records
		zzsymAssume(n > 0)
		zzsymAssume(in[0] == byte(protocol.ContentTypeConnectionID))
		h.ConnectionID = make([]byte, ncid)
	}
	orig := append([]byte{}, in...)
	out, err := c.Decrypt(h, in)
	if err != nil {
		switch {
		case n < 13+ncid:
			zzsymCover("rejected_header")
		case zzCBCMacCompare > 0:
			zzsymCover("rejected_mac")
		case plain != nil:
			zzsymCover("rejected_padding")
		default:
			zzsymCover("rejected_short")
		}
		return
	}
	if orig[0] == byte(protocol.ContentTypeChangeCipherSpec) {
		zzsymAssert(zzsymEqBytes(out, orig), "ccs_returned_unchanged")
		zzsymCover("ccs_passthrough")
		return
	}
	hs := 13
	if orig[0] == byte(protocol.ContentTypeConnectionID) {
		hs += ncid
	}
	// RFC 5246 6.2.3.1/6.2.3.2 (GenericBlockCipher, explicit IV as in RFC 4347/6347): after the IV the body is
	// content || MAC || padding || padding_length, every padding byte equals padding_length.
	zzsymAssert(zzsymAnd(zzCBCMacCompare == 1, zzCBCMacMatched), "accepted_only_with_matching_mac")
	zzsymAssert(plain != nil && len(plain) == n-hs-16, "accepted_body_is_what_follows_the_iv")
	p := int(plain[len(plain)-1])
	contentLen := len(plain) - zzCBCMacSize - p - 1
	zzsymAssert(contentLen >= 0, "accepted_padding_leaves_room_for_mac")
	padOK := true
	for i := 0; i < len(plain); i++ {
		inPad := i >= len(plain)-1-p
		padOK = zzsymAnd(padOK, zzsymImplies(inPad, plain[i] == byte(p)))
	}
	zzsymAssert(padOK, "accepted_padding_is_uniform")
	zzsymAssert(len(out) == hs+contentLen, "accepted_output_length")
	zzsymAssert(zzsymEqBytes(out[:hs], orig[:hs]), "accepted_output_keeps_header")
	zzsymAssert(zzsymEqBytes(out[hs:], plain[:contentLen]), "accepted_output_is_content")
	zzsymCover("accepted")
	if hs > 13 {
		zzsymCover("accepted_cid")
	}
	if contentLen == 0 {
		zzsymCover("accepted_empty_content")
	}
}
