package dtls

//symgo:pkg github.com/pion/dtls/v3
//symgo:param QUEUE_NDATA quick=3 thorough=8
//symgo:outside who calls enqueueEncryptedPackets and when the queue is drained (handleQueuedPackets) - see rx_nopanic.go for the receive path from an empty queue

import "net"

// zzQueueLen maps a choice to a queue length: empty, one, just below the cap, at the cap.
func zzQueueLen(i int) int {
	return []int{0, 1, maxAppDataPacketQueueSize - 1, maxAppDataPacketQueueSize}[i]
}

// Induction step for the queue of early (not yet decryptable) records: from a queue holding 0, 1, cap-1 or cap
// packets (cap = maxAppDataPacketQueueSize = 100), enqueueEncryptedPackets with an arbitrary packet of
// 0..QUEUE_NDATA bytes. Proved: no panic; the queue never holds more than the cap; a packet is refused exactly
// when the queue is full and then nothing changes; an accepted packet is appended unchanged with its capacity
// clipped to its length (so a later append cannot overwrite the neighbouring record in the same datagram).
//
//symgo:entry covers=queued,refused_full
func zzQueueLimitStep() {
	k := zzQueueLen(zzsymChoice("qlen", 4))
	c := &Conn{encryptedPackets: make([]addrPkt, k)}
	n := zzsymChoice("len", zzsymParam("QUEUE_NDATA")+1)
	backing := zzsymBytes("dgram", n+2) // the record is a view into a larger datagram buffer
	pkt := addrPkt{rAddr: &net.UDPAddr{Port: 1}, data: backing[:n]}
	ok := c.enqueueEncryptedPackets(pkt)
	zzsymAssert(len(c.encryptedPackets) <= maxAppDataPacketQueueSize, "queue_within_cap")
	if k >= maxAppDataPacketQueueSize {
		zzsymAssert(!ok, "full_queue_refuses")
		zzsymAssert(len(c.encryptedPackets) == k, "refused_packet_not_stored")
		zzsymCover("refused_full")
		return
	}
	zzsymAssert(ok, "queue_with_room_accepts")
	zzsymAssert(len(c.encryptedPackets) == k+1, "accepted_packet_appended")
	last := c.encryptedPackets[k]
	zzsymAssert(zzsymEqBytes(last.data, backing[:n]), "queued_bytes_unchanged")
	zzsymAssert(cap(last.data) == len(last.data), "queued_view_capacity_clipped")
	zzsymCover("queued")
}
