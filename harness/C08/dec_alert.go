package alert

//symgo:pkg github.com/pion/dtls/v3/pkg/protocol/alert
//symgo:param NMSG quick=20 thorough=40

// Alert.Unmarshal on an arbitrary byte string of every length 0..NMSG: no panic; only two-byte bodies are
// accepted; String/Error on any decoded level/description value do not panic either (they are logged and sent
// to the application when a hostile alert arrives).
//
//symgo:entry covers=alert_ok,alert_rejected
func zzDecAlertNoPanic() {
	n := zzsymChoice("len", zzsymParam("NMSG")+1)
	data := zzsymBytes("d", n)
	a := Alert{}
	err := a.Unmarshal(data)
	if err != nil {
		zzsymAssert(n != 2, "alert_two_bytes_accepted")
		zzsymCover("alert_rejected")
		return
	}
	zzsymAssert(n == 2, "alert_only_two_bytes")
	_ = a.Level.String()
	_ = a.Description.String()
	zzsymCover("alert_ok")
}
