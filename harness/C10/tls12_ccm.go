package ccm

//symgo:pkg github.com/pion/dtls/v3/pkg/crypto/ccm
//symgo:param NPLAIN quick=3 thorough=5
//symgo:param NAAD quick=3 thorough=5
//symgo:replace crypto/cipher.NewCTR zzT12NewCTR
//symgo:stub the 128-bit block cipher is the uninterpreted function E(key, block); crypto/cipher.NewCTR is replaced by a plain counter mode over that block cipher (keystream E(iv), E(iv+1), ... with big-endian increment of the whole block), which is the standard library's documented behaviour
//symgo:outside the AES block function; CCM parameters other than those DTLS uses (nonce 12 bytes, i.e. L=3; tag 8 or 16 bytes); additional data of 0xFF00 bytes or more; messages of 2^24 bytes or more

import "crypto/cipher"

// zzT12Block is the block cipher as an uninterpreted function of key and block.
type zzT12Block struct{ key []byte }

func (b *zzT12Block) BlockSize() int { return 16 }
func (b *zzT12Block) Encrypt(dst, src []byte) {
	copy(dst, zzsymUF("E", 16, b.key, append([]byte{}, src[:16]...)))
}
func (b *zzT12Block) Decrypt(dst, src []byte) { panic("zz: CCM never uses the block decryption") }

// zzT12CTR is a generic counter mode (what crypto/cipher.NewCTR does for a non-AES Block).
type zzT12CTR struct {
	b   cipher.Block
	ctr []byte
	ks  []byte
}

func zzT12NewCTR(b cipher.Block, iv []byte) cipher.Stream {
	return &zzT12CTR{b: b, ctr: append([]byte{}, iv...)}
}

func (c *zzT12CTR) XORKeyStream(dst, src []byte) {
	for i := range src {
		if len(c.ks) == 0 {
			c.ks = make([]byte, 16)
			c.b.Encrypt(c.ks, c.ctr)
			for j := 15; j >= 0; j-- {
				c.ctr[j]++
				if c.ctr[j] != 0 {
					break
				}
			}
		}
		dst[i] = src[i] ^ c.ks[0]
		c.ks = c.ks[1:]
	}
}

// ---------------------------------------------------------------------------------------------
// reference: RFC 3610 section 2 with L = 3 (12-byte nonce), written from the RFC text
// ---------------------------------------------------------------------------------------------

func zzT12E(key, block []byte) []byte { return zzsymUF("E", 16, key, block) }

func zzT12XorBlock(a, b []byte) []byte {
	out := make([]byte, 16)
	for i := range out {
		out[i] = a[i] ^ b[i]
	}
	return out
}

func zzT12Pad16(b []byte) []byte {
	out := append([]byte{}, b...)
	for len(out)%16 != 0 {
		out = append(out, 0)
	}
	return out
}

// zzT12RefT: authentication field T (RFC 3610 2.2).
func zzT12RefT(key, nonce, m, a []byte, tagLen int) []byte {
	const l = 3
	flags := byte(8*((tagLen-2)/2) + (l - 1))
	if len(a) > 0 {
		flags |= 64
	}
	b0 := append([]byte{flags}, nonce...)
	b0 = append(b0, byte(len(m)>>16), byte(len(m)>>8), byte(len(m)))
	var blocks []byte
	if len(a) > 0 {
		// 0 < l(a) < 2^16 - 2^8: two octets of length, then a, zero padded
		blocks = append(blocks, zzT12Pad16(append([]byte{byte(len(a) >> 8), byte(len(a))}, a...))...)
	}
	blocks = append(blocks, zzT12Pad16(m)...)
	x := zzT12E(key, b0)
	for i := 0; i < len(blocks); i += 16 {
		x = zzT12E(key, zzT12XorBlock(x, blocks[i:i+16]))
	}
	return x[:tagLen]
}

// zzT12RefS: key stream block S_i = E(K, A_i), A_i = flags(L-1) || nonce || counter i in L octets (RFC 3610 2.3).
func zzT12RefS(key, nonce []byte, i int) []byte {
	a := append([]byte{3 - 1}, nonce...)
	a = append(a, byte(i>>16), byte(i>>8), byte(i))
	return zzT12E(key, a)
}

func zzT12RefCrypt(key, nonce, in []byte) []byte {
	out := make([]byte, len(in))
	for i := range in {
		out[i] = in[i] ^ zzT12RefS(key, nonce, 1+i/16)[i%16]
	}
	return out
}

func zzT12RefSeal(key, nonce, m, a []byte, tagLen int) []byte {
	t := zzT12RefT(key, nonce, m, a, tagLen)
	s0 := zzT12RefS(key, nonce, 0)
	u := make([]byte, tagLen)
	for i := range u {
		u[i] = t[i] ^ s0[i]
	}
	return append(zzT12RefCrypt(key, nonce, m), u...)
}

func zzT12CCMCase() (cipher.AEAD, []byte, []byte, []byte, int, int) {
	key := zzsymBytes("key", 16)
	tagLen := []int{16, 8}[zzsymChoice("taglen", 2)]
	nonce := zzsymBytes("nonce", 12)
	// additional data: none; 13 (DTLS 1.2 AAD: length octets + data fill 15 of the first block); 14 (exactly one
	// block); 25 (RFC 9146 AAD with a 2-byte cid: spills into a second block); 30 (exactly two blocks)
	aadLen := []int{13, 0, 25, 14, 30}[zzsymChoice("aadlen", zzsymParam("NAAD"))]
	// message: empty, one partial block, exactly one block, one block and a bit, two blocks
	mLen := []int{0, 5, 16, 17, 32}[zzsymChoice("mlen", zzsymParam("NPLAIN"))]
	aead, err := NewCCM(&zzT12Block{key: key}, tagLen, 12)
	zzsymAssert(err == nil, "ccm_format/constructor_ok")
	return aead, key, nonce, zzsymBytes("aad", aadLen), mLen, tagLen
}

// ccm_format (seal): with the block cipher uninterpreted, ccm.Seal(nonce, m, a) equals RFC 3610 for the DTLS
// parameters (L=3, M=16 or 8): B_0 = flags(64*Adata + 8*(M-2)/2 + L-1) || nonce || l(m); the additional data is
// prefixed with its 2-octet length and zero padded, then the zero-padded message; T is the first M octets of the
// CBC-MAC; S_i = E(K, (L-1) || nonce || i); output = m xor S_1.. || T xor S_0. Inputs: symbolic 16-byte key and
// 12-byte nonce, additional data of 13, 0, 25, 14 or 30 symbolic bytes (first NAAD), message of 0, 5, 16, 17 or
// 32 symbolic bytes (first NPLAIN).
//
//symgo:entry covers=tag16,tag8,with_aad,no_aad
func zzT12CCMFormatSeal() {
	aead, key, nonce, aad, mLen, tagLen := zzT12CCMCase()
	m := zzsymBytes("m", mLen)
	got := aead.Seal(nil, nonce, m, aad)
	want := zzT12RefSeal(key, nonce, m, aad, tagLen)
	zzsymAssert(len(got) == mLen+tagLen, "ccm_format/sealed_length")
	zzsymAssert(zzsymEqBytes(got[:mLen], want[:mLen]), "ccm_format/ciphertext_rfc3610")
	zzsymAssert(zzsymEqBytes(got[mLen:], want[mLen:]), "ccm_format/tag_rfc3610")
	if tagLen == 16 {
		zzsymCover("tag16")
	} else {
		zzsymCover("tag8")
	}
	if len(aad) > 0 {
		zzsymCover("with_aad")
	} else {
		zzsymCover("no_aad")
	}
}

// ccm_format (open): ccm.Open on an arbitrary ciphertext || tag (all symbolic) accepts exactly when the tag is the
// RFC 3610 value U = T xor S_0 for the decrypted message and then returns m = c xor S_1..; otherwise it fails
// and returns no plaintext. Same parameter space as zzT12CCMFormatSeal.
//
//symgo:entry covers=accepted,rejected
func zzT12CCMFormatOpen() {
	aead, key, nonce, aad, mLen, tagLen := zzT12CCMCase()
	c := zzsymBytes("c", mLen)
	u := zzsymBytes("u", tagLen)
	m := zzT12RefCrypt(key, nonce, c)
	want := zzT12RefSeal(key, nonce, m, aad, tagLen)
	valid := zzsymEqBytes(u, want[mLen:])

	got, err := aead.Open(nil, nonce, append(append([]byte{}, c...), u...), aad)
	if err != nil {
		zzsymAssert(zzsymNot(valid), "ccm_format/rejects_only_bad_tag")
		zzsymAssert(len(got) == 0, "ccm_format/no_plaintext_on_failure")
		zzsymCover("rejected")
		return
	}
	zzsymAssert(valid, "ccm_format/accepts_only_rfc3610_tag")
	zzsymAssert(zzsymEqBytes(got, m), "ccm_format/plaintext_rfc3610")
	zzsymCover("accepted")
}

// ccm_format (seal) for a record beyond 255 key-stream blocks: a 4113-byte message (258 blocks: the counter of
// S_256 needs a carry out of its last octet), fixed filler with arbitrary bytes at the start, in block 256, in block
// 257 and at the end; arbitrary key and nonce, 13 bytes of additional data, 16-byte tag. Compared with RFC 3610 on
// the sampled ciphertext octets (first block, blocks 255..258) and the tag.
//
//symgo:entry covers=long_message
func zzT12CCMFormatSealLong() {
	key := zzsymBytes("key", 16)
	nonce := zzsymBytes("nonce", 12)
	aad := zzsymBytes("aad", 13)
	aead, err := NewCCM(&zzT12Block{key: key}, 16, 12)
	zzsymAssert(err == nil, "ccm_format/constructor_ok")
	const mLen = 257*16 + 1
	m := make([]byte, mLen)
	for _, p := range []int{0, 255*16 + 3, 256*16 + 5, mLen - 1} {
		m[p] = zzsymU8("m_byte")
	}
	got := aead.Seal(nil, nonce, m, aad)
	want := zzT12RefSeal(key, nonce, m, aad, 16)
	zzsymAssert(len(got) == mLen+16, "ccm_format/sealed_length")
	zzsymAssert(zzsymEqBytes(got[:16], want[:16]), "ccm_format/long_ciphertext_first_block")
	zzsymAssert(zzsymEqBytes(got[254*16:], want[254*16:]), "ccm_format/long_ciphertext_and_tag_past_block_255")
	zzsymCover("long_message")
}
