package dtls

//symgo:pkg github.com/pion/dtls/v3
//symgo:param NLABEL quick=1 thorough=6
//symgo:param NEXPLEN quick=2 thorough=4
//symgo:replace crypto/hmac.New zzT12HmacNew
//symgo:replace crypto/sha256.New zzT12NewSHA256
//symgo:replace crypto/sha512.New384 zzT12NewSHA384
//symgo:replace crypto/sha1.New zzT12NewSHA1
//symgo:replace crypto/aes.NewCipher zzT12AESNewCipher
//symgo:replace crypto/cipher.NewGCM zzT12NewGCM
//symgo:replace github.com/pion/dtls/v3/pkg/crypto/ccm.NewCCM zzT12NewCCM
//symgo:replace golang.org/x/crypto/chacha20poly1305.New zzT12NewChaCha
//symgo:replace crypto/cipher.NewCBCEncrypter zzT12NewCBCEncrypter
//symgo:replace crypto/cipher.NewCBCDecrypter zzT12NewCBCDecrypter
//symgo:stub hmac.New is the uninterpreted hmac_<hash>(key,msg); sha1/sha256/sha384 constructors return named fakes so the hash selected through the cipher suite is observable; AES/GCM/CCM/ChaCha/CBC constructors (run by the cipher-suite Init that ExportKeyingMaterial triggers) return inert fakes
//symgo:outside RFC 5705 exporters with a context value: ExportKeyingMaterial refuses every non-empty context (and cannot distinguish an empty context from an absent one), which is a refusal, not a wrong value
//symgo:outside State values of DTLS 1.3 connections (no master secret; RFC 8446 7.5 exporter) are the subject of C07 exporter13 / design finding F6, not of this entry

import (
	"crypto/aes"
	"crypto/cipher"
	"errors"
	"hash"

	"github.com/pion/dtls/v3/pkg/crypto/ccm"
	"github.com/pion/dtls/v3/pkg/protocol"
	"github.com/pion/dtls/v3/pkg/protocol/handshake"
)

// ---------------------------------------------------------------------------------------------
// fakes
// ---------------------------------------------------------------------------------------------

type zzT12Hash struct {
	name string
	size int
	buf  []byte
}

func (h *zzT12Hash) Write(p []byte) (int, error) {
	h.buf = append(h.buf, p...)
	return len(p), nil
}
func (h *zzT12Hash) Sum(b []byte) []byte {
	return append(b, zzsymUF("hash_"+h.name, h.size, h.buf)...)
}
func (h *zzT12Hash) Reset()         { h.buf = nil }
func (h *zzT12Hash) Size() int      { return h.size }
func (h *zzT12Hash) BlockSize() int { return 64 }

func zzT12NewSHA256() hash.Hash { return &zzT12Hash{name: "sha256", size: 32} }
func zzT12NewSHA384() hash.Hash { return &zzT12Hash{name: "sha384", size: 48} }
func zzT12NewSHA1() hash.Hash   { return &zzT12Hash{name: "sha1", size: 20} }

type zzT12Hmac struct {
	name string
	size int
	key  []byte
	buf  []byte
}

func (h *zzT12Hmac) Write(p []byte) (int, error) {
	h.buf = append(h.buf, p...)
	return len(p), nil
}
func (h *zzT12Hmac) Sum(b []byte) []byte {
	return append(b, zzsymUF("hmac_"+h.name, h.size, h.key, h.buf)...)
}
func (h *zzT12Hmac) Reset()         { h.buf = nil }
func (h *zzT12Hmac) Size() int      { return h.size }
func (h *zzT12Hmac) BlockSize() int { return 64 }

func zzT12HmacNew(h func() hash.Hash, key []byte) hash.Hash {
	inner := h().(*zzT12Hash)
	return &zzT12Hmac{name: inner.name, size: inner.size, key: append([]byte{}, key...)}
}

type zzT12Block struct{ key []byte }

func (b *zzT12Block) BlockSize() int          { return 16 }
func (b *zzT12Block) Encrypt(dst, src []byte) { copy(dst, zzsymUF("aes_enc", 16, b.key, src[:16])) }
func (b *zzT12Block) Decrypt(dst, src []byte) { copy(dst, zzsymUF("aes_dec", 16, b.key, src[:16])) }

func zzT12AESNewCipher(key []byte) (cipher.Block, error) {
	switch len(key) {
	case 16, 24, 32:
		return &zzT12Block{key: append([]byte{}, key...)}, nil
	}
	return nil, aes.KeySizeError(len(key))
}

type zzT12AEAD struct{ tagLen int }

func (a *zzT12AEAD) NonceSize() int { return 12 }
func (a *zzT12AEAD) Overhead() int  { return a.tagLen }
func (a *zzT12AEAD) MaxLength() int { return 1 << 16 }
func (a *zzT12AEAD) Seal(dst, nonce, plaintext, additionalData []byte) []byte {
	return append(append(dst, plaintext...), make([]byte, a.tagLen)...)
}
func (a *zzT12AEAD) Open(dst, nonce, ciphertext, additionalData []byte) ([]byte, error) {
	return nil, errors.New("zz: not used")
}

func zzT12NewGCM(b cipher.Block) (cipher.AEAD, error) { return &zzT12AEAD{tagLen: 16}, nil }
func zzT12NewCCM(b cipher.Block, tagsize, noncesize int) (ccm.CCM, error) {
	return &zzT12AEAD{tagLen: tagsize}, nil
}
func zzT12NewChaCha(key []byte) (cipher.AEAD, error) {
	if len(key) != 32 {
		return nil, errors.New("chacha20poly1305: bad key length")
	}
	return &zzT12AEAD{tagLen: 16}, nil
}

type zzT12CBC struct{}

func (c *zzT12CBC) BlockSize() int              { return 16 }
func (c *zzT12CBC) SetIV(iv []byte)             {}
func (c *zzT12CBC) CryptBlocks(dst, src []byte) { copy(dst, src) }

func zzT12NewCBCEncrypter(b cipher.Block, iv []byte) cipher.BlockMode { return &zzT12CBC{} }
func zzT12NewCBCDecrypter(b cipher.Block, iv []byte) cipher.BlockMode { return &zzT12CBC{} }

// ---------------------------------------------------------------------------------------------
// reference: RFC 5246 section 5 PRF; RFC 5705 section 4 exporter without context
// ---------------------------------------------------------------------------------------------

func zzT12Cat(parts ...[]byte) []byte {
	out := []byte{}
	for _, p := range parts {
		out = append(out, p...)
	}
	return out
}

func zzT12RefHMAC(name string, size int, secret, msg []byte) []byte {
	return zzsymUF("hmac_"+name, size, secret, msg)
}

func zzT12RefA(name string, size int, secret, seed []byte, i int) []byte {
	if i == 0 {
		return seed
	}
	return zzT12RefHMAC(name, size, secret, zzT12RefA(name, size, secret, seed, i-1))
}

func zzT12RefPRF(name string, size int, secret []byte, label []byte, seed []byte, n int) []byte {
	ls := zzT12Cat(label, seed)
	out := []byte{}
	for i := 1; len(out) < n; i++ {
		out = append(out, zzT12RefHMAC(name, size, secret, zzT12Cat(zzT12RefA(name, size, secret, ls, i), ls))...)
	}
	return out[:n]
}

// zzT12SuiteHash lists every DTLS 1.2 suite with its PRF hash (RFC 5246: SHA-256; RFC 5289 *_SHA384 suites: SHA-384).
func zzT12SuiteHash(i int) (CipherSuiteID, string, int) {
	switch i {
	case 0:
		return 0xc02b, "sha256", 32
	case 1:
		return 0xc02f, "sha256", 32
	case 2:
		return 0xc02c, "sha384", 48
	case 3:
		return 0xc030, "sha384", 48
	case 4:
		return 0x00a8, "sha256", 32
	case 5:
		return 0xc0ac, "sha256", 32
	case 6:
		return 0xc0ae, "sha256", 32
	case 7:
		return 0xc0a4, "sha256", 32
	case 8:
		return 0xc0a8, "sha256", 32
	case 9:
		return 0xc0a9, "sha256", 32
	case 10:
		return 0xcca9, "sha256", 32
	case 11:
		return 0xcca8, "sha256", 32
	case 12:
		return 0xccab, "sha256", 32
	case 13:
		return 0xc00a, "sha256", 32
	case 14:
		return 0xc014, "sha256", 32
	case 15:
		return 0x00ae, "sha256", 32
	}
	return 0xc037, "sha256", 32
}

const zzT12NSuites = 17

// zzT12ExportCase runs ExportKeyingMaterial on a DTLS 1.2 State built from the given choices and checks the
// result against RFC 5705 section 4 (see the entries below).
func zzT12ExportCase(suiteIdx int, labelLen int, length int, withContext bool) {
	id, hname, hsize := zzT12SuiteHash(suiteIdx)
	isClient := zzsymChoice("is_client", 2) == 1
	ms := zzsymBytes("master_secret", 48)
	var localWire, remoteWire [handshake.RandomLength]byte
	copy(localWire[:], zzsymBytes("local_random", 32))
	copy(remoteWire[:], zzsymBytes("remote_random", 32))

	s := &State{
		localEpoch:    zzsymU16("local_epoch"),
		masterSecret:  ms,
		isClient:      isClient,
		version:       protocol.Version1_2,
		CipherSuiteID: id,
	}
	s.localRandom.UnmarshalFixed(localWire)
	s.remoteRandom.UnmarshalFixed(remoteWire)

	label := zzsymString("label", labelLen)
	var context []byte
	if withContext {
		context = zzsymBytes("context", 1)
	}

	got, err := s.ExportKeyingMaterial(label, context, length)

	reserved := zzsymOr(zzsymOr(zzsymEqStr(label, "client finished"), zzsymEqStr(label, "server finished")),
		zzsymOr(zzsymEqStr(label, "master secret"), zzsymEqStr(label, "key expansion")))
	inHandshake := s.localEpoch == 0
	mustRefuse := zzsymOr(zzsymOr(inHandshake, len(context) != 0), reserved)

	if err != nil {
		zzsymAssert(mustRefuse, "exporter5705/refuses_only_when_unavailable")
		zzsymAssert(len(got) == 0, "exporter5705/no_output_on_refusal")
		if inHandshake {
			zzsymCover("refused_in_handshake")
		} else if len(context) != 0 {
			zzsymCover("refused_context")
		} else {
			zzsymCover("refused_reserved")
		}
		return
	}
	zzsymAssert(zzsymNot(inHandshake), "exporter5705/not_before_handshake_done")
	zzsymAssert(zzsymNot(reserved), "exporter5705/reserved_label_refused")
	zzsymAssert(len(context) == 0, "exporter5705/context_not_silently_dropped")

	clientRandom, serverRandom := remoteWire[:], localWire[:]
	if isClient {
		clientRandom, serverRandom = localWire[:], remoteWire[:]
	}
	want := zzT12RefPRF(hname, hsize, ms, []byte(label), zzT12Cat(clientRandom, serverRandom), length)
	zzsymAssert(len(got) == length, "exporter5705/length")
	zzsymAssert(zzsymEqBytes(got, want), "exporter5705/rfc5705_4")
	if isClient {
		zzsymCover("exported_client")
	} else {
		zzsymCover("exported_server")
	}
	if hname == "sha384" {
		zzsymCover("exported_sha384")
	}
}

// exporter5705 (formula): for a DTLS 1.2 State, ExportKeyingMaterial(label, nil, length) returns RFC 5705 section 4
// PRF(master_secret, label, client_random + server_random)[length] with the negotiated suite's PRF hash, where
// client_random/server_random are the 32 wire bytes of the hello randoms assigned by role (local = client iff
// isClient); it refuses exactly while the handshake is in progress (local epoch 0). Inputs: every one of the 17
// DTLS 1.2 suites, both roles, symbolic 48-byte master secret, symbolic 32-byte randoms, symbolic local epoch,
// symbolic label of length 0..NLABEL (shorter than any reserved label), output length from {60,0,32,1} (first NEXPLEN), no context.
//
//symgo:entry covers=exported_client,exported_server,exported_sha384,refused_in_handshake
func zzT12Exporter5705() {
	suite := zzsymChoice("suite", zzT12NSuites)
	labelLen := zzsymChoice("labellen", zzsymParam("NLABEL")+1)
	length := []int{60, 0, 32, 1}[zzsymChoice("length", zzsymParam("NEXPLEN"))]
	zzT12ExportCase(suite, labelLen, length, false)
}

// exporter5705 (refusals): same check as zzT12Exporter5705 for labels of the reserved labels' lengths (13 and
// 15 symbolic bytes, so "client finished", "server finished", "master secret", "key expansion" and every other
// label of those lengths are included) and with an absent or a one-byte context: the reserved labels and every
// non-empty context are refused with an error and no output; every other label still exports the RFC 5705
// value. One SHA-256 and one SHA-384 suite, both roles, output length 32.
//
//symgo:entry covers=exported_client,exported_server,refused_reserved,refused_context,refused_in_handshake
func zzT12ExporterRefusals() {
	suite := []int{0, 2}[zzsymChoice("suite", 2)]
	labelLen := []int{13, 15}[zzsymChoice("labellen", 2)]
	withContext := zzsymChoice("with_context", 2) == 1
	zzT12ExportCase(suite, labelLen, 32, withContext)
}
