package keyschedule

//symgo:pkg github.com/pion/dtls/v3/pkg/crypto/keyschedule
//symgo:param NCTX quick=2 thorough=4
//symgo:stub the hash function is an uninterpreted function H of the bytes written (fake hash.Hash, Size 32/BlockSize 64 or Size 48/BlockSize 128); HMAC and HKDF of the Go standard library run for real on top of it
//symgo:stub crypto/internal/fips140.RecordNonApproved (FIPS service indicator, goroutine-local runtime hook) replaced by a no-op
//symgo:replace crypto/internal/fips140.RecordNonApproved zzNop
//symgo:outside the hash compression function itself (SHA-256/SHA-384): equality is structural over an uninterpreted H

import "hash"

func zzNop() {}

// ---- fake hash: H(data) is an uninterpreted function of everything written ----

type zzHash struct {
	size, block int
	buf         []byte
}

func (h *zzHash) Write(p []byte) (int, error) { h.buf = append(h.buf, p...); return len(p), nil }
func (h *zzHash) Sum(b []byte) []byte         { return append(b, zzH(h.size, h.buf)...) }
func (h *zzHash) Reset()                      { h.buf = nil }
func (h *zzHash) Size() int                   { return h.size }
func (h *zzHash) BlockSize() int              { return h.block }

func zzH(size int, data []byte) []byte { return zzsymUF("H", size, data) }

func zzNewHash32() hash.Hash { return &zzHash{size: 32, block: 64} }
func zzNewHash48() hash.Hash { return &zzHash{size: 48, block: 128} }

// zzPickHash forks over the two hash geometries used by the DTLS 1.3 suites (SHA-256, SHA-384).
func zzPickHash() (func() hash.Hash, int, int) {
	if zzsymChoice("hash", 2) == 0 {
		return zzNewHash32, 32, 64
	}
	return zzNewHash48, 48, 128
}

// ---- reference written from the RFC text (RFC 2104, RFC 5869, RFC 8446 7.1, RFC 9147 5.9) ----

// RFC 2104: HMAC(K, text) = H(K XOR opad, H(K XOR ipad, text)); K zero-padded to B bytes, hashed first if longer.
func zzRefHMAC(size, block int, key, text []byte) []byte {
	if len(key) > block {
		key = zzH(size, key)
	}
	ipad := make([]byte, block)
	opad := make([]byte, block)
	for i := 0; i < block; i++ {
		var k byte
		if i < len(key) {
			k = key[i]
		}
		ipad[i] = k ^ 0x36
		opad[i] = k ^ 0x5c
	}
	inner := zzH(size, append(ipad, text...))
	return zzH(size, append(opad, inner...))
}

// RFC 5869 2.2: PRK = HMAC-Hash(salt, IKM); absent salt = HashLen zeros.
func zzRefExtract(size, block int, salt, ikm []byte) []byte {
	if salt == nil {
		salt = make([]byte, size)
	}
	return zzRefHMAC(size, block, salt, ikm)
}

// RFC 5869 2.3: T(0) = empty, T(i) = HMAC(PRK, T(i-1) | info | i), OKM = first L octets of T(1) | T(2) | ...
func zzRefExpand(size, block int, prk, info []byte, length int) []byte {
	var okm, t []byte
	for i := 1; len(okm) < length; i++ {
		in := append(append(append([]byte{}, t...), info...), byte(i))
		t = zzRefHMAC(size, block, prk, in)
		okm = append(okm, t...)
	}
	return okm[:length]
}

// RFC 8446 7.1 with the RFC 9147 5.9 prefix:
// HkdfLabel = uint16 length | uint8 len | "dtls13" + label | uint8 len | context.
func zzRefExpandLabel(size, block int, secret []byte, label string, context []byte, length int) []byte {
	full := "dtls13" + label
	info := []byte{byte(length >> 8), byte(length), byte(len(full))}
	info = append(info, full...)
	info = append(info, byte(len(context)))
	info = append(info, context...)
	return zzRefExpand(size, block, secret, info, length)
}

func zzLabel(i int) string {
	switch i {
	case 0:
		return "key"
	case 1:
		return "iv"
	case 2:
		return "sn"
	case 3:
		return "finished"
	case 4:
		return "derived"
	case 5:
		return "c hs traffic"
	case 6:
		return "traffic upd"
	}
	return "exp master"
}

// HkdfExpandLabel(hash, secret, label, context, L) equals RFC 5869 HKDF-Expand(secret, HkdfLabel, L) with
// HkdfLabel = uint16(L) | uint8(6+len(label)) | "dtls13" | label | uint8(len(context)) | context (RFC 8446
// section 7.1, RFC 9147 section 5.9), HKDF-Expand and HMAC written out from RFC 5869/RFC 2104 over an
// uninterpreted hash H. Inputs: every secret of HashLen bytes, eight of the labels used by the library (the other
// four are checked through their callers in tls13_secrets.go), every
// context of 0..NCTX bytes or exactly HashLen bytes, output lengths 12, 16, 32, HashLen and HashLen+5 (the
// last needs two HKDF blocks), both hash geometries (32/64 and 48/128).
//
//symgo:entry covers=one_block,two_blocks,ctx_empty,ctx_hash
func zzT13ExpandLabel() {
	newHash, size, block := zzPickHash()
	secret := zzsymBytes("secret", size)
	label := zzLabel(zzsymChoice("label", 8))
	nc := zzsymChoice("ctxlen", zzsymParam("NCTX")+2)
	var ctx []byte
	if nc == zzsymParam("NCTX")+1 {
		ctx = zzsymBytes("ctx", size)
		zzsymCover("ctx_hash")
	} else if nc > 0 {
		ctx = zzsymBytes("ctx", nc)
	} else {
		zzsymCover("ctx_empty")
	}
	length := []int{12, 16, 32, size, size + 5}[zzsymChoice("outlen", 5)]

	got, err := HkdfExpandLabel(newHash, secret, label, ctx, length)
	zzsymAssert(err == nil, "expand_label_ok")
	want := zzRefExpandLabel(size, block, secret, label, ctx, length)
	zzsymAssert(len(got) == length, "expand_label_len")
	zzsymAssert(zzsymEqBytes(got, want), "expand_label_matches_rfc")
	if length > size {
		zzsymCover("two_blocks")
	} else {
		zzsymCover("one_block")
	}
}

// HkdfExtract(hash, salt, ikm) equals RFC 5869 section 2.2 HKDF-Extract(salt, IKM) = HMAC-Hash(key = salt,
// message = IKM) - in particular salt and IKM are not swapped (Go's hkdf.Extract takes them in the other order) -
// and a nil salt stands for HashLen zero bytes. Inputs: every salt of 0 (nil), 5, HashLen or BlockLen+3 bytes
// (the last is hashed first per RFC 2104), every IKM of 1, HashLen or 64 bytes, both hash geometries.
//
//symgo:entry covers=nil_salt,short_salt,long_salt
func zzT13Extract() {
	newHash, size, block := zzPickHash()
	var salt []byte
	switch zzsymChoice("salt", 4) {
	case 0:
		zzsymCover("nil_salt")
	case 1:
		salt = zzsymBytes("salt", 5)
		zzsymCover("short_salt")
	case 2:
		salt = zzsymBytes("salt", size)
	case 3:
		salt = zzsymBytes("salt", block+3)
		zzsymCover("long_salt")
	}
	ikm := zzsymBytes("ikm", []int{1, size, 64}[zzsymChoice("ikmlen", 3)])
	got, err := HkdfExtract(newHash, salt, ikm)
	zzsymAssert(err == nil, "extract_ok")
	zzsymAssert(zzsymEqBytes(got, zzRefExtract(size, block, salt, ikm)), "extract_matches_rfc")
}

// DeriveSecret(hash, secret, label, transcript) equals RFC 8446 section 7.1 Derive-Secret(Secret, Label,
// Messages) = HKDF-Expand-Label(Secret, Label, Transcript-Hash(Messages), HashLen), where a nil transcript
// stands for the empty message string (Hash("")). Inputs: every secret of HashLen bytes, the eight labels,
// transcripts of 0..NCTX message bytes or nil, both hash geometries.
//
//symgo:entry covers=nil_transcript,with_messages
func zzT13DeriveSecret() {
	newHash, size, block := zzPickHash()
	secret := zzsymBytes("secret", size)
	label := zzLabel(zzsymChoice("label", 8))
	n := zzsymChoice("msgs", zzsymParam("NCTX")+2)
	var tr hash.Hash
	var msgs []byte
	if n == 0 {
		zzsymCover("nil_transcript")
	} else {
		msgs = zzsymBytes("msgs", n-1)
		tr = newHash()
		_, _ = tr.Write(msgs)
		zzsymCover("with_messages")
	}
	got, err := DeriveSecret(newHash, secret, label, tr)
	zzsymAssert(err == nil, "derive_secret_ok")
	want := zzRefExpandLabel(size, block, secret, label, zzH(size, msgs), size)
	zzsymAssert(zzsymEqBytes(got, want), "derive_secret_matches_rfc")
}

// HkdfExpandLabel refuses what RFC 8446 section 7.1 / RFC 5869 cannot encode: a context longer than 255
// bytes, an output longer than 255*HashLen, and a missing hash.
//
//symgo:entry covers=ctx_too_big,len_too_big,no_hash
func zzT13ExpandLabelRefuses() {
	newHash, size, _ := zzPickHash()
	secret := zzsymBytes("secret", size)
	switch zzsymChoice("case", 3) {
	case 0:
		_, err := HkdfExpandLabel(newHash, secret, "key", make([]byte, 256), 16)
		zzsymAssert(err != nil, "context_over_255_refused")
		zzsymCover("ctx_too_big")
	case 1:
		_, err := HkdfExpandLabel(newHash, secret, "key", nil, 255*size+1)
		zzsymAssert(err != nil, "length_over_255_hashlen_refused")
		zzsymCover("len_too_big")
	case 2:
		_, err := HkdfExpandLabel(nil, secret, "key", nil, 16)
		zzsymAssert(err != nil, "nil_hash_refused")
		zzsymCover("no_hash")
	}
}
