package ciphersuite

//symgo:pkg github.com/pion/dtls/v3/internal/ciphersuite
//symgo:param NPAY quick=3 thorough=8
//symgo:param NCID quick=2 thorough=4
//symgo:param NPAD quick=1 thorough=3
//symgo:stub AEAD (AES-GCM, ChaCha20-Poly1305) is an uninterpreted function AEAD(alg, key, nonce, aad, plaintext) of len(plaintext)+16 bytes; Open succeeds exactly on the output of that function for the peer's plaintext
//symgo:stub the AES block encryption is an uninterpreted function AES(key, block); the ChaCha20 block function is an uninterpreted function ChaCha20Block(key, counter bytes, nonce) of 64 bytes
//symgo:stub the hash function is an uninterpreted function H of the bytes written (crypto/sha256.New, crypto/sha512.New384 replaced); HMAC and HKDF of the Go standard library run for real on top of it
//symgo:stub crypto/internal/fips140.RecordNonApproved (FIPS service indicator, goroutine-local runtime hook) replaced by a no-op
//symgo:replace crypto/internal/fips140.RecordNonApproved zzNop
//symgo:replace crypto/sha256.New zzNewHash32
//symgo:replace crypto/sha512.New384 zzNewHash48
//symgo:replace crypto/aes.NewCipher zzAESNewCipher
//symgo:replace crypto/cipher.NewGCM zzNewGCM
//symgo:replace golang.org/x/crypto/chacha20poly1305.New zzNewChaChaPoly
//symgo:replace golang.org/x/crypto/chacha20.NewUnauthenticatedCipher zzNewChaCha
//symgo:replace (*golang.org/x/crypto/chacha20.Cipher).SetCounter zzChaSetCounter
//symgo:replace (*golang.org/x/crypto/chacha20.Cipher).XORKeyStream zzChaXORKeyStream
//symgo:outside the AEAD, AES and ChaCha20 primitives themselves; record padding policy (the library never pads on send; received padding is covered)

import (
	"crypto/cipher"
	"errors"
	"hash"

	"github.com/pion/dtls/v3/pkg/protocol"
	"github.com/pion/dtls/v3/pkg/protocol/recordlayer"
	"golang.org/x/crypto/chacha20"
)

func zzNop() {}

var zzErrFake = errors.New("zz: fake primitive refused")

// ---- fake hash ----

type zzHash struct {
	size, block int
	buf         []byte
}

func (h *zzHash) Write(p []byte) (int, error) { h.buf = append(h.buf, p...); return len(p), nil }
func (h *zzHash) Sum(b []byte) []byte         { return append(b, zzH(h.size, h.buf)...) }
func (h *zzHash) Reset()                      { h.buf = nil }
func (h *zzHash) Size() int                   { return h.size }
func (h *zzHash) BlockSize() int              { return h.block }

func zzH(size int, data []byte) []byte { return zzsymUF("H", size, data) }

func zzNewHash32() hash.Hash { return &zzHash{size: 32, block: 64} }
func zzNewHash48() hash.Hash { return &zzHash{size: 48, block: 128} }

// ---- fake AES block ----

type zzBlock struct{ key []byte }

func (b *zzBlock) BlockSize() int { return 16 }
func (b *zzBlock) Encrypt(dst, src []byte) {
	copy(dst[:16], zzAES(b.key, src[:16]))
}
func (b *zzBlock) Decrypt(dst, src []byte) {
	panic("zz: AES decrypt is never used by record protection")
}

func zzAES(key, block []byte) []byte { return zzsymUF("AES", 16, key, block) }

func zzAESNewCipher(key []byte) (cipher.Block, error) {
	switch len(key) {
	case 16, 24, 32:
		return &zzBlock{key: append([]byte{}, key...)}, nil
	}
	return nil, zzErrFake
}

// ---- fake AEAD ----

const (
	zzAlgAESGCM = 1
	zzAlgChaCha = 2
)

type zzAEAD struct {
	alg    byte
	key    []byte
	peerPT []byte // the plaintext the (modelled) peer sealed; Open succeeds only on AEAD(..., peerPT)
	opens  int
}

func zzSealUF(alg byte, key, nonce, aad, pt []byte) []byte {
	return zzsymUF("AEAD", len(pt)+16, []byte{alg}, key, nonce, aad, pt)
}

func (a *zzAEAD) NonceSize() int { return 12 }
func (a *zzAEAD) Overhead() int  { return 16 }
func (a *zzAEAD) Seal(dst, nonce, pt, aad []byte) []byte {
	return append(dst, zzSealUF(a.alg, a.key, nonce, aad, pt)...)
}
func (a *zzAEAD) Open(dst, nonce, ct, aad []byte) ([]byte, error) {
	a.opens++
	if a.peerPT != nil && len(ct) == len(a.peerPT)+16 && len(nonce) == 12 {
		if zzsymEqBytes(ct, zzSealUF(a.alg, a.key, nonce, aad, a.peerPT)) {
			return append(dst, a.peerPT...), nil
		}
	}
	return nil, zzErrFake
}

func zzNewGCM(b cipher.Block) (cipher.AEAD, error) {
	return &zzAEAD{alg: zzAlgAESGCM, key: b.(*zzBlock).key}, nil
}

func zzNewChaChaPoly(key []byte) (cipher.AEAD, error) {
	if len(key) != 32 {
		return nil, zzErrFake
	}
	return &zzAEAD{alg: zzAlgChaCha, key: append([]byte{}, key...)}, nil
}

// ---- fake ChaCha20 stream: state kept in harness globals (one cipher alive at a time) ----

var (
	zzChaKey, zzChaNonce []byte
	zzChaCounter         uint32
)

func zzChaBlock(key, counterBytes, nonce []byte) []byte {
	return zzsymUF("ChaCha20Block", 64, key, counterBytes, nonce)
}

func zzNewChaCha(key, nonce []byte) (*chacha20.Cipher, error) {
	if len(key) != 32 || len(nonce) != 12 {
		return nil, zzErrFake
	}
	zzChaKey = append([]byte{}, key...)
	zzChaNonce = append([]byte{}, nonce...)
	zzChaCounter = 0
	return &chacha20.Cipher{}, nil
}

func zzChaSetCounter(_ *chacha20.Cipher, c uint32) { zzChaCounter = c }

// RFC 8439 2.3/2.4: the 32-bit block counter is a little-endian word of the state; the key stream is the
// concatenation of the blocks for counter, counter+1, ...
func zzChaXORKeyStream(_ *chacha20.Cipher, dst, src []byte) {
	for off := 0; off < len(src); off += 64 {
		c := zzChaCounter
		ks := zzChaBlock(zzChaKey, []byte{byte(c), byte(c >> 8), byte(c >> 16), byte(c >> 24)}, zzChaNonce)
		for i := 0; i < 64 && off+i < len(src); i++ {
			dst[off+i] = src[off+i] ^ ks[i]
		}
		zzChaCounter++
	}
}

// ---- reference written from the RFC text ----

func zzRefHMAC(size, block int, key, text []byte) []byte {
	if len(key) > block {
		key = zzH(size, key)
	}
	ipad := make([]byte, block)
	opad := make([]byte, block)
	for i := 0; i < block; i++ {
		var k byte
		if i < len(key) {
			k = key[i]
		}
		ipad[i] = k ^ 0x36
		opad[i] = k ^ 0x5c
	}
	inner := zzH(size, append(ipad, text...))
	return zzH(size, append(opad, inner...))
}

func zzRefExpand(size, block int, prk, info []byte, length int) []byte {
	var okm, t []byte
	for i := 1; len(okm) < length; i++ {
		in := append(append(append([]byte{}, t...), info...), byte(i))
		t = zzRefHMAC(size, block, prk, in)
		okm = append(okm, t...)
	}
	return okm[:length]
}

func zzRefExpandLabel(size, block int, secret []byte, label string, context []byte, length int) []byte {
	full := "dtls13" + label
	info := []byte{byte(length >> 8), byte(length), byte(len(full))}
	info = append(info, full...)
	info = append(info, byte(len(context)))
	info = append(info, context...)
	return zzRefExpand(size, block, secret, info, length)
}

// RFC 8446 5.3 / RFC 9147 4: nonce = write_iv XOR (64-bit record sequence number, big-endian, left-padded
// with zeros to iv_length = 12). The epoch is not part of the DTLS 1.3 nonce.
func zzRefNonce(iv []byte, seq uint64) []byte {
	n := append([]byte{}, iv...)
	for i := 0; i < 8; i++ {
		n[4+i] ^= byte(seq >> (56 - 8*uint(i)))
	}
	return n
}

// RFC 9147 4 (Figure 3/4): first byte 0 0 1 C S L E E, then the CID, the 8- or 16-bit sequence number, the
// 16-bit length if L is set.
func zzRefUnifiedHeader(cid []byte, sBit, lBit bool, epochLow2 byte, seqWire uint16, length uint16) []byte {
	first := byte(0x20) | epochLow2&3
	if len(cid) > 0 {
		first |= 0x10
	}
	if sBit {
		first |= 0x08
	}
	if lBit {
		first |= 0x04
	}
	out := append([]byte{first}, cid...)
	if sBit {
		out = append(out, byte(seqWire>>8), byte(seqWire))
	} else {
		out = append(out, byte(seqWire))
	}
	if lBit {
		out = append(out, byte(length>>8), byte(length))
	}
	return out
}

// RFC 9147 4.2.3: Mask = AES-ECB(sn_key, Ciphertext[0..15]) resp. ChaCha20(sn_key, Ciphertext[0..3],
// Ciphertext[4..15]); the leading bytes of the mask are XORed onto the on-the-wire sequence number.
func zzRefMask(alg byte, snKey, ciphertext []byte) []byte {
	if alg == zzAlgAESGCM {
		return zzAES(snKey, ciphertext[0:16])
	}
	return zzChaBlock(snKey, ciphertext[0:4], ciphertext[4:16])
}

func zzProtection(alg byte) (*recordTrafficProtection13, *zzAEAD) {
	keyLen := 32
	if alg == zzAlgAESGCM && zzsymChoice("aes128", 2) == 1 {
		keyLen = 16
	}
	aead := &zzAEAD{alg: alg, key: zzsymBytes("key", keyLen)}
	r := &recordTrafficProtection13{
		aead:              aead,
		iv:                zzsymBytes("iv", 12),
		sequenceNumberKey: zzsymBytes("snkey", keyLen),
	}
	if alg == zzAlgAESGCM {
		r.sequenceNumberMaskFn = recordSequenceNumberMaskAES13
	} else {
		r.sequenceNumberMaskFn = recordSequenceNumberMaskChaCha20Poly1305TLS13
	}
	return r, aead
}

// Seal (sender side) produces exactly the RFC 9147 DTLSCiphertext: encrypted_record =
// AEAD(key, nonce = iv XOR 0^32|seq64, aad = unified header 001C1 1EE | CID | 16-bit sequence number in clear |
// 16-bit length of encrypted_record, plaintext = content | content type) and on the wire the same header with
// the two sequence bytes XORed with the first two bytes of Mask(sn_key, encrypted_record[0..15]) (AES-ECB for
// the GCM suites, ChaCha20 block with counter = bytes 0..3 little-endian and nonce = bytes 4..15 for
// ChaCha20-Poly1305), followed by encrypted_record. Inputs: every key/iv/sn_key (AES-128, AES-256, ChaCha),
// every 64-bit sequence number, epoch, content type, CID of 0..NCID bytes, payload of 0..NPAY bytes, and
// whatever S/L/length/sequence fields the caller left in the header.
//
//symgo:entry covers=aes,chacha,with_cid,no_cid
func zzT13RecordSeal() {
	alg := byte(zzAlgAESGCM + zzsymChoice("alg", 2))
	r, aead := zzProtection(alg)
	ncid := zzsymChoice("cidlen", zzsymParam("NCID")+1)
	var cid []byte
	if ncid > 0 {
		cid = zzsymBytes("cid", ncid)
		zzsymCover("with_cid")
	} else {
		zzsymCover("no_cid")
	}
	epoch := zzsymU8("epochlow")
	seq := zzsymU64("seq")
	ct := zzsymU8("ct")
	payload := zzsymBytes("pay", zzsymChoice("paylen", zzsymParam("NPAY")+1))
	hdr := recordlayer.UnifiedHeader{
		ConnectionID:   cid,
		EpochLow:       epoch,
		SequenceNumber: zzsymU16("hseq"),
		SeqBit:         zzsymBool("hs"),
		Length:         zzsymU16("hlen"),
		LengthBit:      zzsymBool("hl"),
	}
	rec, err := r.Seal(hdr, seq, protocol.ContentType(ct), payload)
	zzsymAssert(err == nil, "seal_ok")

	inner := append(append([]byte{}, payload...), ct)
	encLen := uint16(len(inner) + 16)
	aad := zzRefUnifiedHeader(cid, true, true, epoch, uint16(seq), encLen)
	enc := zzSealUF(alg, aead.key, zzRefNonce(r.iv, seq), aad, inner)
	zzsymAssert(zzsymEqBytes(rec.EncryptedRecord, enc), "encrypted_record_matches_rfc")

	mask := zzRefMask(alg, r.sequenceNumberKey, enc)
	wireSeq := uint16(seq) ^ (uint16(mask[0])<<8 | uint16(mask[1]))
	want := append(zzRefUnifiedHeader(cid, true, true, epoch, wireSeq, encLen), enc...)
	got, err := rec.Marshal()
	zzsymAssert(err == nil, "marshal_ok")
	zzsymAssert(zzsymEqBytes(got, want), "wire_record_matches_rfc")
	if alg == zzAlgAESGCM {
		zzsymCover("aes")
	} else {
		zzsymCover("chacha")
	}
}

// Open (receiver side) accepts every record a conforming RFC 9147 peer can send and returns its content and
// type: the peer picks any header form (8- or 16-bit sequence number, with or without length, CID of 0..NCID
// bytes), seals content | type | 0..NPAD zero bytes with nonce iv XOR seq and the clear header as additional
// data, and encrypts the sequence bytes with the mask; the record is parsed with CiphertextRecord13.Unmarshal
// and opened with the reconstructed sequence number. UnmaskSequenceNumber returns the clear low bits. A
// reconstructed sequence number whose low 8/16 bits differ from the header is rejected without consulting the
// AEAD. Inputs: every key/iv/sn_key, sequence number, epoch bits, non-zero content type, payload of 0..NPAY
// bytes.
//
//symgo:entry covers=opened_s8,opened_s16,opened_nolen,opened_padded,wrong_seq_rejected
func zzT13RecordOpen() {
	alg := byte(zzAlgAESGCM + zzsymChoice("alg", 2))
	r, aead := zzProtection(alg)
	ncid := zzsymChoice("cidlen", zzsymParam("NCID")+1)
	var cid []byte
	if ncid > 0 {
		cid = zzsymBytes("cid", ncid)
	}
	sBit := zzsymChoice("S", 2) == 1
	lBit := zzsymChoice("L", 2) == 1
	npad := zzsymChoice("pad", zzsymParam("NPAD")+1)
	epoch := zzsymU8("epochlow")
	seq := zzsymU64("seq")
	ct := zzsymU8("ct")
	zzsymAssume(ct != 0) // RFC 8446 5.4: the content type is the last non-zero byte of the inner plaintext
	payload := zzsymBytes("pay", zzsymChoice("paylen", zzsymParam("NPAY")+1))

	// the peer, written from the RFC
	inner := append(append([]byte{}, payload...), ct)
	inner = append(inner, make([]byte, npad)...)
	encLen := uint16(len(inner) + 16)
	seqWire := uint16(seq)
	if !sBit {
		seqWire &= 0xff
	}
	aad := zzRefUnifiedHeader(cid, sBit, lBit, epoch, seqWire, encLen)
	enc := zzSealUF(alg, aead.key, zzRefNonce(r.iv, seq), aad, inner)
	mask := zzRefMask(alg, r.sequenceNumberKey, enc)
	masked := seqWire ^ uint16(mask[0])
	if sBit {
		masked = seqWire ^ (uint16(mask[0])<<8 | uint16(mask[1]))
	}
	wire := append(zzRefUnifiedHeader(cid, sBit, lBit, epoch, masked, encLen), enc...)
	aead.peerPT = inner

	// the receiver
	var rec recordlayer.CiphertextRecord13
	rec.Header.ConnectionID = make([]byte, ncid)
	zzsymAssert(rec.Unmarshal(wire) == nil, "peer_record_parses")
	clear, err := r.UnmaskSequenceNumber(rec.Header, rec.EncryptedRecord)
	zzsymAssert(err == nil, "unmask_ok")
	zzsymAssert(clear.SequenceNumber == seqWire, "unmasked_sequence_bits")

	if zzsymChoice("wrongseq", 2) == 1 {
		other := zzsymU64("otherseq")
		if sBit {
			zzsymAssume(uint16(other) != uint16(seq))
		} else {
			zzsymAssume(uint8(other) != uint8(seq))
		}
		_, err := r.Open(rec.Header, other, rec.EncryptedRecord)
		zzsymAssert(err != nil, "mismatching_sequence_rejected")
		zzsymAssert(aead.opens == 0, "mismatching_sequence_not_decrypted")
		zzsymCover("wrong_seq_rejected")
		return
	}
	pt, err := r.Open(rec.Header, seq, rec.EncryptedRecord)
	zzsymAssert(err == nil, "peer_record_opens")
	zzsymAssert(zzsymEqBytes(pt.Content, payload), "opened_content")
	zzsymAssert(uint8(pt.RealType) == ct, "opened_type")
	zzsymAssert(pt.Zeros == uint(npad), "opened_padding")
	if sBit {
		zzsymCover("opened_s16")
	} else {
		zzsymCover("opened_s8")
	}
	if !lBit {
		zzsymCover("opened_nolen")
	}
	if npad > 0 {
		zzsymCover("opened_padded")
	}
}

// Sequence-number mask (RFC 9147 section 4.2.3): recordSequenceNumberMaskAES13 returns AES-ECB(sn_key, first
// 16 ciphertext bytes); recordSequenceNumberMaskChaCha20Poly1305TLS13 returns the ChaCha20 block for counter =
// ciphertext bytes 0..3 (little-endian word) and nonce = ciphertext bytes 4..15 (only the leading 2 bytes
// matter); a ciphertext shorter than 16 bytes is refused; applySequenceNumberMask13 XORs mask[0..1] onto a
// 16-bit and mask[0] onto an 8-bit sequence number (upper byte stays 0) and touches nothing else. Inputs: every
// sn_key (16/32 bytes AES, 32 bytes ChaCha), every ciphertext of 15, 16 or 21 bytes, every header.
//
//symgo:entry covers=aes_mask,chacha_mask,short_refused,s8,s16
func zzT13SeqnumMask() {
	alg := byte(zzAlgAESGCM + zzsymChoice("alg", 2))
	r, _ := zzProtection(alg)
	n := []int{15, 16, 21}[zzsymChoice("ctlen", 3)]
	enc := zzsymBytes("enc", n)
	mask, err := r.sequenceNumberMask(enc)
	if n < 16 {
		zzsymAssert(err != nil, "short_ciphertext_refused")
		hdr := recordlayer.UnifiedHeader{SeqBit: true, SequenceNumber: 7}
		zzsymAssert(r.maskSequenceNumber(&hdr, enc) != nil, "short_ciphertext_not_masked")
		zzsymCover("short_refused")
		return
	}
	zzsymAssert(err == nil, "mask_ok")
	want := zzRefMask(alg, r.sequenceNumberKey, enc)
	zzsymAssert(len(mask) >= 2, "mask_len")
	zzsymAssert(zzsymAnd(mask[0] == want[0], mask[1] == want[1]), "mask_leading_bytes_match_rfc")
	if alg == zzAlgAESGCM {
		zzsymAssert(zzsymEqBytes(mask, want), "aes_mask_is_ecb_of_sample")
		zzsymCover("aes_mask")
	} else {
		zzsymCover("chacha_mask")
	}

	cid := zzsymBytes("cid", 2)
	hdr := recordlayer.UnifiedHeader{
		ConnectionID:   cid,
		SequenceNumber: zzsymU16("seq"),
		SeqBit:         zzsymChoice("S", 2) == 1,
		Length:         zzsymU16("len"),
		LengthBit:      zzsymBool("L"),
		EpochLow:       zzsymU8("epoch"),
	}
	if !hdr.SeqBit {
		zzsymAssume(hdr.SequenceNumber <= 0xff)
	}
	pre := hdr
	zzsymAssert(r.maskSequenceNumber(&hdr, enc) == nil, "apply_ok")
	if pre.SeqBit {
		zzsymAssert(hdr.SequenceNumber == pre.SequenceNumber^(uint16(want[0])<<8|uint16(want[1])), "s16_masked_with_two_bytes")
		zzsymCover("s16")
	} else {
		zzsymAssert(hdr.SequenceNumber == pre.SequenceNumber^uint16(want[0]), "s8_masked_with_one_byte")
		zzsymCover("s8")
	}
	zzsymAssert(zzsymAnd(hdr.Length == pre.Length, zzsymAnd(hdr.EpochLow == pre.EpochLow, zzsymEqBytes(hdr.ConnectionID, cid))), "other_fields_untouched")
	zzsymAssert(zzsymAnd(hdr.SeqBit == pre.SeqBit, hdr.LengthBit == pre.LengthBit), "flag_bits_untouched")
}

// NewRecordProtection(traffic secret) of each DTLS 1.3 suite derives, per RFC 8446 section 7.3 / RFC 9147
// sections 4.2.3 and 5.9, key = HKDF-Expand-Label(Secret, "key", "", key_length), iv = HKDF-Expand-Label(Secret,
// "iv", "", 12) and sn_key = HKDF-Expand-Label(Secret, "sn", "", key_length) with the suite's parameters written
// from RFC 8446 appendix B.4: TLS_AES_128_GCM_SHA256 (0x1301: AES-GCM, 16-byte key, SHA-256),
// TLS_AES_256_GCM_SHA384 (0x1302: AES-GCM, 32-byte key, SHA-384), TLS_CHACHA20_POLY1305_SHA256 (0x1303:
// ChaCha20-Poly1305, 32-byte key, SHA-256); the AEAD is keyed with key, and the sequence-number mask is the AES
// resp. ChaCha20 one keyed with sn_key. Inputs: every traffic secret of HashLen bytes.
//
//symgo:entry covers=aes128,aes256,chacha
func zzT13TrafficKeys() {
	var suite CipherSuiteTLS13
	var id ID
	var alg byte
	var keyLen, size, block int
	switch zzsymChoice("suite", 3) {
	case 0:
		suite, id, alg, keyLen, size, block = NewTLSAes128GcmSha256(), 0x1301, zzAlgAESGCM, 16, 32, 64
		zzsymCover("aes128")
	case 1:
		suite, id, alg, keyLen, size, block = NewTLSAes256GcmSha384(), 0x1302, zzAlgAESGCM, 32, 48, 128
		zzsymCover("aes256")
	default:
		suite, id, alg, keyLen, size, block = NewTLSChacha20Poly1305Sha256(), 0x1303, zzAlgChaCha, 32, 32, 64
		zzsymCover("chacha")
	}
	zzsymAssert(suite.ID() == id, "suite_code_point")
	hf := suite.HashFunc()()
	zzsymAssert(hf.Size() == size && hf.BlockSize() == block, "suite_hash")

	secret := zzsymBytes("secret", size)
	rp, err := suite.NewRecordProtection(secret)
	zzsymAssert(err == nil, "new_record_protection_ok")
	r := rp.(*recordTrafficProtection13)
	aead := r.aead.(*zzAEAD)
	zzsymAssert(aead.alg == alg, "aead_algorithm")
	zzsymAssert(zzsymEqBytes(aead.key, zzRefExpandLabel(size, block, secret, "key", nil, keyLen)), "write_key_matches_rfc")
	zzsymAssert(zzsymEqBytes(r.iv, zzRefExpandLabel(size, block, secret, "iv", nil, 12)), "write_iv_matches_rfc")
	snKey := zzRefExpandLabel(size, block, secret, "sn", nil, keyLen)
	zzsymAssert(zzsymEqBytes(r.sequenceNumberKey, snKey), "sn_key_matches_rfc")
	enc := zzsymBytes("enc", 16)
	mask, err := r.sequenceNumberMask(enc)
	zzsymAssert(err == nil, "mask_ok")
	want := zzRefMask(alg, snKey, enc)
	zzsymAssert(zzsymAnd(mask[0] == want[0], mask[1] == want[1]), "mask_algorithm_and_key")
}
