package prf

// GENERATED from harness/C03/psk_premaster.go. C10: the premaster secret of the PSK suites is the RFC 4279 / RFC 5489
// structure for every key length the two-byte length fields can describe (on the tree before the repair the offsets
// were computed in uint16 and wrapped for keys of 65532..65535 bytes).

//symgo:pkg github.com/pion/dtls/v3/pkg/crypto/prf
//symgo:replace github.com/pion/dtls/v3/pkg/crypto/prf.PreMasterSecret zzPskECDH
//symgo:stub prf.PreMasterSecret (the ECDH step of the ECDHE_PSK premaster secret) returns 3 arbitrary bytes
//symgo:outside PSK lengths other than the ones listed; what the PRF does with the premaster secret (C10 tls12_prf.go)
//symgo:native no

import "github.com/pion/dtls/v3/pkg/crypto/elliptic"

func zzPskECDH(_, _ []byte, _ elliptic.Curve) ([]byte, error) { return zzsymBytes("ecdh", 3), nil }

// "Only a peer that knows the key completes a PSK handshake" starts here: the premaster secret of the PSK and
// ECDHE_PSK suites contains the WHOLE pre-shared key, for keys of 0, 1, 16, 255, 256, 65532, 65535, 65536 and 65537 bytes
// (the two-byte length fields of RFC 4279 cannot describe the last two sizes; whatever is written there, every key
// byte must still enter the secret - otherwise the master secret, the record keys and Finished stop depending on the
// key and anybody completes the handshake). First, last and two arbitrary positions of the key are arbitrary bytes;
// the secret ends with the key, and for sizes the length fields can describe it is exactly
// uint16(N) || N zero bytes (or the ECDH value) || uint16(N) || key.
//
//symgo:entry covers=psk_plain,psk_ecdhe,psk_beyond_length_field
func zzPskPremasterContainsWholeKey() {
	n := []int{0, 1, 16, 255, 256, 65532, 65535, 65536, 65537}[zzsymChoice("psk_len", 9)]
	psk := make([]byte, n)
	marks := []int{0, n - 1, n / 2, n / 3}
	if n > 0 {
		for _, m := range marks {
			psk[m] = zzsymU8("key_byte")
		}
	}
	var out []byte
	ecdhe := zzsymChoice("ecdhe_psk", 2) == 1
	other := n
	if ecdhe {
		var err error
		out, err = EcdhePSKPreMasterSecret(psk, []byte{1}, []byte{2}, elliptic.X25519)
		zzsymAssert(err == nil, "ecdhe_psk_premaster_ok")
		other = 3
		zzsymCover("psk_ecdhe")
	} else {
		out = PSKPreMasterSecret(psk)
		zzsymCover("psk_plain")
	}
	zzsymAssert(len(out) >= n, "premaster_holds_the_key")
	tail := out[len(out)-n:]
	if n > 0 {
		for _, m := range marks {
			zzsymAssert(tail[m] == psk[m], "premaster_ends_with_the_whole_key")
		}
	}
	if n <= 65535 {
		zzsymAssert(len(out) == 2+other+2+n, "premaster_rfc4279_length")
		zzsymAssert(int(out[2+other])<<8|int(out[2+other+1]) == n, "premaster_rfc4279_key_length_field")
		zzsymAssert(int(out[0])<<8|int(out[1]) == other, "premaster_rfc4279_other_secret_length_field")
		if !ecdhe && n > 0 {
			zzsymAssert(out[2] == 0 && out[2+n-1] == 0 && out[2+n/2] == 0, "premaster_rfc4279_zero_octets")
		}
	} else {
		zzsymCover("psk_beyond_length_field")
	}
}
