package prf

//symgo:pkg github.com/pion/dtls/v3/pkg/crypto/prf
//symgo:param NSEC quick=2 thorough=4
//symgo:param NSEED quick=2 thorough=5
//symgo:param NBODY quick=3 thorough=8
//symgo:replace crypto/hmac.New zzT12HmacNew
//symgo:stub crypto/hmac.New is replaced by an uninterpreted function hmac_<hash>(key, message) of the chosen output size; the hash passed as HashFunc is a harness fake whose Sum is the uninterpreted function hash_<hash>(message). Equality with the RFC formula is therefore structural (same primitive applied to the same byte strings in the same order) and holds for every interpretation of HMAC and the hash.
//symgo:outside the HMAC and hash primitives themselves (crypto/hmac, crypto/sha256, crypto/sha512): uninterpreted
//symgo:outside premaster-secret computation (ECDH, ML-KEM, PSK premaster layout): not part of this entry set

import "hash"

// ---------------------------------------------------------------------------------------------
// primitives as uninterpreted functions
// ---------------------------------------------------------------------------------------------

// zzT12Hash is a fake hash.Hash: Sum(b) = b || hash_<name>(everything written).
type zzT12Hash struct {
	name string
	size int
	buf  []byte
}

func (h *zzT12Hash) Write(p []byte) (int, error) {
	h.buf = append(h.buf, p...)
	return len(p), nil
}
func (h *zzT12Hash) Sum(b []byte) []byte {
	return append(b, zzsymUF("hash_"+h.name, h.size, h.buf)...)
}
func (h *zzT12Hash) Reset()         { h.buf = nil }
func (h *zzT12Hash) Size() int      { return h.size }
func (h *zzT12Hash) BlockSize() int { return 64 }

// zzT12Hmac is a fake HMAC: Sum(b) = b || hmac_<name>(key, everything written).
type zzT12Hmac struct {
	name string
	size int
	key  []byte
	buf  []byte
}

func (h *zzT12Hmac) Write(p []byte) (int, error) {
	h.buf = append(h.buf, p...)
	return len(p), nil
}
func (h *zzT12Hmac) Sum(b []byte) []byte {
	return append(b, zzsymUF("hmac_"+h.name, h.size, h.key, h.buf)...)
}
func (h *zzT12Hmac) Reset()         { h.buf = nil }
func (h *zzT12Hmac) Size() int      { return h.size }
func (h *zzT12Hmac) BlockSize() int { return 64 }

// zzT12HmacNew replaces crypto/hmac.New.
func zzT12HmacNew(h func() hash.Hash, key []byte) hash.Hash {
	inner := h().(*zzT12Hash)
	return &zzT12Hmac{name: inner.name, size: inner.size, key: append([]byte{}, key...)}
}

// zzT12HashFunc returns a HashFunc for a fake hash of the given name and output size.
func zzT12HashFunc(name string, size int) HashFunc {
	return func() hash.Hash { return &zzT12Hash{name: name, size: size} }
}

// zzT12PickHash chooses one of the hash shapes used by DTLS 1.2 suites (SHA-256: 32, SHA-384: 48) or, when
// tiny is allowed, a 4-byte toy hash that makes many P_hash iterations cheap.
func zzT12PickHash(tiny bool) (string, int) {
	n := 2
	if tiny {
		n = 3
	}
	switch zzsymChoice("hash", n) {
	case 0:
		return "sha256", 32
	case 1:
		return "sha384", 48
	}
	return "toy", 4
}

// ---------------------------------------------------------------------------------------------
// reference, written from RFC 5246 section 5
//
//   P_hash(secret, seed) = HMAC_hash(secret, A(1) + seed) + HMAC_hash(secret, A(2) + seed) + ...
//   A(0) = seed ; A(i) = HMAC_hash(secret, A(i-1))
//   PRF(secret, label, seed) = P_<hash>(secret, label + seed)
// ---------------------------------------------------------------------------------------------

func zzT12RefHMAC(name string, size int, secret, msg []byte) []byte {
	return zzsymUF("hmac_"+name, size, secret, msg)
}

func zzT12RefHash(name string, size int, msg []byte) []byte {
	return zzsymUF("hash_"+name, size, msg)
}

func zzT12Cat(parts ...[]byte) []byte {
	out := []byte{}
	for _, p := range parts {
		out = append(out, p...)
	}
	return out
}

func zzT12RefA(name string, size int, secret, seed []byte, i int) []byte {
	if i == 0 {
		return seed
	}
	return zzT12RefHMAC(name, size, secret, zzT12RefA(name, size, secret, seed, i-1))
}

func zzT12RefPHash(name string, size int, secret, seed []byte, n int) []byte {
	out := []byte{}
	for i := 1; len(out) < n; i++ {
		out = append(out, zzT12RefHMAC(name, size, secret, zzT12Cat(zzT12RefA(name, size, secret, seed, i), seed))...)
	}
	return out[:n]
}

func zzT12RefPRF(name string, size int, secret []byte, label string, seed []byte, n int) []byte {
	return zzT12RefPHash(name, size, secret, zzT12Cat([]byte(label), seed), n)
}

// ---------------------------------------------------------------------------------------------
// entries
// ---------------------------------------------------------------------------------------------

// phash: PHash(secret, seed, n, H) equals the first n bytes of RFC 5246 section 5 P_hash, i.e.
// HMAC(secret, A(1)+seed) + HMAC(secret, A(2)+seed) + ... with A(0)=seed, A(i)=HMAC(secret, A(i-1)),
// and returns no error. Inputs: every secret of 0..NSEC bytes and seed of 0..NSEED bytes (contents symbolic),
// hash output size 32 (SHA-256 shape), 48 (SHA-384 shape) or 4 (toy), requested length n in
// {0, 1, hs-1, hs, hs+1, 2hs, 2hs+1, 3hs} so that 0, 1, 2 and 3 chaining iterations with and without
// truncation of the last block are all exercised. HMAC is an uninterpreted function.
//
//symgo:entry covers=iter0,iter1,iter2,iter3,truncated,whole
func zzT12PHash() {
	name, hs := zzT12PickHash(true)
	secret := zzsymBytes("secret", zzsymChoice("secretlen", zzsymParam("NSEC")+1))
	seed := zzsymBytes("seed", zzsymChoice("seedlen", zzsymParam("NSEED")+1))
	lens := []int{0, 1, hs - 1, hs, hs + 1, 2 * hs, 2*hs + 1, 3 * hs}
	n := lens[zzsymChoice("n", len(lens))]

	got, err := PHash(secret, seed, n, zzT12HashFunc(name, hs))
	zzsymAssert(err == nil, "phash/no_error")
	zzsymAssert(len(got) == n, "phash/length")
	zzsymAssert(zzsymEqBytes(got, zzT12RefPHash(name, hs, secret, seed, n)), "phash/rfc5246_p_hash")

	switch (n + hs - 1) / hs {
	case 0:
		zzsymCover("iter0")
	case 1:
		zzsymCover("iter1")
	case 2:
		zzsymCover("iter2")
	case 3:
		zzsymCover("iter3")
	}
	if n%hs != 0 {
		zzsymCover("truncated")
	} else {
		zzsymCover("whole")
	}
}

// zzT12PMSLen lists premaster-secret lengths: empty, 1, X25519/P-256 (32), P-384 (48), hybrid (64), PSK layout (2+N+2+N).
func zzT12PMSLen() int {
	lens := []int{0, 1, 32, 48, 64, 12}
	return lens[zzsymChoice("pmslen", len(lens))]
}

// master: MasterSecret(pms, client_random, server_random, H) equals RFC 5246 section 8.1
// PRF(pre_master_secret, "master secret", ClientHello.random + ServerHello.random)[0..47].
// Inputs: premaster secret of 0, 1, 12, 32, 48 or 64 symbolic bytes, two 32-byte symbolic randoms,
// hash shape SHA-256 or SHA-384. HMAC uninterpreted.
//
//symgo:entry covers=master_sha256,master_sha384
func zzT12MasterSecret() {
	name, hs := zzT12PickHash(false)
	pms := zzsymBytes("pms", zzT12PMSLen())
	cr := zzsymBytes("client_random", 32)
	sr := zzsymBytes("server_random", 32)

	got, err := MasterSecret(pms, cr, sr, zzT12HashFunc(name, hs))
	zzsymAssert(err == nil, "master/no_error")
	zzsymAssert(len(got) == 48, "master/length_48")
	want := zzT12RefPRF(name, hs, pms, "master secret", zzT12Cat(cr, sr), 48)
	zzsymAssert(zzsymEqBytes(got, want), "master/rfc5246_8_1")
	if hs == 32 {
		zzsymCover("master_sha256")
	} else {
		zzsymCover("master_sha384")
	}
}

// ems: ExtendedMasterSecret(pms, session_hash, H) equals RFC 7627 section 4
// PRF(pre_master_secret, "extended master secret", session_hash)[0..47].
// Inputs: premaster secret of 0, 1, 12, 32, 48 or 64 symbolic bytes, session hash of hs symbolic bytes,
// hash shape SHA-256 or SHA-384. HMAC uninterpreted.
//
//symgo:entry covers=ems_sha256,ems_sha384
func zzT12ExtendedMasterSecret() {
	name, hs := zzT12PickHash(false)
	pms := zzsymBytes("pms", zzT12PMSLen())
	sessionHash := zzsymBytes("session_hash", hs)

	got, err := ExtendedMasterSecret(pms, sessionHash, zzT12HashFunc(name, hs))
	zzsymAssert(err == nil, "ems/no_error")
	zzsymAssert(len(got) == 48, "ems/length_48")
	want := zzT12RefPRF(name, hs, pms, "extended master secret", sessionHash, 48)
	zzsymAssert(zzsymEqBytes(got, want), "ems/rfc7627_4")
	if hs == 32 {
		zzsymCover("ems_sha256")
	} else {
		zzsymCover("ems_sha384")
	}
}

// keyblock_partition (generic part): GenerateEncryptionKeys(ms, client_random, server_random, m, k, i, H)
// computes RFC 5246 section 6.3 key_block = PRF(master_secret, "key expansion", server_random + client_random)
// of 2m+2k+2i bytes and partitions it in the order client_write_MAC_key[m], server_write_MAC_key[m],
// client_write_key[k], server_write_key[k], client_write_IV[i], server_write_IV[i]. Inputs: 48-byte symbolic
// master secret, 32-byte symbolic randoms, m in {0,20,32}, k in {16,32}, i in {4,12,16}, hash shape SHA-256
// or SHA-384 (all 36 combinations). The per-suite lengths are checked in tls12_suites.go.
//
//symgo:entry covers=kb_aead,kb_cbc
func zzT12KeyBlockPartition() {
	name, hs := zzT12PickHash(false)
	macLen := []int{0, 20, 32}[zzsymChoice("maclen", 3)]
	keyLen := []int{16, 32}[zzsymChoice("keylen", 2)]
	ivLen := []int{4, 12, 16}[zzsymChoice("ivlen", 3)]
	ms := zzsymBytes("master_secret", 48)
	cr := zzsymBytes("client_random", 32)
	sr := zzsymBytes("server_random", 32)

	keys, err := GenerateEncryptionKeys(ms, cr, sr, macLen, keyLen, ivLen, zzT12HashFunc(name, hs))
	zzsymAssert(err == nil, "keyblock/no_error")

	kb := zzT12RefPRF(name, hs, ms, "key expansion", zzT12Cat(sr, cr), 2*macLen+2*keyLen+2*ivLen)
	off := 0
	take := func(n int) []byte {
		p := kb[off : off+n]
		off += n
		return p
	}
	zzsymAssert(zzsymEqBytes(keys.ClientMACKey, take(macLen)), "keyblock/client_write_MAC_key")
	zzsymAssert(zzsymEqBytes(keys.ServerMACKey, take(macLen)), "keyblock/server_write_MAC_key")
	zzsymAssert(zzsymEqBytes(keys.ClientWriteKey, take(keyLen)), "keyblock/client_write_key")
	zzsymAssert(zzsymEqBytes(keys.ServerWriteKey, take(keyLen)), "keyblock/server_write_key")
	zzsymAssert(zzsymEqBytes(keys.ClientWriteIV, take(ivLen)), "keyblock/client_write_IV")
	zzsymAssert(zzsymEqBytes(keys.ServerWriteIV, take(ivLen)), "keyblock/server_write_IV")
	zzsymAssert(zzsymEqBytes(keys.MasterSecret, ms), "keyblock/master_secret_kept")
	if macLen == 0 {
		zzsymCover("kb_aead")
	} else {
		zzsymCover("kb_cbc")
	}
}

// verify_data: VerifyDataClient / VerifyDataServer(ms, handshake_messages, H) equal RFC 5246 section 7.4.9
// PRF(master_secret, finished_label, Hash(handshake_messages))[0..11] with finished_label "client finished"
// respectively "server finished", Hash being the PRF hash. Inputs: 48-byte symbolic master secret, transcript
// of 0..NBODY symbolic bytes, hash shape SHA-256 or SHA-384. HMAC and Hash uninterpreted.
//
//symgo:entry covers=vd_client,vd_server
func zzT12VerifyData() {
	name, hs := zzT12PickHash(false)
	ms := zzsymBytes("master_secret", 48)
	transcript := zzsymBytes("handshake_messages", zzsymChoice("bodylen", zzsymParam("NBODY")+1))
	hf := zzT12HashFunc(name, hs)
	digest := zzT12RefHash(name, hs, transcript)

	if zzsymChoice("side", 2) == 0 {
		got, err := VerifyDataClient(ms, transcript, hf)
		zzsymAssert(err == nil, "verify_data/no_error")
		zzsymAssert(len(got) == 12, "verify_data/length_12")
		zzsymAssert(zzsymEqBytes(got, zzT12RefPRF(name, hs, ms, "client finished", digest, 12)), "verify_data/client_rfc5246_7_4_9")
		zzsymCover("vd_client")
	} else {
		got, err := VerifyDataServer(ms, transcript, hf)
		zzsymAssert(err == nil, "verify_data/no_error")
		zzsymAssert(len(got) == 12, "verify_data/length_12")
		zzsymAssert(zzsymEqBytes(got, zzT12RefPRF(name, hs, ms, "server finished", digest, 12)), "verify_data/server_rfc5246_7_4_9")
		zzsymCover("vd_server")
	}
}
