package handshakecrypto

//symgo:pkg github.com/pion/dtls/v3/internal/handshakecrypto
//symgo:param NPK quick=3 thorough=8

import "github.com/pion/dtls/v3/pkg/crypto/elliptic"

// RFC 8422 section 5.4: the ServerKeyExchange signature covers ClientHello.random | ServerHello.random |
// ServerKeyExchange.params with params = ECParameters{curve_type = named_curve(3), NamedCurve(uint16)} |
// ECPoint{opaque point<1..2^8-1>}.
func zzRefSignedParams(cr, sr, pub []byte, curve uint16) []byte {
	out := append([]byte{}, cr...)
	out = append(out, sr...)
	out = append(out, 3, byte(curve>>8), byte(curve), byte(len(pub)))
	return append(out, pub...)
}

func zzPubLen(i int) int {
	n := zzsymParam("NPK")
	switch i - n {
	case 1:
		return 32 // X25519
	case 2:
		return 65 // uncompressed P-256
	case 3:
		return 97 // uncompressed P-384
	}
	return i
}

// ValueKeyMessage(clientRandom, serverRandom, publicKey, curve), the byte string covered by the
// ServerKeyExchange signature, equals client_random | server_random | 0x03 | curve (uint16, big-endian) |
// uint8 length | public key (RFC 8422 section 5.4) for every pair of 32-byte randoms, every 16-bit curve
// identifier and every public key of 0..NPK, 32, 65 or 97 bytes.
//
//symgo:entry covers=short_key,x25519,p256,p384
func zzT13ValueKeyMessage() {
	cr := zzsymBytes("cr", 32)
	sr := zzsymBytes("sr", 32)
	i := zzsymChoice("publen", zzsymParam("NPK")+4)
	pub := zzsymBytes("pub", zzPubLen(i))
	curve := zzsymU16("curve")
	got := ValueKeyMessage(cr, sr, pub, elliptic.Curve(curve))
	want := zzRefSignedParams(cr, sr, pub, curve)
	zzsymAssert(len(got) == 68+len(pub), "signed_params_len")
	zzsymAssert(zzsymEqBytes(got, want), "signed_params_match_rfc")
	zzsymObserveBytes("msg", got)
	switch len(pub) {
	case 32:
		zzsymCover("x25519")
	case 65:
		zzsymCover("p256")
	case 97:
		zzsymCover("p384")
	default:
		zzsymCover("short_key")
	}
}

// Same claim as zzT13ValueKeyMessage with 4-byte stand-ins for the randoms (the function does not look at their
// length) and a public key of 0..NPK bytes, small enough for the witness inputs to be re-run against the
// native build.
//
//symgo:entry covers=done
func zzT13ValueKeyMessageNative() {
	cr := zzsymBytes("cr", 4)
	sr := zzsymBytes("sr", 4)
	pub := zzsymBytes("pub", zzsymChoice("publen", zzsymParam("NPK")+1))
	curve := zzsymU16("curve")
	got := ValueKeyMessage(cr, sr, pub, elliptic.Curve(curve))
	zzsymAssert(zzsymEqBytes(got, zzRefSignedParams(cr, sr, pub, curve)), "signed_params_match_rfc")
	zzsymObserveBytes("msg", got)
	zzsymCover("done")
}
