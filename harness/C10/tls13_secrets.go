package dtlshandshake

//symgo:pkg github.com/pion/dtls/v3/internal/handshake
//symgo:param NTR quick=3 thorough=8
//symgo:stub the hash function is an uninterpreted function H of the bytes written (fake hash.Hash, Size 32/BlockSize 64 or Size 48/BlockSize 128); crypto/sha256.New and crypto/sha512.New384 are replaced by it, HMAC and HKDF of the Go standard library run for real on top of it
//symgo:stub crypto/internal/fips140.RecordNonApproved (FIPS service indicator, goroutine-local runtime hook) replaced by a no-op
//symgo:stub (hash.Algorithm).Digest is an uninterpreted function of the algorithm and the message; the crypto.Signer is a recorder returning a fixed signature
//symgo:replace crypto/internal/fips140.RecordNonApproved zzNop
//symgo:replace crypto/sha256.New zzNewHash32
//symgo:replace crypto/sha512.New384 zzNewHash48
//symgo:replace (github.com/pion/dtls/v3/pkg/crypto/hash.Algorithm).Digest zzDigest
//symgo:replace github.com/pion/dtls/v3/internal/handshakecrypto.VerifyCertificateVerify zzVerifyCV
//symgo:stub handshakecrypto.VerifyCertificateVerify (X.509 parsing and signature verification) is a recorder of the content it is asked to verify
//symgo:outside the hash compression function, the signature primitive and which handshake messages make up the transcript (the transcript hash is an input here)

import (
	"crypto"
	"crypto/ecdsa"
	"crypto/ed25519"
	"hash"
	"io"

	"github.com/pion/dtls/v3/internal/ciphersuite"
	dtlsconfig "github.com/pion/dtls/v3/internal/config"
	dtlsflight "github.com/pion/dtls/v3/internal/flight"
	dtlsstate "github.com/pion/dtls/v3/internal/state"
	dtlshash "github.com/pion/dtls/v3/pkg/crypto/hash"
	"github.com/pion/dtls/v3/pkg/crypto/signature"
	"github.com/pion/dtls/v3/pkg/crypto/signaturehash"
	"github.com/pion/dtls/v3/pkg/protocol/handshake"
	"github.com/pion/dtls/v3/pkg/protocol/recordlayer"
)

func zzNop() {}

func zzDigest(a dtlshash.Algorithm, b []byte) []byte {
	return zzsymUF("Digest", 32, []byte{byte(a >> 8), byte(a)}, b)
}

// ---- fake hash: H(data) is an uninterpreted function of everything written ----

type zzHash struct {
	size, block int
	buf         []byte
}

func (h *zzHash) Write(p []byte) (int, error) { h.buf = append(h.buf, p...); return len(p), nil }
func (h *zzHash) Sum(b []byte) []byte         { return append(b, zzH(h.size, h.buf)...) }
func (h *zzHash) Reset()                      { h.buf = nil }
func (h *zzHash) Size() int                   { return h.size }
func (h *zzHash) BlockSize() int              { return h.block }

func zzH(size int, data []byte) []byte { return zzsymUF("H", size, data) }

func zzNewHash32() hash.Hash { return &zzHash{size: 32, block: 64} }
func zzNewHash48() hash.Hash { return &zzHash{size: 48, block: 128} }

func zzPickHash() (func() hash.Hash, int, int) {
	if zzsymChoice("hash", 2) == 0 {
		return zzNewHash32, 32, 64
	}
	return zzNewHash48, 48, 128
}

// ---- reference written from the RFC text (RFC 2104, RFC 5869, RFC 8446 7.1, RFC 9147 5.9) ----

func zzRefHMAC(size, block int, key, text []byte) []byte {
	if len(key) > block {
		key = zzH(size, key)
	}
	ipad := make([]byte, block)
	opad := make([]byte, block)
	for i := 0; i < block; i++ {
		var k byte
		if i < len(key) {
			k = key[i]
		}
		ipad[i] = k ^ 0x36
		opad[i] = k ^ 0x5c
	}
	inner := zzH(size, append(ipad, text...))
	return zzH(size, append(opad, inner...))
}

func zzRefExtract(size, block int, salt, ikm []byte) []byte {
	return zzRefHMAC(size, block, salt, ikm)
}

func zzRefExpand(size, block int, prk, info []byte, length int) []byte {
	var okm, t []byte
	for i := 1; len(okm) < length; i++ {
		in := append(append(append([]byte{}, t...), info...), byte(i))
		t = zzRefHMAC(size, block, prk, in)
		okm = append(okm, t...)
	}
	return okm[:length]
}

func zzRefExpandLabel(size, block int, secret []byte, label string, context []byte, length int) []byte {
	full := "dtls13" + label
	info := []byte{byte(length >> 8), byte(length), byte(len(full))}
	info = append(info, full...)
	info = append(info, byte(len(context)))
	info = append(info, context...)
	return zzRefExpand(size, block, secret, info, length)
}

// RFC 8446 7.1 key schedule without PSK:
//
//	Early Secret     = HKDF-Extract(0, 0)
//	Handshake Secret = HKDF-Extract(Derive-Secret(Early Secret, "derived", ""), (EC)DHE)
//	Master Secret    = HKDF-Extract(Derive-Secret(Handshake Secret, "derived", ""), 0)
//
// where 0 is HashLen zero bytes and Derive-Secret(S, L, M) = HKDF-Expand-Label(S, L, Hash(M), HashLen).
func zzRefHandshakeSecret(size, block int, dhe []byte) []byte {
	zeros := make([]byte, size)
	early := zzRefExtract(size, block, zeros, zeros)
	emptyHash := zzH(size, nil)
	derived := zzRefExpandLabel(size, block, early, "derived", emptyHash, size)
	return zzRefExtract(size, block, derived, dhe)
}

func zzRefMasterSecret(size, block int, hs []byte) []byte {
	emptyHash := zzH(size, nil)
	derived := zzRefExpandLabel(size, block, hs, "derived", emptyHash, size)
	return zzRefExtract(size, block, derived, make([]byte, size))
}

func zzDHELen(i int) int { return []int{32, 48, 64, 1}[i] }

// deriveHandshakeKeySchedule(hash, (EC)DHE, TH) returns client/server_handshake_traffic_secret =
// HKDF-Expand-Label(Handshake Secret, "c hs traffic"/"s hs traffic", TH, HashLen) and the Master Secret of the
// RFC 8446 section 7.1 key schedule (no PSK: Early Secret = Extract(0,0)), with the RFC 9147 "dtls13" label
// prefix. Reference: HMAC/HKDF written from RFC 2104/5869 over an uninterpreted hash H. Inputs: every (EC)DHE
// secret of 1, 32, 48 or 64 bytes, every transcript hash of HashLen bytes, both hash geometries. An empty
// (EC)DHE secret or a transcript hash of the wrong length is refused.
//
//symgo:entry covers=derived,refused_empty_dhe,refused_bad_th
func zzT13HsSecrets() {
	newHash, size, block := zzPickHash()
	switch zzsymChoice("case", 3) {
	case 1:
		_, err := deriveHandshakeKeySchedule(newHash, nil, zzsymBytes("th", size))
		zzsymAssert(err != nil, "empty_dhe_refused")
		zzsymCover("refused_empty_dhe")
		return
	case 2:
		_, err := deriveHandshakeKeySchedule(newHash, zzsymBytes("dhe", 32), zzsymBytes("th", size-1))
		zzsymAssert(err != nil, "bad_transcript_hash_len_refused")
		zzsymCover("refused_bad_th")
		return
	}
	dhe := zzsymBytes("dhe", zzDHELen(zzsymChoice("dhelen", 4)))
	th := zzsymBytes("th", size)
	got, err := deriveHandshakeKeySchedule(newHash, dhe, th)
	zzsymAssert(err == nil, "hs_schedule_ok")
	hs := zzRefHandshakeSecret(size, block, dhe)
	zzsymAssert(zzsymEqBytes(got.HandshakeTrafficSecrets.Client, zzRefExpandLabel(size, block, hs, "c hs traffic", th, size)), "client_hs_traffic_matches_rfc")
	zzsymAssert(zzsymEqBytes(got.HandshakeTrafficSecrets.Server, zzRefExpandLabel(size, block, hs, "s hs traffic", th, size)), "server_hs_traffic_matches_rfc")
	zzsymAssert(zzsymEqBytes(got.MasterSecret, zzRefMasterSecret(size, block, hs)), "master_secret_matches_rfc")
	// the single-purpose wrappers agree
	ts, err := deriveHandshakeTrafficSecrets(newHash, dhe, th)
	zzsymAssert(err == nil, "hs_traffic_ok")
	zzsymAssert(zzsymAnd(zzsymEqBytes(ts.Client, got.HandshakeTrafficSecrets.Client), zzsymEqBytes(ts.Server, got.HandshakeTrafficSecrets.Server)), "hs_traffic_wrapper_agrees")
	ms, err := deriveMasterSecretFromKeyAgreementSecret(newHash, dhe)
	zzsymAssert(err == nil, "master_from_dhe_ok")
	zzsymAssert(zzsymEqBytes(ms, got.MasterSecret), "master_from_dhe_agrees")
	zzsymCover("derived")
}

// deriveApplicationTrafficSecrets(hash, Master Secret, TH) returns client/server_application_traffic_secret_0 =
// HKDF-Expand-Label(Master Secret, "c ap traffic"/"s ap traffic", TH, HashLen) (RFC 8446 section 7.1 with the
// RFC 9147 label prefix) for every master secret and transcript hash of HashLen bytes, both hash geometries;
// a master secret of another length is refused.
//
//symgo:entry covers=derived,refused
func zzT13AppSecrets() {
	newHash, size, block := zzPickHash()
	th := zzsymBytes("th", size)
	if zzsymChoice("bad", 2) == 1 {
		_, err := deriveApplicationTrafficSecrets(newHash, zzsymBytes("ms", size+1), th)
		zzsymAssert(err != nil, "bad_master_len_refused")
		zzsymCover("refused")
		return
	}
	ms := zzsymBytes("ms", size)
	got, err := deriveApplicationTrafficSecrets(newHash, ms, th)
	zzsymAssert(err == nil, "app_secrets_ok")
	zzsymAssert(zzsymEqBytes(got.Client, zzRefExpandLabel(size, block, ms, "c ap traffic", th, size)), "client_ap_traffic_matches_rfc")
	zzsymAssert(zzsymEqBytes(got.Server, zzRefExpandLabel(size, block, ms, "s ap traffic", th, size)), "server_ap_traffic_matches_rfc")
	zzsymCover("derived")
}

// deriveExporterMasterSecret / deriveResumptionMasterSecret equal HKDF-Expand-Label(Master Secret,
// "exp master" / "res master", TH, HashLen) (RFC 8446 section 7.1 with the RFC 9147 label prefix) for every
// master secret and transcript hash of HashLen bytes, both hash geometries.
//
//symgo:entry covers=derived
func zzT13ExporterSecret() {
	newHash, size, block := zzPickHash()
	ms := zzsymBytes("ms", size)
	th := zzsymBytes("th", size)
	exp, err := deriveExporterMasterSecret(newHash, ms, th)
	zzsymAssert(err == nil, "exporter_ok")
	zzsymAssert(zzsymEqBytes(exp, zzRefExpandLabel(size, block, ms, "exp master", th, size)), "exporter_master_matches_rfc")
	res, err := deriveResumptionMasterSecret(newHash, ms, th)
	zzsymAssert(err == nil, "resumption_ok")
	zzsymAssert(zzsymEqBytes(res, zzRefExpandLabel(size, block, ms, "res master", th, size)), "resumption_master_matches_rfc")
	zzsymCover("derived")
}

// deriveNextApplicationTrafficSecret(hash, secret_N) equals HKDF-Expand-Label(secret_N, "traffic upd", "",
// HashLen) (RFC 8446 section 7.2 with the RFC 9147 label prefix), also when applied twice (generation N+2),
// for every current secret of HashLen bytes and both hash geometries; a secret of another length is refused.
//
//symgo:entry covers=updated,refused
func zzT13TrafficUpdate() {
	newHash, size, block := zzPickHash()
	if zzsymChoice("bad", 2) == 1 {
		_, err := deriveNextApplicationTrafficSecret(newHash, zzsymBytes("cur", size-1))
		zzsymAssert(err != nil, "bad_secret_len_refused")
		zzsymCover("refused")
		return
	}
	cur := zzsymBytes("cur", size)
	next, err := deriveNextApplicationTrafficSecret(newHash, cur)
	zzsymAssert(err == nil, "update_ok")
	want1 := zzRefExpandLabel(size, block, cur, "traffic upd", nil, size)
	zzsymAssert(zzsymEqBytes(next, want1), "traffic_update_matches_rfc")
	next2, err := deriveNextApplicationTrafficSecret(newHash, next)
	zzsymAssert(err == nil, "update2_ok")
	zzsymAssert(zzsymEqBytes(next2, zzRefExpandLabel(size, block, want1, "traffic upd", nil, size)), "traffic_update_chain_matches_rfc")
	zzsymCover("updated")
}

// finishedVerifyData(hash, BaseKey, TH) equals HMAC(finished_key, TH) with finished_key =
// HKDF-Expand-Label(BaseKey, "finished", "", HashLen) (RFC 8446 section 4.4.4 with the RFC 9147 label prefix),
// and verifyFinishedData accepts a received verify_data exactly when it equals that value. Inputs: every base
// key and transcript hash of HashLen bytes, every candidate verify_data of HashLen bytes (and one of
// HashLen-1 bytes, always rejected), both hash geometries.
//
//symgo:entry covers=accepted,rejected,rejected_short
func zzT13Finished() {
	newHash, size, block := zzPickHash()
	base := zzsymBytes("base", size)
	th := zzsymBytes("th", size)
	got, err := finishedVerifyData(newHash, base, th)
	zzsymAssert(err == nil, "finished_ok")
	fk := zzRefExpandLabel(size, block, base, "finished", nil, size)
	want := zzRefHMAC(size, block, fk, th)
	zzsymAssert(zzsymEqBytes(got, want), "verify_data_matches_rfc")

	if zzsymChoice("short", 2) == 1 {
		zzsymAssert(verifyFinishedData(newHash, base, th, zzsymBytes("peer", size-1)) != nil, "short_verify_data_rejected")
		zzsymCover("rejected_short")
		return
	}
	peer := zzsymBytes("peer", size)
	verr := verifyFinishedData(newHash, base, th, peer)
	same := zzsymEqBytes(peer, want)
	if verr == nil {
		zzsymAssert(same, "accepts_only_rfc_verify_data")
		zzsymCover("accepted")
	} else {
		zzsymAssert(zzsymNot(same), "rejects_only_wrong_verify_data")
		zzsymCover("rejected")
	}
}

// ---- state level: the stored secrets are the RFC values of the stored inputs ----

func zzSuite(i int) (ciphersuite.CipherSuite, int, int) {
	switch i {
	case 0:
		return ciphersuite.NewTLSAes128GcmSha256(), 32, 64
	case 1:
		return ciphersuite.NewTLSAes256GcmSha384(), 48, 128
	}
	return ciphersuite.NewTLSChacha20Poly1305Sha256(), 32, 64
}

// DeriveAndStoreHandshakeTrafficSecrets, DeriveAndStoreApplicationTrafficSecrets and
// DeriveAndStoreResumptionMasterSecret, run in handshake order on a State13 for each of the three DTLS 1.3
// suites (TLS_AES_128_GCM_SHA256, TLS_AES_256_GCM_SHA384, TLS_CHACHA20_POLY1305_SHA256; their hash replaced by the
// uninterpreted H of the right output size), leave in state.KeySchedule exactly the RFC 8446 section 7.1 values
// computed from state.KeyAgreementSecret and the transcript hash at each point: handshake traffic secrets over
// H(T1), application traffic and exporter master secrets over H(T1|T2), resumption master secret over
// H(T1|T2|T3); the Finished base keys are the handshake traffic secrets and FinishedVerifyDataFromTranscript is
// HMAC(finished_key, H(transcript)). T1, T2, T3 are arbitrary byte strings of NTR bytes each; the (EC)DHE
// secret is any 32 bytes.
//
//symgo:entry covers=stored_sha256,stored_sha384
func zzT13StoreSecrets() {
	suite, size, block := zzSuite(zzsymChoice("suite", 3))
	n := zzsymParam("NTR")
	t1, t2, t3 := zzsymBytes("t1", n), zzsymBytes("t2", n), zzsymBytes("t3", n)
	dhe := zzsymBytes("dhe", 32)
	st := &dtlsstate.State13{Common: &dtlsstate.Common{}}
	st.CipherSuite = suite
	st.KeyAgreementSecret = dhe
	st.IsClient = zzsymChoice("client", 2) == 1
	tr := NewTranscript()
	tr.pending = [][]byte{t1} // messages committed before the suite (hash) was selected

	zzsymAssert(DeriveAndStoreHandshakeTrafficSecrets(st, tr) == nil, "store_hs_ok")
	th1 := zzH(size, t1)
	hs := zzRefHandshakeSecret(size, block, dhe)
	ms := zzRefMasterSecret(size, block, hs)
	chs := zzRefExpandLabel(size, block, hs, "c hs traffic", th1, size)
	shs := zzRefExpandLabel(size, block, hs, "s hs traffic", th1, size)
	zzsymAssert(zzsymEqBytes(st.KeySchedule.HandshakeTraffic.Client, chs), "stored_client_hs_traffic")
	zzsymAssert(zzsymEqBytes(st.KeySchedule.HandshakeTraffic.Server, shs), "stored_server_hs_traffic")
	zzsymAssert(zzsymEqBytes(st.KeySchedule.MasterSecret, ms), "stored_master_secret")

	cb, err := ClientHandshakeFinishedBaseKey(st)
	zzsymAssert(zzsymAnd(err == nil, zzsymEqBytes(cb, chs)), "client_finished_base_key")
	sb, err := ServerHandshakeFinishedBaseKey(st)
	zzsymAssert(zzsymAnd(err == nil, zzsymEqBytes(sb, shs)), "server_finished_base_key")

	_, _ = tr.h.Write(t2)
	th2 := zzH(size, append(append([]byte{}, t1...), t2...))
	vd, err := FinishedVerifyDataFromTranscript(suite.HashFunc(), cb, tr)
	zzsymAssert(err == nil, "finished_from_transcript_ok")
	zzsymAssert(zzsymEqBytes(vd, zzRefHMAC(size, block, zzRefExpandLabel(size, block, chs, "finished", nil, size), th2)), "finished_from_transcript_matches_rfc")

	zzsymAssert(DeriveAndStoreApplicationTrafficSecrets(st, tr) == nil, "store_app_ok")
	zzsymAssert(zzsymEqBytes(st.KeySchedule.ClientApplicationTrafficSecret0, zzRefExpandLabel(size, block, ms, "c ap traffic", th2, size)), "stored_client_ap_traffic")
	zzsymAssert(zzsymEqBytes(st.KeySchedule.ServerApplicationTrafficSecret0, zzRefExpandLabel(size, block, ms, "s ap traffic", th2, size)), "stored_server_ap_traffic")
	zzsymAssert(zzsymEqBytes(st.KeySchedule.ExporterMasterSecret, zzRefExpandLabel(size, block, ms, "exp master", th2, size)), "stored_exporter_master")

	_, _ = tr.h.Write(t3)
	th3 := zzH(size, append(append(append([]byte{}, t1...), t2...), t3...))
	zzsymAssert(DeriveAndStoreResumptionMasterSecret(st, tr) == nil, "store_res_ok")
	zzsymAssert(zzsymEqBytes(st.KeySchedule.ResumptionMasterSecret, zzRefExpandLabel(size, block, ms, "res master", th3, size)), "stored_resumption_master")
	if size == 32 {
		zzsymCover("stored_sha256")
	} else {
		zzsymCover("stored_sha384")
	}
}

// ---- CertificateVerify ----

type zzSigner struct {
	pub    crypto.PublicKey
	signed [][]byte
	opts   []crypto.SignerOpts
}

func (s *zzSigner) Public() crypto.PublicKey { return s.pub }
func (s *zzSigner) Sign(_ io.Reader, digest []byte, opts crypto.SignerOpts) ([]byte, error) {
	s.signed = append(s.signed, append([]byte{}, digest...))
	s.opts = append(s.opts, opts)
	return []byte{0x51, 0x67}, nil
}

// RFC 8446 section 4.4.3: the content covered by the CertificateVerify signature is 64 bytes 0x20, the context
// string, a single 0 byte, and the transcript hash.
func zzRefCertVerifyInput(isClient bool, th []byte) []byte {
	out := make([]byte, 0, 128)
	for i := 0; i < 64; i++ {
		out = append(out, 0x20)
	}
	if isClient {
		out = append(out, "TLS 1.3, client CertificateVerify"...)
	} else {
		out = append(out, "TLS 1.3, server CertificateVerify"...)
	}
	out = append(out, 0)
	return append(out, th...)
}

// populateOutboundCertificateVerify hands the signer exactly the RFC 8446 section 4.4.3 content
// (64 x 0x20 | "TLS 1.3, client/server CertificateVerify" | 0x00 | Hash(transcript so far)): as the message itself
// for an Ed25519 key, as Digest(content) with the message's hash algorithm for an ECDSA key; the signature
// returned by the signer becomes the message's signature. Inputs: both roles, both hash geometries, every
// transcript of NTR bytes, Ed25519 and ECDSA signers (recorders), every hash algorithm byte.
//
//symgo:entry covers=ed25519,ecdsa
func zzT13CertVerifySigned() {
	suite, size, _ := zzSuite(zzsymChoice("suite", 2))
	isClient := zzsymChoice("client", 2) == 1
	t1 := zzsymBytes("t1", zzsymParam("NTR"))
	st := &dtlsstate.State13{Common: &dtlsstate.Common{}}
	st.CipherSuite = suite
	st.IsClient = isClient
	tr := NewTranscript()
	zzsymAssert(tr.selectHash(suite.HashFunc()) == nil, "select_hash_ok")
	_, _ = tr.h.Write(t1)

	ed := zzsymChoice("ed25519", 2) == 1
	signer := &zzSigner{}
	if ed {
		signer.pub = ed25519.PublicKey(make([]byte, 32))
	} else {
		signer.pub = &ecdsa.PublicKey{}
	}
	cv := &handshake.MessageCertificateVerify{
		HashAlgorithm:      dtlshash.Algorithm(zzsymU8("hashalg")),
		SignatureAlgorithm: signature.ECDSA,
	}
	pkt := &dtlsflight.Packet{
		Record:                  &recordlayer.RecordLayer{Content: &handshake.Handshake{Message: cv}},
		CertificateVerifySigner: signer,
	}
	zzsymAssert(populateOutboundCertificateVerify(st, tr, pkt) == nil, "populate_ok")
	want := zzRefCertVerifyInput(isClient, zzH(size, t1))
	zzsymAssert(len(signer.signed) == 1, "signed_once")
	if ed {
		zzsymAssert(zzsymEqBytes(signer.signed[0], want), "ed25519_signs_rfc_content")
		zzsymCover("ed25519")
	} else {
		zzsymAssert(zzsymEqBytes(signer.signed[0], zzDigest(cv.HashAlgorithm, want)), "ecdsa_signs_digest_of_rfc_content")
		zzsymCover("ecdsa")
	}
	zzsymAssert(zzsymEqBytes(cv.Signature, []byte{0x51, 0x67}), "signature_stored")
}

// ---- receive direction: what a conforming peer sends is what this library checks ----

var zzVerifiedContent [][]byte

func zzVerifyCV(content []byte, _ dtlshash.Algorithm, _ signature.Algorithm, _ []byte, _ [][]byte) error {
	zzVerifiedContent = append(zzVerifiedContent, append([]byte{}, content...))
	return nil
}

// Both directions of DTLS 1.3 peer authentication use the RFC formulas with the SENDER's role: (a)
// populateOutboundFinished fills verify_data = HMAC(HKDF-Expand-Label(own handshake traffic secret, "finished",
// "", HashLen), Hash(transcript)); (b) verifyPeerFinished accepts the verify_data an RFC 8446 section 4.4.4 peer
// computes from ITS handshake traffic secret over the same transcript; (c) verifyPeerCertificateVerify checks
// the peer's signature over 64 x 0x20 | "TLS 1.3, <peer role> CertificateVerify" | 0x00 | Hash(transcript).
// Inputs: both local roles, suites TLS_AES_128_GCM_SHA256 / TLS_AES_256_GCM_SHA384 (hash = uninterpreted H),
// every pair of handshake traffic secrets, every transcript of NTR bytes.
//
//symgo:entry covers=as_client,as_server
func zzT13PeerAuth() {
	suite, size, block := zzSuite(zzsymChoice("suite", 2))
	isClient := zzsymChoice("client", 2) == 1
	t1 := zzsymBytes("t1", zzsymParam("NTR"))
	st := &dtlsstate.State13{Common: &dtlsstate.Common{}}
	st.CipherSuite = suite
	st.IsClient = isClient
	chs, shs := zzsymBytes("chs", size), zzsymBytes("shs", size)
	st.KeySchedule.HandshakeTraffic = dtlsstate.TrafficSecrets{Client: chs, Server: shs}
	tr := NewTranscript()
	zzsymAssert(tr.selectHash(suite.HashFunc()) == nil, "select_hash_ok")
	_, _ = tr.h.Write(t1)
	th := zzH(size, t1)
	own, peer := shs, chs
	if isClient {
		own, peer = chs, shs
	}

	// (a) own Finished
	fin := &handshake.MessageFinished{}
	pkt := &dtlsflight.Packet{Record: &recordlayer.RecordLayer{Content: &handshake.Handshake{Message: fin}}}
	zzsymAssert(populateOutboundFinished(st, tr, pkt) == nil, "populate_finished_ok")
	zzsymAssert(zzsymEqBytes(fin.VerifyData, zzRefHMAC(size, block, zzRefExpandLabel(size, block, own, "finished", nil, size), th)), "own_finished_matches_rfc")

	// (b) peer Finished, computed by the reference from the peer's secret
	peerVD := zzRefHMAC(size, block, zzRefExpandLabel(size, block, peer, "finished", nil, size), th)
	zzsymAssert(verifyPeerFinished(tr, st, suite, &handshake.MessageFinished{VerifyData: peerVD}, !isClient) == nil, "rfc_peer_finished_accepted")

	// (c) peer CertificateVerify content
	cfg := &dtlsconfig.HandshakeConfig{LocalSignatureSchemes: []signaturehash.Algorithm{{Hash: dtlshash.SHA256, Signature: signature.ECDSA}}}
	cv := &handshake.MessageCertificateVerify{HashAlgorithm: dtlshash.SHA256, SignatureAlgorithm: signature.ECDSA, Signature: []byte{1}}
	zzsymAssert(verifyPeerCertificateVerify(tr, cfg, cv, [][]byte{{0x30}}, !isClient) == nil, "peer_cv_checked")
	zzsymAssert(len(zzVerifiedContent) == 1, "peer_cv_verified_once")
	zzsymAssert(zzsymEqBytes(zzVerifiedContent[0], zzRefCertVerifyInput(!isClient, th)), "peer_cv_content_matches_rfc")
	if isClient {
		zzsymCover("as_client")
	} else {
		zzsymCover("as_server")
	}
}
