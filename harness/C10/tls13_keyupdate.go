package dtlshandshake

//symgo:pkg github.com/pion/dtls/v3/internal/handshake
//symgo:native no
//symgo:stub zzT13KeyUpdateGenerations: the record protection constructor of the suite is a recorder of the traffic secret it is keyed with (key/iv/sn derivation from a traffic secret is covered in tls13_record.go / tls13_conn.go)

import (
	"hash"

	"github.com/pion/dtls/v3/internal/ciphersuite"
	dtlsstate "github.com/pion/dtls/v3/internal/state"
)

type zzProtKU struct {
	ciphersuite.RecordProtection13
	secret []byte
}

type zzSuiteKU struct {
	ciphersuite.TLS13CipherSuite
	newHash func() hash.Hash
}

func (s *zzSuiteKU) String() string             { return "zzSuiteKU" }
func (s *zzSuiteKU) ID() ciphersuite.ID         { return ciphersuite.TLS_AES_128_GCM_SHA256 }
func (s *zzSuiteKU) HashFunc() func() hash.Hash { return s.newHash }
func (s *zzSuiteKU) NewRecordProtection(secret []byte) (ciphersuite.RecordProtection13, error) {
	return &zzProtKU{secret: append([]byte{}, secret...)}, nil
}

// KeyUpdate generations as the connection installs them (RFC 8446 section 7.2, RFC 9147 section 8):
// postHandshake.nextTrafficGeneration applied twice, starting from ANY generation (arbitrary current secret of
// Hash.length bytes, arbitrary epoch < 65534, arbitrary generation counter), yields
//
//	secret_N+1 = HKDF-Expand-Label(secret_N,   "traffic upd", "", Hash.length)
//	secret_N+2 = HKDF-Expand-Label(secret_N+1, "traffic upd", "", Hash.length)
//
// with the "dtls13" label prefix, computed here by the reference HMAC/HKDF written from RFC 2104/5869 over the
// uninterpreted hash H; each generation's record protection is keyed with that generation's own secret, the
// generation it hands on carries that secret (so that the chain continues from it), and epochs / generation
// counters advance by one. A conforming peer or a key-log decoder derives exactly these secrets.
//
//symgo:entry covers=two_generations
func zzT13KeyUpdateGenerations() {
	newHash, size, block := zzPickHash()
	st := dtlsstate.NewState13(zzsymChoice("client", 2) == 1)
	st.CipherSuite = &zzSuiteKU{newHash: newHash}
	p := &postHandshake{handshakeContext: handshakeContext{state: &st}}
	cur := &dtlsstate.TrafficGeneration{
		Epoch:      zzsymU16("epoch"),
		Generation: zzsymU64("generation"),
		Secret:     zzsymBytes("secret", size),
	}
	zzsymAssume(cur.Epoch < 0xfffe)
	g1, err := p.nextTrafficGeneration(cur)
	zzsymAssert(err == nil && g1 != nil, "keyupdate_generation1_derived")
	want1 := zzRefExpandLabel(size, block, cur.Secret, "traffic upd", nil, size)
	zzsymAssert(zzsymEqBytes(g1.Secret, want1), "keyupdate_generation1_secret_matches_rfc")
	p1, ok := g1.Protection.(*zzProtKU)
	zzsymAssert(ok && zzsymEqBytes(p1.secret, want1), "keyupdate_generation1_protection_keyed_with_rfc_secret")
	zzsymAssert(g1.Epoch == cur.Epoch+1 && g1.Generation == cur.Generation+1, "keyupdate_generation1_numbering")

	g2, err := p.nextTrafficGeneration(g1)
	zzsymAssert(err == nil && g2 != nil, "keyupdate_generation2_derived")
	want2 := zzRefExpandLabel(size, block, want1, "traffic upd", nil, size)
	zzsymAssert(zzsymEqBytes(g2.Secret, want2), "keyupdate_generation2_secret_matches_rfc")
	p2, ok := g2.Protection.(*zzProtKU)
	zzsymAssert(ok && zzsymEqBytes(p2.secret, want2), "keyupdate_generation2_protection_keyed_with_rfc_secret")
	zzsymAssert(g2.Epoch == cur.Epoch+2 && g2.Generation == cur.Generation+2, "keyupdate_generation2_numbering")
	zzsymCover("two_generations")
}
