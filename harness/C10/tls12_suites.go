package ciphersuite

//symgo:pkg github.com/pion/dtls/v3/internal/ciphersuite
//symgo:replace crypto/hmac.New zzT12HmacNew
//symgo:replace crypto/sha256.New zzT12NewSHA256
//symgo:replace crypto/sha512.New384 zzT12NewSHA384
//symgo:replace crypto/sha1.New zzT12NewSHA1
//symgo:replace crypto/aes.NewCipher zzT12AESNewCipher
//symgo:replace crypto/cipher.NewGCM zzT12NewGCM
//symgo:replace github.com/pion/dtls/v3/pkg/crypto/ccm.NewCCM zzT12NewCCM
//symgo:replace golang.org/x/crypto/chacha20poly1305.New zzT12NewChaCha
//symgo:replace crypto/cipher.NewCBCEncrypter zzT12NewCBCEncrypter
//symgo:replace crypto/cipher.NewCBCDecrypter zzT12NewCBCDecrypter
//symgo:replace crypto/rand.Read zzT12RandRead
//symgo:stub hash constructors return fakes whose Sum is an uninterpreted function named after the hash (sha1/sha256/sha384) so the choice of PRF hash and of MAC hash per suite is observable; hmac.New is the uninterpreted hmac_<hash>(key,msg)
//symgo:stub AES, GCM, CCM, ChaCha20-Poly1305 and CBC constructors return recorders that log algorithm, key, tag length and the nonce/IV of every Seal/Open/CryptBlocks call; ciphertext is the plaintext (identity) followed by a zero tag. The log is what the assertions inspect.
//symgo:outside the block cipher, AEAD and hash primitives themselves
//symgo:outside the fixed-IV portion of the key block for CBC suites: TLS 1.2 CBC records carry an explicit per-record IV (RFC 5246 6.2.3.2), client_write_IV/server_write_IV are the last key-block items and are never used on the wire, so their length does not affect conformance

import (
	"crypto/aes"
	"crypto/cipher"
	"errors"
	"hash"

	"github.com/pion/dtls/v3/pkg/crypto/ccm"
	"github.com/pion/dtls/v3/pkg/protocol"
	"github.com/pion/dtls/v3/pkg/protocol/recordlayer"
)

// ---------------------------------------------------------------------------------------------
// fakes
// ---------------------------------------------------------------------------------------------

type zzT12Hash struct {
	name string
	size int
	buf  []byte
}

func (h *zzT12Hash) Write(p []byte) (int, error) {
	h.buf = append(h.buf, p...)
	return len(p), nil
}
func (h *zzT12Hash) Sum(b []byte) []byte {
	return append(b, zzsymUF("hash_"+h.name, h.size, h.buf)...)
}
func (h *zzT12Hash) Reset()         { h.buf = nil }
func (h *zzT12Hash) Size() int      { return h.size }
func (h *zzT12Hash) BlockSize() int { return 64 }

func zzT12NewSHA256() hash.Hash { return &zzT12Hash{name: "sha256", size: 32} }
func zzT12NewSHA384() hash.Hash { return &zzT12Hash{name: "sha384", size: 48} }
func zzT12NewSHA1() hash.Hash   { return &zzT12Hash{name: "sha1", size: 20} }

// zzT12Op is one logged primitive invocation.
type zzT12Op struct {
	kind   string // "hmac", "seal", "open", "cbc_enc", "cbc_dec"
	alg    string // "sha1"/"sha256"/"sha384" for hmac; "aes-gcm"/"aes-ccm"/"chacha20-poly1305"/"aes-cbc"
	key    []byte
	nonce  []byte // AEAD nonce or CBC IV in force for the call
	tagLen int
}

var zzT12Log []zzT12Op

type zzT12Hmac struct {
	name string
	size int
	key  []byte
	buf  []byte
}

func (h *zzT12Hmac) Write(p []byte) (int, error) {
	h.buf = append(h.buf, p...)
	return len(p), nil
}
func (h *zzT12Hmac) Sum(b []byte) []byte {
	return append(b, zzsymUF("hmac_"+h.name, h.size, h.key, h.buf)...)
}
func (h *zzT12Hmac) Reset()         { h.buf = nil }
func (h *zzT12Hmac) Size() int      { return h.size }
func (h *zzT12Hmac) BlockSize() int { return 64 }

func zzT12HmacNew(h func() hash.Hash, key []byte) hash.Hash {
	inner := h().(*zzT12Hash)
	k := append([]byte{}, key...)
	zzT12Log = append(zzT12Log, zzT12Op{kind: "hmac", alg: inner.name, key: k, tagLen: inner.size})
	return &zzT12Hmac{name: inner.name, size: inner.size, key: k}
}

// zzT12Block is a fake AES block: it only carries the key.
type zzT12Block struct{ key []byte }

func (b *zzT12Block) BlockSize() int          { return 16 }
func (b *zzT12Block) Encrypt(dst, src []byte) { copy(dst, zzsymUF("aes_enc", 16, b.key, src[:16])) }
func (b *zzT12Block) Decrypt(dst, src []byte) { copy(dst, zzsymUF("aes_dec", 16, b.key, src[:16])) }

func zzT12AESNewCipher(key []byte) (cipher.Block, error) {
	switch len(key) {
	case 16, 24, 32:
		return &zzT12Block{key: append([]byte{}, key...)}, nil
	}
	return nil, aes.KeySizeError(len(key))
}

// zzT12AEAD is a recording AEAD: Seal = plaintext || zero tag, Open strips the tag.
type zzT12AEAD struct {
	alg     string
	key     []byte
	tagLen  int
	nonceSz int
}

func (a *zzT12AEAD) NonceSize() int { return a.nonceSz }
func (a *zzT12AEAD) Overhead() int  { return a.tagLen }
func (a *zzT12AEAD) MaxLength() int { return 1 << 16 }
func (a *zzT12AEAD) Seal(dst, nonce, plaintext, additionalData []byte) []byte {
	zzT12Log = append(zzT12Log, zzT12Op{kind: "seal", alg: a.alg, key: a.key, nonce: append([]byte{}, nonce...), tagLen: a.tagLen})
	out := append(dst, plaintext...)
	return append(out, make([]byte, a.tagLen)...)
}
func (a *zzT12AEAD) Open(dst, nonce, ciphertext, additionalData []byte) ([]byte, error) {
	zzT12Log = append(zzT12Log, zzT12Op{kind: "open", alg: a.alg, key: a.key, nonce: append([]byte{}, nonce...), tagLen: a.tagLen})
	if len(ciphertext) < a.tagLen {
		return nil, errors.New("zz: short ciphertext")
	}
	return append(dst, ciphertext[:len(ciphertext)-a.tagLen]...), nil
}

func zzT12NewGCM(b cipher.Block) (cipher.AEAD, error) {
	return &zzT12AEAD{alg: "aes-gcm", key: b.(*zzT12Block).key, tagLen: 16, nonceSz: 12}, nil
}

func zzT12NewCCM(b cipher.Block, tagsize, noncesize int) (ccm.CCM, error) {
	return &zzT12AEAD{alg: "aes-ccm", key: b.(*zzT12Block).key, tagLen: tagsize, nonceSz: noncesize}, nil
}

func zzT12NewChaCha(key []byte) (cipher.AEAD, error) {
	if len(key) != 32 {
		return nil, errors.New("chacha20poly1305: bad key length")
	}
	return &zzT12AEAD{alg: "chacha20-poly1305", key: append([]byte{}, key...), tagLen: 16, nonceSz: 12}, nil
}

// zzT12CBC is a recording CBC mode with identity transformation.
type zzT12CBC struct {
	kind string
	key  []byte
	iv   []byte
}

func (c *zzT12CBC) BlockSize() int { return 16 }
func (c *zzT12CBC) SetIV(iv []byte) { c.iv = append([]byte{}, iv...) }
func (c *zzT12CBC) CryptBlocks(dst, src []byte) {
	zzT12Log = append(zzT12Log, zzT12Op{kind: c.kind, alg: "aes-cbc", key: c.key, nonce: c.iv})
	copy(dst, src)
}

func zzT12NewCBCEncrypter(b cipher.Block, iv []byte) cipher.BlockMode {
	return &zzT12CBC{kind: "cbc_enc", key: b.(*zzT12Block).key, iv: append([]byte{}, iv...)}
}

func zzT12NewCBCDecrypter(b cipher.Block, iv []byte) cipher.BlockMode {
	return &zzT12CBC{kind: "cbc_dec", key: b.(*zzT12Block).key, iv: append([]byte{}, iv...)}
}

func zzT12RandRead(b []byte) (int, error) {
	copy(b, zzsymBytes("record_iv", len(b)))
	return len(b), nil
}

// ---------------------------------------------------------------------------------------------
// reference: RFC 5246 section 5 PRF and section 6.3 key block, and the per-suite parameter table
// ---------------------------------------------------------------------------------------------

func zzT12Cat(parts ...[]byte) []byte {
	out := []byte{}
	for _, p := range parts {
		out = append(out, p...)
	}
	return out
}

func zzT12RefHMAC(name string, size int, secret, msg []byte) []byte {
	return zzsymUF("hmac_"+name, size, secret, msg)
}

func zzT12RefA(name string, size int, secret, seed []byte, i int) []byte {
	if i == 0 {
		return seed
	}
	return zzT12RefHMAC(name, size, secret, zzT12RefA(name, size, secret, seed, i-1))
}

func zzT12RefPRF(name string, size int, secret []byte, label string, seed []byte, n int) []byte {
	ls := zzT12Cat([]byte(label), seed)
	out := []byte{}
	for i := 1; len(out) < n; i++ {
		out = append(out, zzT12RefHMAC(name, size, secret, zzT12Cat(zzT12RefA(name, size, secret, ls, i), ls))...)
	}
	return out[:n]
}

// zzT12Suite is one row of the table below.
type zzT12Suite struct {
	id      ID
	prf     string // PRF hash: RFC 5246 section 5 (SHA-256 unless the suite says otherwise), RFC 5289 (SHA-384 suites)
	prfSize int
	alg     string // record protection algorithm
	macAlg  string // HMAC hash of CBC suites ("" for AEAD)
	macLen  int    // mac_key_length
	keyLen  int    // enc_key_length
	ivLen   int    // fixed_iv_length (AEAD salt); not checked for CBC
	tagLen  int    // AEAD tag length on the wire
}

// zzT12Table is written from the RFCs, not from the code under test:
//   RFC 5288/5289/5487 AES_128_GCM_SHA256: key 16, salt 4, tag 16, PRF SHA-256; AES_256_GCM_SHA384: key 32, salt 4, PRF SHA-384
//   RFC 6655/7251 AES_128_CCM(_8), AES_256_CCM_8: key 16/32, salt 4, tag 16 (8 for _8), PRF SHA-256
//   RFC 7905 CHACHA20_POLY1305_SHA256: key 32, fixed IV 12, tag 16, PRF SHA-256
//   RFC 8422 ECDHE_{ECDSA,RSA}_WITH_AES_256_CBC_SHA: key 32, HMAC-SHA1 (mac key 20), TLS 1.2 PRF SHA-256
//   RFC 5487 PSK_WITH_AES_128_CBC_SHA256, RFC 5489 ECDHE_PSK_WITH_AES_128_CBC_SHA256: key 16, HMAC-SHA256 (mac key 32), PRF SHA-256
func zzT12Table() []zzT12Suite {
	return []zzT12Suite{
		{0xc02b, "sha256", 32, "aes-gcm", "", 0, 16, 4, 16},           // TLS_ECDHE_ECDSA_WITH_AES_128_GCM_SHA256
		{0xc02f, "sha256", 32, "aes-gcm", "", 0, 16, 4, 16},           // TLS_ECDHE_RSA_WITH_AES_128_GCM_SHA256
		{0xc02c, "sha384", 48, "aes-gcm", "", 0, 32, 4, 16},           // TLS_ECDHE_ECDSA_WITH_AES_256_GCM_SHA384
		{0xc030, "sha384", 48, "aes-gcm", "", 0, 32, 4, 16},           // TLS_ECDHE_RSA_WITH_AES_256_GCM_SHA384
		{0x00a8, "sha256", 32, "aes-gcm", "", 0, 16, 4, 16},           // TLS_PSK_WITH_AES_128_GCM_SHA256
		{0xc0ac, "sha256", 32, "aes-ccm", "", 0, 16, 4, 16},           // TLS_ECDHE_ECDSA_WITH_AES_128_CCM
		{0xc0ae, "sha256", 32, "aes-ccm", "", 0, 16, 4, 8},            // TLS_ECDHE_ECDSA_WITH_AES_128_CCM_8
		{0xc0a4, "sha256", 32, "aes-ccm", "", 0, 16, 4, 16},           // TLS_PSK_WITH_AES_128_CCM
		{0xc0a8, "sha256", 32, "aes-ccm", "", 0, 16, 4, 8},            // TLS_PSK_WITH_AES_128_CCM_8
		{0xc0a9, "sha256", 32, "aes-ccm", "", 0, 32, 4, 8},            // TLS_PSK_WITH_AES_256_CCM_8
		{0xcca9, "sha256", 32, "chacha20-poly1305", "", 0, 32, 12, 16}, // TLS_ECDHE_ECDSA_WITH_CHACHA20_POLY1305_SHA256
		{0xcca8, "sha256", 32, "chacha20-poly1305", "", 0, 32, 12, 16}, // TLS_ECDHE_RSA_WITH_CHACHA20_POLY1305_SHA256
		{0xccab, "sha256", 32, "chacha20-poly1305", "", 0, 32, 12, 16}, // TLS_PSK_WITH_CHACHA20_POLY1305_SHA256
		{0xc00a, "sha256", 32, "aes-cbc", "sha1", 20, 32, 0, 0},       // TLS_ECDHE_ECDSA_WITH_AES_256_CBC_SHA
		{0xc014, "sha256", 32, "aes-cbc", "sha1", 20, 32, 0, 0},       // TLS_ECDHE_RSA_WITH_AES_256_CBC_SHA
		{0x00ae, "sha256", 32, "aes-cbc", "sha256", 32, 16, 0, 0},     // TLS_PSK_WITH_AES_128_CBC_SHA256
		{0xc037, "sha256", 32, "aes-cbc", "sha256", 32, 16, 0, 0},     // TLS_ECDHE_PSK_WITH_AES_128_CBC_SHA256
	}
}

// zzT12Find returns the log entries of the given kind.
func zzT12Find(kind string) []zzT12Op {
	var out []zzT12Op
	for _, op := range zzT12Log {
		if op.kind == kind {
			out = append(out, op)
		}
	}
	return out
}

// keyblock_partition (per-suite part): for each of the 17 DTLS 1.2 cipher suites returned by ForID and for both
// roles, Init(master_secret, client_random, server_random, isClient) followed by one Encrypt and one Decrypt
// uses exactly the keys RFC 5246 section 6.3 prescribes: key_block = PRF_<suite hash>(master_secret,
// "key expansion", server_random + client_random) cut as client MAC, server MAC, client key, server key,
// client IV, server IV with the mac/key/fixed-IV lengths of the suite's RFC (table in this file); a client
// writes with the client_write_* items and reads with the server_write_* items and vice versa; the record
// protection algorithm, AEAD tag length, PRF hash and (CBC) HMAC hash are the suite's. Inputs: 48-byte symbolic
// master secret, 32-byte symbolic randoms, concrete one-byte record at epoch 0 / sequence 0 (so that the nonce
// equals the IV part under test). Primitives are recorders; the PRF's HMAC is uninterpreted.
//
//symgo:entry covers=gcm,ccm,ccm8,chacha,cbc_sha1,cbc_sha256,client,server,prf_sha384
func zzT12SuiteKeys() {
	table := zzT12Table()
	row := table[zzsymChoice("suite", len(table))]
	isClient := zzsymChoice("is_client", 2) == 1
	ms := zzsymBytes("master_secret", 48)
	cr := zzsymBytes("client_random", 32)
	sr := zzsymBytes("server_random", 32)

	suite := ForID(row.id, nil)
	zzsymAssert(suite != nil, "suite/known_id")
	zzsymAssert(suite.ID() == row.id, "suite/id")
	zzsymAssert(!suite.IsInitialized(), "suite/fresh_not_initialized")
	err := suite.Init(ms, cr, sr, isClient)
	zzsymAssert(err == nil, "suite/init_ok")
	zzsymAssert(suite.IsInitialized(), "suite/initialized")

	// the hash the handshake will use for PRF / Finished / exporter
	hf, ok := suite.HashFunc()().(*zzT12Hash)
	zzsymAssert(ok, "suite/hashfunc_is_stubbed_hash")
	zzsymAssert(hf.name == row.prf, "suite/prf_hash")

	// every HMAC evaluated during Init is the PRF keyed with the master secret under the suite's PRF hash
	for _, op := range zzT12Find("hmac") {
		zzsymAssert(op.alg == row.prf, "suite/init_prf_hash")
		zzsymAssert(zzsymEqBytes(op.key, ms), "suite/init_prf_secret_is_master_secret")
	}
	zzT12Log = nil

	// reference key block
	kb := zzT12RefPRF(row.prf, row.prfSize, ms, "key expansion", zzT12Cat(sr, cr), 2*row.macLen+2*row.keyLen+2*row.ivLen)
	off := 0
	take := func(n int) []byte {
		p := kb[off : off+n]
		off += n
		return p
	}
	clientMAC, serverMAC := take(row.macLen), take(row.macLen)
	clientKey, serverKey := take(row.keyLen), take(row.keyLen)
	clientIV, serverIV := take(row.ivLen), take(row.ivLen)
	writeMAC, writeKey, writeIV := serverMAC, serverKey, serverIV
	readMAC, readKey, readIV := clientMAC, clientKey, clientIV
	if isClient {
		writeMAC, writeKey, writeIV = clientMAC, clientKey, clientIV
		readMAC, readKey, readIV = serverMAC, serverKey, serverIV
		zzsymCover("client")
	} else {
		zzsymCover("server")
	}

	// ---- write direction ----
	hdr := recordlayer.Header{ContentType: protocol.ContentTypeApplicationData, Version: protocol.Version1_2, ContentLen: 1}
	rawHdr, herr := hdr.Marshal()
	zzsymAssert(herr == nil, "suite/header_marshal")
	raw := append(rawHdr, 0x42)
	out, err := suite.Encrypt(&recordlayer.RecordLayer{Header: hdr}, raw)
	zzsymAssert(err == nil, "suite/encrypt_ok")

	if row.alg == "aes-cbc" {
		macs, encs := zzT12Find("hmac"), zzT12Find("cbc_enc")
		zzsymAssert(len(macs) == 1 && len(encs) == 1, "suite/cbc_one_mac_one_encryption")
		zzsymAssert(macs[0].alg == row.macAlg, "suite/cbc_mac_hash")
		zzsymAssert(zzsymEqBytes(macs[0].key, writeMAC), "suite/cbc_write_mac_key")
		zzsymAssert(zzsymEqBytes(encs[0].key, writeKey), "suite/cbc_write_key")
		// header + explicit IV + (1 data + mac) padded to the block size
		padded := (1 + row.macLen + 16) / 16 * 16
		zzsymAssert(len(out) == 13+16+padded, "suite/cbc_record_length")
	} else {
		seals := zzT12Find("seal")
		zzsymAssert(len(seals) == 1, "suite/one_seal")
		zzsymAssert(seals[0].alg == row.alg, "suite/aead_algorithm")
		zzsymAssert(seals[0].tagLen == row.tagLen, "suite/aead_tag_length")
		zzsymAssert(zzsymEqBytes(seals[0].key, writeKey), "suite/aead_write_key")
		zzsymAssert(len(seals[0].nonce) == 12, "suite/aead_nonce_length")
		// epoch 0, sequence 0: GCM/CCM nonce = salt(4) || 0^8 ; ChaCha nonce = IV(12) xor 0
		zzsymAssert(zzsymEqBytes(seals[0].nonce[:row.ivLen], writeIV), "suite/aead_write_iv")
		explicit := 8
		if row.alg == "chacha20-poly1305" {
			explicit = 0
		}
		zzsymAssert(len(out) == 13+explicit+1+row.tagLen, "suite/aead_record_length")
	}
	zzT12Log = nil

	// ---- read direction ----
	if row.alg == "aes-cbc" {
		// IV block, then (0 data bytes + mac + padding) with a valid padding run; the MAC bytes are arbitrary,
		// the point is which keys the read side uses
		padLen := 16 - row.macLen%16
		body := make([]byte, 16+row.macLen+padLen)
		for i := 16 + row.macLen; i < len(body); i++ {
			body[i] = byte(padLen - 1)
		}
		in := append(append([]byte{}, rawHdr...), body...)
		in[11], in[12] = byte(len(body)>>8), byte(len(body))
		_, _ = suite.Decrypt(recordlayer.Header{}, in)
		macs, decs := zzT12Find("hmac"), zzT12Find("cbc_dec")
		zzsymAssert(len(macs) == 1 && len(decs) == 1, "suite/cbc_one_mac_one_decryption")
		zzsymAssert(macs[0].alg == row.macAlg, "suite/cbc_read_mac_hash")
		zzsymAssert(zzsymEqBytes(macs[0].key, readMAC), "suite/cbc_read_mac_key")
		zzsymAssert(zzsymEqBytes(decs[0].key, readKey), "suite/cbc_read_key")
		if row.macAlg == "sha1" {
			zzsymCover("cbc_sha1")
		} else {
			zzsymCover("cbc_sha256")
		}
	} else {
		explicit := 8
		if row.alg == "chacha20-poly1305" {
			explicit = 0
		}
		body := make([]byte, explicit+1+row.tagLen)
		in := append(append([]byte{}, rawHdr...), body...)
		in[11], in[12] = byte(len(body)>>8), byte(len(body))
		pt, derr := suite.Decrypt(recordlayer.Header{}, in)
		zzsymAssert(derr == nil, "suite/decrypt_ok")
		zzsymAssert(len(pt) == 13+1, "suite/decrypt_strips_nonce_and_tag")
		opens := zzT12Find("open")
		zzsymAssert(len(opens) == 1, "suite/one_open")
		zzsymAssert(opens[0].alg == row.alg, "suite/aead_read_algorithm")
		zzsymAssert(opens[0].tagLen == row.tagLen, "suite/aead_read_tag_length")
		zzsymAssert(zzsymEqBytes(opens[0].key, readKey), "suite/aead_read_key")
		zzsymAssert(zzsymEqBytes(opens[0].nonce[:row.ivLen], readIV), "suite/aead_read_iv")
		switch {
		case row.alg == "aes-gcm":
			zzsymCover("gcm")
		case row.alg == "aes-ccm" && row.tagLen == 16:
			zzsymCover("ccm")
		case row.alg == "aes-ccm":
			zzsymCover("ccm8")
		default:
			zzsymCover("chacha")
		}
	}
	if row.prf == "sha384" {
		zzsymCover("prf_sha384")
	}
}
