package dtlshandshake

// GENERATED copy of harness/C04/fin13.go. C10 reuses it for the transcript part of the DTLS 1.3 key schedule: the hash
// every traffic, finished and exporter secret is derived from is Transcript-Hash over the 4-byte-header messages with
// ClientHello1 replaced, after a HelloRetryRequest, by message_hash || 00 00 Hash.length || Hash(ClientHello1) computed
// with the SUITE's hash (Hash.length 32 and 48 are both driven) - RFC 8446 section 4.4.1.

//symgo:pkg github.com/pion/dtls/v3/internal/handshake
//symgo:param NBODY quick=1 thorough=2
//symgo:param NSEC quick=4 thorough=32
//symgo:replace crypto/sha256.Sum256 zzFin13Sum256
//symgo:replace crypto/hmac.New zzFin13HmacNew
//symgo:replace github.com/pion/dtls/v3/pkg/crypto/keyschedule.HkdfExpandLabel zzFin13ExpandLabel
//symgo:replace github.com/pion/dtls/v3/internal/handshakecrypto.VerifyCertificateVerify zzFin13VerifyCV
//symgo:stub the transcript hash (CipherSuite.HashFunc) is a harness fake whose Sum is the uninterpreted function H(bytes written); crypto/hmac.New is the uninterpreted function HMAC(key, message); keyschedule.HkdfExpandLabel is the uninterpreted function EL(secret, label, context) of the requested length (that the real ones are RFC 2104 / RFC 8446 7.1 is C10, tls13_keyschedule.go); crypto/sha256.Sum256 (only used as the transcript's duplicate-detection fingerprint) is an uninterpreted function
//symgo:stub handshakecrypto.VerifyCertificateVerify records the signed content and returns an arbitrary verdict; certificate chain validation is switched off (InsecureSkipVerify / ClientAuth below verify level); the cipher suite is a harness fake
//symgo:assume UF-collision-freedom (named assumption of C04): "verify_data equals HMAC(EL(secret, finished), H(T))" holds for every interpretation of H / HMAC / EL only if the code hashed exactly T and keyed the MAC from exactly that secret
//symgo:assume the messages of a protected flight reach VerifyAndAppendProtectedHandshakeCacheItems as complete, unfragmented cache items whose parsed header equals the raw 12-byte header (DecodedHandshakeCacheItem.Validate enforces it); the parsed message bodies are typed stand-ins, the raw bodies are arbitrary bytes
//symgo:outside live man-in-the-middle runs; PSK / 0-RTT handshakes (not implemented by the library); how the earlier messages got into the transcript (C12, C13) - here they are appended with the real appendParsedInboundHandshake

import (
	"hash"

	"github.com/pion/dtls/v3/internal/ciphersuite"
	dtlsconfig "github.com/pion/dtls/v3/internal/config"
	dtlserrors "github.com/pion/dtls/v3/internal/errors"
	dtlsflight "github.com/pion/dtls/v3/internal/flight"
	dtlsstate "github.com/pion/dtls/v3/internal/state"
	"github.com/pion/dtls/v3/pkg/crypto/clientcertificate"
	dtlshash "github.com/pion/dtls/v3/pkg/crypto/hash"
	"github.com/pion/dtls/v3/pkg/crypto/signature"
	"github.com/pion/dtls/v3/pkg/crypto/signaturehash"
	"github.com/pion/dtls/v3/pkg/protocol/handshake"
	"github.com/pion/dtls/v3/pkg/protocol/recordlayer"
)

// ---------------------------------------------------------------------------------------------
// crypto as uninterpreted functions

type zzFin13Hash struct{ buf []byte }

func (h *zzFin13Hash) Write(p []byte) (int, error) { h.buf = append(h.buf, p...); return len(p), nil }
func (h *zzFin13Hash) Sum(b []byte) []byte         { return append(b, zzFin13H(h.buf)...) }
func (h *zzFin13Hash) Reset()                      { h.buf = nil }
func (h *zzFin13Hash) Size() int                   { return zzFin13Len }
func (h *zzFin13Hash) BlockSize() int              { return 2 * zzFin13Len }

func zzFin13NewHash() hash.Hash { return &zzFin13Hash{} }

// zzFin13Len is Hash.length of the suite under test: 32 (SHA-256 suites) or 48 (TLS_AES_256_GCM_SHA384).
var zzFin13Len = 32

func zzFin13H(data []byte) []byte { return zzsymUF("H", zzFin13Len, data) }

func zzFin13Sum256(b []byte) [32]byte {
	var out [32]byte
	copy(out[:], zzsymUF("fingerprint", 32, b))
	return out
}

// zzFin13Hmac: Sum(b) = b || HMAC(key, everything written).
type zzFin13Hmac struct{ key, buf []byte }

func (h *zzFin13Hmac) Write(p []byte) (int, error) { h.buf = append(h.buf, p...); return len(p), nil }
func (h *zzFin13Hmac) Sum(b []byte) []byte         { return append(b, zzFin13HMAC(h.key, h.buf)...) }
func (h *zzFin13Hmac) Reset()                      { h.buf = nil }
func (h *zzFin13Hmac) Size() int                   { return zzFin13Len }
func (h *zzFin13Hmac) BlockSize() int              { return 2 * zzFin13Len }

func zzFin13HmacNew(_ func() hash.Hash, key []byte) hash.Hash {
	return &zzFin13Hmac{key: append([]byte{}, key...)}
}

func zzFin13HMAC(key, msg []byte) []byte { return zzsymUF("HMAC", zzFin13Len, key, msg) }

func zzFin13ExpandLabel(h func() hash.Hash, secret []byte, label string, context []byte, length int) ([]byte, error) {
	if h == nil {
		return nil, dtlserrors.ErrKeyScheduleMissingHashFunction
	}
	return zzFin13EL(secret, label, context, length), nil
}

func zzFin13EL(secret []byte, label string, context []byte, length int) []byte {
	return zzsymUF("EL", length, secret, []byte(label), context)
}

type zzFin13Err struct{}

func (zzFin13Err) Error() string { return "zzfin13" }

var zzFin13CVLog [][]byte

func zzFin13VerifyCV(content []byte, _ dtlshash.Algorithm, _ signature.Algorithm, _ []byte, _ [][]byte) error {
	zzFin13CVLog = append(zzFin13CVLog, append([]byte{}, content...))
	if zzsymBool("certificate_verify_valid") {
		return nil
	}
	return zzFin13Err{}
}

// ---------------------------------------------------------------------------------------------
// fake suite

type zzFin13Suite struct{}

func (zzFin13Suite) String() string                          { return "zzFin13Suite" }
func (zzFin13Suite) ID() ciphersuite.ID                      { return ciphersuite.TLS_AES_128_GCM_SHA256 }
func (zzFin13Suite) CertificateType() clientcertificate.Type { return clientcertificate.ECDSASign }
func (zzFin13Suite) HashFunc() func() hash.Hash              { return zzFin13NewHash }
func (zzFin13Suite) AuthenticationType() ciphersuite.AuthenticationType {
	return ciphersuite.AuthenticationTypeCertificate
}
func (zzFin13Suite) KeyExchangeAlgorithm() ciphersuite.KeyExchangeAlgorithm {
	return ciphersuite.KeyExchangeAlgorithmEcdhe
}
func (zzFin13Suite) ECC() bool                                               { return true }
func (zzFin13Suite) Init(_, _, _ []byte, _ bool) error                       { return nil }
func (zzFin13Suite) IsInitialized() bool                                     { return true }
func (zzFin13Suite) Decrypt(_ recordlayer.Header, in []byte) ([]byte, error) { return in, nil }
func (zzFin13Suite) Encrypt(_ *recordlayer.RecordLayer, raw []byte) ([]byte, error) {
	return raw, nil
}

// ---------------------------------------------------------------------------------------------
// messages

// zzFin13Msg is one handshake message in both encodings written out by hand:
// DTLS (RFC 9147 5.2): msg_type(1) length(3) message_seq(2) fragment_offset(3)=0 fragment_length(3)=length body
// transcript form (RFC 9147 5.2 / RFC 8446 4): msg_type(1) length(3) body - message_seq and the fragment fields are not hashed.
type zzFin13Msg struct {
	typ      handshake.Type
	isClient bool
	seq      uint16
	dtls     []byte
	tls      []byte
	parsed   handshake.Message
}

func zzFin13Mk(typ handshake.Type, isClient bool, seq uint16, body []byte, parsed handshake.Message) *zzFin13Msg {
	n := len(body)
	l3 := []byte{byte(n >> 16), byte(n >> 8), byte(n)}
	dtls := append([]byte{byte(typ)}, l3...)
	dtls = append(dtls, byte(seq>>8), byte(seq), 0, 0, 0)
	dtls = append(dtls, l3...)
	dtls = append(dtls, body...)
	tls := append(append([]byte{byte(typ)}, l3...), body...)
	return &zzFin13Msg{typ: typ, isClient: isClient, seq: seq, dtls: dtls, tls: tls, parsed: parsed}
}

func (m *zzFin13Msg) handshake() *handshake.Handshake {
	n := uint32(len(m.dtls) - handshake.HeaderLength)
	return &handshake.Handshake{
		Header:  handshake.Header{Type: m.typ, Length: n, MessageSequence: m.seq, FragmentLength: n},
		Message: m.parsed,
	}
}

func (m *zzFin13Msg) item() dtlsflight.DecodedHandshakeCacheItem {
	return dtlsflight.DecodedHandshakeCacheItem{
		Raw:    &dtlsflight.HandshakeCacheItem{Typ: m.typ, IsClient: m.isClient, Epoch: 2, MessageSequence: m.seq, Data: m.dtls},
		Parsed: m.handshake(),
	}
}

type zzFin13Flow struct {
	nbody                  int
	nextClient, nextServer uint16
}

func (f *zzFin13Flow) mk(name string, typ handshake.Type, isClient bool, parsed handshake.Message) *zzFin13Msg {
	return f.mkBody(typ, isClient, zzsymBytes(name, f.nbody), parsed)
}

func (f *zzFin13Flow) mkBody(typ handshake.Type, isClient bool, body []byte, parsed handshake.Message) *zzFin13Msg {
	seq := f.nextServer
	if isClient {
		seq = f.nextClient
		f.nextClient++
	} else {
		f.nextServer++
	}
	return zzFin13Mk(typ, isClient, seq, body, parsed)
}

func zzFin13Cat(parts ...[]byte) []byte {
	out := []byte{}
	for _, p := range parts {
		out = append(out, p...)
	}
	return out
}

// DTLS 1.3: the check of the peer's Finished as the library performs it for a whole protected flight
// (VerifyAndAppendProtectedHandshakeCacheItems -> processFinished -> verifyPeerFinished), for both roles. The
// transcript is first filled, through the real appendParsedInboundHandshake, with the earlier messages:
// ClientHello, ServerHello - or, after a HelloRetryRequest, ClientHello1, HelloRetryRequest, ClientHello2,
// ServerHello - and, when the server checks the client's flight, the server's EncryptedExtensions,
// [CertificateRequest], Certificate, CertificateVerify, Finished. The flight under test is EncryptedExtensions,
// [CertificateRequest], [Certificate, CertificateVerify], Finished from the server, or [Certificate,
// CertificateVerify], Finished from the client. Bodies NBODY arbitrary bytes, verify_data Hash.length (or one less) arbitrary
// bytes, both handshake traffic secrets NSEC arbitrary bytes, Hash.length 32 (SHA-256 suites) and 48 (the SHA-384 suite). Proved: the flight is accepted only if
// verify_data = HMAC(HKDF-Expand-Label(peer's handshake traffic secret, "finished", "", Hash.length),
// Transcript-Hash(all messages before this Finished)) (RFC 8446 section 4.4.4) with the transcript made of the
// 4-byte-header form of every message in order (RFC 9147 section 5.2), the first ClientHello replaced by
// message_hash(254) | 00 00 Hash.length | Hash(ClientHello1) after a HelloRetryRequest (RFC 8446 section 4.4.1);
// a CertificateVerify in the flight is checked over 64 x 0x20 | context string | 0 | Transcript-Hash(messages
// before it); on success the transcript holds everything including the Finished, on failure it is unchanged
// (nothing is committed before Finished verifies).
//
//symgo:entry covers=sha384_after_hrr,accepted_server_flight,accepted_client_flight,rejected_verify_data,rejected_short,after_hrr,with_cert,without_cert,with_certreq
func zzFin13() {
	zzFin13CVLog = nil
	zzFin13Len = 32
	if zzsymChoice("sha384", 2) == 1 {
		zzFin13Len = 48
	}
	peerIsClient := zzsymChoice("peer_is_client", 2) == 1
	hrr := zzsymChoice("hrr", 2) == 1
	hasCert := zzsymChoice("peer_cert", 2) == 1
	hasCReq := zzsymChoice("certreq", 2) == 1

	suite := zzFin13Suite{}
	cfg := &dtlsconfig.HandshakeConfig{
		InsecureSkipVerify:    true,
		LocalSignatureSchemes: []signaturehash.Algorithm{{Hash: dtlshash.SHA256, Signature: signature.ECDSA}},
	}
	st := dtlsstate.NewState13(!peerIsClient)
	state := &st
	nsec := zzsymParam("NSEC")
	clientSecret := zzsymBytes("client_hs_traffic_secret", nsec)
	serverSecret := zzsymBytes("server_hs_traffic_secret", nsec)
	state.KeySchedule.HandshakeTraffic.Client = clientSecret
	state.KeySchedule.HandshakeTraffic.Server = serverSecret

	fl := &zzFin13Flow{nbody: zzsymParam("NBODY")}
	tr := NewTranscript()
	zzsymAssert(tr.selectHash(suite.HashFunc()) == nil, "harness/select_hash")
	add := func(m *zzFin13Msg) {
		err := appendParsedInboundHandshake(tr, m.isClient, suite, m.handshake(), m.dtls)
		zzsymAssert(err == nil, "harness/earlier_message_appended")
	}
	cv := &handshake.MessageCertificateVerify{HashAlgorithm: dtlshash.SHA256, SignatureAlgorithm: signature.ECDSA, Signature: []byte{1}}
	cert13 := func(name string) *handshake.MessageCertificate13 {
		return &handshake.MessageCertificate13{CertificateList: []handshake.CertificateEntry13{{CertificateData: zzsymBytes(name, 1)}}}
	}

	// ---- earlier messages, and the oracle transcript T written in parallel ----
	var want []byte
	if hrr {
		ch1 := fl.mk("ch1", handshake.TypeClientHello, true, &handshake.MessageClientHello{})
		hrrMsg := &handshake.MessageServerHello{}
		var hrrRandom [handshake.RandomLength]byte
		copy(hrrRandom[:], handshake.HelloRetryRequestRandom())
		hrrMsg.Random.UnmarshalFixed(hrrRandom)
		hr := fl.mk("hrr", handshake.TypeServerHello, false, hrrMsg)
		add(ch1)
		add(hr)
		// RFC 8446 4.4.1: Transcript-Hash(ClientHello1, HelloRetryRequest, ...) =
		//   Hash(message_hash || 00 00 Hash.length || Hash(ClientHello1) || HelloRetryRequest || ...)
		want = zzFin13Cat([]byte{254, 0, 0, byte(zzFin13Len)}, zzFin13H(ch1.tls), hr.tls)
	}
	ch := fl.mk("ch", handshake.TypeClientHello, true, &handshake.MessageClientHello{})
	sh := fl.mk("sh", handshake.TypeServerHello, false, &handshake.MessageServerHello{})
	add(ch)
	add(sh)
	want = zzFin13Cat(want, ch.tls, sh.tls)

	var items []dtlsflight.DecodedHandshakeCacheItem
	var flight []*zzFin13Msg
	var beforeCV []byte
	if peerIsClient {
		// the server's own flight is already in the transcript
		ee := fl.mk("ee", handshake.TypeEncryptedExtensions, false, &handshake.MessageEncryptedExtensions{})
		add(ee)
		want = zzFin13Cat(want, ee.tls)
		if hasCReq {
			cr := fl.mk("cr", handshake.TypeCertificateRequest, false, &handshake.MessageCertificateRequest13{})
			add(cr)
			want = zzFin13Cat(want, cr.tls)
		}
		sc := fl.mk("scert", handshake.TypeCertificate, false, &handshake.MessageCertificate13{})
		scv := fl.mk("scv", handshake.TypeCertificateVerify, false, cv)
		sfin := fl.mk("sfin", handshake.TypeFinished, false, &handshake.MessageFinished{})
		add(sc)
		add(scv)
		add(sfin)
		want = zzFin13Cat(want, sc.tls, scv.tls, sfin.tls)
		if hasCert {
			flight = append(flight, fl.mk("ccert", handshake.TypeCertificate, true, cert13("ccert_der")))
			want = zzFin13Cat(want, flight[0].tls)
			beforeCV = want
			flight = append(flight, fl.mk("ccv", handshake.TypeCertificateVerify, true, cv))
			want = zzFin13Cat(want, flight[1].tls)
		}
	} else {
		ee := fl.mk("ee", handshake.TypeEncryptedExtensions, false, &handshake.MessageEncryptedExtensions{})
		flight = append(flight, ee)
		want = zzFin13Cat(want, ee.tls)
		if hasCReq {
			cr := fl.mk("cr", handshake.TypeCertificateRequest, false, &handshake.MessageCertificateRequest13{})
			flight = append(flight, cr)
			want = zzFin13Cat(want, cr.tls)
		}
		if hasCert {
			sc := fl.mk("scert", handshake.TypeCertificate, false, cert13("scert_der"))
			flight = append(flight, sc)
			want = zzFin13Cat(want, sc.tls)
			beforeCV = want
			scv := fl.mk("scv", handshake.TypeCertificateVerify, false, cv)
			flight = append(flight, scv)
			want = zzFin13Cat(want, scv.tls)
		}
	}
	vdLen := zzFin13Len - zzsymChoice("verify_data_short", 2)
	verifyData := zzsymBytes("verify_data", vdLen)
	fin := fl.mkBody(handshake.TypeFinished, peerIsClient, verifyData, &handshake.MessageFinished{VerifyData: verifyData})
	flight = append(flight, fin)
	for _, m := range flight {
		items = append(items, m.item())
	}
	before := tr.Bytes()

	err := VerifyAndAppendProtectedHandshakeCacheItems(tr, state, cfg, suite, items)

	// ---- oracle: RFC 8446 4.4.4 ----
	peerSecret := serverSecret
	if peerIsClient {
		peerSecret = clientSecret
	}
	finishedKey := zzFin13EL(peerSecret, "finished", nil, zzFin13Len)
	wantVD := zzFin13HMAC(finishedKey, zzFin13H(want))

	// RFC 8446 4.4.3: content covered by CertificateVerify
	for _, signed := range zzFin13CVLog {
		ctx := "TLS 1.3, server CertificateVerify"
		if peerIsClient {
			ctx = "TLS 1.3, client CertificateVerify"
		}
		pad := make([]byte, 64)
		for i := range pad {
			pad[i] = 0x20
		}
		zzsymAssert(zzsymEqBytes(signed, zzFin13Cat(pad, []byte(ctx), []byte{0}, zzFin13H(beforeCV))), "fin13/certificate_verify_covers_transcript")
	}

	if err == nil {
		zzsymAssert(zzsymEqBytes(verifyData, wantVD), "fin13/finished_is_hmac_of_whole_transcript_under_peer_finished_key")
		zzsymAssert(zzsymEqBytes(tr.Bytes(), zzFin13Cat(want, fin.tls)), "fin13/transcript_committed_through_finished")
		if peerIsClient {
			zzsymCover("accepted_client_flight")
		} else {
			zzsymCover("accepted_server_flight")
		}
		if hrr {
			zzsymCover("after_hrr")
			if zzFin13Len == 48 {
				zzsymCover("sha384_after_hrr")
			}
		}
		if hasCert {
			zzsymCover("with_cert")
		} else {
			zzsymCover("without_cert")
		}
		if hasCReq {
			zzsymCover("with_certreq")
		}
		return
	}
	zzsymAssert(zzsymEqBytes(tr.Bytes(), before), "fin13/nothing_committed_on_failure")
	if err == dtlserrors.ErrVerifyDataMismatch {
		zzsymAssert(zzsymNot(zzsymEqBytes(verifyData, wantVD)), "fin13/rejects_only_wrong_verify_data")
		if vdLen == zzFin13Len {
			zzsymCover("rejected_verify_data")
		} else {
			zzsymCover("rejected_short")
		}
	}
}
