package handshakecrypto

//symgo:pkg github.com/pion/dtls/v3/internal/handshakecrypto
//symgo:stub (hash.Algorithm).Digest is an uninterpreted function of the algorithm and the message; the crypto.Signer is a recorder returning a fixed signature
//symgo:replace (github.com/pion/dtls/v3/pkg/crypto/hash.Algorithm).Digest zzDigest
//symgo:outside the signature primitives (Ed25519, ECDSA, RSA) and the digest functions themselves

import (
	"crypto"
	"crypto/ecdsa"
	"crypto/ed25519"
	"crypto/rsa"
	"io"

	"github.com/pion/dtls/v3/pkg/crypto/elliptic"
	"github.com/pion/dtls/v3/pkg/crypto/hash"
	"github.com/pion/dtls/v3/pkg/crypto/signature"
)

func zzDigest(a hash.Algorithm, b []byte) []byte {
	return zzsymUF("Digest", 32, []byte{byte(a >> 8), byte(a)}, b)
}

type zzSigner struct {
	pub    crypto.PublicKey
	signed [][]byte
	opts   []crypto.SignerOpts
}

func (s *zzSigner) Public() crypto.PublicKey { return s.pub }
func (s *zzSigner) Sign(_ io.Reader, digest []byte, opts crypto.SignerOpts) ([]byte, error) {
	s.signed = append(s.signed, append([]byte{}, digest...))
	s.opts = append(s.opts, opts)
	return []byte{0x51, 0x67}, nil
}

func zzRefSignedParams2(cr, sr, pub []byte, curve uint16) []byte {
	out := append([]byte{}, cr...)
	out = append(out, sr...)
	out = append(out, 3, byte(curve>>8), byte(curve), byte(len(pub)))
	return append(out, pub...)
}

// GenerateKeySignature hands the private key exactly the RFC 8422 section 5.4 content
// (client_random | server_random | 0x03 | curve | uint8 length | public key): as the message itself for an
// Ed25519 key, as Digest_hashAlgorithm(content) for ECDSA and RSA keys (RSA: PSS options exactly when the
// signature scheme is an RSA-PSS one, otherwise PKCS#1 v1.5 with the hash identifier); the signer's output is
// returned unchanged. GenerateCertificateVerify treats its input the same way. Inputs: every pair of 32-byte
// randoms, curve identifier, 32-byte public key, the hash algorithms SHA-256/384/512, recorder signers of the
// three key types, PSS and non-PSS schemes.
//
//symgo:entry covers=ed25519,ecdsa,rsa_pkcs1,rsa_pss
func zzT13SignedSKE() {
	cr := zzsymBytes("cr", 32)
	sr := zzsymBytes("sr", 32)
	pub := zzsymBytes("pub", 32)
	curve := zzsymU16("curve")
	halg := []hash.Algorithm{hash.SHA256, hash.SHA384, hash.SHA512}[zzsymChoice("hash", 3)]
	kind := zzsymChoice("key", 4)
	signer := &zzSigner{}
	salg := signature.ECDSA
	switch kind {
	case 0:
		signer.pub = ed25519.PublicKey(make([]byte, 32))
		salg = signature.Ed25519
	case 1:
		signer.pub = &ecdsa.PublicKey{}
	case 2:
		signer.pub = &rsa.PublicKey{}
		salg = signature.RSA
	case 3:
		signer.pub = &rsa.PublicKey{}
		salg = signature.RSA_PSS_RSAE_SHA256
	}
	sig, err := GenerateKeySignature(cr, sr, pub, elliptic.Curve(curve), signer, halg, salg)
	zzsymAssert(err == nil, "sign_ok")
	zzsymAssert(zzsymEqBytes(sig, []byte{0x51, 0x67}), "signature_returned")
	zzsymAssert(len(signer.signed) == 1, "signed_once")
	want := zzRefSignedParams2(cr, sr, pub, curve)
	if kind == 0 {
		zzsymAssert(zzsymEqBytes(signer.signed[0], want), "ed25519_signs_rfc_content")
		zzsymAssert(signer.opts[0].HashFunc() == crypto.Hash(0), "ed25519_unhashed")
		zzsymCover("ed25519")
	} else {
		zzsymAssert(zzsymEqBytes(signer.signed[0], zzDigest(halg, want)), "signs_digest_of_rfc_content")
		zzsymAssert(signer.opts[0].HashFunc() == halg.CryptoHash(), "hash_identifier")
		_, isPSS := signer.opts[0].(*rsa.PSSOptions)
		zzsymAssert(isPSS == (kind == 3), "pss_iff_pss_scheme")
		switch kind {
		case 1:
			zzsymCover("ecdsa")
		case 2:
			zzsymCover("rsa_pkcs1")
		case 3:
			zzsymCover("rsa_pss")
		}
	}

	// CertificateVerify path: same treatment of an arbitrary to-be-signed content
	body := zzsymBytes("body", 5)
	signer2 := &zzSigner{pub: signer.pub}
	sig2, err := GenerateCertificateVerify(body, signer2, halg, salg)
	zzsymAssert(err == nil, "cv_sign_ok")
	zzsymAssert(zzsymEqBytes(sig2, []byte{0x51, 0x67}), "cv_signature_returned")
	if kind == 0 {
		zzsymAssert(zzsymEqBytes(signer2.signed[0], body), "cv_ed25519_signs_content")
	} else {
		zzsymAssert(zzsymEqBytes(signer2.signed[0], zzDigest(halg, body)), "cv_signs_digest_of_content")
		_, isPSS := signer2.opts[0].(*rsa.PSSOptions)
		zzsymAssert(isPSS == (kind == 3), "cv_pss_iff_pss_scheme")
	}
}
