package dtlshandshake

//symgo:pkg github.com/pion/dtls/v3/internal/handshake
//symgo:outside how the transcript hash is obtained (it is an input here; see zzT13CertVerifySigned / zzT13PeerAuth for the transcript-driven path)

// RFC 8446 section 4.4.3: the content covered by the CertificateVerify signature is 64 bytes 0x20, the context
// string, a single 0 byte, and the transcript hash. RFC 9147 keeps the TLS 1.3 context strings.
func zzRefCVInput(isClient bool, th []byte) []byte {
	out := make([]byte, 0, 160)
	for i := 0; i < 64; i++ {
		out = append(out, 0x20)
	}
	ctx := "TLS 1.3, server CertificateVerify"
	if isClient {
		ctx = "TLS 1.3, client CertificateVerify"
	}
	out = append(out, ctx...)
	out = append(out, 0x00)
	return append(out, th...)
}

// certificateVerifyInput(isClient, transcriptHash) equals 64 x 0x20 | "TLS 1.3, server CertificateVerify" (or
// "... client ...") | 0x00 | transcriptHash (RFC 8446 section 4.4.3) for both roles and every transcript hash
// of 32 or 48 bytes (SHA-256, SHA-384); total length 98 + HashLen.
//
//symgo:entry covers=client,server
func zzT13CertVerifyInput() {
	isClient := zzsymChoice("client", 2) == 1
	th := zzsymBytes("th", 32+16*zzsymChoice("sha384", 2))
	got := certificateVerifyInput(isClient, th)
	zzsymAssert(len(got) == 64+33+1+len(th), "cv_input_len")
	zzsymAssert(zzsymEqBytes(got, zzRefCVInput(isClient, th)), "cv_input_matches_rfc")
	if isClient {
		zzsymCover("client")
	} else {
		zzsymCover("server")
	}
}

// Same claim as zzT13CertVerifyInput on an 8-byte stand-in for the transcript hash (the function does not look
// at the length), small enough for the witness inputs to be re-run against the native build.
//
//symgo:entry covers=client,server
func zzT13CertVerifyInputNative() {
	isClient := zzsymChoice("client", 2) == 1
	th := zzsymBytes("th", 8)
	got := certificateVerifyInput(isClient, th)
	zzsymAssert(zzsymEqBytes(got, zzRefCVInput(isClient, th)), "cv_input_matches_rfc")
	zzsymObserveBytes("cvinput", got)
	if isClient {
		zzsymCover("client")
	} else {
		zzsymCover("server")
	}
}
