package dtls

//symgo:pkg github.com/pion/dtls/v3
//symgo:param NPAY quick=1 thorough=6
//symgo:param NCID quick=2 thorough=4
//symgo:stub AEAD is an uninterpreted function AEAD(alg, key, nonce, aad, plaintext) of len(plaintext)+16 bytes; AES block = uninterpreted AES(key, block); ChaCha20 block = uninterpreted ChaCha20Block(key, counter bytes, nonce)
//symgo:stub the hash function is an uninterpreted function H of the bytes written (crypto/sha256.New, crypto/sha512.New384 replaced); HMAC and HKDF of the Go standard library run for real on top of it
//symgo:stub crypto/internal/fips140.RecordNonApproved replaced by a no-op
//symgo:replace crypto/internal/fips140.RecordNonApproved zzNop
//symgo:replace crypto/sha256.New zzNewHash32
//symgo:replace crypto/sha512.New384 zzNewHash48
//symgo:replace crypto/aes.NewCipher zzAESNewCipher
//symgo:replace crypto/cipher.NewGCM zzNewGCM
//symgo:replace golang.org/x/crypto/chacha20poly1305.New zzNewChaChaPoly
//symgo:replace golang.org/x/crypto/chacha20.NewUnauthenticatedCipher zzNewChaCha
//symgo:replace (*golang.org/x/crypto/chacha20.Cipher).SetCounter zzChaSetCounter
//symgo:replace (*golang.org/x/crypto/chacha20.Cipher).XORKeyStream zzChaXORKeyStream
//symgo:outside the primitives themselves; sequence-number allocation (C09); which secret is installed for which epoch (key schedule harnesses in tls13_secrets.go)

import (
	"crypto/cipher"
	"errors"
	"hash"

	"github.com/pion/dtls/v3/internal/ciphersuite"
	dtlsstate "github.com/pion/dtls/v3/internal/state"
	"github.com/pion/dtls/v3/pkg/protocol"
	"golang.org/x/crypto/chacha20"
)

func zzNop() {}

var zzErrFake = errors.New("zz: fake primitive refused")

type zzHash struct {
	size, block int
	buf         []byte
}

func (h *zzHash) Write(p []byte) (int, error) { h.buf = append(h.buf, p...); return len(p), nil }
func (h *zzHash) Sum(b []byte) []byte         { return append(b, zzH(h.size, h.buf)...) }
func (h *zzHash) Reset()                      { h.buf = nil }
func (h *zzHash) Size() int                   { return h.size }
func (h *zzHash) BlockSize() int              { return h.block }

func zzH(size int, data []byte) []byte { return zzsymUF("H", size, data) }

func zzNewHash32() hash.Hash { return &zzHash{size: 32, block: 64} }
func zzNewHash48() hash.Hash { return &zzHash{size: 48, block: 128} }

type zzBlock struct{ key []byte }

func (b *zzBlock) BlockSize() int          { return 16 }
func (b *zzBlock) Encrypt(dst, src []byte) { copy(dst[:16], zzAES(b.key, src[:16])) }
func (b *zzBlock) Decrypt(dst, src []byte) {
	panic("zz: AES decrypt is never used by record protection")
}

func zzAES(key, block []byte) []byte { return zzsymUF("AES", 16, key, block) }

func zzAESNewCipher(key []byte) (cipher.Block, error) {
	switch len(key) {
	case 16, 24, 32:
		return &zzBlock{key: append([]byte{}, key...)}, nil
	}
	return nil, zzErrFake
}

const (
	zzAlgAESGCM = 1
	zzAlgChaCha = 2
)

type zzAEAD struct {
	alg byte
	key []byte
}

func zzSealUF(alg byte, key, nonce, aad, pt []byte) []byte {
	return zzsymUF("AEAD", len(pt)+16, []byte{alg}, key, nonce, aad, pt)
}

func (a *zzAEAD) NonceSize() int { return 12 }
func (a *zzAEAD) Overhead() int  { return 16 }
func (a *zzAEAD) Seal(dst, nonce, pt, aad []byte) []byte {
	return append(dst, zzSealUF(a.alg, a.key, nonce, aad, pt)...)
}
func (a *zzAEAD) Open(dst, nonce, ct, aad []byte) ([]byte, error) { return nil, zzErrFake }

func zzNewGCM(b cipher.Block) (cipher.AEAD, error) {
	return &zzAEAD{alg: zzAlgAESGCM, key: b.(*zzBlock).key}, nil
}

func zzNewChaChaPoly(key []byte) (cipher.AEAD, error) {
	if len(key) != 32 {
		return nil, zzErrFake
	}
	return &zzAEAD{alg: zzAlgChaCha, key: append([]byte{}, key...)}, nil
}

var (
	zzChaKey, zzChaNonce []byte
	zzChaCounter         uint32
)

func zzChaBlock(key, counterBytes, nonce []byte) []byte {
	return zzsymUF("ChaCha20Block", 64, key, counterBytes, nonce)
}

func zzNewChaCha(key, nonce []byte) (*chacha20.Cipher, error) {
	if len(key) != 32 || len(nonce) != 12 {
		return nil, zzErrFake
	}
	zzChaKey = append([]byte{}, key...)
	zzChaNonce = append([]byte{}, nonce...)
	zzChaCounter = 0
	return &chacha20.Cipher{}, nil
}

func zzChaSetCounter(_ *chacha20.Cipher, c uint32) { zzChaCounter = c }

func zzChaXORKeyStream(_ *chacha20.Cipher, dst, src []byte) {
	for off := 0; off < len(src); off += 64 {
		c := zzChaCounter
		ks := zzChaBlock(zzChaKey, []byte{byte(c), byte(c >> 8), byte(c >> 16), byte(c >> 24)}, zzChaNonce)
		for i := 0; i < 64 && off+i < len(src); i++ {
			dst[off+i] = src[off+i] ^ ks[i]
		}
		zzChaCounter++
	}
}

// ---- reference written from the RFC text (RFC 2104, 5869, 8446 7.1/7.3/5.3, 9147 4, 4.2.3, 5.9) ----

func zzRefHMAC(size, block int, key, text []byte) []byte {
	if len(key) > block {
		key = zzH(size, key)
	}
	ipad := make([]byte, block)
	opad := make([]byte, block)
	for i := 0; i < block; i++ {
		var k byte
		if i < len(key) {
			k = key[i]
		}
		ipad[i] = k ^ 0x36
		opad[i] = k ^ 0x5c
	}
	inner := zzH(size, append(ipad, text...))
	return zzH(size, append(opad, inner...))
}

func zzRefExpand(size, block int, prk, info []byte, length int) []byte {
	var okm, t []byte
	for i := 1; len(okm) < length; i++ {
		in := append(append(append([]byte{}, t...), info...), byte(i))
		t = zzRefHMAC(size, block, prk, in)
		okm = append(okm, t...)
	}
	return okm[:length]
}

func zzRefExpandLabel(size, block int, secret []byte, label string, context []byte, length int) []byte {
	full := "dtls13" + label
	info := []byte{byte(length >> 8), byte(length), byte(len(full))}
	info = append(info, full...)
	info = append(info, byte(len(context)))
	info = append(info, context...)
	return zzRefExpand(size, block, secret, info, length)
}

// zzRefRecord13 is the whole DTLSCiphertext a key-log holder computes from the traffic secret.
func zzRefRecord13(alg byte, keyLen, size, block int, secret, cid []byte, epoch uint16, seq uint64, ct byte, content []byte) []byte {
	key := zzRefExpandLabel(size, block, secret, "key", nil, keyLen)
	iv := zzRefExpandLabel(size, block, secret, "iv", nil, 12)
	sn := zzRefExpandLabel(size, block, secret, "sn", nil, keyLen)
	nonce := append([]byte{}, iv...)
	for i := 0; i < 8; i++ {
		nonce[4+i] ^= byte(seq >> (56 - 8*uint(i)))
	}
	inner := append(append([]byte{}, content...), ct)
	encLen := len(inner) + 16
	first := byte(0x2c) | byte(epoch&3) // 0 0 1 C S=1 L=1 E E
	if len(cid) > 0 {
		first |= 0x10
	}
	hdr := append([]byte{first}, cid...)
	aad := append(append([]byte{}, hdr...), byte(seq>>8), byte(seq), byte(encLen>>8), byte(encLen))
	enc := zzSealUF(alg, key, nonce, aad, inner)
	var mask []byte
	if alg == zzAlgAESGCM {
		mask = zzAES(sn, enc[0:16])
	} else {
		mask = zzChaBlock(sn, enc[0:4], enc[4:16])
	}
	wire := append(append([]byte{}, hdr...), byte(seq>>8)^mask[0], byte(seq)^mask[1], byte(encLen>>8), byte(encLen))
	return append(wire, enc...)
}

// Conn.sealRecordContent (the DTLS 1.3 record writer) emits, for the write generation installed for the epoch by
// suite.NewRecordProtection(traffic secret), exactly the DTLSCiphertext a passive decoder holding that traffic
// secret computes from RFC 9147: keys key/iv/sn = HKDF-Expand-Label(secret, ..), unified header 001C11EE with
// the negotiated send CID (C set exactly when a CID is in use), 16-bit sequence number, 16-bit length;
// AEAD over content | type with nonce iv XOR seq and the clear header as additional data; sequence bytes XORed
// with the AES-ECB / ChaCha20 mask of the first 16 ciphertext bytes. Inputs: the three DTLS 1.3 suites, every
// traffic secret, epoch, 48-bit sequence number, content type, send CID of 0..NCID bytes (or CID negotiated but
// not used for sending), content of 0..NPAY bytes.
//
//symgo:entry covers=aes128,aes256,chacha,cid,nocid,cid_negotiated_unused
func zzT13ConnSeal() {
	var suite ciphersuite.CipherSuiteTLS13
	var alg byte
	var keyLen, size, block int
	switch zzsymChoice("suite", 3) {
	case 0:
		suite, alg, keyLen, size, block = ciphersuite.NewTLSAes128GcmSha256(), zzAlgAESGCM, 16, 32, 64
		zzsymCover("aes128")
	case 1:
		suite, alg, keyLen, size, block = ciphersuite.NewTLSAes256GcmSha384(), zzAlgAESGCM, 32, 48, 128
		zzsymCover("aes256")
	default:
		suite, alg, keyLen, size, block = ciphersuite.NewTLSChacha20Poly1305Sha256(), zzAlgChaCha, 32, 32, 64
		zzsymCover("chacha")
	}
	secret := zzsymBytes("secret", size)
	epoch := zzsymU16("epoch")
	seq := zzsymU64("seq")
	zzsymAssume(seq < 1<<48)
	ct := zzsymU8("ct")
	content := zzsymBytes("content", zzsymChoice("len", zzsymParam("NPAY")+1))

	prot, err := suite.NewRecordProtection(secret)
	zzsymAssert(err == nil, "new_record_protection_ok")
	st := &dtlsstate.State13{Common: &dtlsstate.Common{}}
	st.CipherSuite = suite
	st.TrafficKeys = &dtlsstate.TrafficKeyState{}
	st.TrafficKeys.Install(&dtlsstate.TrafficGeneration{Epoch: epoch, Secret: secret, Protection: prot}, nil)
	var cid []byte
	ncid := zzsymChoice("cidlen", zzsymParam("NCID")+2)
	switch {
	case ncid == zzsymParam("NCID")+1:
		// CID extension negotiated, but the peer asked for an empty CID: records carry none
		st.CID.Negotiated = true
		st.CID.Send.UseCID = false
		st.CID.Send.Active = zzsymBytes("stale", 2)
		zzsymCover("cid_negotiated_unused")
	case ncid > 0:
		cid = zzsymBytes("cid", ncid)
		st.CID.Negotiated = true
		st.CID.Send.UseCID = true
		st.CID.Send.Active = cid
		zzsymCover("cid")
	default:
		zzsymCover("nocid")
	}
	c := &Conn{state: st}

	got, err := c.sealRecordContent(epoch, seq, protocol.ContentType(ct), content)
	zzsymAssert(err == nil, "seal_ok")
	want := zzRefRecord13(alg, keyLen, size, block, secret, cid, epoch, seq, ct, content)
	zzsymAssert(zzsymEqBytes(got, want), "conn_record_matches_rfc")
}
