package ciphersuite

//symgo:pkg github.com/pion/dtls/v3/pkg/crypto/ciphersuite
//symgo:param NPAY quick=3 thorough=8
//symgo:param NCID quick=2 thorough=8
//symgo:param NCBCLEN quick=4 thorough=8
//symgo:param NZEROS quick=2 thorough=3
//symgo:param NVER quick=1 thorough=2
//symgo:replace crypto/hmac.New zzT12HmacNew
//symgo:replace crypto/aes.NewCipher zzT12AESNewCipher
//symgo:replace crypto/cipher.NewGCM zzT12NewGCM
//symgo:replace github.com/pion/dtls/v3/pkg/crypto/ccm.NewCCM zzT12NewCCM
//symgo:replace golang.org/x/crypto/chacha20poly1305.New zzT12NewChaCha
//symgo:replace crypto/cipher.NewCBCEncrypter zzT12NewCBCEncrypter
//symgo:replace crypto/cipher.NewCBCDecrypter zzT12NewCBCDecrypter
//symgo:replace crypto/rand.Read zzT12RandRead
//symgo:stub AEAD primitives (AES-GCM, AES-CCM with 16/8-byte tag, ChaCha20-Poly1305) are an abstract AEAD: ciphertext = plaintext xor KS_alg(key, nonce), tag = TAG_alg(key, nonce, aad, ciphertext) with KS and TAG uninterpreted functions; Open recomputes the tag and inverts the xor. Every Seal/Open call is also logged (key, nonce, aad).
//symgo:stub CBC mode is a recorder with identity transformation (logs key and the IV in force at CryptBlocks); HMAC is the uninterpreted hmac_<hash>(key, message) and logs key and the complete message; crypto/rand.Read returns fresh symbolic bytes (the per-record explicit IV)
//symgo:assume record sequence numbers are at most 2^48-1: recordlayer.Header.Marshal refuses larger values and C09 shows the allocator never hands one out, so the 48-bit truncation in nonce and additional data never drops bits
//symgo:outside the AEAD, block cipher, HMAC and hash primitives themselves (including pkg/crypto/ccm B0/counter formatting)
//symgo:outside records of content type change_cipher_spec handed to Decrypt (passed through unauthenticated by design of the code; authenticity is another property)
//symgo:outside CBC records whose decrypted padding is inconsistent with the record length (non-conforming peers): the read-direction entries build the record from the RFC 5246 construction with the sender's freedoms (IV, content, MAC bytes, minimal or one extra block of padding)

import (
	"crypto/aes"
	"crypto/cipher"
	"errors"
	"hash"

	"github.com/pion/dtls/v3/pkg/crypto/ccm"
	"github.com/pion/dtls/v3/pkg/protocol"
	"github.com/pion/dtls/v3/pkg/protocol/recordlayer"
)

// ---------------------------------------------------------------------------------------------
// abstract primitives (shared by the stubs and by the reference; the layout around them is not shared)
// ---------------------------------------------------------------------------------------------

func zzT12Xor(a, b []byte) []byte {
	out := make([]byte, len(a))
	for i := range a {
		out[i] = a[i] ^ b[i]
	}
	return out
}

func zzT12KS(alg string, key, nonce []byte, n int) []byte {
	if n == 0 {
		return nil
	}
	return zzsymUF("aead_ks_"+alg, n, key, nonce)
}

func zzT12Tag(alg string, tagLen int, key, nonce, aad, ct []byte) []byte {
	return zzsymUF("aead_tag_"+alg, tagLen, key, nonce, aad, ct)
}

// zzT12Seal is the abstract AEAD encryption: (plaintext xor KS) || TAG.
func zzT12Seal(alg string, tagLen int, key, nonce, pt, aad []byte) []byte {
	ct := zzT12Xor(pt, zzT12KS(alg, key, nonce, len(pt)))
	return append(ct, zzT12Tag(alg, tagLen, key, nonce, aad, ct)...)
}

// zzT12Op is one logged primitive invocation.
type zzT12Op struct {
	kind  string // "seal", "open", "hmac", "cbc_enc", "cbc_dec"
	alg   string
	key   []byte
	nonce []byte // AEAD nonce or CBC IV
	aad   []byte // AEAD additional data or complete HMAC input
	out   []byte // HMAC output
}

var zzT12Log []zzT12Op

func zzT12Find(kind string) []zzT12Op {
	var out []zzT12Op
	for _, op := range zzT12Log {
		if op.kind == kind {
			out = append(out, op)
		}
	}
	return out
}

func zzT12Clone(b []byte) []byte { return append([]byte{}, b...) }

type zzT12AEAD struct {
	alg    string
	key    []byte
	tagLen int
}

func (a *zzT12AEAD) NonceSize() int { return 12 }
func (a *zzT12AEAD) Overhead() int  { return a.tagLen }
func (a *zzT12AEAD) MaxLength() int { return 1 << 16 }
func (a *zzT12AEAD) Seal(dst, nonce, plaintext, additionalData []byte) []byte {
	zzT12Log = append(zzT12Log, zzT12Op{kind: "seal", alg: a.alg, key: a.key, nonce: zzT12Clone(nonce), aad: zzT12Clone(additionalData)})
	return append(dst, zzT12Seal(a.alg, a.tagLen, a.key, nonce, plaintext, additionalData)...)
}
func (a *zzT12AEAD) Open(dst, nonce, ciphertext, additionalData []byte) ([]byte, error) {
	zzT12Log = append(zzT12Log, zzT12Op{kind: "open", alg: a.alg, key: a.key, nonce: zzT12Clone(nonce), aad: zzT12Clone(additionalData)})
	if len(ciphertext) < a.tagLen {
		return nil, errors.New("zz: message authentication failed (short)")
	}
	n := len(ciphertext) - a.tagLen
	ct, tag := zzT12Clone(ciphertext[:n]), zzT12Clone(ciphertext[n:])
	if !zzsymEqBytes(tag, zzT12Tag(a.alg, a.tagLen, a.key, nonce, additionalData, ct)) {
		return nil, errors.New("zz: message authentication failed")
	}
	return append(dst, zzT12Xor(ct, zzT12KS(a.alg, a.key, nonce, n))...), nil
}

type zzT12Block struct{ key []byte }

func (b *zzT12Block) BlockSize() int          { return 16 }
func (b *zzT12Block) Encrypt(dst, src []byte) { copy(dst, zzsymUF("aes_enc", 16, b.key, src[:16])) }
func (b *zzT12Block) Decrypt(dst, src []byte) { copy(dst, zzsymUF("aes_dec", 16, b.key, src[:16])) }

func zzT12AESNewCipher(key []byte) (cipher.Block, error) {
	switch len(key) {
	case 16, 24, 32:
		return &zzT12Block{key: zzT12Clone(key)}, nil
	}
	return nil, aes.KeySizeError(len(key))
}

func zzT12NewGCM(b cipher.Block) (cipher.AEAD, error) {
	return &zzT12AEAD{alg: "aes-gcm", key: b.(*zzT12Block).key, tagLen: 16}, nil
}

func zzT12NewCCM(b cipher.Block, tagsize, noncesize int) (ccm.CCM, error) {
	if noncesize != 12 {
		return nil, errors.New("zz: RFC 6655 fixes the CCM nonce at 12 bytes")
	}
	alg := "aes-ccm"
	if tagsize == 8 {
		alg = "aes-ccm-8"
	}
	return &zzT12AEAD{alg: alg, key: b.(*zzT12Block).key, tagLen: tagsize}, nil
}

func zzT12NewChaCha(key []byte) (cipher.AEAD, error) {
	if len(key) != 32 {
		return nil, errors.New("chacha20poly1305: bad key length")
	}
	return &zzT12AEAD{alg: "chacha20-poly1305", key: zzT12Clone(key), tagLen: 16}, nil
}

// zzT12CBC is a recording CBC mode with identity transformation.
type zzT12CBC struct {
	kind string
	key  []byte
	iv   []byte
}

func (c *zzT12CBC) BlockSize() int  { return 16 }
func (c *zzT12CBC) SetIV(iv []byte) { c.iv = zzT12Clone(iv) }
func (c *zzT12CBC) CryptBlocks(dst, src []byte) {
	zzT12Log = append(zzT12Log, zzT12Op{kind: c.kind, alg: "aes-cbc", key: c.key, nonce: c.iv, aad: zzT12Clone(src)})
	copy(dst, src)
}

func zzT12NewCBCEncrypter(b cipher.Block, iv []byte) cipher.BlockMode {
	return &zzT12CBC{kind: "cbc_enc", key: b.(*zzT12Block).key, iv: zzT12Clone(iv)}
}

func zzT12NewCBCDecrypter(b cipher.Block, iv []byte) cipher.BlockMode {
	return &zzT12CBC{kind: "cbc_dec", key: b.(*zzT12Block).key, iv: zzT12Clone(iv)}
}

var zzT12LastRand []byte

func zzT12RandRead(b []byte) (int, error) {
	zzT12LastRand = zzsymBytes("record_iv", len(b))
	copy(b, zzT12LastRand)
	return len(b), nil
}

type zzT12Hash struct {
	name string
	size int
	buf  []byte
}

func (h *zzT12Hash) Write(p []byte) (int, error) {
	h.buf = append(h.buf, p...)
	return len(p), nil
}
func (h *zzT12Hash) Sum(b []byte) []byte {
	return append(b, zzsymUF("hash_"+h.name, h.size, h.buf)...)
}
func (h *zzT12Hash) Reset()         { h.buf = nil }
func (h *zzT12Hash) Size() int      { return h.size }
func (h *zzT12Hash) BlockSize() int { return 64 }

type zzT12Hmac struct {
	name string
	size int
	key  []byte
	buf  []byte
}

func (h *zzT12Hmac) Write(p []byte) (int, error) {
	h.buf = append(h.buf, p...)
	return len(p), nil
}
func (h *zzT12Hmac) Sum(b []byte) []byte {
	out := zzsymUF("hmac_"+h.name, h.size, h.key, h.buf)
	zzT12Log = append(zzT12Log, zzT12Op{kind: "hmac", alg: h.name, key: h.key, aad: zzT12Clone(h.buf), out: out})
	return append(b, out...)
}
func (h *zzT12Hmac) Reset()         { h.buf = nil }
func (h *zzT12Hmac) Size() int      { return h.size }
func (h *zzT12Hmac) BlockSize() int { return 64 }

func zzT12HmacNew(h func() hash.Hash, key []byte) hash.Hash {
	inner := h().(*zzT12Hash)
	return &zzT12Hmac{name: inner.name, size: inner.size, key: zzT12Clone(key)}
}

// ---------------------------------------------------------------------------------------------
// reference layouts, written from the RFC text
// ---------------------------------------------------------------------------------------------

func zzT12Cat(parts ...[]byte) []byte {
	out := []byte{}
	for _, p := range parts {
		out = append(out, p...)
	}
	return out
}

func zzT12U16(v uint16) []byte { return []byte{byte(v >> 8), byte(v)} }

func zzT12U48(v uint64) []byte {
	return []byte{byte(v >> 40), byte(v >> 32), byte(v >> 24), byte(v >> 16), byte(v >> 8), byte(v)}
}

// zzT12Rec is the symbolic record header under test.
type zzT12Rec struct {
	ctype      uint8
	major      uint8
	minor      uint8
	epoch      uint16
	seq        uint64 // < 2^48
	cid        []byte // nil: RFC 6347 header; non-empty: RFC 9146 tls12_cid header
}

// zzT12WireHeader: RFC 6347 4.1 DTLSCiphertext header type(1) version(2) epoch(2) sequence_number(6) length(2);
// RFC 9146 section 4 inserts the cid between sequence_number and length (and type is tls12_cid).
func zzT12WireHeader(r zzT12Rec, length int) []byte {
	return zzT12Cat([]byte{r.ctype, r.major, r.minor}, zzT12U16(r.epoch), zzT12U48(r.seq), r.cid, zzT12U16(uint16(length)))
}

// zzT12AAD: without CID, RFC 5246 6.2.3.3 / RFC 6347 4.1.2.1: seq_num(epoch(2)+sequence_number(6)) + type + version + length.
// With CID, RFC 9146 5.3: seq_num_placeholder(8 x 0xff) + tls12_cid + cid_length + tls12_cid + version + epoch +
// sequence_number + cid + length_of_DTLSInnerPlaintext.
func zzT12AAD(r zzT12Rec, plainLen int) []byte {
	if len(r.cid) == 0 {
		return zzT12Cat(zzT12U16(r.epoch), zzT12U48(r.seq), []byte{r.ctype, r.major, r.minor}, zzT12U16(uint16(plainLen)))
	}
	return zzT12Cat([]byte{0xff, 0xff, 0xff, 0xff, 0xff, 0xff, 0xff, 0xff}, []byte{25, byte(len(r.cid)), 25, r.major, r.minor},
		zzT12U16(r.epoch), zzT12U48(r.seq), r.cid, zzT12U16(uint16(plainLen)))
}

// zzT12MACInput: without CID, RFC 5246 6.2.3.1 with the RFC 6347 4.1.2.1 sequence number:
// seq_num + type + version + length + fragment. With CID, RFC 9146 5.1: seq_num_placeholder + tls12_cid + cid_length +
// tls12_cid + version + epoch + sequence_number + cid + length_of_DTLSInnerPlaintext + content + real_type + zeros
// (content+real_type+zeros being the DTLSInnerPlaintext, i.e. the fragment, exactly once).
func zzT12MACInput(r zzT12Rec, fragment []byte) []byte {
	return zzT12Cat(zzT12AAD(r, len(fragment)), fragment)
}

type zzT12Cipher interface {
	Encrypt(pkt *recordlayer.RecordLayer, raw []byte) ([]byte, error)
	Decrypt(h recordlayer.Header, in []byte) ([]byte, error)
}

// zzT12Keys holds the symbolic traffic keys of both directions.
type zzT12Keys struct {
	localKey, localIV, remoteKey, remoteIV []byte
	localMAC, remoteMAC                    []byte
}

// zzT12NewAEADCipher builds the cipher under test through its real constructor. alg: 0 GCM, 1 CCM, 2 CCM-8, 3 ChaCha20-Poly1305.
func zzT12NewAEADCipher(alg int) (zzT12Cipher, zzT12Keys, string, int) {
	keyLen, ivLen := 16, 4
	if alg == 3 {
		keyLen, ivLen = 32, 12
	}
	k := zzT12Keys{
		localKey: zzsymBytes("local_key", keyLen), localIV: zzsymBytes("local_iv", ivLen),
		remoteKey: zzsymBytes("remote_key", keyLen), remoteIV: zzsymBytes("remote_iv", ivLen),
	}
	var c zzT12Cipher
	var err error
	name, tagLen := "", 16
	switch alg {
	case 0:
		c, err = NewGCM(k.localKey, k.localIV, k.remoteKey, k.remoteIV)
		name = "aes-gcm"
	case 1:
		c, err = NewCCM(CCMTagLength, k.localKey, k.localIV, k.remoteKey, k.remoteIV)
		name = "aes-ccm"
	case 2:
		c, err = NewCCM(CCMTagLength8, k.localKey, k.localIV, k.remoteKey, k.remoteIV)
		name, tagLen = "aes-ccm-8", 8
	default:
		c, err = NewChaCha20Poly1305(k.localKey, k.localIV, k.remoteKey, k.remoteIV)
		name = "chacha20-poly1305"
	}
	zzsymAssert(err == nil, "constructor_ok")
	return c, k, name, tagLen
}

// zzT12Nonce: RFC 5288 section 3 / RFC 6655 section 3: nonce = salt(4, from the key block) || nonce_explicit(8);
// RFC 7905 section 2: nonce = write_IV(12) xor (0^4 || 64-bit record sequence number), nothing explicit.
// In DTLS the 64-bit sequence number is epoch(2) || sequence_number(6) (RFC 6347 4.1.2.1; RFC 7905 section 2).
func zzT12Nonce(alg string, iv []byte, explicit []byte, r zzT12Rec) []byte {
	if alg == "chacha20-poly1305" {
		return zzT12Xor(iv, zzT12Cat([]byte{0, 0, 0, 0}, zzT12U16(r.epoch), zzT12U48(r.seq)))
	}
	return zzT12Cat(iv[:4], explicit)
}

// zzT12SymRec makes a record header with symbolic fields. forDecrypt restricts the version to the values the
// record-header decoder accepts (DTLS 1.2; in the thorough tier also DTLS 1.0) and excludes change_cipher_spec.
func zzT12SymRec(cidLen int, forDecrypt bool) zzT12Rec {
	r := zzT12Rec{ctype: zzsymU8("type"), major: zzsymU8("major"), minor: zzsymU8("minor"), epoch: zzsymU16("epoch"), seq: zzsymU64("seq")}
	zzsymAssume(r.seq <= 0x0000FFFFFFFFFFFF)
	if cidLen > 0 {
		r.ctype = 25
		r.cid = zzsymBytes("cid", cidLen)
	} else {
		zzsymAssume(r.ctype != 25)
	}
	if forDecrypt {
		r.major = 0xfe
		if zzsymChoice("version", zzsymParam("NVER")) == 0 {
			r.minor = 0xfd
		} else {
			r.minor = 0xff
		}
		zzsymAssume(r.ctype != 20)
	}
	return r
}

func zzT12Pkt(r zzT12Rec, payloadLen int) *recordlayer.RecordLayer {
	return &recordlayer.RecordLayer{Header: recordlayer.Header{
		ContentType:    protocol.ContentType(r.ctype),
		ContentLen:     uint16(payloadLen),
		Version:        protocol.Version{Major: r.major, Minor: r.minor},
		Epoch:          r.epoch,
		SequenceNumber: r.seq,
		ConnectionID:   r.cid,
	}}
}

// zzT12CheckAEADEncrypt is the write-direction check shared by aead_layout, chacha_layout and aead_cid_aad.
func zzT12CheckAEADEncrypt(alg int, cidLen int, pfx string) {
	c, k, name, tagLen := zzT12NewAEADCipher(alg)
	r := zzT12SymRec(cidLen, false)
	payload := zzsymBytes("payload", zzsymChoice("payloadlen", zzsymParam("NPAY")+1))
	raw := zzT12Cat(zzT12WireHeader(r, len(payload)), payload)
	hs := 13 + cidLen

	out, err := c.Encrypt(zzT12Pkt(r, len(payload)), zzT12Clone(raw))
	zzsymAssert(err == nil, pfx+"/encrypt_ok")

	var explicit []byte
	if name != "chacha20-poly1305" {
		explicit = zzT12Cat(zzT12U16(r.epoch), zzT12U48(r.seq))
	}
	nonce := zzT12Nonce(name, k.localIV, explicit, r)
	aad := zzT12AAD(r, len(payload))

	seals := zzT12Find("seal")
	zzsymAssert(len(seals) == 1 && len(zzT12Find("open")) == 0, pfx+"/one_seal")
	zzsymAssert(zzsymEqBytes(seals[0].key, k.localKey), pfx+"/write_key")
	zzsymAssert(zzsymEqBytes(seals[0].nonce, nonce), pfx+"/nonce")
	zzsymAssert(zzsymEqBytes(seals[0].aad, aad), pfx+"/additional_data")

	sealed := zzT12Seal(name, tagLen, k.localKey, nonce, payload, aad)
	want := zzT12Cat(zzT12WireHeader(r, len(explicit)+len(sealed)), explicit, sealed)
	zzsymAssert(len(out) == len(want), pfx+"/record_length")
	zzsymAssert(zzsymEqBytes(out[:hs-2], want[:hs-2]), pfx+"/header_preserved")
	zzsymAssert(zzsymEqBytes(out[hs-2:hs], want[hs-2:hs]), pfx+"/length_fixup")
	zzsymAssert(zzsymEqBytes(out[hs:hs+len(explicit)], explicit), pfx+"/explicit_nonce")
	zzsymAssert(zzsymEqBytes(out[hs+len(explicit):], sealed), pfx+"/ciphertext_and_tag")
}

// zzT12CheckAEADDecrypt is the read-direction check: an arbitrary record body (explicit nonce, ciphertext, tag all
// symbolic) is accepted iff its tag is the RFC tag, and then yields header || plaintext.
func zzT12CheckAEADDecrypt(alg int, cidLen int, pfx string) {
	c, k, name, tagLen := zzT12NewAEADCipher(alg)
	r := zzT12SymRec(cidLen, true)
	hs := 13 + cidLen
	var explicit []byte
	if name != "chacha20-poly1305" {
		explicit = zzsymBytes("explicit_nonce", 8) // the sender's choice (RFC 5288 section 3)
	}
	hdrArg := recordlayer.Header{}
	if cidLen > 0 {
		hdrArg.ConnectionID = make([]byte, cidLen)
	}

	if zzsymChoice("truncated", 2) == 1 {
		// explicit nonce present but fewer bytes than a tag: must be refused without panic
		body := zzT12Cat(explicit, zzsymBytes("short", zzsymChoice("shortlen", 2)*(tagLen-1)))
		in := zzT12Cat(zzT12WireHeader(r, len(body)), body)
		_, err := c.Decrypt(hdrArg, in)
		zzsymAssert(err != nil, pfx+"/truncated_refused")
		zzsymCover("truncated")
		return
	}

	ct := zzsymBytes("ciphertext", zzsymChoice("payloadlen", zzsymParam("NPAY")+1))
	tag := zzsymBytes("tag", tagLen)
	body := zzT12Cat(explicit, ct, tag)
	in := zzT12Cat(zzT12WireHeader(r, len(body)), body)

	nonce := zzT12Nonce(name, k.remoteIV, explicit, r)
	aad := zzT12AAD(r, len(ct))
	valid := zzsymEqBytes(tag, zzT12Tag(name, tagLen, k.remoteKey, nonce, aad, ct))

	out, err := c.Decrypt(hdrArg, zzT12Clone(in))

	opens := zzT12Find("open")
	zzsymAssert(len(opens) == 1 && len(zzT12Find("seal")) == 0, pfx+"/one_open")
	zzsymAssert(zzsymEqBytes(opens[0].key, k.remoteKey), pfx+"/read_key")
	zzsymAssert(zzsymEqBytes(opens[0].nonce, nonce), pfx+"/read_nonce")
	zzsymAssert(zzsymEqBytes(opens[0].aad, aad), pfx+"/read_additional_data")
	if err != nil {
		zzsymAssert(zzsymNot(valid), pfx+"/rejects_only_invalid_tag")
		zzsymCover("rejected")
		return
	}
	zzsymAssert(valid, pfx+"/accepts_only_rfc_tag")
	plain := zzT12Xor(ct, zzT12KS(name, k.remoteKey, nonce, len(ct)))
	zzsymAssert(len(out) == hs+len(ct), pfx+"/plaintext_length")
	zzsymAssert(zzsymEqBytes(out[:hs-2], in[:hs-2]), pfx+"/header_kept")
	zzsymAssert(zzsymEqBytes(out[hs:], plain), pfx+"/plaintext")
	zzsymCover("accepted")
}

// aead_layout (write): for AES-GCM, AES-CCM and AES-CCM-8, Encrypt turns header || payload into the RFC 5288 /
// RFC 6655 record of RFC 6347: header with length = 8 + len(payload) + tag, explicit nonce epoch(2)||seq(6),
// then AEAD(write_key, nonce = salt(4)||explicit, payload, AAD = epoch||seq||type||version||len(payload)).
// Inputs: symbolic keys and salts, symbolic type (not tls12_cid), version, epoch, 48-bit sequence number,
// payload of 0..NPAY symbolic bytes. AEAD abstract (uninterpreted keystream and tag).
//
//symgo:entry covers=gcm,ccm,ccm8
func zzT12AEADLayoutEncrypt() {
	alg := zzsymChoice("alg", 3)
	zzT12CheckAEADEncrypt(alg, 0, "aead_layout")
	zzsymCover([]string{"gcm", "ccm", "ccm8"}[alg])
}

// aead_layout (read): for AES-GCM, AES-CCM and AES-CCM-8, Decrypt of header || explicit_nonce(8) || ciphertext ||
// tag with all body bytes symbolic opens with read_key, nonce = salt(4) || explicit nonce from the wire and AAD =
// epoch||seq||type||version||len(ciphertext); it accepts exactly when the tag is the AEAD tag over these and then
// returns header || plaintext; a body shorter than nonce+tag is refused. Inputs as above, version 1.2 (thorough: also 1.0),
// type neither tls12_cid nor change_cipher_spec, ciphertext 0..NPAY bytes.
//
//symgo:entry covers=accepted,rejected,truncated,gcm,ccm,ccm8
func zzT12AEADLayoutDecrypt() {
	alg := zzsymChoice("alg", 3)
	zzsymCover([]string{"gcm", "ccm", "ccm8"}[alg])
	zzT12CheckAEADDecrypt(alg, 0, "aead_layout")
}

// chacha_layout (write): Encrypt with ChaCha20-Poly1305 produces the RFC 7905 record: header with length =
// len(payload)+16, no explicit nonce, AEAD(write_key, nonce = write_IV(12) xor (0^4||epoch||seq), payload,
// AAD = epoch||seq||type||version||len(payload)). Inputs: symbolic 32-byte key, 12-byte IV, header fields,
// payload of 0..NPAY bytes.
//
//symgo:entry covers=chacha_sealed
func zzT12ChaChaLayoutEncrypt() {
	zzT12CheckAEADEncrypt(3, 0, "chacha_layout")
	zzsymCover("chacha_sealed")
}

// chacha_layout (read): Decrypt of header || ciphertext || tag (all body bytes symbolic) opens with read_key,
// nonce = read_IV xor (0^4||epoch||seq) taken from the record header and the 13-byte AAD; accepts exactly the
// RFC 7905 tag and returns header || plaintext; a body shorter than a tag is refused.
//
//symgo:entry covers=accepted,rejected,truncated
func zzT12ChaChaLayoutDecrypt() {
	zzT12CheckAEADDecrypt(3, 0, "chacha_layout")
}

// aead_cid_aad (write): with a tls12_cid header carrying a connection ID of 1..NCID symbolic bytes, Encrypt for
// GCM, CCM, CCM-8 and ChaCha20-Poly1305 keeps nonce and record layout as without CID (cid between sequence
// number and length) and uses the RFC 9146 5.3 additional data seq_num_placeholder(8x0xff) || tls12_cid ||
// cid_length || tls12_cid || version || epoch || sequence_number || cid || length_of_DTLSInnerPlaintext.
//
//symgo:entry covers=gcm,ccm,ccm8,chacha
func zzT12AEADCIDEncrypt() {
	alg := zzsymChoice("alg", 4)
	cidLen := 1 + zzsymChoice("cidlen", zzsymParam("NCID"))
	zzT12CheckAEADEncrypt(alg, cidLen, "aead_cid_aad")
	zzsymCover([]string{"gcm", "ccm", "ccm8", "chacha"}[alg])
}

// aead_cid_aad (read): Decrypt of a tls12_cid record (cid of 1..NCID bytes, receiver told the cid length) with
// symbolic body accepts exactly the tag computed with the RFC 9146 5.3 additional data and returns header ||
// DTLSInnerPlaintext, for GCM, CCM, CCM-8 and ChaCha20-Poly1305.
//
//symgo:entry covers=accepted,rejected,truncated,gcm,ccm,ccm8,chacha
func zzT12AEADCIDDecrypt() {
	alg := zzsymChoice("alg", 4)
	cidLen := 1 + zzsymChoice("cidlen", zzsymParam("NCID"))
	zzsymCover([]string{"gcm", "ccm", "ccm8", "chacha"}[alg])
	zzT12CheckAEADDecrypt(alg, cidLen, "aead_cid_aad")
}

// ---------------------------------------------------------------------------------------------
// CBC
// ---------------------------------------------------------------------------------------------

// zzT12NewCBCCipher builds a CBC cipher through NewCBC with HMAC-SHA1 (20) or HMAC-SHA256 (32) shaped MACs.
func zzT12NewCBCCipher() (*CBC, zzT12Keys, string, int) {
	name, macLen := "sha1", 20
	if zzsymChoice("mac", 2) == 1 {
		name, macLen = "sha256", 32
	}
	k := zzT12Keys{
		localKey: zzsymBytes("local_key", 16), localIV: zzsymBytes("local_iv", 16), localMAC: zzsymBytes("local_mac_key", macLen),
		remoteKey: zzsymBytes("remote_key", 16), remoteIV: zzsymBytes("remote_iv", 16), remoteMAC: zzsymBytes("remote_mac_key", macLen),
	}
	hf := func() hash.Hash { return &zzT12Hash{name: name, size: macLen} }
	c, err := NewCBC(k.localKey, k.localIV, k.localMAC, k.remoteKey, k.remoteIV, k.remoteMAC, hf)
	zzsymAssert(err == nil, "constructor_ok")
	return c, k, name, macLen
}

// zzT12CBCPayloadLen picks a fragment length so that, with 20- and 32-byte MACs, padding runs of 1, 16 and
// in-between lengths and a block-boundary crossing are all exercised.
func zzT12CBCPayloadLen() int {
	lens := []int{0, 12, 11, 1, 13, 16, 27, 28}
	return lens[zzsymChoice("payloadlen", zzsymParam("NCBCLEN"))]
}

// zzT12Fragment returns the record fragment: arbitrary bytes without CID; with CID a DTLSInnerPlaintext
// content || real_type (non-zero) || zeros (RFC 9146 section 4).
func zzT12Fragment(withCID bool) []byte {
	n := zzT12CBCPayloadLen()
	if !withCID {
		return zzsymBytes("fragment", n)
	}
	realType := zzsymU8("real_type")
	zzsymAssume(realType != 0)
	zeros := zzsymChoice("zeros", zzsymParam("NZEROS")+1)
	return zzT12Cat(zzsymBytes("content", n), []byte{realType}, make([]byte, zeros))
}

// zzT12CheckCBCEncrypt is the write-direction check shared by cbc_layout and cbc_cid_mac.
func zzT12CheckCBCEncrypt(cidLen int, pfx string, macInputLabel string) {
	c, k, hname, macLen := zzT12NewCBCCipher()
	r := zzT12SymRec(cidLen, false)
	fragment := zzT12Fragment(cidLen > 0)
	raw := zzT12Cat(zzT12WireHeader(r, len(fragment)), fragment)
	hs := 13 + cidLen

	out, err := c.Encrypt(zzT12Pkt(r, len(fragment)), zzT12Clone(raw))
	zzsymAssert(err == nil, pfx+"/encrypt_ok")

	macs, encs := zzT12Find("hmac"), zzT12Find("cbc_enc")
	zzsymAssert(len(macs) == 1 && len(encs) == 1 && len(zzT12Find("cbc_dec")) == 0, pfx+"/one_mac_one_encryption")
	zzsymAssert(macs[0].alg == hname, pfx+"/mac_hash")
	zzsymAssert(zzsymEqBytes(macs[0].key, k.localMAC), pfx+"/write_mac_key")
	// GenericBlockCipher (RFC 5246 6.2.3.2): IV[16] || enc(content || MAC || padding || padding_length)
	zzsymAssert(len(out) >= hs+16 && (len(out)-hs)%16 == 0, pfx+"/whole_blocks")
	iv := out[hs : hs+16]
	zzsymAssert(len(zzT12LastRand) == 16 && zzsymEqBytes(iv, zzT12LastRand), pfx+"/explicit_iv_is_fresh_random")
	zzsymAssert(zzsymEqBytes(encs[0].key, k.localKey), pfx+"/write_key")
	zzsymAssert(zzsymEqBytes(encs[0].nonce, iv), pfx+"/encrypted_under_explicit_iv")
	plain := encs[0].aad // what went into the block cipher; the stub is the identity so it is also out[hs+16:]
	zzsymAssert(zzsymEqBytes(out[hs+16:], plain), pfx+"/ciphertext_follows_iv")
	zzsymAssert(len(plain) >= len(fragment)+macLen+1, pfx+"/room_for_mac_and_padding")
	padByte := plain[len(plain)-1]
	padLen := int(padByte) + 1 // padding plus the padding_length octet
	zzsymAssert(len(plain) == len(fragment)+macLen+padLen, pfx+"/padding_length_consistent")
	zzsymAssert(zzsymEqBytes(plain[:len(fragment)], fragment), pfx+"/content_first")
	zzsymAssert(zzsymEqBytes(plain[len(fragment):len(fragment)+macLen], macs[0].out), pfx+"/mac_after_content")
	for i := len(fragment) + macLen; i < len(plain); i++ {
		zzsymAssert(plain[i] == padByte, pfx+"/padding_bytes_equal_padding_length")
	}
	want := zzT12WireHeader(r, len(out)-hs)
	zzsymAssert(zzsymEqBytes(out[:hs-2], want[:hs-2]), pfx+"/header_preserved")
	zzsymAssert(zzsymEqBytes(out[hs-2:hs], want[hs-2:hs]), pfx+"/length_fixup")
	if padLen == 16 {
		zzsymCover("full_block_padding")
	} else {
		zzsymCover("partial_padding")
	}
	// the MAC is computed over exactly the RFC input (RFC 5246 6.2.3.1 resp. RFC 9146 5.1). Checked last so that
	// the layout claims above are established independently of it.
	zzsymAssert(zzsymEqBytes(macs[0].aad, zzT12MACInput(r, fragment)), macInputLabel)
}

// zzT12CheckCBCDecrypt is the read-direction check: a record built as RFC 5246 6.2.3.2 prescribes, with the
// sender's freedoms (explicit IV, fragment, minimal padding or one extra block of padding) and with symbolic MAC
// bytes, is accepted iff the MAC bytes are HMAC(read_mac_key, RFC MAC input), and then yields header || fragment.
func zzT12CheckCBCDecrypt(cidLen int, pfx string, macInputLabel string) {
	c, k, hname, macLen := zzT12NewCBCCipher()
	r := zzT12SymRec(cidLen, true)
	fragment := zzT12Fragment(cidLen > 0)
	hs := 13 + cidLen
	mac := zzsymBytes("mac", macLen)
	iv := zzsymBytes("iv", 16)
	padLen := 16 - (len(fragment)+macLen)%16 + 16*zzsymChoice("extra_padding_blocks", 2)
	padding := make([]byte, padLen)
	for i := range padding {
		padding[i] = byte(padLen - 1)
	}
	body := zzT12Cat(iv, fragment, mac, padding)
	in := zzT12Cat(zzT12WireHeader(r, len(body)), body)
	hdrArg := recordlayer.Header{}
	if cidLen > 0 {
		hdrArg.ConnectionID = make([]byte, cidLen)
	}

	out, err := c.Decrypt(hdrArg, zzT12Clone(in))

	macs, decs := zzT12Find("hmac"), zzT12Find("cbc_dec")
	zzsymAssert(len(macs) == 1 && len(decs) == 1 && len(zzT12Find("cbc_enc")) == 0, pfx+"/one_mac_one_decryption")
	zzsymAssert(zzsymEqBytes(decs[0].key, k.remoteKey), pfx+"/read_key")
	zzsymAssert(zzsymEqBytes(decs[0].nonce, iv), pfx+"/decrypted_under_explicit_iv")
	zzsymAssert(macs[0].alg == hname, pfx+"/read_mac_hash")
	zzsymAssert(zzsymEqBytes(macs[0].key, k.remoteMAC), pfx+"/read_mac_key")
	valid := zzsymEqBytes(mac, macs[0].out)
	// the MAC is verified over exactly the RFC input; checked last on every path so that the other claims are
	// established independently of it
	macInputOK := zzsymEqBytes(macs[0].aad, zzT12MACInput(r, fragment))
	if err != nil {
		zzsymAssert(zzsymNot(valid), pfx+"/rejects_only_bad_mac")
		zzsymCover("rejected")
		zzsymAssert(macInputOK, macInputLabel)
		return
	}
	zzsymAssert(valid, pfx+"/accepts_only_good_mac")
	zzsymAssert(len(out) == hs+len(fragment), pfx+"/plaintext_length")
	zzsymAssert(zzsymEqBytes(out[:hs-2], in[:hs-2]), pfx+"/header_kept")
	zzsymAssert(zzsymEqBytes(out[hs:], fragment), pfx+"/plaintext")
	zzsymCover("accepted")
	if padLen > 16 {
		zzsymCover("long_padding_accepted")
	}
	zzsymAssert(macInputOK, macInputLabel)
}

// cbc_layout (write): CBC.Encrypt builds the RFC 5246 6.2.3.2 GenericBlockCipher record of RFC 6347: the MAC is
// HMAC(write_mac_key, epoch||seq||type||version||len(fragment)||fragment) (MAC-then-encrypt); the block cipher
// input is fragment || MAC || padding where all padding bytes equal padding_length and the total is a whole number
// of blocks; the record carries a fresh random explicit IV, is encrypted under write_key with that IV, and the
// header length covers IV+ciphertext. Inputs: symbolic keys, HMAC-SHA1 or HMAC-SHA256 shape, symbolic type (not
// tls12_cid), version, epoch, 48-bit sequence number, fragment lengths from {0,12,11,1,13,16,27,28} (first NCBCLEN).
//
//symgo:entry covers=full_block_padding,partial_padding
func zzT12CBCLayoutEncrypt() {
	zzT12CheckCBCEncrypt(0, "cbc_layout", "cbc_layout/mac_input_rfc5246")
}

// cbc_layout (read): CBC.Decrypt of a record built per RFC 5246 6.2.3.2 (explicit IV, fragment, symbolic MAC bytes,
// minimal padding or one extra padding block) decrypts under read_key with the wire IV, computes
// HMAC(read_mac_key, epoch||seq||type||version||len(fragment)||fragment), accepts iff the MAC bytes equal it and
// then returns header || fragment.
//
//symgo:entry covers=accepted,rejected,long_padding_accepted
func zzT12CBCLayoutDecrypt() {
	zzT12CheckCBCDecrypt(0, "cbc_layout", "cbc_layout/mac_input_rfc5246")
}

// cbc_cid_mac (write): with a tls12_cid header (cid of 1..NCID bytes) and a DTLSInnerPlaintext fragment
// content || real_type || zeros, CBC.Encrypt must compute the RFC 9146 5.1 MAC, i.e. HMAC over
// seq_num_placeholder || tls12_cid || cid_length || tls12_cid || version || epoch || sequence_number || cid ||
// length_of_DTLSInnerPlaintext || content || real_type || zeros, each item exactly once (label
// cbc_cid_mac/rfc9146_input), and otherwise lay the record out as in cbc_layout.
//
//symgo:entry covers=full_block_padding,partial_padding
func zzT12CBCCIDMacEncrypt() {
	cidLen := 1 + zzsymChoice("cidlen", zzsymParam("NCID"))
	zzT12CheckCBCEncrypt(cidLen, "cbc_cid_mac", "cbc_cid_mac/rfc9146_input")
}

// cbc_cid_mac (read): CBC.Decrypt of a tls12_cid record built per RFC 9146 5.1 / RFC 5246 6.2.3.2 must verify the
// MAC over the RFC 9146 5.1 input (label cbc_cid_mac/rfc9146_input) and accept exactly the records carrying it.
//
//symgo:entry covers=accepted,rejected,long_padding_accepted
func zzT12CBCCIDMacDecrypt() {
	cidLen := 1 + zzsymChoice("cidlen", zzsymParam("NCID"))
	zzT12CheckCBCDecrypt(cidLen, "cbc_cid_mac", "cbc_cid_mac/rfc9146_input")
}
